#!/bin/sh
# Run once after a fresh restore, offline: regenerate Gen/*.lean from /repo and build the whole Lean package.
set -e
cd "$(dirname "$0")"
/venv/bin/python tools/pylean/gen.py "${NIVERIF_REPO:-/repo}" lean/NiVerif/Gen > /dev/null
cd lean
lake build NiVerif 2>&1 | tail -5
echo "setup done"
