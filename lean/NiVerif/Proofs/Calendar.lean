/-
  CPython's `_ord2ymd` inverts `_ymd2ord` and returns valid dates (helper proofs for C14 / C04).
-/
import NiVerif.Model.Calendar

namespace Proofs.Calendar
open Model.Calendar

/-- the month/day part of `_ord2ymd`, isolated: day-of-year index `n` (0-based) and leap flag -/
def monthDay (n : Int) (leap : Bool) : Int × Int :=
  let month := (n + 50) / 32
  let preceding := dbmTable month + b2i (decide (month > 2) && leap)
  if preceding > n then
    let month := month - 1
    let preceding := preceding - (dimTable month + b2i (decide (month = 2) && leap))
    (month, n - preceding + 1)
  else (month, n - preceding + 1)

def monthDayOk (n : Int) (leap : Bool) : Bool :=
  let r := monthDay n leap
  decide (1 ≤ r.1) && decide (r.1 ≤ 12) && decide (1 ≤ r.2)
    && decide (r.2 ≤ (if r.1 = 2 ∧ leap then 29 else dimTable r.1))
    && decide (dbmTable r.1 + b2i (decide (r.1 > 2) && leap) + r.2 = n + 1)

theorem monthDay_table : ∀ k : Fin 365, ∀ leap : Bool, monthDayOk (k.val : Int) leap = true := by
  decide +kernel

theorem monthDay_ok (n : Int) (leap : Bool) (h0 : 0 ≤ n) (h1 : n ≤ 364) : monthDayOk n leap = true := by
  have := monthDay_table ⟨n.toNat, by omega⟩ leap
  simpa [Int.toNat_of_nonneg h0] using this

theorem dby_decomp (n400 n100 n4 n1 : Int) (h400 : 0 ≤ n400) (h100 : 0 ≤ n100 ∧ n100 ≤ 3)
    (h4 : 0 ≤ n4 ∧ n4 ≤ 24) (h1 : 0 ≤ n1 ∧ n1 ≤ 3) :
    daysBeforeYear (n400 * 400 + 1 + (n100 * 100 + n4 * 4 + n1))
      = 146097 * n400 + 36524 * n100 + 1461 * n4 + 365 * n1 := by
  unfold daysBeforeYear
  simp only []
  omega

theorem leap_decomp (n400 n100 n4 n1 : Int) (h400 : 0 ≤ n400) (h100 : 0 ≤ n100 ∧ n100 ≤ 3)
    (h4 : 0 ≤ n4 ∧ n4 ≤ 24) (h1 : 0 ≤ n1 ∧ n1 ≤ 3) :
    isLeap (n400 * 400 + 1 + (n100 * 100 + n4 * 4 + n1))
      = (decide (n1 = 3) && (decide (n4 ≠ 24) || decide (n100 = 3))) := by
  unfold isLeap
  rw [Bool.eq_iff_iff]
  simp only [decide_eq_true_eq, Bool.and_eq_true, Bool.or_eq_true, ne_eq, decide_not, Bool.not_eq_true']
  simp only [decide_eq_false_iff_not]
  omega

/-- `_ord2ymd` in terms of the isolated month/day step -/
theorem ord2ymd_eq (ordinal : Int) :
    ord2ymd ordinal =
      (let n0 := ordinal - 1
       let n400 := n0 / 146097
       let r400 := n0 % 146097
       let n100 := r400 / 36524
       let r100 := r400 % 36524
       let n4 := r100 / 1461
       let r4 := r100 % 1461
       let n1 := r4 / 365
       let r1 := r4 % 365
       let year := n400 * 400 + 1 + (n100 * 100 + n4 * 4 + n1)
       if n1 = 4 ∨ n100 = 4 then (year - 1, 12, 31)
       else
         let md := monthDay r1 (decide (n1 = 3) && (decide (n4 ≠ 24) || decide (n100 = 3)))
         (year, md.1, md.2)) := by
  unfold ord2ymd monthDay
  simp only []
  split
  · rfl
  · split <;> rfl

theorem b2i_cases (b : Bool) : (b = true ∧ b2i b = 1) ∨ (b = false ∧ b2i b = 0) := by
  cases b <;> simp [b2i]

theorem isLeap_iff (y : Int) : isLeap y = true ↔ (y % 4 = 0 ∧ (y % 100 ≠ 0 ∨ y % 400 = 0)) := by
  unfold isLeap; simp

/-- a year has 365 days, 366 if it is a leap year -/
theorem dby_succ (y : Int) : daysBeforeYear (y + 1) = daysBeforeYear y + 365 + b2i (isLeap y) := by
  unfold daysBeforeYear
  simp only []
  rcases b2i_cases (isLeap y) with ⟨hl, hb⟩ | ⟨hl, hb⟩
  · rw [hb]; rw [isLeap_iff] at hl; omega
  · rw [hb]
    have : ¬ (y % 4 = 0 ∧ (y % 100 ≠ 0 ∨ y % 400 = 0)) := by
      intro h; rw [← isLeap_iff] at h; rw [hl] at h; cases h
    omega

/-- December 31st is the last day before the next year -/
theorem dec31 (y : Int) : ymd2ord y 12 31 = daysBeforeYear (y + 1) ∧ (31 : Int) ≤ daysInMonth y 12 := by
  rw [dby_succ]
  unfold ymd2ord daysBeforeMonth daysInMonth dbmTable dimTable
  simp only [show ((12 : Int) = 2) = False from by simp, false_and, if_false,
    show decide ((12:Int) > 2) = true from by decide, Bool.true_and]
  constructor
  · simp; omega
  · simp

/-- Every ordinal of years 1..9999 maps to a valid date whose ordinal it is. -/
theorem ord2ymd_spec (n : Int) (h1 : 1 ≤ n) (h2 : n ≤ MAX_ORDINAL) :
    validYmd (ord2ymd n).1 (ord2ymd n).2.1 (ord2ymd n).2.2
    ∧ ymd2ord (ord2ymd n).1 (ord2ymd n).2.1 (ord2ymd n).2.2 = n := by
  unfold MAX_ORDINAL at h2
  rw [ord2ymd_eq]
  simp only []
  generalize hn400 : (n - 1) / 146097 = n400
  generalize hr400 : (n - 1) % 146097 = r400
  generalize hn100 : r400 / 36524 = n100
  generalize hr100 : r400 % 36524 = r100
  generalize hn4 : r100 / 1461 = n4
  generalize hr4 : r100 % 1461 = r4
  generalize hn1 : r4 / 365 = n1
  generalize hr1 : r4 % 365 = r1
  have b400 : 0 ≤ n400 ∧ n400 ≤ 24 := by omega
  have b100 : 0 ≤ n100 ∧ n100 ≤ 4 := by omega
  have b4 : 0 ≤ n4 ∧ n4 ≤ 24 := by omega
  have b1 : 0 ≤ n1 ∧ n1 ≤ 4 := by omega
  have br1 : 0 ≤ r1 ∧ r1 ≤ 364 := by omega
  have hsum : n - 1 = 146097 * n400 + 36524 * n100 + 1461 * n4 + 365 * n1 + r1 := by omega
  by_cases hc : n1 = 4 ∨ n100 = 4
  · -- last day of a 4-year / 400-year cycle: December 31st of the previous year
    simp only [hc, if_true]
    have hr : r1 = 0 := by omega
    generalize hY : n400 * 400 + 1 + (n100 * 100 + n4 * 4 + n1) - 1 = Y
    have hd := dec31 Y
    have hdby : daysBeforeYear (Y + 1) = n := by
      unfold daysBeforeYear
      simp only []
      rw [show Y + 1 - 1 = Y from by omega]
      rcases hc with h | h
      · have : n4 ≤ 23 := by omega
        have : n100 ≤ 3 := by omega
        have q4 : Y / 4 = 100 * n400 + 25 * n100 + n4 + 1 := by omega
        have q100 : Y / 100 = 4 * n400 + n100 := by omega
        have q400 : Y / 400 = n400 := by omega
        rw [q4, q100, q400]; omega
      · have : n4 = 0 ∧ n1 = 0 := by omega
        have q4 : Y / 4 = 100 * n400 + 100 := by omega
        have q100 : Y / 100 = 4 * n400 + 4 := by omega
        have q400 : Y / 400 = n400 + 1 := by omega
        rw [q4, q100, q400]; omega
    refine ⟨⟨by omega, by omega, by omega, by omega, by omega, hd.2⟩, ?_⟩
    rw [hd.1, hdby]
  · simp only [hc, if_false]
    have c1 : n1 ≤ 3 := by omega
    have c100 : n100 ≤ 3 := by omega
    have hd := dby_decomp n400 n100 n4 n1 b400.1 ⟨b100.1, c100⟩ b4 ⟨b1.1, c1⟩
    have hl := leap_decomp n400 n100 n4 n1 b400.1 ⟨b100.1, c100⟩ b4 ⟨b1.1, c1⟩
    have hm := monthDay_ok r1 (decide (n1 = 3) && (decide (n4 ≠ 24) || decide (n100 = 3))) br1.1 br1.2
    generalize hmd : monthDay r1 (decide (n1 = 3) && (decide (n4 ≠ 24) || decide (n100 = 3))) = md at hm
    unfold monthDayOk at hm
    rw [hmd] at hm
    simp only [Bool.and_eq_true, decide_eq_true_eq] at hm
    obtain ⟨⟨⟨⟨m1, m12⟩, d1⟩, dmax⟩, hord⟩ := hm
    unfold validYmd ymd2ord daysInMonth daysBeforeMonth
    rw [hl, hd]
    refine ⟨⟨by omega, by omega, m1, m12, d1, ?_⟩, ?_⟩
    · simpa using dmax
    · omega

end Proofs.Calendar
