/-
  Core equations of the timedelta conversions (helper lemmas shared by Props/C03 and Props/C04):
  each conversion of the generated/hand model equals a closed integer expression.
-/
import NiVerif.Model.Conv
import NiVerif.Model.Mixed
import NiVerif.Proofs.Bits

namespace Proofs.Conv
open Gen.TimeDelta Model.Conv

abbrev T : Int := 18446744073709551616
abbrev M : Int := 1000000
abbrev Y : Int := 1000000000000000000000000

/-! ### bintime → datetime.timedelta : floor to the microsecond, or OverflowError -/

theorem bt_to_dt (t : Int) :
    dtOfBt t = if Py.dtTdInRange (t * M / T) then .ok (t * M / T) else .error .OverflowError := by
  have e : (t / T * 1000000 + 1000000 * (t % T) / T) = t * M / T := by unfold T M; omega
  unfold dtOfBt
  py_norm
  simp only [Py.dtTimedelta, Int.zero_mul, Int.zero_add]
  rw [show (t / 18446744073709551616 * 1000000 + 1000000 * (t % 18446744073709551616) / 18446744073709551616)
        = t * M / T from e]
  split <;> rfl

/-- the result differs from the exact value by strictly less than one microsecond (rounded down) -/
theorem bt_to_dt_floor (t us : Int) (h : dtOfBt t = .ok us) : 0 ≤ t * M - us * T ∧ t * M - us * T < T := by
  rw [bt_to_dt] at h; split at h
  · injection h with h; subst h; unfold T M; omega
  · cases h

theorem bt_to_dt_overflow_refused (t : Int) (h : ¬ Py.dtTdInRange (t * M / T)) :
    dtOfBt t = .error .OverflowError := by rw [bt_to_dt, if_neg h]

/-! ### datetime.timedelta → bintime : floor to the tick, never out of range -/

theorem dt_to_bt (us : Int) (h : Py.dtTdInRange us) : btOfDt us = .ok (us * T / M) := by
  unfold Py.dtTdInRange Py.MAX_DAYS Py.US_PER_DAY at h
  unfold btOfDt dtFields
  have e : to_ticks_dt (us / 86400000000) (us % 86400000000 / 1000000) (us % 1000000) = us * T / M := by
    py_norm
    unfold T M
    have h1 : us * 18446744073709551616
        = us % 1000000 * 18446744073709551616 + 1000000 * (us / 1000000 * 18446744073709551616) := by omega
    rw [h1, Int.add_mul_ediv_left _ _ (by decide)]
    omega
  simp only [e]
  py_norm
  unfold T M
  py_cases

theorem dt_to_bt_floor (us t : Int) (h : Py.dtTdInRange us) (ht : btOfDt us = .ok t) :
    0 ≤ us * T - t * M ∧ us * T - t * M < M := by
  rw [dt_to_bt us h] at ht; injection ht with ht; subst ht; unfold T M; omega

/-! ### bintime → hightime.timedelta : floor to the yoctosecond, or OverflowError -/

theorem bt_to_ht (t : Int) :
    htOfBt t = if Py.htTdInRange (t * Y / T) then .ok (t * Y / T) else .error .OverflowError := by
  have e : ((t / T * 1000000 * 1000000000 * 1000000000) + Y * (t % T) / T) = t * Y / T := by
    unfold T Y; omega
  unfold htOfBt
  py_norm
  simp only [Py.htTimedelta, Int.zero_mul, Int.zero_add, Int.add_zero]
  rw [show (t / 18446744073709551616 * 1000000 * 1000000000 * 1000000000 +
        1000000000000000000000000 * (t % 18446744073709551616) / 18446744073709551616) = t * Y / T from e]
  split <;> rfl

theorem bt_to_ht_floor (t ys : Int) (h : htOfBt t = .ok ys) : 0 ≤ t * Y - ys * T ∧ t * Y - ys * T < T := by
  rw [bt_to_ht] at h; split at h
  · injection h with h; subst h; unfold T Y; omega
  · cases h

/-! ### hightime.timedelta → bintime : nearest tick (ties to even) -/

/-- round-half-even division by Y is within half a unit, and exact ties go to the even neighbour -/
theorem rheY_bound (n : Int) :
    2 * (Py.roundHalfEvenDiv n Y * Y - n) ≤ Y ∧ -Y ≤ 2 * (Py.roundHalfEvenDiv n Y * Y - n) := by
  unfold Py.roundHalfEvenDiv Y
  simp only []
  split <;> (try split) <;> (try split) <;> omega

theorem ht_to_bt_nearest (ys : Int) : 2 * (btTicksOfHt ys * Y - ys * T) ≤ Y ∧ -Y ≤ 2 * (btTicksOfHt ys * Y - ys * T) := by
  unfold btTicksOfHt truncDiv
  simp only []
  split
  · have hb := rheY_bound ((ys - ys / 1000000000000000000000000 * 1000000000000000000000000) * 18446744073709551616)
    unfold T Y at *
    generalize Py.roundHalfEvenDiv _ _ = r at *
    omega
  · have hb := rheY_bound ((ys - -(-ys / 1000000000000000000000000) * 1000000000000000000000000) * 18446744073709551616)
    unfold T Y at *
    generalize Py.roundHalfEvenDiv _ _ = r at *
    omega

theorem ht_to_bt_in_range (ys : Int) (h : Py.htTdInRange ys) : btOfHt ys = .ok (btTicksOfHt ys) := by
  have hb := ht_to_bt_nearest ys
  unfold Py.htTdInRange Py.MAX_DAYS Py.YS_PER_DAY at h
  unfold T Y at hb
  unfold btOfHt
  py_norm
  generalize btTicksOfHt ys = b at *
  py_cases

/-- bintime → hightime → bintime is the identity -/
theorem bt_ht_bt (t ys : Int) (h : htOfBt t = .ok ys) : btTicksOfHt ys = t := by
  rw [bt_to_ht] at h; split at h
  · injection h with h; subst h
    have hb := ht_to_bt_nearest (t * Y / T)
    unfold T Y at *
    generalize btTicksOfHt _ = b at *
    omega
  · cases h


section Abs
open Model.Mixed
/-- bintime → hightime → bintime is the identity on absolute times -/
theorem btdt_ht_btdt (t q : Int) (h : htOfBtDt t = .ok q) : btDtOfHt q = .ok t := by
  unfold htOfBtDt at h
  cases hd : htOfBt t with
  | error e => rw [hd] at h; cases h
  | ok y =>
    rw [hd] at h; simp only [Proofs.bind_ok] at h
    split at h
    · injection h with h; subst h
      have hb := bt_ht_bt t y hd
      have hy : Py.htTdInRange y := by
        rw [bt_to_ht] at hd; split at hd
        · rename_i hr; injection hd with hd; subst hd; exact hr
        · cases hd
      unfold btDtOfHt
      have e : HT_EPOCH + y - HT_EPOCH = y := by omega
      rw [e, ht_to_bt_in_range y hy, hb]
    · cases h

end Abs

end Proofs.Conv
