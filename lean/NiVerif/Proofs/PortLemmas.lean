/-
  Helper lemmas for C06: the generated `while mask != 0` loop (translator tier T8, `Py.whileFuel`) against the model's `colLoop`.
-/
import NiVerif.Model.Port
import NiVerif.Proofs.Bits

namespace Proofs.Port
open Model.Port

theorem and_one_nat (m : Nat) : Py.and (m : Int) 1 = ((m % 2 : Nat) : Int) := by
  have := Py.and_mask (m : Int) 1
  simp at this
  rw [this]; omega

theorem shr_one_nat (m : Nat) : Py.shr (m : Int) 1 = ((m / 2 : Nat) : Int) := by
  rw [Proofs.shr_lit]; simp

/-- the whole loop state of the model's `colLoop` (columns so far, bit position, remaining mask) -/
def colLoopState (big : Bool) (w : Nat) : Nat → Nat → Nat → List Int → (Int × Int × List Int)
  | 0, m, pos, acc => ((pos : Int), (m : Int), acc)
  | f + 1, m, pos, acc =>
    if m = 0 then ((pos : Int), (m : Int), acc)
    else colLoopState big w f (m / 2) (pos + 1) (acc ++ (if m % 2 = 1 then [colOf big w pos] else []))

theorem colLoopState_fst (big : Bool) (w : Nat) : ∀ (f m pos : Nat) (acc : List Int),
    (colLoopState big w f m pos acc).2.2 = acc ++ colLoop big w f m pos := by
  intro f
  induction f with
  | zero => intro m pos acc; simp [colLoopState, colLoop]
  | succ f ih =>
    intro m pos acc
    unfold colLoopState colLoop
    by_cases hm : m = 0
    · simp [hm]
    · simp only [hm, if_false]; rw [ih, List.append_assoc]

/-- any loop whose test is `mask ≠ 0` and whose body appends the column of bit 0 (if set), advances the position and halves
    the mask computes the model's loop, whatever the loop looks like textually -/
theorem whileFuel_colLoop (big : Bool) (w : Nat) (cond : (Int × Int × List Int) → Bool) (step : (Int × Int × List Int) → (Int × Int × List Int))
    (f m pos : Nat) (acc : List Int)
    (hc : ∀ (acc : List Int) (pos m : Nat), cond ((pos : Int), (m : Int), acc) = decide (m ≠ 0))
    (hs : ∀ (acc : List Int) (pos m : Nat), step ((pos : Int), (m : Int), acc)
            = (((pos + 1 : Nat) : Int), ((m / 2 : Nat) : Int), acc ++ (if m % 2 = 1 then [colOf big w pos] else []))) :
      Py.whileFuel f cond step ((pos : Int), (m : Int), acc) = colLoopState big w f m pos acc := by
  induction f generalizing m pos acc with
  | zero => simp [Py.whileFuel, colLoopState]
  | succ f ih =>
    unfold Py.whileFuel colLoopState
    rw [hc]
    by_cases hm : m = 0
    · simp [hm]
    · simp only [hm, ne_eq, not_false_eq_true, decide_true, if_true, if_false]
      rw [hs, ih]

theorem whileFuel_colLoop0 (big : Bool) (w : Nat) (cond : (Int × Int × List Int) → Bool) (step : (Int × Int × List Int) → (Int × Int × List Int))
    (f m : Nat) (acc : List Int)
    (hc : ∀ (acc : List Int) (pos m : Nat), cond ((pos : Int), (m : Int), acc) = decide (m ≠ 0))
    (hs : ∀ (acc : List Int) (pos m : Nat), step ((pos : Int), (m : Int), acc)
            = (((pos + 1 : Nat) : Int), ((m / 2 : Nat) : Int), acc ++ (if m % 2 = 1 then [colOf big w pos] else []))) :
      Py.whileFuel f cond step ((0 : Int), (m : Int), acc) = colLoopState big w f m 0 acc :=
  whileFuel_colLoop big w cond step f m 0 acc hc hs

end Proofs.Port
