/-
  List lemmas about the buffer (`writeAt`, windows) and an unwinding tactic for the `do`-notation
  operations of Model/Wfm.lean.
-/
import NiVerif.Model.Wfm

namespace Proofs.Wfm
open Model.Wfm

theorem argUint_bind {β : Type} (x : Option Int) (d : Int) (f : Int → Except PyErr β) :
    Except.bind (argUint x d) f = if x.getD d < 0 then .error .ValueError else f (x.getD d) := by
  unfold argUint
  simp only
  split <;> rfl

/-- turn `op … = .ok w'` (an `Except` do-block) into its guard tree and split it; impossible
    branches (`error = ok`) are closed.  `arg_to_uint` results appear as `x.getD default`. -/
macro "unwind" h:ident : tactic =>
  `(tactic| (simp only [bind, argUint_bind] at $h:ident;
             simp only [Except.bind, pure, Except.pure, throw, throwThe, MonadExceptOf.throw] at $h:ident;
             repeat' (split at $h:ident);
             all_goals (first | (cases $h:ident; done) | skip)))

theorem bind_ok' {α β : Type} (r : Except PyErr α) (f : α → Except PyErr β) (v : β) (h : r.bind f = .ok v) :
    ∃ x, r = .ok x ∧ f x = .ok v := by
  cases r with
  | error e => cases h
  | ok x => exact ⟨x, rfl, h⟩

theorem window_ok (len : Int) (start count : Option Int) (g : Nat × Nat) (h : window len start count = .ok g) :
    (g.1 : Int) = start.getD 0 ∧ (g.2 : Int) = count.getD (len - start.getD 0) ∧ (g.1 : Int) + g.2 ≤ len := by
  unfold window at h
  unwind h
  injection h with h; subst h
  simp only; omega

theorem window_err (len : Int) (start count : Option Int) (e : PyErr) (h : window len start count = .error e) :
    e.base = .ValueError := by
  unfold window at h
  simp only [bind, argUint_bind] at h
  simp only [Except.bind, pure, Except.pure, throw, throwThe, MonadExceptOf.throw] at h
  repeat' (split at h)
  all_goals (first | (injection h with h; subst h; rfl) | (cases h; done))

theorem newGeom_ok (count start cap : Option Int) (g : Nat × Nat × Nat) (h : newGeom count start cap = .ok g) :
    (g.1 : Int) = start.getD 0 ∧ (g.2.1 : Int) = count.getD 0 ∧ (g.2.2 : Int) = cap.getD (count.getD 0) := by
  unfold newGeom at h
  unwind h
  injection h with h; subst h
  simp only; omega

theorem view_replicate (cap s n : Nat) (row : Row) (h : s + n ≤ cap) :
    ((List.replicate cap row).drop s).take n = List.replicate n row := by
  apply List.ext_getElem?
  intro i
  simp only [List.getElem?_take, List.getElem?_drop, List.getElem?_replicate]
  by_cases hi : i < n
  · simp [hi]; omega
  · simp [hi]

theorem writeAt_length (buf : List Row) (off : Nat) (rows : List Row) (h : off + rows.length ≤ buf.length) :
    (writeAt buf off rows).length = buf.length := by
  unfold writeAt; simp only [List.length_append, List.length_take, List.length_drop]; omega

theorem getElem?_writeAt (buf : List Row) (off : Nat) (rows : List Row) (i : Nat) (h : off + rows.length ≤ buf.length) :
    (writeAt buf off rows)[i]? = if i < off then buf[i]? else if i < off + rows.length then rows[i - off]? else buf[i]? := by
  unfold writeAt
  simp only [List.getElem?_append, List.length_take, List.getElem?_take, List.getElem?_drop, List.length_append]
  have : min off buf.length = off := by omega
  rw [this]
  by_cases h1 : i < off
  · simp [h1, show i < off + rows.length by omega]
  · by_cases h2 : i < off + rows.length
    · simp [h1, h2]
    · simp [h1, h2]
      congr 1; omega

theorem mem_writeAt (buf : List Row) (off : Nat) (rows : List Row) (r : Row) (h : r ∈ writeAt buf off rows) :
    r ∈ buf ∨ r ∈ rows := by
  unfold writeAt at h
  simp only [List.mem_append] at h
  rcases h with (h | h) | h
  · exact Or.inl (List.mem_of_mem_take h)
  · exact Or.inr h
  · exact Or.inl (List.mem_of_mem_drop h)

/-- appending at the end of the window: the window grows by exactly the appended rows -/
theorem view_append (buf : List Row) (start count : Nat) (rows : List Row) (h : start + count + rows.length ≤ buf.length) :
    ((writeAt buf (start + count) rows).drop start).take (count + rows.length) = ((buf.drop start).take count) ++ rows := by
  apply List.ext_getElem?
  intro i
  simp only [List.getElem?_take, List.getElem?_drop, List.getElem?_append, List.length_take, List.length_drop]
  rw [getElem?_writeAt _ _ _ _ h]
  have hm : min count (buf.length - start) = count := by omega
  rw [hm]
  by_cases h1 : i < count
  · simp [h1, show i < count + rows.length by omega, show start + i < start + count by omega]
  · by_cases h2 : i < count + rows.length
    · simp [h1, h2, show ¬ (start + i < start + count) by omega, show start + i < start + count + rows.length by omega]
      congr 1; omega
    · simp [h1, h2]
      omega

/-- writing at the front and taking exactly what was written -/
theorem view_load (buf : List Row) (rows : List Row) (h : rows.length ≤ buf.length) :
    ((writeAt buf 0 rows).drop 0).take rows.length = rows := by
  apply List.ext_getElem?
  intro i
  simp only [List.drop_zero, List.getElem?_take]
  rw [getElem?_writeAt _ _ _ _ (by omega)]
  by_cases h1 : i < rows.length
  · simp [h1]
  · simp [h1]

/-- growing the buffer at the end does not change the window -/
theorem view_grow (buf extra : List Row) (start count n : Nat) (h : start + count ≤ buf.length) (hn : buf.length ≤ n) :
    (((buf ++ extra).take n).drop start).take count = (buf.drop start).take count := by
  apply List.ext_getElem?
  intro i
  simp only [List.getElem?_take, List.getElem?_drop, List.getElem?_append]
  by_cases h1 : i < count
  · simp [h1, show start + i < n by omega, show start + i < buf.length by omega]
  · simp [h1]

/-- a single-row write inside the window updates exactly that sample -/
theorem view_write (buf : List Row) (start count j : Nat) (row : Row) (h : start + count ≤ buf.length) (hj : j < count) :
    ((writeAt buf (start + j) [row]).drop start).take count = ((buf.drop start).take count).set j row := by
  apply List.ext_getElem?
  intro i
  simp only [List.getElem?_take, List.getElem?_drop, List.getElem?_set, List.length_take, List.length_drop]
  rw [getElem?_writeAt _ _ _ _ (by simp; omega)]
  by_cases h1 : i < count
  · by_cases h2 : i = j
    · subst h2
      simp [h1, show i < min count (buf.length - start) by omega]
    · simp only [h1, if_true, List.length_cons, List.length_nil]
      by_cases h3 : i < j
      · simp [show start + i < start + j by omega, show ¬ (j = i) by omega, h1]
      · simp [show ¬ (start + i < start + j) by omega, show ¬ (start + i < start + j + (0 + 1)) by omega,
          show ¬ (j = i) by omega, h1]
  · simp [h1]; omega

end Proofs.Wfm
