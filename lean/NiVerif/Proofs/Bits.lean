/- Helper lemmas: literal-shift / mask normal forms used after unfolding generated definitions. -/
import NiVerif.Py.Int

namespace Proofs

theorem shr_lit (a : Int) (k : Nat) : Py.shr a (no_index (OfNat.ofNat k)) = a / (2 ^ k : Int) := by
  unfold Py.shr
  have : (((2 ^ (OfNat.ofNat k : Int).toNat : Nat)) : Int) = (2:Int) ^ k := by
    have : (OfNat.ofNat k : Int).toNat = k := rfl
    rw [this]; simp
  rw [this]
  exact Py.fdiv_pos_eq_ediv _ _ (Int.pow_pos (by decide))

theorem shl_lit (a : Int) (k : Nat) : Py.shl a (no_index (OfNat.ofNat k)) = a * (2 ^ k : Int) := by
  unfold Py.shl
  have : (OfNat.ofNat k : Int).toNat = k := rfl
  rw [this]; simp

theorem pow_lit (a : Int) (k : Nat) : Py.pow a (no_index (OfNat.ofNat k)) = a ^ k := by
  unfold Py.pow
  have : (OfNat.ofNat k : Int).toNat = k := rfl
  rw [this]

theorem and_mask64 (a : Int) : Py.and a 18446744073709551615 = a % 18446744073709551616 := by
  have := Py.and_mask a 64
  simpa using this

theorem or_shl64_low (w f : Int) (h0 : 0 ≤ f) (h1 : f < 18446744073709551616) :
    Py.or (w * 18446744073709551616) f = w * 18446744073709551616 + f := by
  have := Py.or_shl_low w 64 f h0 (by simpa using h1)
  simpa using this

theorem floorDiv_pos (a b : Int) (hb : 0 < b) : Py.floorDiv a b = a / b :=
  Py.fdiv_pos_eq_ediv a b hb

theorem mod_pos (a b : Int) (hb : 0 < b) : Py.mod a b = a % b :=
  Py.fmod_pos_eq_emod a b hb

@[simp] theorem bind_ok {α β} (v : α) (k : α → Except PyErr β) : Except.bind (.ok v) k = k v := rfl
@[simp] theorem bind_error {α β} (e : PyErr) (k : α → Except PyErr β) :
    Except.bind (.error e) k = .error e := rfl
theorem bind_ite {α β} (c : Prop) [Decidable c] (a b : Except PyErr α) (k : α → Except PyErr β) :
    Except.bind (if c then a else b) k = if c then Except.bind a k else Except.bind b k := by
  split <;> rfl

end Proofs

namespace Proofs
/-- `Py.floorDiv`/`Py.mod` by a positive literal are `/` and `%` -/
theorem floorDiv_pos' (a : Int) (n : Nat) [h : NeZero n] :
    Py.floorDiv a (no_index (OfNat.ofNat n)) = a / (OfNat.ofNat n : Int) :=
  Py.fdiv_pos_eq_ediv _ _ (by
    have : (OfNat.ofNat n : Int) = (n : Int) := rfl
    rw [this]; have := h.out; omega)
theorem mod_pos' (a : Int) (n : Nat) [h : NeZero n] :
    Py.mod a (no_index (OfNat.ofNat n)) = a % (OfNat.ofNat n : Int) :=
  Py.fmod_pos_eq_emod _ _ (by
    have : (OfNat.ofNat n : Int) = (n : Int) := rfl
    rw [this]; have := h.out; omega)
end Proofs

/-- Unfold generated definitions and bring literal shifts/masks/powers to numeral normal form. -/
macro "py_norm" loc:(Lean.Parser.Tactic.location)? : tactic =>
  `(tactic| simp only [pygen, Proofs.shr_lit, Proofs.shl_lit, Proofs.pow_lit,
      Int.reducePow, Int.reduceMul, Int.reduceSub, Int.reduceAdd, Int.reduceNeg, Int.reduceDiv, Int.reduceMod,
      Proofs.floorDiv_pos', Proofs.mod_pos',
      Proofs.and_mask64, Proofs.bind_ite, Proofs.bind_ok, Proofs.bind_error] $[$loc]?)

/-- Finish a goal that is a tree of `if`s over linear integer conditions. -/
macro "py_cases" : tactic =>
  `(tactic| (repeat' split) <;> first | rfl | omega | (simp_all <;> omega))

