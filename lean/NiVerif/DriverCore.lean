/-
  Line-protocol driver core: one request per line on stdin, one response line on stdout.
  A per-property driver (`drivers/Cxx.lean`) lists the handlers it needs, so a module that no
  longer translates only takes down the properties that depend on it.
-/
import NiVerif.Py.Render

namespace Driver

abbrev Handler := List String → Option String

def respond (hs : List Handler) (line : String) : String :=
  let toks := (line.trimAscii.toString.splitOn " ").filter (· ≠ "")
  (hs.findSome? (fun h => h toks)).getD "bad-op"

partial def loop (hs : List Handler) (h : IO.FS.Stream) (out : IO.FS.Stream) : IO Unit := do
  let line ← h.getLine
  if line.isEmpty then return ()
  out.putStrLn (respond hs line)
  loop hs h out

def run (hs : List Handler) : IO Unit := do
  let out ← IO.getStdout
  loop hs (← IO.getStdin) out
  out.flush

def parseInts (toks : List String) : Option (List Int) := toks.mapM (fun t => t.toInt?)

/-- Adapt a generated-module dispatcher (`name → ints → result`) to a handler for `gen <name> …`. -/
def genHandler (d : String → List Int → Option String) : Handler
  | "gen" :: name :: args =>
    match parseInts args with
    | some xs => d name xs
    | none => none
  | _ => none

end Driver

namespace Driver
/-- stateful variant: the handler threads a state through the lines (named objects of a history) -/
partial def loopS {σ : Type} (f : σ → List String → Option (σ × String)) (s : σ)
    (h : IO.FS.Stream) (out : IO.FS.Stream) : IO Unit := do
  let line ← h.getLine
  if line.isEmpty then return ()
  let toks := (line.trimAscii.toString.splitOn " ").filter (· ≠ "")
  match f s toks with
  | some (s', r) => out.putStrLn r; loopS f s' h out
  | none => out.putStrLn "bad-op"; loopS f s h out

def runS {σ : Type} (f : σ → List String → Option (σ × String)) (init : σ) : IO Unit := do
  let out ← IO.getStdout
  loopS f init (← IO.getStdin) out
  out.flush
end Driver
