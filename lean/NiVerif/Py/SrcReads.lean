/-
  Source-read discipline of the copying paths (prelude for translator tier T28).

  The methods that copy samples from a caller-supplied source into the buffer (`_append_array`, `_append_waveforms` /
  `_append_spectrums`, `_load_array`) may first grow the buffer, which can move it; a source that is a view of the buffer then
  refers to freed memory.  And a method that writes several sources one after the other must not read a source that an earlier
  write may have overwritten.  The translator reads each method as the list of events below; `safe` is the discipline:
    * a name is *stale* once the buffer was resized while the name was bound and not guarded
      (`if np.may_share_memory(x, self._data): x = x.copy()`, or the comprehension form of the same test);
    * every write `self._data[…] = x…` reads a name that is not stale;
    * a write inside a loop over several sources reads a name that was guarded unconditionally before the loop
      (a guard inside an `if …:` block protects against the resizes of that block only).
-/
namespace Py.SrcReads

inductive Ev where
  | bind (n : String)            -- a local (or a parameter at entry) bound to a view of a source
  | guard (n : String)           -- `n` is replaced by a private copy if it may share memory with the buffer
  | guardWeak (n : String)       -- the same test with further conditions attached in the test itself (copies only sometimes)
  | condBegin | condEnd          -- the statements between them run only under some condition (`if …:`)
  | resize                       -- `self.capacity = …` / `self._increase_capacity(…)`
  | write (n : String) (inLoop : Bool)
  deriving DecidableEq, Repr

/-- `cond`: guarded inside the conditional block that is still open (protects against the resizes of that block only) -/
inductive St where | raw | weak | cond | guarded
  deriving DecidableEq, Repr

structure Name where
  n : String
  st : St
  stale : Bool
  deriving DecidableEq, Repr

structure S where
  depth : Nat
  names : List Name
  deriving DecidableEq, Repr

def upd (env : List Name) (n : String) (f : Name → Name) : List Name :=
  if env.any (·.n == n) then env.map fun x => if x.n == n then f x else x else env ++ [f ⟨n, .raw, false⟩]

def step (s : S) : Ev → Option S
  | .bind n => some { s with names := upd s.names n fun _ => ⟨n, .raw, false⟩ }
  | .guard n => some { s with names := upd s.names n fun x => { x with st := if x.st = .guarded then .guarded else if s.depth = 0 then .guarded else .cond } }
  | .guardWeak n => some { s with names := upd s.names n fun x => { x with st := if x.st = .guarded then .guarded else .weak } }
  | .condBegin => some { s with depth := s.depth + 1 }
  | .condEnd => some ⟨s.depth - 1, s.names.map fun x => if x.st = .cond then { x with st := .weak } else x⟩
  | .resize => some { s with names := s.names.map fun x => if x.st = .guarded ∨ x.st = .cond then x else { x with stale := true } }
  | .write n inLoop =>
    match s.names.find? (·.n == n) with
    | none => none                                   -- a write from a name the translator never saw bound
    | some x => if x.stale ∨ (inLoop ∧ x.st ≠ .guarded) then none else some s

def run : S → List Ev → Option S
  | s, [] => some s
  | s, e :: es => (step s e).bind fun s' => run s' es

def safe (evs : List Ev) : Bool := (run ⟨0, []⟩ evs).isSome

/-- reading a source bound before a resize, without a guard in between, is refused - whatever the name and wherever the write is -/
theorem unguarded_read_after_resize_refused (n : String) (b : Bool) : safe [.bind n, .resize, .write n b] = false := by
  simp [safe, run, step, upd]

/-- a guard that copies only under further conditions does not license the writes of a loop over several sources -/
theorem weak_guard_in_loop_refused (n : String) : safe [.bind n, .guardWeak n, .write n true] = false := by
  simp [safe, run, step, upd]

/-- … and neither does a guard taken only on the branch that grows the buffer -/
theorem conditional_guard_in_loop_refused (n : String) : safe [.bind n, .condBegin, .guard n, .resize, .condEnd, .write n true] = false := by
  simp [safe, run, step, upd]

/-- a guard on the growing branch does protect the single write that follows the branch -/
theorem conditional_guard_single_write_safe (n : String) : safe [.bind n, .condBegin, .guard n, .resize, .condEnd, .write n false] = true := by
  simp [safe, run, step, upd]

/-- the guarded shapes are accepted: guard, then any number of resizes, then writes (also in a loop) -/
theorem guarded_read_safe (n : String) (b : Bool) : safe [.bind n, .guard n, .resize, .write n b, .write n b] = true := by
  simp [safe, run, step, upd]

/-- a guard placed AFTER the resize comes too late -/
theorem late_guard_refused (n : String) (b : Bool) : safe [.bind n, .resize, .guard n, .write n b] = false := by
  simp [safe, run, step, upd]

/-! ### general facts about the discipline (for arbitrary event lists) -/

/-- running a list of events is running its parts one after the other -/
theorem run_append (s : S) (pre post : List Ev) : run s (pre ++ post) = (run s pre).bind fun s' => run s' post := by
  induction pre generalizing s with
  | nil => simp [run]
  | cons e es ih =>
    simp only [List.cons_append, run]
    cases step s e with
    | none => simp
    | some s' => simp [ih]

/-- the discipline is prefix-closed: what is safe stays safe when cut short -/
theorem safe_prefix (pre post : List Ev) (h : safe (pre ++ post) = true) : safe pre = true := by
  unfold safe at *
  rw [run_append] at h
  cases hp : run ⟨0, []⟩ pre with
  | none => rw [hp] at h; simp at h
  | some s => simp

/-- exactly when a write is allowed: the name is known, not stale, and - inside a loop - guarded unconditionally -/
theorem write_ok_iff (s : S) (n : String) (b : Bool) :
    (step s (.write n b)).isSome = true ↔
      ∃ x, s.names.find? (·.n == n) = some x ∧ x.stale = false ∧ (b = true → x.st = .guarded) := by
  unfold step
  simp only
  generalize List.find? (fun x => x.n == n) s.names = r
  cases r with
  | none => simp
  | some x =>
    by_cases hs : x.stale = true
    · simp [hs]
    · by_cases hb : b = true
      · by_cases hg : x.st = .guarded <;> simp [hs, hb, hg]
      · simp [hs, hb]

/-- a resize makes every name stale that is neither guarded nor guarded inside the open conditional block - and no other -/
theorem resize_stales (s s' : S) (h : step s .resize = some s') :
    s'.depth = s.depth ∧ s'.names = s.names.map fun x => if x.st = .guarded ∨ x.st = .cond then x else { x with stale := true } := by
  unfold step at h
  injection h with h
  subst h
  exact ⟨rfl, rfl⟩

end Py.SrcReads
