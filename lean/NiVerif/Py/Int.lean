/-
  Python-semantics prelude for unbounded integers (hand-written, import-free, trusted base).

  Every definition here is differentially tested against CPython by `tools/prelude_test.py`
  (through the line-protocol driver).  The translator `tools/pylean` emits only these
  *generic* operators, so that a changed mask, shift count or divisor in /repo changes the
  generated term and the theorems have to go through again.
-/
namespace Py

/-- Python `a // b` for ints (b ≠ 0 is the caller's obligation; Python raises ZeroDivisionError). -/
def floorDiv (a b : Int) : Int := Int.fdiv a b
/-- Python `a % b` for ints. -/
def mod (a b : Int) : Int := Int.fmod a b

/-- Python `int.bit_length()` of a natural number. -/
def bitLen (n : Nat) : Nat := if n = 0 then 0 else n.log2 + 1

/-- `a & b` for `b ≥ 0` in two's complement: only the low `bitLen b` bits of `a` matter. -/
def andNonneg (a : Int) (b : Nat) : Int :=
  (((a % ((2 ^ bitLen b : Nat) : Int)).toNat &&& b : Nat) : Int)

/-- Python `a & b` on unbounded two's-complement ints. -/
def and (a b : Int) : Int :=
  if 0 ≤ b then andNonneg a b.toNat
  else if 0 ≤ a then andNonneg b a.toNat
  else -((((-a - 1).toNat ||| (-b - 1).toNat : Nat) : Int)) - 1

/-- Python `a | b`  (identity `a | b = a + b - (a & b)`). -/
def or (a b : Int) : Int := a + b - and a b
/-- Python `a ^ b`. -/
def xor (a b : Int) : Int := a + b - 2 * and a b
/-- Python `~a`. -/
def invert (a : Int) : Int := -a - 1
/-- Python `a << k` (k ≥ 0; Python raises ValueError for k < 0, the translator never emits that). -/
def shl (a k : Int) : Int := a * ((2 ^ k.toNat : Nat) : Int)
/-- Python `a >> k` (k ≥ 0): floor division by 2^k. -/
def shr (a k : Int) : Int := Int.fdiv a ((2 ^ k.toNat : Nat) : Int)
/-- Python `a ** k` for k ≥ 0. -/
def pow (a k : Int) : Int := a ^ k.toNat
/-- Python `abs`. -/
def abs (a : Int) : Int := if a < 0 then -a else a

/-- Python `round(n / d)` for an exact rational `n/d`, `d > 0`: round half to even. -/
def roundHalfEvenDiv (n d : Int) : Int :=
  let q := n / d
  let r := n % d
  if 2 * r < d then q
  else if 2 * r > d then q + 1
  else if q % 2 = 0 then q else q + 1

/-! ### Lemmas used by the property proofs -/

theorem bitLen_two_pow_sub_one (k : Nat) : bitLen (2 ^ k - 1) = k := by
  unfold bitLen
  by_cases hk : k = 0
  · subst hk; simp
  · have hpos : 2 ^ k - 1 ≠ 0 := by
      have : 2 ≤ 2 ^ k := by
        calc 2 = 2 ^ 1 := rfl
          _ ≤ 2 ^ k := Nat.pow_le_pow_right (by decide) (Nat.pos_of_ne_zero hk)
      omega
    simp only [hpos, if_false]
    have h1 : (2 ^ k - 1).log2 < k := by
      apply (Nat.log2_lt hpos).2
      have : 0 < 2 ^ k := Nat.two_pow_pos k
      omega
    have h2 : k - 1 ≤ (2 ^ k - 1).log2 := by
      apply (Nat.le_log2 hpos).2
      have : 2 ^ k = 2 * 2 ^ (k - 1) := by
        conv => lhs; rw [show k = (k - 1) + 1 by omega]
        rw [Nat.pow_succ]; omega
      have : 0 < 2 ^ (k - 1) := Nat.two_pow_pos _
      omega
    omega

/-- `a & (2^k - 1) = a mod 2^k` for every (also negative) `a`. -/
theorem and_mask (a : Int) (k : Nat) :
    and a (((2 ^ k : Nat) : Int) - 1) = a % ((2 ^ k : Nat) : Int) := by
  have hp : 0 < 2 ^ k := Nat.two_pow_pos k
  have hb : (0 : Int) ≤ ((2 ^ k : Nat) : Int) - 1 := by
    have : (1 : Int) ≤ ((2 ^ k : Nat) : Int) := by exact_mod_cast hp
    omega
  have hnat : (((2 ^ k : Nat) : Int) - 1).toNat = 2 ^ k - 1 := by
    have : (((2 ^ k - 1 : Nat)) : Int) = ((2 ^ k : Nat) : Int) - 1 := by
      rw [Int.ofNat_sub hp]; rfl
    rw [← this]; simp
  unfold and
  simp only [hb, if_true]
  unfold andNonneg
  rw [hnat, bitLen_two_pow_sub_one, Nat.and_two_pow_sub_one_eq_mod]
  have hm : 0 ≤ a % ((2 ^ k : Nat) : Int) := Int.emod_nonneg _ (by
    have : (0 : Int) < ((2 ^ k : Nat) : Int) := by exact_mod_cast hp
    omega)
  have hlt : a % ((2 ^ k : Nat) : Int) < ((2 ^ k : Nat) : Int) := Int.emod_lt_of_pos _ (by exact_mod_cast hp)
  have : ((a % ((2 ^ k : Nat) : Int)).toNat : Int) = a % ((2 ^ k : Nat) : Int) := Int.toNat_of_nonneg hm
  have hlt' : (a % ((2 ^ k : Nat) : Int)).toNat < 2 ^ k := by omega
  rw [Nat.mod_eq_of_lt hlt']
  exact this

theorem bitLen_le_of_lt (n k : Nat) (h : n < 2 ^ k) : bitLen n ≤ k := by
  unfold bitLen
  by_cases hn : n = 0
  · simp [hn]
  · simp only [hn, if_false]
    have := (Nat.log2_lt hn).2 h
    omega

/-- `(w·2^k) & f = 0` when `0 ≤ f < 2^k`. -/
theorem and_shl_low (w : Int) (k : Nat) (f : Int) (h0 : 0 ≤ f) (h1 : f < ((2 ^ k : Nat) : Int)) :
    and (w * ((2 ^ k : Nat) : Int)) f = 0 := by
  unfold and
  simp only [h0, if_true]
  unfold andNonneg
  have hf : f.toNat < 2 ^ k := by omega
  have hle := bitLen_le_of_lt _ _ hf
  have hdvd : ((2 ^ bitLen f.toNat : Nat) : Int) ∣ w * ((2 ^ k : Nat) : Int) := by
    exact Int.dvd_mul_of_dvd_right (Int.ofNat_dvd.2 (Nat.pow_dvd_pow 2 hle))
  rw [Int.emod_eq_zero_of_dvd hdvd]
  simp

/-- `(w << k) | f = w·2^k + f` when `0 ≤ f < 2^k`. -/
theorem or_shl_low (w : Int) (k : Nat) (f : Int) (h0 : 0 ≤ f) (h1 : f < ((2 ^ k : Nat) : Int)) :
    or (w * ((2 ^ k : Nat) : Int)) f = w * ((2 ^ k : Nat) : Int) + f := by
  unfold or
  rw [and_shl_low w k f h0 h1]; omega

theorem fdiv_pos_eq_ediv (a b : Int) (hb : 0 < b) : Int.fdiv a b = a / b :=
  Int.fdiv_eq_ediv_of_nonneg a (by omega)

theorem fmod_pos_eq_emod (a b : Int) (hb : 0 < b) : Int.fmod a b = a % b :=
  Int.fmod_eq_emod_of_nonneg a (by omega)

end Py

namespace Py
/-- for a negative divisor the floor remainder lies in `(b, 0]` -/
theorem fmod_neg_bounds (a : Int) {b : Int} (hb : b < 0) : b < Int.fmod a b ∧ Int.fmod a b ≤ 0 := by
  rw [Int.fmod_eq_emod]
  have h1 : 0 ≤ a % b := Int.emod_nonneg a (by omega)
  have h2 : a % b < -b := by
    have := Int.emod_lt_of_pos a (show (0:Int) < -b by omega)
    rwa [Int.emod_neg] at this
  by_cases hd : b ∣ a
  · have : a % b = 0 := Int.emod_eq_zero_of_dvd hd
    simp only [hd, or_true, if_true]; omega
  · have hne : a % b ≠ 0 := fun h => hd (Int.dvd_of_emod_eq_zero h)
    have hnb : ¬ (0 ≤ b) := by omega
    simp only [hnb, hd, or_self, if_false]; omega
end Py

/-! ### loops (for the translator's accumulator-loop fragment) -/
namespace Py

/-- the outcome of one loop iteration / of a whole loop: fall through with a new state, or `return` -/
inductive Loop (σ ρ : Type) where
  | cont (s : σ)
  | ret (r : ρ)

/-- `for i in range(lo, lo + n): body` with loop state `s`; stops at the first `return` -/
def forRange {σ ρ : Type} (lo n : Nat) (s : σ) (f : Nat → σ → Loop σ ρ) : Loop σ ρ :=
  match n with
  | 0 => .cont s
  | n + 1 =>
    match f lo s with
    | .ret r => .ret r
    | .cont s' => forRange (lo + 1) n s' f

/-- `while cond: body` over the loop-carried variables `s`, run for at most `fuel` iterations.  The translator only emits it
    for loops whose variant it recognises (e.g. `while v != 0: …; v >>= c` with `v ≥ 0`: fuel = `bitLen v`); that the fuel
    is sufficient is not assumed anywhere: it follows from the theorems that equate the generated function with its model -/
def whileFuel {σ : Type} (fuel : Nat) (cond : σ → Bool) (step : σ → σ) (s : σ) : σ :=
  match fuel with
  | 0 => s
  | f + 1 => if cond s then whileFuel f cond step (step s) else s

/-- `seq[i]` for an index the loop guarantees to be in range -/
def seqAt (l : List Int) (i : Nat) : Int := l.getD i 0

end Py
