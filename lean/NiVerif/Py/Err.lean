/-
  Python exception classes the models can raise (hand-written, import-free).
  Correspondence compares `PyErr.base` (the builtin base class) and, where a property names a
  nitypes subclass, the constructor itself.
-/
inductive PyErr where
  | TypeError | ValueError | OverflowError | ZeroDivisionError | IndexError | KeyError
  | RuntimeError | AttributeError | AssertionError | NotImplemented
  -- nitypes.waveform.errors
  | TimingMismatchError | CapacityMismatchError | CapacityTooSmallError | DatatypeMismatchError
  | IrregularTimestampCountMismatchError | StartIndexTooLargeError
  | StartIndexOrSampleCountTooLargeError | NoTimestampInformationError
  | SampleIntervalModeMismatchError | SignalCountMismatchError
  deriving DecidableEq, Repr, Inhabited

namespace PyErr

/-- The builtin exception class each error derives from. -/
def base : PyErr → PyErr
  | TimingMismatchError => RuntimeError
  | CapacityMismatchError => ValueError
  | CapacityTooSmallError => ValueError
  | DatatypeMismatchError => TypeError
  | IrregularTimestampCountMismatchError => ValueError
  | StartIndexTooLargeError => ValueError
  | StartIndexOrSampleCountTooLargeError => ValueError
  | NoTimestampInformationError => RuntimeError
  | SampleIntervalModeMismatchError => RuntimeError
  | SignalCountMismatchError => ValueError
  | e => e

def name : PyErr → String
  | TypeError => "TypeError" | ValueError => "ValueError" | OverflowError => "OverflowError"
  | ZeroDivisionError => "ZeroDivisionError" | IndexError => "IndexError" | KeyError => "KeyError"
  | RuntimeError => "RuntimeError" | AttributeError => "AttributeError"
  | AssertionError => "AssertionError" | NotImplemented => "NotImplemented"
  | TimingMismatchError => "TimingMismatchError" | CapacityMismatchError => "CapacityMismatchError"
  | CapacityTooSmallError => "CapacityTooSmallError" | DatatypeMismatchError => "DatatypeMismatchError"
  | IrregularTimestampCountMismatchError => "IrregularTimestampCountMismatchError"
  | StartIndexTooLargeError => "StartIndexTooLargeError"
  | StartIndexOrSampleCountTooLargeError => "StartIndexOrSampleCountTooLargeError"
  | NoTimestampInformationError => "NoTimestampInformationError"
  | SampleIntervalModeMismatchError => "SampleIntervalModeMismatchError"
  | SignalCountMismatchError => "SignalCountMismatchError"

end PyErr

/-- `a // b` raising ZeroDivisionError like Python. -/
def Py.floorDivE (a b : Int) : Except PyErr Int :=
  if b = 0 then .error .ZeroDivisionError else .ok (Int.fdiv a b)
/-- `a % b` raising ZeroDivisionError like Python. -/
def Py.modE (a b : Int) : Except PyErr Int :=
  if b = 0 then .error .ZeroDivisionError else .ok (Int.fmod a b)

instance {ε α : Type} [DecidableEq ε] [DecidableEq α] : DecidableEq (Except ε α) := fun a b =>
  match a, b with
  | .ok x, .ok y => if h : x = y then isTrue (by rw [h]) else isFalse (fun e => h (by injection e))
  | .error x, .error y => if h : x = y then isTrue (by rw [h]) else isFalse (fun e => h (by injection e))
  | .ok _, .error _ => isFalse (fun e => by cases e)
  | .error _, .ok _ => isFalse (fun e => by cases e)
