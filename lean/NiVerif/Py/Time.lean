/-
  Integer models of the standard-library / hightime time types that nitypes delegates to
  (hand-written, import-free, trusted base — validated by correspondence against CPython 3.12 and
  hightime 1.0.0 on every run).

  * `datetime.timedelta`  = total microseconds (Int), |days| ≤ 999 999 999
  * `hightime.timedelta`  = total yoctoseconds (Int), same day range
-/
import NiVerif.Py.Int
import NiVerif.Py.Err

namespace Py

abbrev US_PER_DAY : Int := 86400 * 1000000
abbrev YS_PER_DAY : Int := 86400 * 1000000000000000000000000
abbrev MAX_DAYS : Int := 999999999

/-- Is a total-microsecond count a valid `datetime.timedelta`? (`-999999999 d ≤ td < 1000000000 d`) -/
abbrev dtTdInRange (us : Int) : Prop := -MAX_DAYS * US_PER_DAY ≤ us ∧ us < (MAX_DAYS + 1) * US_PER_DAY

abbrev htTdInRange (ys : Int) : Prop := -MAX_DAYS * YS_PER_DAY ≤ ys ∧ ys < (MAX_DAYS + 1) * YS_PER_DAY

/-- `datetime.timedelta(days=, seconds=, microseconds=)` with integer arguments. -/
def dtTimedelta (days seconds microseconds : Int) : Except PyErr Int :=
  let us := (days * 86400 + seconds) * 1000000 + microseconds
  if dtTdInRange us then .ok us else .error .OverflowError

/-- `hightime.timedelta(days=, seconds=, microseconds=, femtoseconds=, yoctoseconds=)`, integer arguments. -/
def htTimedelta (days seconds microseconds femtoseconds yoctoseconds : Int) : Except PyErr Int :=
  let ys := (((days * 86400 + seconds) * 1000000 + microseconds) * 1000000000 + femtoseconds) * 1000000000
              + yoctoseconds
  if htTdInRange ys then .ok ys else .error .OverflowError

/-- Python `arg_to_uint` on ints: negative → ValueError. -/
def argToUint (x : Int) : Except PyErr Int := if x < 0 then .error .ValueError else .ok x

/-- `for i in range(lo, lo + n): …; yield …` of a generator, materialised (`list(generator)`): the values yielded in order, or the first
    exception; `s` is the loop-carried variable, `f i s` returns the new `s` and what iteration `i` yielded -/
def genRange {σ β : Type} : (lo n : Nat) → σ → (Nat → σ → Except PyErr (σ × List β)) → Except PyErr (List β)
  | _, 0, _, _ => .ok []
  | lo, n + 1, s, f => (f lo s).bind fun r => (genRange (lo + 1) n r.1 f).map (r.2 ++ ·)

/-- `for i in range(lo, lo + n): <body>` with loop state `s`; the body may raise (translator tier T19) -/
def forRangeE {σ : Type} (lo n : Nat) (s : σ) (f : Nat → σ → Except PyErr σ) : Except PyErr σ :=
  match n with
  | 0 => .ok s
  | n + 1 => (f lo s).bind fun s1 => forRangeE (lo + 1) n s1 f

/-- `arg_to_uint(description, value, default)` for an optional argument: `None` takes the default (which is range-checked like a
    given value); `None` without a default is a TypeError -/
def argToUintOpt (x : Option Int) (dflt : Option Int) : Except PyErr Int :=
  match x with
  | some v => argToUint v
  | none => match dflt with
    | some d => argToUint d
    | none => .error .TypeError

/-- CPython's `hash(int)`: value mod (2^61-1) with sign, and -1 ↦ -2. -/
def hashInt (x : Int) : Int :=
  let p : Int := 2305843009213693951
  let h := if x < 0 then -((-x) % p) else x % p
  if h = -1 then -2 else h

/-- Python `str(int)`. -/
def str (x : Int) : String := if x < 0 then "-" ++ toString (-x).toNat else toString x.toNat

/-- Python `f"{x:0N}"` for ints (sign counts toward the width, like CPython). -/
def fmtZero (x : Int) (width : Nat) : String :=
  let digits := toString x.natAbs
  let sign := if x < 0 then "-" else ""
  let pad := width - (digits.length + sign.length)
  sign ++ String.ofList (List.replicate pad '0') ++ digits

/-- Python `s.rstrip(c)` for a single character. -/
def rstripChar (s : String) (c : Char) : String :=
  String.ofList (s.toList.reverse.dropWhile (· == c)).reverse

end Py

namespace Py
/-- Python `lst[i]` with negative-index semantics; IndexError out of range -/
def listGetE {α : Type} (l : List α) (i : Int) : Except PyErr α :=
  let j := if i < 0 then i + l.length else i
  if j < 0 then .error .IndexError
  else match l[j.toNat]? with
    | some x => .ok x
    | none => .error .IndexError
/-- `EnumClass(value)`: the value if it is a member, else ValueError -/
def enumCheck (values : List Int) (x : Int) : Except PyErr Int :=
  if values.contains x then .ok x else .error .ValueError
end Py
