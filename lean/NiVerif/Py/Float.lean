/-
  Prelude for the float-typed fragment the translator emits (hand-written).
    * `Py.FloatOps α`: the three rounding operations a translated expression is built from;
    * `Py.Kind`: what sort of object a gain / offset argument is, as far as NumPy's promotion rules (NEP 50) and
      `arg_to_float` can tell, with `arg_to_float` and `float(...)` on kinds.
-/
import NiVerif.Py.Err

namespace Py

structure FloatOps (α : Type) where
  add : α → α → α
  sub : α → α → α
  mul : α → α → α

inductive Kind where
  | pyfloat          -- exactly `float`
  | pyint            -- `int` / `bool`
  | floatSubclass    -- an instance of a float subclass: numpy.float64, user subclasses
  | npfloat32        -- NumPy scalar types that are not float subclasses but have __float__
  | npfloat16
  | nplongdouble
  | hasFloat         -- any other object with __float__ (Decimal, Fraction, NumPy integer scalars)
  | noFloat          -- None, str, … : no usable __float__
  deriving DecidableEq, Repr

/-- `arg_to_float(description, value)`: a float instance is returned as it is, anything else through
    `value.__float__()` (a Python float); TypeError when that is impossible -/
def Kind.argToFloat : Kind → Except PyErr Kind
  | .pyfloat => .ok .pyfloat
  | .floatSubclass => .ok .floatSubclass
  | .noFloat => .error .TypeError
  | _ => .ok .pyfloat

/-- `float(x)` on something `arg_to_float` returned -/
def Kind.floatCall : Kind → Except PyErr Kind
  | .noFloat => .error .TypeError
  | _ => .ok .pyfloat

/-- NEP 50: Python scalars are weak (they take the array's dtype); NumPy scalars — including float subclasses, which
    NumPy converts with `np.asarray` — take part in promotion with their own dtype -/
def Kind.weak : Kind → Bool
  | .pyfloat => true | .pyint => true | _ => false

end Py
