/-
  Prelude for the float-typed fragment the translator emits (hand-written).
    * `Py.FloatOps α`: the three rounding operations a translated expression is built from;
    * `Py.Kind`: what sort of object a gain / offset argument is, as far as NumPy's promotion rules (NEP 50) and
      `arg_to_float` can tell, with `arg_to_float` and `float(...)` on kinds.
-/
import NiVerif.Py.Err

namespace Py

structure FloatOps (α : Type) where
  add : α → α → α
  sub : α → α → α
  mul : α → α → α

inductive Kind where
  | pyfloat          -- exactly `float`
  | pyint            -- `int` / `bool`
  | floatSubclass    -- an instance of a float subclass: numpy.float64, user subclasses
  | npfloat32        -- NumPy scalar types that are not float subclasses but have __float__
  | npfloat16
  | nplongdouble
  | hasFloat         -- any other object with __float__ (Decimal, Fraction, NumPy integer scalars)
  | noFloat          -- None, str, … : no usable __float__
  deriving DecidableEq, Repr

/-- `arg_to_float(description, value)`: a float instance is returned as it is, anything else through
    `value.__float__()` (a Python float); TypeError when that is impossible -/
def Kind.argToFloat : Kind → Except PyErr Kind
  | .pyfloat => .ok .pyfloat
  | .floatSubclass => .ok .floatSubclass
  | .noFloat => .error .TypeError
  | _ => .ok .pyfloat

/-- `float(x)` on something `arg_to_float` returned -/
def Kind.floatCall : Kind → Except PyErr Kind
  | .noFloat => .error .TypeError
  | _ => .ok .pyfloat

/-- NEP 50: Python scalars are weak (they take the array's dtype); NumPy scalars — including float subclasses, which
    NumPy converts with `np.asarray` — take part in promotion with their own dtype -/
def Kind.weak : Kind → Bool
  | .pyfloat => true | .pyint => true | _ => false

end Py

namespace Py

/-- an exact dyadic rational num / 2^exp: every finite binary float is one -/
structure Dyad where
  num : Int
  exp : Nat
  deriving DecidableEq, Repr

/-- `math.modf(x)`: (fractional part, whole part), both with the sign of x; whole part = truncation toward zero -/
def Dyad.modf (x : Dyad) : Dyad × Dyad :=
  let w := Int.tdiv x.num (2 ^ x.exp)
  (⟨x.num - w * 2 ^ x.exp, x.exp⟩, ⟨w, 0⟩)

/-- `int(x)`: truncation toward zero -/
def Dyad.toInt (x : Dyad) : Int := Int.tdiv x.num (2 ^ x.exp)

/-- `x * k` for an integer k (exact; the translator only emits it for powers of two, where the float product is exact too) -/
def Dyad.mulInt (x : Dyad) (k : Int) : Dyad := ⟨x.num * k, x.exp⟩

/-- `round(x)`: nearest integer, ties to even -/
def Dyad.round (x : Dyad) : Int :=
  let d : Int := 2 ^ x.exp
  let q := x.num / d
  let r := x.num % d
  if 2 * r > d then q + 1
  else if 2 * r < d then q
  else if q % 2 = 0 then q else q + 1

end Py
