/-
  Python slice semantics (hand-written prelude; differentially tested against CPython's
  `slice.indices` / `range` exhaustively for small bounds by tools/props/c17.py).
-/
import NiVerif.Py.Err

namespace Py.Slice

/-- `PySlice_AdjustIndices`: clamp one bound -/
def clamp (x : Int) (n : Int) (step : Int) : Int :=
  if x < 0 then
    (if x + n < 0 then (if step < 0 then -1 else 0) else x + n)
  else if x ≥ n then (if step < 0 then n - 1 else n) else x

/-- `slice(start, stop, step).indices(len)`; ValueError for a zero step -/
def indices (start stop step : Option Int) (len : Nat) : Except PyErr (Int × Int × Int) :=
  let st := step.getD 1
  if st = 0 then .error .ValueError
  else
    let n : Int := len
    let s := match start with | none => (if st < 0 then n - 1 else 0) | some x => clamp x n st
    let e := match stop with | none => (if st < 0 then -1 else n) | some x => clamp x n st
    .ok (s, e, st)

/-- `len(range(start, stop, step))` -/
def rangeLen (s e st : Int) : Nat :=
  if st > 0 then (if s < e then ((e - s - 1) / st + 1).toNat else 0)
  else if st < 0 then (if e < s then ((s - e - 1) / (-st) + 1).toNat else 0)
  else 0

/-- `list(range(start, stop, step))` -/
def rangeList (s e st : Int) : List Int := (List.range (rangeLen s e st)).map fun (k : Nat) => s + (k : Int) * st

end Py.Slice
