/-
  Python `list` as the abstract specification of the container properties C17/C18 (hand-written;
  every operation is differentially tested against a real Python list by tools/props/c17.py —
  exhaustively for lengths ≤ 5, bounds in [-7, 7], steps in [-3, 3]).
-/
import NiVerif.Py.Slice

namespace Py.ListSpec
open Py.Slice

variable {α : Type}

/-- normalise an int index; IndexError when out of range -/
def normIndex (i : Int) (len : Nat) : Except PyErr Nat :=
  let j := if i < 0 then i + len else i
  if j < 0 ∨ j ≥ len then .error .IndexError else .ok j.toNat

def getItem (l : List α) (i : Int) [Inhabited α] : Except PyErr α :=
  (normIndex i l.length).map fun j => l.getD j default

def setItem (l : List α) (i : Int) (x : α) : Except PyErr (List α) :=
  (normIndex i l.length).map fun j => l.set j x

def delItem (l : List α) (i : Int) : Except PyErr (List α) :=
  (normIndex i l.length).map fun j => l.eraseIdx j

/-- set the positions `idx[k] := vs[k]` -/
def scatter (l : List α) : List Int → List α → List α
  | i :: is, v :: vs => scatter (l.set i.toNat v) is vs
  | _, _ => l

def getSlice (l : List α) (start stop step : Option Int) [Inhabited α] : Except PyErr (List α) :=
  (indices start stop step l.length).map fun (s, e, st) => (rangeList s e st).map fun i => l.getD i.toNat default

/-- `l[start:stop:step] = vs` -/
def setSlice (l : List α) (start stop step : Option Int) (vs : List α) : Except PyErr (List α) :=
  (indices start stop step l.length).bind fun (s, e, st) =>
    if st = 1 then
      let e' := if e < s then s else e
      .ok (l.take s.toNat ++ vs ++ l.drop e'.toNat)
    else if vs.length ≠ rangeLen s e st then .error .ValueError
    else .ok (scatter l (rangeList s e st) vs)

/-- `del l[start:stop:step]` -/
def delSlice (l : List α) (start stop step : Option Int) : Except PyErr (List α) :=
  (indices start stop step l.length).map fun (s, e, st) =>
    let idx := rangeList s e st
    (l.zipIdx.filter fun p => !(idx.contains (p.2 : Int))).map (·.1)

/-- `l.insert(i, x)`: the index is clamped -/
def insert (l : List α) (i : Int) (x : α) : List α :=
  let j := if i < 0 then (if i + l.length < 0 then 0 else i + l.length) else (if i > l.length then (l.length : Int) else i)
  l.take j.toNat ++ [x] ++ l.drop j.toNat

def pop (l : List α) (i : Int) [Inhabited α] : Except PyErr (α × List α) :=
  (normIndex i l.length).map fun j => (l.getD j default, l.eraseIdx j)

def indexOf [DecidableEq α] (l : List α) (x : α) : Except PyErr Nat :=
  let i := l.findIdx (· = x)
  if i < l.length then .ok i else .error .ValueError

def remove [DecidableEq α] (l : List α) (x : α) : Except PyErr (List α) :=
  (indexOf l x).map fun i => l.eraseIdx i

def count [DecidableEq α] (l : List α) (x : α) : Nat := l.count x

end Py.ListSpec
