/-
  What a caller may pass where the API accepts an integer (hand-written prelude for translator tier T12,
  `nitypes/_arguments.py`).  The kinds are the ones Python distinguishes in `arg_to_int`:
  `isinstance(x, int)` holds for `int`, `bool` and other subclasses of int; NumPy integer scalars and other objects
  with `__index__` are not ints but `operator.index` converts them; floats, Decimals and numeric strings are
  converted by `int()` but not by `operator.index`; everything else by neither.  (CPython ≥ 3.10: `operator.index`
  and `int()` always return an exact `int`.)
-/
import NiVerif.Py.Err

namespace Py

inductive IntArg where
  | none                 -- None
  | int (n : Int)        -- an exact int
  | bool (b : Bool)      -- True / False
  | sub (n : Int)        -- an instance of another subclass of int (IntEnum member …)
  | np (n : Int)         -- a NumPy integer scalar
  | idx (n : Int)        -- another object whose `__index__` returns n
  | conv (n : Int)       -- not an integer, but `int(x)` is n (float, Decimal, numeric str)
  | other                -- neither `__index__` nor `int()` accept it
  deriving DecidableEq, Repr, Inhabited

namespace IntArg

def isNone : IntArg → Bool | .none => true | _ => false
/-- `isinstance(x, int)` -/
def isInt : IntArg → Bool | .int _ | .bool _ | .sub _ => true | _ => false
/-- `isinstance(x, bool)` -/
def isBool : IntArg → Bool | .bool _ => true | _ => false
/-- `isinstance(x, np.integer)` -/
def isNp : IntArg → Bool | .np _ => true | _ => false
/-- `type(x) is int` -/
def isExactInt : IntArg → Bool | .int _ => true | _ => false

/-- the integer an integer-like argument stands for (`__index__`) -/
def indexValue : IntArg → Option Int
  | .int n | .sub n | .np n | .idx n => some n
  | .bool b => some (if b then 1 else 0)
  | _ => Option.none

/-- `operator.index(x)` -/
def index (x : IntArg) : Except PyErr IntArg :=
  match x.indexValue with
  | some n => .ok (.int n)
  | Option.none => .error .TypeError

/-- `int(x)` -/
def toInt (x : IntArg) : Except PyErr IntArg :=
  match x with
  | .conv n => .ok (.int n)
  | .none | .other => .error .TypeError
  | y => y.index

/-- `x < c` for an int constant: ints, bools, int subclasses and NumPy integers compare by value; other objects do not define it -/
def ltInt (x : IntArg) (c : Int) : Except PyErr Bool :=
  match x with
  | .int n | .sub n | .np n => .ok (decide (n < c))
  | .bool b => .ok (decide ((if b then 1 else 0) < c))
  | _ => .error .TypeError

/-- a default value given by the library itself: an exact int or None -/
def ofDefault : Option Int → IntArg
  | some d => .int d
  | Option.none => .none

/-- the argument as the optional integer the geometry models work with; `none` when it is not integer-like at all -/
def asOpt : IntArg → Option (Option Int)
  | .none => some Option.none
  | .conv _ | .other => Option.none
  | x => x.indexValue.map some

end IntArg
end Py
