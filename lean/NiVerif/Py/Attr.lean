import Lean.Meta.Tactic.Simp.RegisterCommand
/-- simp set of all generated definitions (`Gen/*.lean`) — unfolded by the property proofs. -/
register_simp_attr pygen
