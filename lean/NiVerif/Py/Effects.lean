/-
  Prelude for the effect-order fragment the translator emits (T7): the classes of statements of a mutating method, as far
  as atomicity is concerned.  The meaning of a trace is given in Model/Atomic.lean.
-/
namespace Py

inductive Eff where
  | check            -- a validation that may raise; changes nothing
  | fail             -- an unconditional raise
  | warn             -- warnings.warn
  | local            -- assignment to a local name
  | mergeTiming      -- builds the merged Timing object: pure, may raise (mode mismatch, non-monotonic timestamps)
  | checkWritable    -- `if not self._data.flags.writeable: raise`
  | resize           -- in-place resize of the buffer (`self.capacity = …`): refused by NumPy for an array that does not own its data
  | callGrow         -- `self._increase_capacity(…)`
  | copy             -- `self._data[a:b] = …`: refused by NumPy for read-only memory; writes behind the window
  | setTiming | setCount | setStart | adopt | adoptAlias | mergeProps
  | loopBegin | loopEnd
  | ifNeedGrowBegin | ifNeedGrowEnd
  | branchBegin | branchElse | branchEnd
  deriving DecidableEq, Repr

end Py
