/- Canonical textual rendering of model values for the line protocol (hand-written). -/
import NiVerif.Py.Err

namespace Py

class Render (α : Type) where
  render : α → String

export Render (render)

instance : Render Int := ⟨fun x => toString x⟩
instance : Render Nat := ⟨fun x => toString x⟩
instance : Render Bool := ⟨fun b => if b then "True" else "False"⟩
instance : Render String := ⟨fun s => "s:" ++ s⟩
instance : Render Unit := ⟨fun _ => "None"⟩
instance : Render PyErr := ⟨PyErr.name⟩
instance {α β} [Render α] [Render β] : Render (α × β) := ⟨fun p => "(" ++ render p.1 ++ "," ++ render p.2 ++ ")"⟩
instance {α} [Render α] : Render (List α) := ⟨fun l => "[" ++ ",".intercalate (l.map render) ++ "]"⟩
instance {α} [Render α] : Render (Option α) := ⟨fun o => match o with | none => "None" | some x => render x⟩
instance {α} [Render α] : Render (Except PyErr α) :=
  ⟨fun r => match r with | .ok v => "ok " ++ render v | .error e => "err " ++ e.name ++ " " ++ e.base.name⟩

end Py
