/-
  Python `dict` with str keys as an insertion-ordered association list (hand-written prelude for translator tier T14,
  `nitypes/waveform/_extended_properties.py`).  Invariant of every value built by these operations from `[]`: keys are unique.
-/
import NiVerif.Py.Err

namespace Py.Dict

abbrev D := List (String × String)

/-- `k in d` -/
def contains (d : D) (k : String) : Bool := d.any (fun kv => kv.1 == k)

/-- `d[k] = v`: an existing key keeps its position, a new key goes to the end -/
def set (d : D) (k v : String) : D :=
  if contains d k then d.map (fun kv => if kv.1 == k then (k, v) else kv) else d ++ [(k, v)]

/-- `del d[k]`: KeyError for an absent key -/
def del (d : D) (k : String) : Except PyErr D :=
  if contains d k then .ok (d.filter (fun kv => !(kv.1 == k))) else .error .KeyError

/-- `d.get(k)` -/
def get? (d : D) (k : String) : Option String := (d.find? (fun kv => kv.1 == k)).map (·.2)

end Py.Dict
