/-
  `DigitalWaveform.test` (hand model over the generated `Gen.DigitalState.test` and tables).
  A waveform is its visible data (`List (List Int)`, sample-major, data-column order) and its
  signal count.  Mirrors: the three `arg_to_uint` conversions (default sample_count =
  `self.sample_count - start_sample`, which must itself be non-negative), the signal-count and the
  two window checks, and the double loop that increments both sample indices per row and appends a
  failure per incompatible column with `signal_index = signal_count - 1 - column`.
  Tie: tools/props/c16.py.
-/
import NiVerif.Gen.DigitalState

namespace Model.DigitalTest

structure Failure where
  sample : Int
  expectedSample : Int
  signal : Int
  actual : Int
  expected : Int
  deriving DecidableEq, Repr

structure W where
  rows : List (List Int)
  nsig : Nat

/-- `w.data[i, c]` (used by the generated comparison loops, translator tier T19) -/
def W.at (w : W) (i : Int) (c : Nat) : Except PyErr Int := (Py.listGetE w.rows i).bind fun r => Py.listGetE r c

def colStep (nsig : Nat) (ra re : List Int) (s es : Int) (c : Nat) : Except PyErr (Option Failure) :=
  (Py.listGetE ra c).bind fun x => (Py.enumCheck Gen.DigitalState.DigitalState_values x).bind fun sa =>
  (Py.listGetE re c).bind fun y => (Py.enumCheck Gen.DigitalState.DigitalState_values y).bind fun se =>
  (Gen.DigitalState.test sa se).bind fun failed =>
  .ok (if failed then some ⟨s, es, (nsig : Int) - 1 - c, sa, se⟩ else none)

/-- the inner `for column_index in range(self.signal_count)` loop -/
def colLoop (nsig : Nat) (ra re : List Int) (s es : Int) : List Nat → Except PyErr (List Failure)
  | [] => .ok []
  | c :: cs =>
    (colStep nsig ra re s es c).bind fun f => (colLoop nsig ra re s es cs).bind fun rest =>
    .ok (match f with | some x => x :: rest | none => rest)

/-- the outer `for _ in range(sample_count)` loop with its two running indices -/
def sampleLoop (a e : W) : Nat → Int → Int → Except PyErr (List Failure)
  | 0, _, _ => .ok []
  | n + 1, s, es =>
    (Py.listGetE a.rows s).bind fun ra => (Py.listGetE e.rows es).bind fun re =>
    (colLoop a.nsig ra re s es (List.range a.nsig)).bind fun f =>
    (sampleLoop a e n (s + 1) (es + 1)).bind fun rest => .ok (f ++ rest)

def argToUint (x : Option Int) (dflt : Int) : Except PyErr Int :=
  let v := x.getD dflt
  if v < 0 then .error .ValueError else .ok v

/-- `waveform.test(expected, start_sample=, expected_start_sample=, sample_count=)` → failures -/
def test (a e : W) (start expStart count : Option Int) : Except PyErr (List Failure) :=
  (argToUint start 0).bind fun s => (argToUint expStart 0).bind fun es =>
  (argToUint count ((a.rows.length : Int) - s)).bind fun n =>
  if a.nsig ≠ e.nsig then .error .SignalCountMismatchError
  else if s + n > a.rows.length then .error .StartIndexOrSampleCountTooLargeError
  else if es + n > e.rows.length then .error .StartIndexOrSampleCountTooLargeError
  else sampleLoop a e n.toNat s es

/-- `DigitalState.to_char(state)` (strict) and `from_char` over the generated character table -/
def toChar (state : Int) : Except PyErr Char :=
  if Gen.DigitalState.DigitalState_values.contains state then
    match Gen.DigitalState._CHAR_TABLE.toList[state.toNat]? with
    | some c => .ok c
    | none => .error .IndexError
  else .error .KeyError
def fromChar (c : Char) : Except PyErr Int :=
  match Gen.DigitalState._CHAR_TABLE.toList.idxOf? c with
  | some i => if Gen.DigitalState.DigitalState_values.contains (i : Int) then .ok i else .error .KeyError
  | none => .error .KeyError

/-! line protocol:  dtest <nsigA> <rowsA> <nsigE> <rowsE> <start|-> <expStart|-> <count|->  with rows as a;b;c|d;e;f -/
def parseRows (s : String) : Option (List (List Int)) :=
  if s = "_" then some []
  else (s.splitOn "|").mapM fun (r : String) =>
    if r = "" then some [] else (r.splitOn ";").mapM fun (x : String) => x.toInt?
def parseOpt (s : String) : Option (Option Int) := if s = "-" then some none else s.toInt?.map some

instance : Py.Render Failure :=
  ⟨fun f => s!"({f.sample},{f.expectedSample},{f.signal},{f.actual},{f.expected})"⟩

def dispatch : List String → Option String
  | ["dtest", na, ra, ne, re, s, es, n] =>
    match na.toNat?, parseRows ra, ne.toNat?, parseRows re, parseOpt s, parseOpt es, parseOpt n with
    | some a, some rowsA, some b, some rowsE, some s', some es', some n' =>
      some (Py.render (test ⟨rowsA, a⟩ ⟨rowsE, b⟩ s' es' n'))
    | _, _, _, _, _, _, _ => none
  | ["dchar", "to", x] => x.toInt?.map fun v => Py.render ((toChar v).map fun c => String.singleton c)
  | ["dchar", "from", x] => match x.toList with
    | [c] => some (Py.render (fromChar c))
    | _ => none
  | _ => none

end Model.DigitalTest
