/-
  Units / channel name as views of the extended properties; Scalar comparison; XYData validation
  (hand model).  Mirrors
    * `ExtendedPropertyDictionary.__setitem__/__delitem__/get`, the `units`, `x_units`, `y_units`,
      `channel_name` properties (`get(KEY, "")`) and their setters (str check, then `dict[KEY] = value`) of
      Scalar, Vector, XYData, NumericWaveform and Spectrum;
    * the constructor rule of Scalar / Vector / XYData: store the argument when the key is absent, otherwise refuse
      a non-empty argument that differs from the entry;
    * `Scalar.__eq__`, `__lt__`, `__le__`, `__gt__`, `__ge__` (class check elided: both operands are Scalars);
    * `XYData.__init__` / `_init_with_provided_arrays` as decision logic over what is looked at: the kind of each
      argument, its dimensionality, length and dtype.
  Strings are lists of code points (Python compares str by code point); a numeric value is bool, int or a float
  given exactly as numerator / 2^k denominator (or nan / ±inf), so int-float comparisons are exact as in Python.
  Tie: tools/props/c19.py.
-/
import NiVerif.Py.Err

namespace Model.Units

abbrev Str := List Nat

/-- an extended property value: a str or something else (bool/int/float, rendered opaque) -/
inductive PVal where
  | str (s : Str)
  | other (tag : Nat)
  deriving DecidableEq, Repr

abbrev Dict := List (Str × PVal)

def Dict.get : Dict → Str → Option PVal
  | [], _ => none
  | (k', v) :: r, k => if k' = k then some v else Dict.get r k
/-- `d[k] = v`: replace in place (insertion order is kept), append when absent -/
def Dict.set : Dict → Str → PVal → Dict
  | [], k, v => [(k, v)]
  | (k', v') :: r, k, v => if k' = k then (k, v) :: r else (k', v') :: Dict.set r k v
def Dict.erase : Dict → Str → Dict
  | [], _ => []
  | (k', v') :: r, k => if k' = k then Dict.erase r k else (k', v') :: Dict.erase r k
def Dict.del (d : Dict) (k : Str) : Except PyErr Dict :=
  if (d.get k).isSome then .ok (d.erase k) else .error .KeyError

/-- the attribute read: `self._extended_properties.get(KEY, "")` followed by `assert isinstance(value, str)` -/
def attrOf : Option PVal → Except PyErr Str
  | none => .ok []
  | some (.str s) => .ok s
  | some (.other _) => .error .AssertionError
def attrGet (d : Dict) (k : Str) : Except PyErr Str := attrOf (d.get k)

/-- the attribute write: `if not isinstance(value, str): raise TypeError`; `dict[KEY] = value` -/
def attrSet (d : Dict) (k : Str) (v : PVal) : Except PyErr Dict :=
  match v with
  | .str _ => .ok (d.set k v)
  | .other _ => .error .TypeError

def PVal.isStr : PVal → Bool | .str _ => true | .other _ => false
/-- Python truthiness of the argument (`units and …`) -/
def PVal.truthy : PVal → Bool | .str s => s ≠ [] | .other t => t ≠ 0

/-- constructor rule for one units argument (Scalar/Vector check the type first; XYData does not) -/
def ctorUnits (checkStr : Bool) (d : Dict) (k : Str) (u : PVal) : Except PyErr Dict :=
  if checkStr && !u.isStr then .error .TypeError
  else match d.get k with
    | none => .ok (d.set k u)
    | some cur => if u.truthy && cur ≠ u then .error .ValueError else .ok d

/-! ### writes through either view -/

inductive Op where
  | attrSet (k : Str) (v : PVal)     -- obj.units = v / obj.channel_name = v
  | dictSet (k : Str) (v : PVal)     -- obj.extended_properties[k] = v
  | dictDel (k : Str)                -- del obj.extended_properties[k]
  deriving DecidableEq, Repr

/-- one step; a rejected operation leaves the dictionary as it was -/
def step (d : Dict) : Op → Dict × Option PyErr
  | .attrSet k v => match attrSet d k v with | .ok d' => (d', none) | .error e => (d, some e)
  | .dictSet k v => (d.set k v, none)
  | .dictDel k => match d.del k with | .ok d' => (d', none) | .error e => (d, some e)

def run (d : Dict) (ops : List Op) : Dict := ops.foldl (fun s o => (step s o).1) d

/-- the specification: the entry under `k` after a history is decided by the last accepted write to `k` -/
def lastWrite (k : Str) : Option PVal → List Op → Option PVal
  | cur, [] => cur
  | cur, .attrSet k' v :: rest =>
    lastWrite k (if k' = k then (match v with | .str _ => some v | .other _ => cur) else cur) rest
  | cur, .dictSet k' v :: rest => lastWrite k (if k' = k then some v else cur) rest
  | cur, .dictDel k' :: rest => lastWrite k (if k' = k then none else cur) rest

/-! ### Scalar values and comparison -/

inductive Num where
  | ratio (num : Int) (den : Nat)    -- bool (0/1, 1/1), int (n/1), finite float (exact, den = 2^k > 0)
  | nan | pinf | ninf
  deriving DecidableEq, Repr

inductive Val where
  | num (isFloat : Bool) (n : Num)
  | str (s : Str)
  deriving DecidableEq, Repr

def Num.lt : Num → Num → Bool
  | .nan, _ => false | _, .nan => false
  | .ninf, .ninf => false | .ninf, _ => true
  | _, .ninf => false
  | .pinf, _ => false
  | _, .pinf => true
  | .ratio a b, .ratio c d => a * (d : Int) < c * (b : Int)
def Num.eq : Num → Num → Bool
  | .nan, _ => false | _, .nan => false
  | .ninf, .ninf => true | .pinf, .pinf => true
  | .ratio a b, .ratio c d => a * (d : Int) == c * (b : Int)
  | _, _ => false

def strLt : Str → Str → Bool
  | [], [] => false
  | [], _ :: _ => true
  | _ :: _, [] => false
  | a :: as, b :: bs => if a < b then true else if b < a then false else strLt as bs

inductive Cmp where | lt | le | gt | ge
  deriving DecidableEq, Repr

def cmpNum (op : Cmp) (a b : Num) : Bool :=
  match op with
  | .lt => a.lt b | .le => a.lt b || a.eq b | .gt => b.lt a | .ge => b.lt a || a.eq b
def cmpStr (op : Cmp) (a b : Str) : Bool :=
  match op with
  | .lt => strLt a b | .le => strLt a b || a == b | .gt => strLt b a | .ge => strLt b a || a == b

def Val.isNum : Val → Bool | .num _ _ => true | .str _ => false
def Val.isStr : Val → Bool | .str _ => true | .num _ _ => false
/-- `x <op> y` on two values of the same kind (Python's `<` … on numbers / on strings) -/
def cmpVal (op : Cmp) : Val → Val → Bool
  | .num _ x, .num _ y => cmpNum op x y
  | .str x, .str y => cmpStr op x y
  | _, _ => false

structure Scalar where
  value : Val
  units : Str
  deriving DecidableEq, Repr

/-- `a <op> b`: the units check comes first, then the numeric / str dispatch -/
def Scalar.order (op : Cmp) (a b : Scalar) : Except PyErr Bool :=
  if a.units ≠ b.units then .error .ValueError
  else match a.value, b.value with
    | .num _ x, .num _ y => .ok (cmpNum op x y)
    | .str x, .str y => .ok (cmpStr op x y)
    | _, _ => .error .TypeError

def Val.eq : Val → Val → Bool
  | .num _ x, .num _ y => x.eq y
  | .str x, .str y => x == y
  | _, _ => false

def Scalar.eq (a b : Scalar) : Bool := a.value.eq b.value && a.units == b.units

/-! ### XYData argument validation -/

inductive ArgKind where
  | ndarray       -- a numpy.ndarray
  | npscalar      -- has .dtype but is not an ndarray (NumPy scalar)
  | noDtype       -- list, tuple, None …: no .dtype attribute
  deriving DecidableEq, Repr

structure Arg where
  kind : ArgKind
  ndim : Nat
  len : Nat
  dtype : Nat        -- dtype tag; tags < 14 are the supported ones (float32/64, (u)int8…64, byte-swapped variants)
  deriving DecidableEq, Repr

def supported (dt : Nat) : Bool := dt < 14

/-- `XYData.__init__` argument checks, in the order the code performs them -/
def xyInit (x y : Arg) : Except PyErr Unit :=
  if x.kind = .noDtype ∨ y.kind = .noDtype then .error .AttributeError
  else if x.dtype ≠ y.dtype then .error .TypeError
  else if ¬ (x.kind = .ndarray ∧ y.kind = .ndarray) then .error .TypeError
  else if x.ndim ≠ 1 then .error .ValueError
  else if y.ndim ≠ 1 then .error .ValueError
  else if x.len ≠ y.len then .error .ValueError
  else if ¬ supported x.dtype then .error .TypeError
  else .ok ()

/-- an argument of `XYData.from_arrays_1d` -/
inductive SrcKind where
  | ndarray | seq | other
  deriving DecidableEq, Repr

structure Src where
  kind : SrcKind
  ndim : Nat       -- dimensionality of the array / nesting depth of the sequence
  len : Nat
  dtype : Nat      -- dtype of the array; for a sequence, the dtype NumPy would infer (unused: a dtype is required)
  deriving DecidableEq, Repr

def checkSrc (s : Src) (dt : Option Nat) : Except PyErr Unit :=
  match s.kind with
  | .ndarray => if s.ndim ≠ 1 then .error .ValueError else .ok ()
  | .seq => if dt.isNone then .error .ValueError else .ok ()
  | .other => .error .TypeError

/-- what `np.asarray(src, dtype, copy=True)` hands to the constructor -/
def converted (s : Src) (dt : Option Nat) : Arg := ⟨.ndarray, s.ndim, s.len, dt.getD s.dtype⟩

/-- `XYData.from_arrays_1d(x, y, dtype)`: per-argument checks (x first), conversion, then the constructor -/
def from1d (x y : Src) (dt : Option Nat) : Except PyErr Unit :=
  match checkSrc x dt with
  | .error e => .error e
  | .ok _ =>
    match checkSrc y dt with
    | .error e => .error e
    | .ok _ => xyInit (converted x dt) (converted y dt)

/-- XYData equality: both axes by value, both units -/
structure XY where
  x : List Num
  y : List Num
  xu : Str
  yu : Str
  deriving DecidableEq, Repr

def arrEq : List Num → List Num → Bool
  | [], [] => true
  | a :: as, b :: bs => a.eq b && arrEq as bs
  | _, _ => false

def XY.eq (a b : XY) : Bool := arrEq a.x b.x && arrEq a.y b.y && a.xu == b.xu && a.yu == b.yu

/-! ### line protocol -/

def decStr (s : String) : Option Str :=
  if s = "_" then some [] else (s.splitOn ".").mapM fun (t : String) => t.toNat?
def encStr (s : Str) : String := if s = [] then "_" else ".".intercalate (s.map toString)
/-- `s<codepoints>` a str, `o<tag>` something else -/
def decPVal (s : String) : Option PVal :=
  match s.toList with
  | 's' :: rest => (decStr (String.ofList rest)).map .str
  | 'o' :: rest => (String.ofList rest).toNat?.map .other
  | _ => none
def encPVal : PVal → String
  | .str s => "s" ++ encStr s
  | .other t => "o" ++ toString t
def decNum (s : String) : Option Num :=
  if s = "nan" then some .nan else if s = "inf" then some .pinf else if s = "-inf" then some .ninf
  else match s.splitOn "/" with
    | [a, b] => match a.toInt?, b.toNat? with | some x, some y => some (.ratio x y) | _, _ => none
    | _ => none
/-- `i<num>/<den>` int or bool, `f<num>/<den>|nan|inf|-inf` float, `s<codepoints>` str -/
def decVal (s : String) : Option Val :=
  match s.toList with
  | 'i' :: rest => (decNum (String.ofList rest)).map (.num false)
  | 'f' :: rest => (decNum (String.ofList rest)).map (.num true)
  | 's' :: rest => (decStr (String.ofList rest)).map .str
  | _ => none
def decCmp : String → Option Cmp
  | "lt" => some .lt | "le" => some .le | "gt" => some .gt | "ge" => some .ge | _ => none
def decKind : String → Option ArgKind
  | "nd" => some .ndarray | "sc" => some .npscalar | "no" => some .noDtype | _ => none
def decArg (s : String) : Option Arg :=
  match s.splitOn ":" with
  | [k, nd, ln, dt] => match decKind k, nd.toNat?, ln.toNat?, dt.toNat? with
    | some k', some a, some b, some c => some ⟨k', a, b, c⟩
    | _, _, _, _ => none
  | _ => none
def decSrcKind : String → Option SrcKind
  | "nd" => some .ndarray | "seq" => some .seq | "other" => some .other | _ => none
def decSrc (s : String) : Option Src :=
  match s.splitOn ":" with
  | [k, nd, ln, dt] => match decSrcKind k, nd.toNat?, ln.toNat?, dt.toNat? with
    | some k', some a, some b, some c => some ⟨k', a, b, c⟩
    | _, _, _, _ => none
  | _ => none
def decNums (s : String) : Option (List Num) := if s = "_" then some [] else (s.splitOn ",").mapM decNum

def errText (e : PyErr) : String := "err " ++ e.name
def showDict (d : Dict) : String :=
  if d = [] then "_" else ";".intercalate (d.map fun kv => encStr kv.1 ++ "=" ++ encPVal kv.2)
def boolText (b : Bool) : String := if b then "ok True" else "ok False"

/-- stateful protocol: the state is the dictionary of the object under test -/
def stepLine (d : Dict) : List String → Option (Dict × String)
  | ["unew"] => some ([], "ok")
  | ["uctor", chk, k, u] =>
    match decStr k, decPVal u with
    | some k', some u' =>
      match ctorUnits (chk == "1") d k' u' with
      | .ok d' => some (d', "ok")
      | .error e => some (d, errText e)
    | _, _ => none
  | ["uattrset", k, v] =>
    match decStr k, decPVal v with
    | some k', some v' => let r := step d (.attrSet k' v'); some (r.1, match r.2 with | none => "ok" | some e => errText e)
    | _, _ => none
  | ["udictset", k, v] =>
    match decStr k, decPVal v with
    | some k', some v' => some ((step d (.dictSet k' v')).1, "ok")
    | _, _ => none
  | ["udictdel", k] =>
    (decStr k).map fun k' => let r := step d (.dictDel k'); (r.1, match r.2 with | none => "ok" | some e => errText e)
  | ["uattrget", k] =>
    (decStr k).map fun k' => (d, match attrGet d k' with | .ok s => "ok " ++ encStr s | .error e => errText e)
  | ["udict"] => some (d, "ok " ++ showDict d)
  | ["sorder", op, a, au, b, bu] =>
    match decCmp op, decVal a, decStr au, decVal b, decStr bu with
    | some o, some a', some au', some b', some bu' =>
      some (d, match Scalar.order o ⟨a', au'⟩ ⟨b', bu'⟩ with | .ok r => boolText r | .error e => errText e)
    | _, _, _, _, _ => none
  | ["seq", a, au, b, bu] =>
    match decVal a, decStr au, decVal b, decStr bu with
    | some a', some au', some b', some bu' => some (d, boolText (Scalar.eq ⟨a', au'⟩ ⟨b', bu'⟩))
    | _, _, _, _ => none
  | ["xyinit", x, y] =>
    match decArg x, decArg y with
    | some x', some y' => some (d, match xyInit x' y' with | .ok _ => "ok" | .error e => errText e)
    | _, _ => none
  | ["xyfrom", x, y, dt] =>
    match decSrc x, decSrc y, (if dt = "-" then some none else dt.toNat?.map some) with
    | some x', some y', some dt' => some (d, match from1d x' y' dt' with | .ok _ => "ok" | .error e => errText e)
    | _, _, _ => none
  | ["xyeq", x1, y1, xu1, yu1, x2, y2, xu2, yu2] =>
    match decNums x1, decNums y1, decStr xu1, decStr yu1, decNums x2, decNums y2, decStr xu2, decStr yu2 with
    | some a, some b, some c, some e, some f, some g, some h, some i =>
      some (d, boolText (XY.eq ⟨a, b, c, e⟩ ⟨f, g, h, i⟩))
    | _, _, _, _, _, _, _, _ => none
  | _ => none

end Model.Units
