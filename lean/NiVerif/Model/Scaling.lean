/-
  Scaled data (hand model around the generated scale-mode code).

  `Gen/Scaling.lean` is regenerated from `waveform/_scaling/_linear.py` and `_none.py` on every run: what
  `LinearScaleMode.__init__` stores for gain / offset (as a composition of `arg_to_float` and `float`) and the
  expression `_transform_data` evaluates.  This file supplies the rest of `get_scaled_data`:
    default / supported scaled dtypes, the window of `get_raw_data`, `_convert_data` (`astype` for analog waveforms,
    `convert_complex` for complex ones), NumPy's result dtype for `array * scalar + scalar` (NEP 50) and the element
    semantics: every operation rounds to the array's precision (24 / 53 significant bits, half to even); a Python
    float operand is first converted to the array's dtype.  Exponent range (overflow, subnormals) is not modelled.
  Tie: tools/props/c11.py (bit-exact comparison in the normal range; exact-rational accuracy bound elsewhere).
-/
import NiVerif.Gen.Scaling
import NiVerif.Model.Complex

namespace Model.Scaling
open Model.Complex Gen.Scaling

def Dy.mul (a b : Dy) : Dy := ⟨a.num * b.num, a.exp + b.exp⟩
def Dy.add (a b : Dy) : Dy :=
  let e := max a.exp b.exp
  ⟨a.num * 2 ^ (e - a.exp) + b.num * 2 ^ (e - b.exp), e⟩
def Dy.sub (a b : Dy) : Dy := Dy.add a ⟨-b.num, b.exp⟩

/-- IEEE operations at precision `p`: the exact result rounded once -/
def ops (p : Nat) : Py.FloatOps Dy :=
  ⟨fun a b => roundDy p (Dy.add a b), fun a b => roundDy p (Dy.sub a b), fun a b => roundDy p (Dy.mul a b)⟩

inductive SDt where
  | f32 | f64 | c64 | c128
  | other (name : String)
  deriving DecidableEq, Repr

def SDt.name : SDt → String
  | .f32 => "float32" | .f64 => "float64" | .c64 => "complex64" | .c128 => "complex128" | .other n => n
def SDt.bits : SDt → Nat
  | .f32 => 24 | .c64 => 24 | _ => 53
def SDt.widen : SDt → SDt
  | .f32 => .f64 | .c64 => .c128 | d => d

/-- NEP 50 result dtype of `array(d) <op> scalar(kind)` for a float / complex array -/
def promote (d : SDt) (k : Py.Kind) : SDt :=
  if k.weak then d
  else match k with
    | .npfloat32 => d | .npfloat16 => d
    | .floatSubclass => d.widen          -- numpy.float64 and every other float subclass: a float64 operand
    | .nplongdouble => .other "longdouble"
    | _ => d

inductive Mode where
  | none
  | linear (gain offset : Dy) (gainKind offsetKind : Py.Kind)   -- the double values and what kind of object was given
  deriving DecidableEq, Repr

inductive WKind where | analog | complex
  deriving DecidableEq, Repr

structure Wf where
  kind : WKind
  rawDt : DT                 -- raw dtype (Model.Complex.DT: complex64 / complex128 / ComplexInt32 / other name)
  data : List Elem           -- real samples are (x, 0)
  mode : Mode
  deriving DecidableEq, Repr

def defaultDtype : WKind → SDt | .analog => .f64 | .complex => .c128
def supportedScaled : WKind → SDt → Bool
  | .analog, .f32 => true | .analog, .f64 => true
  | .complex, .c64 => true | .complex, .c128 => true
  | _, _ => false

/-- `get_raw_data(start_index, sample_count)` bounds -/
def window (n : Nat) (start count : Option Int) : Except PyErr (Nat × Nat) :=
  let s := start.getD 0
  if s < 0 then .error .ValueError
  else if s > n then .error .ValueError
  else
    let c := count.getD (n - s)
    if c < 0 then .error .ValueError
    else if s + c > n then .error .ValueError
    else .ok (s.toNat, c.toNat)

/-- what the scale mode stores for its two arguments (generated), and the dtype the arithmetic then yields -/
def resultDtype (req : SDt) : Mode → Except PyErr SDt
  | .none => .ok req
  | .linear _ _ gk ok =>
    match LinearScaleMode.gain_stored gk ok, LinearScaleMode.offset_stored gk ok with
    | .ok g, .ok o => .ok (promote (promote req g) o)
    | .error e, _ => .error e
    | _, .error e => .error e

/-- `_convert_data`: analog `raw.astype(dtype)`, complex `convert_complex(dtype, raw)` -/
def convertData (w : Wf) (req : SDt) (l : List Elem) : Except PyErr (List Elem) :=
  match w.kind with
  | .analog => .ok (l.map fun e => (roundDy req.bits e.1, e.2))
  | .complex =>
    match convert (if req = .c64 then .c64 else .c128) ⟨w.rawDt, [l.length], l⟩ with
    | .ok a => .ok a.elems
    | .error e => .error e

/-- one element through the scale mode, at precision `p`; a complex sample is multiplied by gain + 0j and offset + 0j
    is added, which scales both parts and adds the offset to the real part -/
def scaleElem (p : Nat) (k : WKind) : Mode → Elem → Elem
  | .none, e => (NoneScaleMode.transform (ops p) e.1, e.2)
  | .linear g o _ _, e =>
    let g' := roundDy p g
    let o' := roundDy p o
    match k with
    | .analog => (LinearScaleMode.transform (ops p) e.1 g' o', e.2)
    | .complex => (LinearScaleMode.transform (ops p) e.1 g' o', (ops p).mul e.2 g')

def getScaled (w : Wf) (req : Option SDt) (start count : Option Int) : Except PyErr (SDt × List Elem) :=
  let dt := req.getD (defaultDtype w.kind)
  if !supportedScaled w.kind dt then .error .TypeError
  else match window w.data.length start count with
    | .error e => .error e
    | .ok (s, c) =>
      match convertData w dt ((w.data.drop s).take c) with
      | .error e => .error e
      | .ok conv =>
        match resultDtype dt w.mode with
        | .error e => .error e
        | .ok rdt => .ok (rdt, conv.map (scaleElem dt.bits w.kind w.mode))

/-- `scaled_data` -/
def scaledData (w : Wf) : Except PyErr (SDt × List Elem) := getScaled w none (some 0) none

/-! ### line protocol -/

def decKind : String → Option Py.Kind
  | "pyfloat" => some .pyfloat | "pyint" => some .pyint | "floatSubclass" => some .floatSubclass
  | "npfloat32" => some .npfloat32 | "npfloat16" => some .npfloat16 | "nplongdouble" => some .nplongdouble
  | "hasFloat" => some .hasFloat | "noFloat" => some .noFloat | _ => none
def decSDt : String → SDt
  | "float32" => .f32 | "float64" => .f64 | "complex64" => .c64 | "complex128" => .c128 | n => .other n
def decMode (s : String) : Option Mode :=
  if s = "none" then some .none
  else match s.splitOn ";" with
    | [g, o, gk, ok] => match decDy g, decDy o, decKind gk, decKind ok with
      | some g', some o', some a, some b => some (.linear g' o' a b)
      | _, _, _, _ => none
    | _ => none
def optI (s : String) : Option (Option Int) := if s = "-" then some none else s.toInt?.map some

def handler : List String → Option String
  | ["scaled", kind, rawdt, elems, mode, req, st, cnt] =>
    match (if kind = "analog" then some WKind.analog else if kind = "complex" then some .complex else none),
          (if elems = "_" then some [] else (elems.splitOn ",").mapM decElem), decMode mode, optI st, optI cnt with
    | some k, some el, some m, some s, some c =>
      match getScaled ⟨k, decDT rawdt, el, m⟩ (if req = "-" then none else some (decSDt req)) s c with
      | .ok (dt, l) => some (s!"ok {dt.name} " ++ (if l = [] then "_" else ",".intercalate (l.map fun e => encDy e.1 ++ ":" ++ encDy e.2)))
      | .error e => some ("err " ++ e.name)
    | _, _, _, _, _ => none
  | ["stored", gk, ok] =>
    match decKind gk, decKind ok with
    | some a, some b =>
      some (match LinearScaleMode.gain_stored a b, LinearScaleMode.offset_stored a b with
        | .ok g, .ok o => s!"ok {repr g} {repr o}"
        | .error e, _ => "err " ++ e.name
        | _, .error e => "err " ++ e.name)
    | _, _ => none
  | _ => none

end Model.Scaling
