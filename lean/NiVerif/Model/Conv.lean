/-
  Conversions between the three timedelta families (hand model composed from generated kernels).

  families:  dt = datetime.timedelta  (integer microseconds, |days| ≤ 999 999 999)
             ht = hightime.timedelta  (integer yoctoseconds, same day range)
             bt = nitypes.bintime.TimeDelta (ticks = 2^-64 s, signed 128 bit)

  What is generated (Gen.TimeDelta): `to_ticks_dt`, `init_check`, `to_datetime_timedelta`,
  `to_hightime_timedelta`.  What is hand-written here: how a datetime.timedelta presents its
  normalised fields, the `ht → bt` leg (`_to_ticks(value.precision_total_seconds())`, a Decimal
  computation that is exact at 64 digits for every hightime value: ≤ 14 integer + 24 fraction
  digits, times 2^64 (20 digits)), and the dt/ht legs of `nitypes.time._conversion`.
  Tie: correspondence in tools/props/c04.py.
-/
import NiVerif.Gen.TimeDelta

namespace Model.Conv
open Gen.TimeDelta

/-- normalised (days, seconds, microseconds) of a datetime.timedelta holding `us` microseconds -/
def dtFields (us : Int) : Int × Int × Int :=
  (us / 86400000000, us % 86400000000 / 1000000, us % 1000000)

/-- `TimeDelta(datetime.timedelta)` -/
def btOfDt (us : Int) : Except PyErr Int :=
  let f := dtFields us
  init_check (to_ticks_dt f.1 f.2.1 f.2.2)

/-- Decimal `divmod(x, 1)` truncates toward zero -/
def truncDiv (a b : Int) : Int := if 0 ≤ a then a / b else -((-a) / b)

/-- `TimeDelta(hightime.timedelta)`: `_to_ticks(Decimal seconds)` on the exact decimal `ys·10^-24` -/
def btTicksOfHt (ys : Int) : Int :=
  let whole := truncDiv ys 1000000000000000000000000
  let frac := ys - whole * 1000000000000000000000000          -- same sign as ys, |frac| < 10^24
  whole * 18446744073709551616 + Py.roundHalfEvenDiv (frac * 18446744073709551616) 1000000000000000000000000

def btOfHt (ys : Int) : Except PyErr Int := init_check (btTicksOfHt ys)

/-- `_convert_to_dt_timedelta(ht.timedelta)`: `dt.timedelta(value.days, value.seconds, value.microseconds)` -/
def dtOfHt (ys : Int) : Except PyErr Int :=
  let us := ys / 1000000000000000000
  let f := dtFields us
  Py.dtTimedelta f.1 f.2.1 f.2.2

/-- `_convert_to_ht_timedelta(dt.timedelta)`: `ht.timedelta(value.days, value.seconds, value.microseconds)` -/
def htOfDt (us : Int) : Except PyErr Int :=
  let f := dtFields us
  Py.htTimedelta f.1 f.2.1 f.2.2 0 0

def dtOfBt (t : Int) : Except PyErr Int := to_datetime_timedelta t
def htOfBt (t : Int) : Except PyErr Int := to_hightime_timedelta t

def dispatch : List String → Option String
  | ["conv", f, a] =>
    match a.toInt? with
    | none => none
    | some x =>
      match f with
      | "btOfDt" => some (Py.render (btOfDt x))
      | "btOfHt" => some (Py.render (btOfHt x))
      | "dtOfHt" => some (Py.render (dtOfHt x))
      | "htOfDt" => some (Py.render (htOfDt x))
      | "dtOfBt" => some (Py.render (dtOfBt x))
      | "htOfBt" => some (Py.render (htOfBt x))
      | _ => none
  | _ => none

end Model.Conv
