/-
  `nitypes.vector.Vector` (hand model): a Python list of scalars of one value type.

  Values carry their Python type; `instOf` is `isinstance` (bool is a subclass of int).  Mirrors
  `vector.py` after the repairs recorded in known_findings.json: the constructor materialises the
  iterable once, takes the value type from the first element (or `value_type` for an empty input),
  rejects non-scalars and items that are not instances of that type; `__setitem__` (int: scalar of the
  value type; slice: every item checked, then list slice assignment), `__delitem__`, `insert`, and the
  MutableSequence mixins (`append` = insert at the end, `extend` / `+=` = one append per item, stopping
  at the first offending item, `pop`, `remove`, `reverse`, `clear`); `==` compares values and units.
  Tie: tools/props/c18.py (three-way with a real Python list).
-/
import NiVerif.Py.ListSpec
import NiVerif.Py.Render

namespace Model.Vector

inductive VT where | bool | int | float | str
  deriving DecidableEq, Repr

/-- a scalar: its Python type and a payload identifying the value -/
structure Val where
  ty : VT
  v : Int
  deriving DecidableEq, Repr

instance : Inhabited VT := ⟨.int⟩
instance : Inhabited Val := ⟨⟨.int, 0⟩⟩

/-- `isinstance(x, T)` for the four scalar types -/
def instOf (x : Val) (t : VT) : Bool := x.ty = t || (x.ty = .bool && t = .int)

structure V where
  vtype : VT
  values : List Val
  units : String
  deriving DecidableEq, Repr

/-- `Vector(iterable, units, value_type=)`; `scalar x = false` marks an item that is not bool/int/float/str -/
def ctor (items : List (Option Val)) (units : String) (valueType : Option VT) : Except PyErr V :=
  match items with
  | [] => match valueType with
    | none => .error .TypeError
    | some t => .ok ⟨t, [], units⟩
  | first :: _ =>
    match first with
    | none => .error .TypeError
    | some f =>
      if items.all (fun x => match x with | some y => instOf y f.ty | none => false) then
        .ok ⟨f.ty, items.filterMap id, units⟩
      else .error .TypeError

def setItem (v : V) (i : Int) (x : Val) : Except PyErr V :=
  if ¬ instOf x v.vtype then .error .TypeError
  else (Py.ListSpec.setItem v.values i x).map fun l => { v with values := l }

def setSlice (v : V) (s e st : Option Int) (xs : List Val) : Except PyErr V :=
  if ¬ xs.all (fun x => instOf x v.vtype) then .error .TypeError
  else (Py.ListSpec.setSlice v.values s e st xs).map fun l => { v with values := l }

def delItem (v : V) (i : Int) : Except PyErr V := (Py.ListSpec.delItem v.values i).map fun l => { v with values := l }
def delSlice (v : V) (s e st : Option Int) : Except PyErr V :=
  (Py.ListSpec.delSlice v.values s e st).map fun l => { v with values := l }

def insert (v : V) (i : Int) (x : Val) : Except PyErr V :=
  if ¬ instOf x v.vtype then .error .TypeError else .ok { v with values := Py.ListSpec.insert v.values i x }

def append (v : V) (x : Val) : Except PyErr V := insert v v.values.length x

/-- `extend` / `+=`: one append per item; the first offending item raises and nothing after it is stored -/
def extend (v : V) : List Val → V × Option PyErr
  | [] => (v, none)
  | x :: xs => match append v x with
    | .ok v' => extend v' xs
    | .error e => (v, some e)

/-- `==`: element lists (Python `==` on scalars: by value across bool/int/float) and units -/
def pyEq (a b : Val) : Bool :=
  match a.ty, b.ty with
  | .str, .str => a.v = b.v
  | .str, _ => false
  | _, .str => false
  | _, _ => a.v = b.v          -- numeric payloads are chosen so that equal numbers have equal payloads

def pop (v : V) (i : Int) : Except PyErr (Val × V) :=
  (Py.ListSpec.pop v.values i).map fun p => (p.1, { v with values := p.2 })
/-- `list.remove(x)`: the first element that compares equal (Python `==`, so `True == 1`) -/
def remove (v : V) (x : Val) : Except PyErr V :=
  let i := v.values.findIdx (fun y => pyEq y x)
  if i < v.values.length then .ok { v with values := v.values.eraseIdx i } else .error .ValueError
def reverse (v : V) : V := { v with values := v.values.reverse }
def clear (v : V) : V := { v with values := [] }

def eq (a b : V) : Bool := a.values.length = b.values.length && (a.values.zip b.values).all (fun p => pyEq p.1 p.2)
  && a.units = b.units

/-! line protocol (stateful): values as `b1 i5 f3 s7 x0` (x = not a scalar) -/
def parseVal (s : String) : Option (Option Val) :=
  match s.toList with
  | c :: rest =>
    match (String.ofList rest).toInt? with
    | some n =>
      if c = 'b' then some (some ⟨.bool, n⟩) else if c = 'i' then some (some ⟨.int, n⟩)
      else if c = 'f' then some (some ⟨.float, n⟩) else if c = 's' then some (some ⟨.str, n⟩)
      else if c = 'x' then some none else none
    | none => none
  | [] => none
def parseVals (s : String) : Option (List (Option Val)) :=
  if s = "[]" then some [] else (((s.replace "[" "").replace "]" "").splitOn ",").mapM parseVal
def renderVal (x : Val) : String :=
  (match x.ty with | .bool => "b" | .int => "i" | .float => "f" | .str => "s") ++ toString x.v
def renderVT : VT → String | .bool => "bool" | .int => "int" | .float => "float" | .str => "str"
def parseVT : String → Option (Option VT)
  | "bool" => some (some .bool) | "int" => some (some .int) | "float" => some (some .float) | "str" => some (some .str)
  | "-" => some none | _ => none
def snap (v : V) : String := s!"{renderVT v.vtype} [" ++ ",".intercalate (v.values.map renderVal) ++ "]"
def optInt (s : String) : Option (Option Int) := if s = "-" then some none else s.toInt?.map some
def res (r : Except PyErr V) (old : V) : V × String :=
  match r with
  | .ok v => (v, "ok " ++ snap v)
  | .error e => (old, "err " ++ e.name ++ " " ++ e.base.name)
def allSome (l : List (Option Val)) : Option (List Val) := l.mapM id

def step (v : V) : List String → Option (V × String)
  | ["vnew", items, vt] => match parseVals items, parseVT vt with
      | some l, some t => some (res (ctor l "" t) v)
      | _, _ => none
  | ["vset", i, x] => match i.toInt?, parseVal x with
      | some j, some (some y) => some (res (setItem v j y) v)
      | some _, some none => some (v, "err TypeError TypeError")
      | _, _ => none
  | ["vsetslice", s, e, st, xs] => match optInt s, optInt e, optInt st, parseVals xs with
      | some s', some e', some st', some l =>
        match allSome l with
        | some ys => some (res (setSlice v s' e' st' ys) v)
        | none => some (v, "err TypeError TypeError")
      | _, _, _, _ => none
  | ["vdel", i] => i.toInt?.map fun j => res (delItem v j) v
  | ["vdelslice", s, e, st] => match optInt s, optInt e, optInt st with
      | some s', some e', some st' => some (res (delSlice v s' e' st') v)
      | _, _, _ => none
  | ["vinsert", i, x] => match i.toInt?, parseVal x with
      | some j, some (some y) => some (res (insert v j y) v)
      | some _, some none => some (v, "err TypeError TypeError")
      | _, _ => none
  | ["vappend", x] => match parseVal x with
      | some (some y) => some (res (append v y) v)
      | some none => some (v, "err TypeError TypeError")
      | none => none
  | ["vextend", xs] => (parseVals xs).map fun l =>
      -- a non-scalar item is an offending item like any other
      let ys := l.map fun o => o.getD ⟨.str, -999⟩
      let bad := l.map Option.isNone
      let rec go (v : V) : List (Val × Bool) → V × Option PyErr
        | [] => (v, none)
        | (y, b) :: rest => if b then (v, some .TypeError) else match append v y with
          | .ok v' => go v' rest
          | .error e => (v, some e)
      let r := go v (ys.zip bad)
      (r.1, match r.2 with | none => "ok " ++ snap r.1 | some e => "err " ++ e.name ++ " " ++ e.base.name ++ " " ++ snap r.1)
  | ["vpop", i] => i.toInt?.map fun j =>
      match pop v j with
      | .ok (x, v') => (v', "ok " ++ renderVal x ++ " " ++ snap v')
      | .error e => (v, "err " ++ e.name ++ " " ++ e.base.name)
  | ["vremove", x] => match parseVal x with
      | some (some y) => some (res (remove v y) v)
      | _ => none
  | ["vreverse"] => some (res (.ok (reverse v)) v)
  | ["vclear"] => some (res (.ok (clear v)) v)
  | ["vsnap"] => some (v, "ok " ++ snap v)
  | _ => none

end Model.Vector
