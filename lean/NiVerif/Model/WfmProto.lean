/-
  Stateful line protocol for the waveform buffer machine: the driver keeps a table of named
  waveforms so that a history is a sequence of lines.  Encodings (no spaces inside a token):
    opt int     `-` or an integer
    rows        `_` (no rows) or rows separated by `|`, values by `;`   e.g. `1;2|3;4`
    arr         dtype:ndim:ncols:owned:rows                              e.g. `3:1:1:1:5|6|7`
    timing      `-` (none given) or mode:interval:tag:stamps  with mode N/R/I, interval `-`/int,
                stamps `_` or comma separated                           e.g. `I:-:0:1,2,3`
    props       `_` or k=hex(v) pairs separated by `;`
-/
import NiVerif.Model.Wfm

namespace Model.WfmProto
open Model.Wfm

def optInt (s : String) : Option (Option Int) := if s = "-" then some none else s.toInt?.map some

def parseRow (s : String) : Option Row := if s = "" then some [] else (s.splitOn ";").mapM fun (x : String) => x.toInt?
def parseRows (s : String) : Option (List Row) := if s = "_" then some [] else (s.splitOn "|").mapM parseRow

def parseArr (s : String) : Option Arr :=
  match s.splitOn ":" with
  | [d, nd, nc, ow, rows] =>
    match d.toNat?, nd.toNat?, nc.toNat?, parseRows rows with
    | some d', some nd', some nc', some r => some ⟨d', nd', r, nc', ow == "1"⟩
    | _, _, _, _ => none
  | _ => none

def parseStamps (s : String) : Option (List Int) :=
  if s = "_" then some [] else (s.splitOn ",").mapM fun (x : String) => x.toInt?

def parseTiming (s : String) : Option (Option WTiming) :=
  if s = "-" then some none
  else match s.splitOn ":" with
    | [m, iv, tag, st] =>
      let mode := if m = "I" then TMode.irregular else if m = "R" then TMode.regular else TMode.none
      match optInt iv, tag.toInt?, parseStamps st with
      | some i, some t, some l => some (some ⟨mode, i, l, t⟩)
      | _, _, _ => none
    | _ => none

def hexVal (c : Char) : Nat :=
  if c.isDigit then c.toNat - '0'.toNat else if 'a' ≤ c ∧ c ≤ 'f' then c.toNat - 'a'.toNat + 10 else 0
def unhex (s : String) : String :=
  let rec go : List Char → List Char
    | a :: b :: rest => Char.ofNat (hexVal a * 16 + hexVal b) :: go rest
    | _ => []
  String.ofList (go s.toList)
def hexDigit (n : Nat) : Char := if n < 10 then Char.ofNat (n + '0'.toNat) else Char.ofNat (n - 10 + 'a'.toNat)
def hex (s : String) : String :=
  String.ofList (s.toList.flatMap fun c => [hexDigit (c.toNat / 16 % 16), hexDigit (c.toNat % 16)])

def parseProps (s : String) : Option (List (String × String)) :=
  if s = "_" then some []
  else (s.splitOn ";").mapM fun (kv : String) =>
    match kv.splitOn "=" with
    | [k, v] => some (k, unhex v)
    | _ => none

def parseKind : String → Option Kind
  | "analog" => some .analog | "complex" => some .complex | "spectrum" => some .spectrum
  | "digital" => some .digital | _ => none

def renderRows (rows : List Row) : String :=
  if rows = [] then "_" else "|".intercalate (rows.map fun r => ";".intercalate (r.map toString))
def renderTiming (t : WTiming) : String :=
  let m := match t.mode with | .none => "N" | .regular => "R" | .irregular => "I"
  let iv := match t.interval with | none => "-" | some i => toString i
  let st := if t.stamps = [] then "_" else ",".intercalate (t.stamps.map toString)
  s!"{m}:{iv}:{st}"
def renderProps (p : List (String × String)) : String :=
  if p = [] then "_" else ";".intercalate (p.map fun kv => kv.1 ++ "=" ++ hex kv.2)
/-- which warning classes were emitted (the number of repetitions is not compared) -/
def renderWarnings (ws : List Warning) : String :=
  let l := (if ws.contains .scalingMismatch then ["S"] else []) ++ (if ws.contains .timingMismatch then ["T"] else [])
  if l = [] then "_" else ",".intercalate l

/-- the observable snapshot of a waveform -/
def snap (w : W) : String :=
  s!"start={w.start} count={w.count} cap={w.capacity} ncols={w.ncols} dtype={w.dtype} data={renderRows w.view} timing={renderTiming w.timing} scale={w.scale} props={renderProps w.props}"

abbrev Table := List (String × W)
def Table.get (t : Table) (n : String) : Option W := (t.find? (·.1 == n)).map (·.2)
def Table.set (t : Table) (n : String) (w : W) : Table := (n, w) :: t.filter (·.1 != n)

def errText (e : PyErr) : String := "err " ++ e.name ++ " " ++ e.base.name

def finish (t : Table) (n : String) (r : Except PyErr W) (extra : String := "") : Table × String :=
  match r with
  | .ok w => (t.set n w, "ok " ++ snap w ++ extra)
  | .error e => (t, errText e)

def step (t : Table) : List String → Option (Table × String)
  | ["wreset"] => some ([], "ok")        -- a new history: forget the objects of the previous one
  | ["wnew", n, k, d, dok, cnt, nc, st, cap, fill, props, tim, sc] =>
    match parseKind k, d.toNat?, optInt cnt, optInt nc, optInt st, optInt cap, fill.toInt?, parseProps props,
          parseTiming tim, sc.toInt? with
    | some k', some d', some c', some n', some s', some p', some f', some pr, some tm, some s2 =>
      some (finish t n (ctorNew k' d' (dok == "1") c' n' s' p' f' pr tm s2))
    | _, _, _, _, _, _, _, _, _, _ => none
  | ["warr", n, k, arr, dreq, dok, st, cnt, nc, cap, props, tim, sc] =>
    match parseKind k, parseArr arr, optInt dreq, optInt st, optInt cnt, optInt nc, optInt cap, parseProps props,
          parseTiming tim, sc.toInt? with
    | some k', some a, some dr, some s', some c', some n', some p', some pr, some tm, some s2 =>
      some (finish t n (ctorArr k' a (dr.map Int.toNat) (dok == "1") s' c' n' p' pr tm s2))
    | _, _, _, _, _, _, _, _, _, _ => none
  | ["wappa", n, arr, ts, tok] =>
    match t.get n, parseArr arr, (if ts = "-" then some none else (parseStamps ts).map some) with
    | some w, some a, some l => some (finish t n (appendArray w a l (tok == "1")))
    | _, _, _ => none
  | ["wappw", n, others] =>
    match t.get n, (others.splitOn ",").mapM (fun (x : String) => t.get x) with
    | some w, some os =>
      match appendWaveforms w os with
      | .ok (w', ws) => some (t.set n w', "ok " ++ snap w' ++ " warn=" ++ renderWarnings ws)
      | .error e => some (t, errText e)
    | _, _ => none
  | ["wload", n, arr, copy, st, cnt] =>
    match t.get n, parseArr arr, optInt st, optInt cnt with
    | some w, some a, some s', some c' => some (finish t n (loadData w a (copy == "1") s' c'))
    | _, _, _, _ => none
  | ["wsetcount", n, v] =>
    match t.get n, optInt v with
    | some w, some v' => some (finish t n (setCount w v'))
    | _, _ => none
  | ["wsetcap", n, v] =>
    match t.get n, optInt v with
    | some w, some v' => some (finish t n (setCapacity w v'))
    | _, _ => none
  | ["wsettiming", n, tim] =>
    match t.get n, parseTiming tim with
    | some w, some (some tm) => some (finish t n (setTiming w tm))
    | _, _ => none
  | ["wwrite", n, i, row] =>
    match t.get n, i.toInt?, parseRow row with
    | some w, some i', some r => some (finish t n (writeView w i' r))
    | _, _, _ => none
  | ["wget", n, st, cnt] =>
    match t.get n, optInt st, optInt cnt with
    | some w, some s', some c' =>
      match getData w s' c' with
      | .ok rows => some (t, "ok " ++ renderRows rows)
      | .error e => some (t, errText e)
    | _, _, _ => none
  | ["wpickle", n, m] =>
    match t.get n with
    | some w => some (finish t m (pickle w))
    | none => none
  | ["wsnap", n] => (t.get n).map fun w => (t, "ok " ++ snap w)
  | _ => none

end Model.WfmProto
