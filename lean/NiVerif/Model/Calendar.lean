/-
  The proleptic Gregorian calendar as CPython computes it (hand model, import-free).

  `ord2ymd` follows `_pydatetime._ord2ymd` / `ord_to_ymd` in `_datetimemodule.c` statement by
  statement (the divmod chain by 146097 / 36524 / 1461 / 365, the month estimate `(n + 50) >> 5`
  and its correction); `ymd2ord` is `_ymd2ord`.  `date.fromordinal` / `date.toordinal` are what
  hightime (and therefore bintime.DateTime.year/month/day) delegate to.

  Tie: tools/props/c14.py compares `ord2ymd`/`ymd2ord` with `datetime.date.fromordinal` /
  `.toordinal()` — on all 3 652 059 ordinals in the thorough tier.
-/
import NiVerif.Py.Render

namespace Model.Calendar

def isLeap (y : Int) : Bool := y % 4 = 0 ∧ (y % 100 ≠ 0 ∨ y % 400 = 0)

/-- days before January 1st of `year` (number of days in years 1 .. year-1) -/
def daysBeforeYear (year : Int) : Int :=
  let y := year - 1
  y * 365 + y / 4 - y / 100 + y / 400

/-- `_DAYS_BEFORE_MONTH[month]` (non-leap) -/
def dbmTable (m : Int) : Int :=
  if m = 1 then 0 else if m = 2 then 31 else if m = 3 then 59 else if m = 4 then 90
  else if m = 5 then 120 else if m = 6 then 151 else if m = 7 then 181 else if m = 8 then 212
  else if m = 9 then 243 else if m = 10 then 273 else if m = 11 then 304 else if m = 12 then 334 else -1

/-- `_DAYS_IN_MONTH[month]` (non-leap) -/
def dimTable (m : Int) : Int :=
  if m = 2 then 28 else if m = 4 ∨ m = 6 ∨ m = 9 ∨ m = 11 then 30
  else if 1 ≤ m ∧ m ≤ 12 then 31 else -1

def b2i (b : Bool) : Int := if b then 1 else 0

def daysInMonth (y m : Int) : Int := if m = 2 ∧ isLeap y then 29 else dimTable m
def daysBeforeMonth (y m : Int) : Int := dbmTable m + b2i (decide (m > 2) && isLeap y)

/-- `_ymd2ord`: ordinal of a date, 0001-01-01 = 1 -/
def ymd2ord (y m d : Int) : Int := daysBeforeYear y + daysBeforeMonth y m + d

def validYmd (y m d : Int) : Prop := 1 ≤ y ∧ y ≤ 9999 ∧ 1 ≤ m ∧ m ≤ 12 ∧ 1 ≤ d ∧ d ≤ daysInMonth y m

/-- `_ord2ymd` -/
def ord2ymd (ordinal : Int) : Int × Int × Int :=
  let n := ordinal - 1
  let n400 := n / 146097
  let n := n % 146097
  let year := n400 * 400 + 1
  let n100 := n / 36524
  let n := n % 36524
  let n4 := n / 1461
  let n := n % 1461
  let n1 := n / 365
  let n := n % 365
  let year := year + (n100 * 100 + n4 * 4 + n1)
  if n1 = 4 ∨ n100 = 4 then (year - 1, 12, 31)
  else
    let leapyear : Bool := decide (n1 = 3) && (decide (n4 ≠ 24) || decide (n100 = 3))
    let month := (n + 50) / 32
    let preceding := dbmTable month + b2i (decide (month > 2) && leapyear)
    if preceding > n then
      let month := month - 1
      let preceding := preceding - (dimTable month + b2i (decide (month = 2) && leapyear))
      (year, month, n - preceding + 1)
    else (year, month, n - preceding + 1)

abbrev MAX_ORDINAL : Int := 3652059

def dispatch : List String → Option String
  | ["cal", "ord2ymd", n] => n.toInt?.map fun x => Py.render (ord2ymd x)
  | ["cal", "ymd2ord", y, m, d] =>
    match y.toInt?, m.toInt?, d.toInt? with
    | some a, some b, some c => some (Py.render (ymd2ord a b c))
    | _, _, _ => none
  | ["cal", "range", a, b] =>
    -- a compact stream for the exhaustive tier: one line with all triples of ordinals a..b-1
    match a.toInt?, b.toInt? with
    | some lo, some hi =>
      some (" ".intercalate ((List.range (hi - lo).toNat).map fun (i : Nat) =>
        let r := ord2ymd (lo + (i : Int)); s!"{r.1}-{r.2.1}-{r.2.2}"))
    | _, _ => none
  | _ => none

end Model.Calendar
