/-
  Digital signal names (hand model): the NI_LineNames extended property, the lazily built name cache of
  DigitalWaveform and the key-changed notification that invalidates it.

  Mirrors `_get_line_names` (split on ',', `str.strip()` each entry, pad with '' up to signal_count,
  cached), `_get_line_name`, `_set_line_name` (update the cached list, write `", ".join(names)` back to
  the property — which notifies and drops the cache), `ExtendedPropertyDictionary.__setitem__ /
  __delitem__ / _merge` (notify), `DigitalWaveformSignalCollection.__getitem__(str)` (search the first
  signal_count names, IndexError if absent) and `_reverse_index` (signal i ↔ column n-1-i).
  Strings are lists of characters; `isWs` is the set of characters `str.strip()` removes.
  Tie: tools/props/c15.py.
-/
import NiVerif.Py.Err
import NiVerif.Py.Render

namespace Model.Names

abbrev Str := List Char

/-- the characters Python's `str.strip()` removes (str.isspace) -/
def isWs (c : Char) : Bool :=
  let n := c.toNat
  (9 ≤ n && n ≤ 13) || (28 ≤ n && n ≤ 32) || n == 133 || n == 160 || n == 5760 || (8192 ≤ n && n ≤ 8202)
  || n == 8232 || n == 8233 || n == 8239 || n == 8287 || n == 12288

def strip (s : Str) : Str := ((s.dropWhile isWs).reverse.dropWhile isWs).reverse

/-- `s.split(",")` -/
def splitComma : Str → List Str
  | [] => [[]]
  | c :: cs =>
    if c = ',' then [] :: splitComma cs
    else match splitComma cs with
      | [] => [[c]]
      | h :: t => (c :: h) :: t

/-- `", ".join(names)` -/
def joinNames : List Str → Str
  | [] => []
  | [x] => x
  | x :: y :: ys => x ++ (',' :: ' ' :: joinNames (y :: ys))

/-- `_get_line_names` without the cache: parsed, stripped, padded to the signal count -/
def parse (prop : Option Str) (nsig : Nat) : List Str :=
  let l := (splitComma (prop.getD [])).map strip
  l ++ List.replicate (nsig - l.length) []

structure N where
  nsig : Nat
  prop : Option Str          -- the NI_LineNames entry of the extended properties (none = absent)
  cache : Option (List Str)  -- `_line_names`
  deriving DecidableEq, Repr

def names (n : N) : N × List Str :=
  match n.cache with
  | some c => (n, c)
  | none => let c := parse n.prop n.nsig; ({ n with cache := some c }, c)

/-- `signals[i].name` (i already normalised to 0 ≤ i < nsig) -/
def readName (n : N) (i : Nat) : N × Str :=
  let (n1, l) := names n
  (n1, l.getD (n.nsig - 1 - i) [])

/-- `signals[i].name = v` -/
def writeName (n : N) (i : Nat) (v : Str) : N :=
  let (n1, l) := names n
  let l' := l.set (n.nsig - 1 - i) v
  { n1 with prop := some (joinNames l'), cache := none }

/-- `extended_properties["NI_LineNames"] = v` / `del extended_properties["NI_LineNames"]` -/
def setProp (n : N) (v : Option Str) : N := { n with prop := v, cache := none }

/-- append() merging the properties of a source: only if the receiver has no NI_LineNames entry -/
def mergeProp (n : N) (v : Option Str) : N :=
  match n.prop, v with
  | none, some s => { n with prop := some s, cache := none }
  | _, _ => n

/-- pickling: the cache is not part of the state -/
def pickle (n : N) : N := { n with cache := none }

/-- `list.index(x)` as an option -/
def indexOf : List Str → Str → Option Nat
  | [], _ => none
  | y :: ys, x => if y = x then some 0 else (indexOf ys x).map (· + 1)

/-- `signals[name]`: the signal index carrying that name, or IndexError -/
def lookup (n : N) (name : Str) : N × Except PyErr Nat :=
  let (n1, l) := names n
  match indexOf (l.take n.nsig) name with
  | some col => (n1, .ok (n.nsig - 1 - col))
  | none => (n1, .error .IndexError)

/-! line protocol (stateful): names are hex-encoded UTF-8-free code point lists `u<hex>;u<hex>…` -/
def decodeStr (s : String) : Str :=
  if s = "_" then [] else (s.splitOn ".").filterMap fun (t : String) => (t.toNat?).map Char.ofNat
def encodeStr (s : Str) : String := if s = [] then "_" else ".".intercalate (s.map fun c => toString c.toNat)

def step (n : N) : List String → Option (N × String)
  | ["nnew", k, p] =>
    k.toNat?.map fun nsig => (⟨nsig, if p = "-" then none else some (decodeStr p), none⟩, "ok")
  | ["nread", i] => i.toNat?.map fun j => let r := readName n j; (r.1, "ok " ++ encodeStr r.2)
  | ["nwrite", i, v] => i.toNat?.map fun j => (writeName n j (decodeStr v), "ok")
  | ["nset", v] => some (setProp n (if v = "-" then none else some (decodeStr v)), "ok")
  | ["nmerge", v] => some (mergeProp n (if v = "-" then none else some (decodeStr v)), "ok")
  | ["npickle"] => some (pickle n, "ok")
  | ["nlookup", v] =>
    let r := lookup n (decodeStr v)
    some (r.1, match r.2 with | .ok i => s!"ok {i}" | .error e => "err " ++ e.name ++ " " ++ e.base.name)
  | ["nprop"] => some (n, match n.prop with | none => "ok -" | some s => "ok " ++ encodeStr s)
  | _ => none

end Model.Names
