/-
  Specification of the text of a duration given in units of 10⁻¹⁸ s, in `datetime.timedelta` style:
  `[D day[s], ]H:MM:SS[.f…]` with up to 18 fraction digits and trailing zeros stripped.
  Tie: compared by tools/props/c14.py with `str(datetime.timedelta)` (fraction zeros normalised) on
  microsecond multiples and with an independent Python renderer elsewhere.
-/
import NiVerif.Py.Time
import NiVerif.Py.Render

namespace Model.TdText

/-- the value shown by `str(TimeDelta)`, in units of 10⁻¹⁸ s: the exact value rounded to the nearest unit -/
def total18 (t : Int) : Int := (t * 1000000000000000000 + 9223372036854775808) / 18446744073709551616

def renderTd18 (x : Int) : String :=
  let whole := x / 1000000000000000000
  let f := x % 1000000000000000000
  let days := whole / 86400
  let secs := whole % 86400
  let hours := secs / 60 / 60
  let minutes := secs / 60 % 60
  let seconds := secs % 60
  let s := (if (Py.abs days) = 1 then ((Py.str days) ++ " day, ") else (if days ≠ 0 then ((Py.str days) ++ " days, ") else ""))
  let s := (s ++ ((Py.str hours) ++ ":" ++ (Py.fmtZero minutes 2) ++ ":" ++ (Py.fmtZero seconds 2)))
  if f ≠ 0 then (s ++ (Py.rstripChar ("." ++ (Py.fmtZero f 18)) '0')) else s

def dispatch : List String → Option String
  | ["tdtext", "render18", a] => a.toInt?.map fun x => Py.render (renderTd18 x)
  | ["tdtext", "total18", a] => a.toInt?.map fun x => Py.render (total18 x)
  | _ => none

end Model.TdText
