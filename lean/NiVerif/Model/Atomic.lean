/-
  Atomicity of the mutating waveform methods, over the effect traces generated from the source (Gen/Atomic.lean, T7).

  The criterion: on no path through the method may a statement that can raise be reached after a statement that changed
  observable state.  Which statements can raise depends on the buffer the object holds:
    * `check`, `mergeTiming`, `fail` can always raise (they change nothing);
    * `checkWritable` raises iff the buffer is read-only;
    * `resize` raises iff the buffer does not own its memory (NumPy refuses), otherwise it changes the capacity;
    * `copy` raises iff the buffer is read-only (NumPy refuses); it writes behind the window, which is not observable
      until the sample count is raised;
    * the growth branch is taken iff the capacity does not suffice;
    * setTiming / setCount / setStart / adopt / adoptAlias / mergeProps change observable state and cannot raise.
  A loop body is run twice (one or zero iterations are sub-sequences of two, and removing statements cannot create a
  "raise after change"); both sides of a branch are followed.
  Tie: the traces are regenerated from /repo on every run; the classification of statements is the translator's
  (tools/pylean/translate.py, translate_effect_traces) and is closed — an unknown statement shape stops the generation.
-/
import NiVerif.Gen.Atomic

namespace Model.Atomic
open Py

structure Env where
  owner : Bool        -- the buffer owns its memory (resizable in place)
  writable : Bool     -- the buffer is writable
  needGrow : Bool     -- the requested size exceeds the capacity
  deriving DecidableEq, Repr

/-- the statements up to the marker `close` that matches an already consumed `open`, and the rest -/
def splitMatching (opn close : Eff) : Nat → List Eff → List Eff × List Eff
  | _, [] => ([], [])
  | d, e :: r =>
    if e = close then
      if d = 0 then ([], r) else let (a, b) := splitMatching opn close (d - 1) r; (e :: a, b)
    else if e = opn then let (a, b) := splitMatching opn close (d + 1) r; (e :: a, b)
    else let (a, b) := splitMatching opn close d r; (e :: a, b)

/-- then-part, else-part and rest of a `branchBegin … branchElse … branchEnd` whose `branchBegin` was consumed -/
def splitBranch (l : List Eff) : List Eff × List Eff × List Eff :=
  let (whole, rest) := splitMatching .branchBegin .branchEnd 0 l
  let rec cut : Nat → List Eff → List Eff × List Eff
    | _, [] => ([], [])
    | d, e :: r =>
      if e = .branchElse ∧ d = 0 then ([], r)
      else
        let d' := if e = .branchBegin then d + 1 else if e = .branchEnd then d - 1 else d
        let (a, b) := cut d' r
        (e :: a, b)
  let (t, f) := cut 0 whole
  (t, f, rest)

/-- `safe env grow fuel changed trace`: no statement that can raise is reachable after observable state changed -/
def safe (env : Env) (grow : List Eff) : Nat → Bool → List Eff → Bool
  | 0, _, _ => false                      -- out of fuel: not shown safe
  | _, _, [] => true
  | f + 1, m, e :: r =>
    match e with
    | .check | .mergeTiming => !m && safe env grow f m r
    | .fail => !m
    | .warn | .local => safe env grow f m r
    | .checkWritable => if env.writable then safe env grow f m r else !m
    | .resize => if env.owner then safe env grow f true r else !m
    | .copy => if env.writable then safe env grow f m r else !m
    | .callGrow => safe env grow f m (grow ++ r)
    | .setTiming | .setCount | .setStart | .adopt | .adoptAlias | .mergeProps => safe env grow f true r
    | .ifNeedGrowBegin =>
      let (body, rest) := splitMatching .ifNeedGrowBegin .ifNeedGrowEnd 0 r
      if env.needGrow then safe env grow f m (body ++ rest) else safe env grow f m rest
    | .loopBegin =>
      let (body, rest) := splitMatching .loopBegin .loopEnd 0 r
      safe env grow f m (body ++ body ++ rest)
    | .branchBegin =>
      let (t, e', rest) := splitBranch r
      safe env grow f m (t ++ rest) && safe env grow f m (e' ++ rest)
    | .loopEnd | .ifNeedGrowEnd | .branchElse | .branchEnd => safe env grow f m r

/-- a method is atomic when its trace is safe from an unchanged state in every environment -/
def atomic (grow trace : List Eff) : Bool :=
  [true, false].all fun o => [true, false].all fun w => [true, false].all fun g => safe ⟨o, w, g⟩ grow 400 false trace

end Model.Atomic
