/-
  Complex-integer conversion (hand model over the generated dtype tables).

  Mirrors `convert_complex` / `_convert_complexint32_array`:
    validate the requested dtype against `_COMPLEX_DTYPES` (TypeError), return the input for the same dtype, for a
    ComplexInt32 source or target reinterpret the array as its field dtype (`view`: re0, im0, re1, im1, …), convert every
    field (`astype`) and reinterpret as the requested dtype; otherwise `astype`.
  `_COMPLEX_DTYPES`, `_FIELD_DTYPE` and the field list of `ComplexInt32DType` are generated from the source
  (Gen/ComplexDtypes.lean); this file gives them their NumPy meaning.

  Numbers are dyadic rationals num / 2^exp (every finite binary float is one, exactly).  int → float and
  float64 → float32 round the numerator to 24 / 53 significant bits, half to even (IEEE round-to-nearest; the exponent
  range — overflow, subnormals — is not modelled); float → int16 truncates toward zero (C cast; values outside the
  int16 range wrap here, which the property does not speak about).
  Tie: tools/props/c05.py (NumPy is the runtime: exhaustive over all 2^32 ComplexInt32 values in the thorough tier).
-/
import NiVerif.Gen.ComplexDtypes

namespace Model.Complex
open Gen.ComplexDtypes

structure Dy where
  num : Int
  exp : Nat
  deriving DecidableEq, Repr

inductive DT where
  | c64 | c128 | ci32
  | other (name : String)      -- any other dtype (float64, int32, …)
  deriving DecidableEq, Repr

def DT.name : DT → String
  | .c64 => "complex64" | .c128 => "complex128" | .ci32 => "ComplexInt32DType" | .other n => n

def lookup (k : String) : List (String × String) → Option String
  | [] => none
  | (a, b) :: r => if a = k then some b else lookup k r

/-- `validate_dtype(requested_dtype, _COMPLEX_DTYPES)` -/
def supported (d : DT) : Bool := COMPLEX_DTYPES_table.contains d.name
/-- `_FIELD_DTYPE.get(dtype)` -/
def fieldOf (d : DT) : Option String := lookup d.name FIELD_DTYPE_table

/-- significant bits of a float field dtype; 0 marks an integer field -/
def fieldBits : String → Option Nat
  | "float32" => some 24 | "float64" => some 53 | "int16" => some 0 | _ => none

def bitlen (n : Nat) : Nat := if n = 0 then 0 else n.log2 + 1

/-- round a natural number to `p` significant bits, half to even -/
def roundNat (p m : Nat) : Nat :=
  if bitlen m ≤ p then m
  else
    let s := bitlen m - p
    let q := m / 2 ^ s
    let r := m % 2 ^ s
    let half := 2 ^ (s - 1)
    (if r > half ∨ (r = half ∧ q % 2 = 1) then q + 1 else q) * 2 ^ s

def roundDy (p : Nat) (x : Dy) : Dy := ⟨(if x.num < 0 then -1 else 1) * (roundNat p x.num.natAbs : Int), x.exp⟩

/-- C truncation toward zero -/
def truncDy (x : Dy) : Int := Int.tdiv x.num (2 ^ x.exp)
def wrap16 (t : Int) : Int := (t + 32768) % 65536 - 32768

/-- `astype` of one field value from field dtype `src` to `dst` -/
def fieldConv (dst : String) (x : Dy) : Dy :=
  match fieldBits dst with
  | some 0 => ⟨wrap16 (truncDy x), 0⟩
  | some p => roundDy p x
  | none => x

abbrev Elem := Dy × Dy

def interleave : List Elem → List Dy
  | [] => []
  | (a, b) :: r => a :: b :: interleave r
def deinterleave : List Dy → List Elem
  | a :: b :: r => (a, b) :: deinterleave r
  | _ => []

structure Arr where
  dtype : DT
  shape : List Nat
  elems : List Elem          -- C order
  deriving DecidableEq, Repr

/-- the conversion of the element list between two different dtypes -/
def convertElems (req src : DT) (l : List Elem) : Except PyErr (List Elem) :=
  if req = .ci32 ∨ src = .ci32 then
    match fieldOf req, fieldOf src with
    | some fr, some _ => .ok (deinterleave ((interleave l).map (fieldConv fr)))
    | _, _ => .error .TypeError
  else
    match fieldOf req with
    | some fr => .ok (l.map fun e => (fieldConv fr e.1, fieldConv fr e.2))
    | none => .error .TypeError

def convert (req : DT) (a : Arr) : Except PyErr Arr :=
  if !supported req then .error .TypeError
  else if req = a.dtype then .ok a
  else match convertElems req a.dtype a.elems with
    | .ok l => .ok ⟨req, a.shape, l⟩
    | .error e => .error e

/-- a strided / transposed / reversed view: the elements at positions `ks`, in that order -/
def gather (l : List Elem) (ks : List Nat) : List Elem := ks.filterMap fun k => l[k]?

/-- packed structured dtype layout: (name, offset, size) per field and the item size -/
def sizeOf : String → Nat
  | "int16" => 2 | "uint16" => 2 | "int8" => 1 | "uint8" => 1 | "int32" => 4 | "uint32" => 4 | "float32" => 4
  | "int64" => 8 | "uint64" => 8 | "float64" => 8 | _ => 0
def layoutFrom (off : Nat) : List (String × String) → List (String × Nat × String) × Nat
  | [] => ([], off)
  | (n, t) :: r => let (l, tot) := layoutFrom (off + sizeOf t) r; ((n, off, t) :: l, tot)
def layout (fields : List (String × String)) := layoutFrom 0 fields

/-! ### the array expressions of `convert_complex` (vocabulary of Gen/ComplexConvert.lean) -/

def size (shape : List Nat) : Nat := shape.foldr (· * ·) 1
/-- well-formed array: as many elements as the shape says -/
def Arr.WF (a : Arr) : Prop := a.elems.length = size a.shape

/-- `value.reshape(1)`: only a one-element array fits -/
def reshape1 (a : Arr) : Except PyErr Arr :=
  if a.elems.length = 1 then .ok { a with shape := [1] } else .error .ValueError
/-- `x[0]`: the first sub-array along axis 0 (a 0-d result is the NumPy scalar) -/
def index0 (a : Arr) : Except PyErr Arr :=
  match a.shape with
  | [] => .error .IndexError
  | d :: rest => if d = 0 then .error .IndexError else .ok ⟨a.dtype, rest, a.elems.take (size rest)⟩

/-- an array seen through its field dtype: the last axis doubles (re0, im0, re1, im1, …) -/
structure FArr where
  field : String
  shape : List Nat           -- of the complex array it views
  vals : List Dy
  deriving DecidableEq, Repr
/-- `value.view(field_dtype)` -/
def viewFields (f : String) (a : Arr) : FArr := ⟨f, a.shape, interleave a.elems⟩
/-- `.astype(field_dtype)` on the field view -/
def FArr.astype (f : String) (x : FArr) : FArr := ⟨f, x.shape, x.vals.map (fieldConv f)⟩
/-- `.view(requested_dtype)` back to complex elements -/
def viewAs (req : DT) (x : FArr) : Arr := ⟨req, x.shape, deinterleave x.vals⟩
/-- `value.astype(requested_dtype)` between the two float complex dtypes: both parts converted -/
def astypeArr (req : DT) (a : Arr) : Except PyErr Arr :=
  match fieldOf req with
  | some fr => .ok ⟨req, a.shape, a.elems.map fun e => (fieldConv fr e.1, fieldConv fr e.2)⟩
  | none => .error .TypeError

/-! ### line protocol -/

def normDy (x : Dy) : Dy :=
  let rec go (fuel : Nat) (n : Int) (e : Nat) : Dy :=
    match fuel with
    | 0 => ⟨n, e⟩
    | f + 1 => if e > 0 ∧ n % 2 = 0 ∧ n ≠ 0 then go f (n / 2) (e - 1) else if n = 0 then ⟨0, 0⟩ else ⟨n, e⟩
  go (x.exp + 1) x.num x.exp

def decDy (s : String) : Option Dy :=
  match s.splitOn "/" with
  | [a, b] => match a.toInt?, b.toNat? with | some x, some y => some ⟨x, y⟩ | _, _ => none
  | _ => none
def encDy (x : Dy) : String := let y := normDy x; s!"{y.num}/{y.exp}"
def decElem (s : String) : Option Elem :=
  match s.splitOn ":" with
  | [a, b] => match decDy a, decDy b with | some x, some y => some (x, y) | _, _ => none
  | _ => none
def decDT : String → DT
  | "complex64" => .c64 | "complex128" => .c128 | "ComplexInt32DType" => .ci32 | n => .other n
def decShape (s : String) : Option (List Nat) := if s = "_" then some [] else (s.splitOn "x").mapM fun (t : String) => t.toNat?
def encShape (l : List Nat) : String := if l = [] then "_" else "x".intercalate (l.map toString)

/-- decode one conversion request, run `f` (the hand model or the generated `convert_complex`), encode the outcome -/
def runConv (f : DT → Arr → Except PyErr Arr) (req src shape elems : String) : Option String :=
    match decShape shape, (if elems = "_" then some [] else (elems.splitOn ",").mapM decElem) with
    | some sh, some el =>
      match f (decDT req) ⟨decDT src, sh, el⟩ with
      | .ok r => some (s!"ok {r.dtype.name} {encShape r.shape} " ++
          (if r.elems = [] then "_" else ",".intercalate (r.elems.map fun e => encDy e.1 ++ ":" ++ encDy e.2)))
      | .error e => some ("err " ++ e.name)
    | _, _ => none

def handler : List String → Option String
  | ["cconv", req, src, shape, elems] => runConv convert req src shape elems
  | ["clayout"] =>
    let (l, tot) := layout ComplexInt32DType_fields
    some (s!"ok itemsize={tot} " ++ ",".intercalate (l.map fun (n, o, t) => s!"{n}@{o}:{t}"))
  | _ => none

end Model.Complex
