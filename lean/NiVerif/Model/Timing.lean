/-
  `nitypes.waveform.Timing` (hand model): construction/validation per sample-interval mode, member
  access, equality, `get_timestamps`, `start_time`, and the monotonicity scan of irregular timing.

  Time values are integers of ONE family (datetime: µs, hightime: ys, bintime: ticks); a family is
  given by the ranges of its absolute and relative values, and `datetime + timedelta` /
  `int * timedelta` refuse (OverflowError) outside them — this is what CPython, hightime and
  bintime (C03) do.  Mirrors, statement by statement:
    * `validate_init_args` of the three strategies (_none.py, _regular.py, _irregular.py) and
      `create_sample_interval_strategy` (unknown mode → ValueError);
    * `_are_timestamps_monotonic` / `_get_direction` (the `direction` accumulator loop);
    * `Timing.get_timestamps` argument checks, `RegularSampleIntervalStrategy._generate_regular_timestamps`
      (`timestamp = start_time + start_index * sample_interval`, then `+= sample_interval` per item),
      `IrregularSampleIntervalStrategy.get_timestamps` (window check + slice).
  Tie: tools/props/c20.py runs the real constructor on the whole argument-kind matrix (exhaustive);
  tools/props/c08.py compares get_timestamps/start_time on real dt/ht/bt values.
-/
import NiVerif.Py.Err
import NiVerif.Py.Render

namespace Model.Timing

inductive Mode where | none | regular | irregular | unknown
  deriving DecidableEq, Repr

inductive FamTag where | dt | ht | bt
  deriving DecidableEq, Repr

/-- an element of a `timestamps` sequence: a datetime of some family, or something else -/
inductive Elem where | ts (f : FamTag) (v : Int) | bad
  deriving DecidableEq, Repr

/-- what can be passed for a Timing member -/
inductive Arg where
  | absent                                  -- None
  | datetime (f : FamTag) (v : Int)
  | timedelta (f : FamTag) (v : Int)
  | seq (elems : List Elem)                 -- a `Sequence` (list/tuple)
  | other                                   -- any other object (int, str-free scalar, generator, …)
  deriving DecidableEq, Repr

def Arg.isNone : Arg → Bool | .absent => true | _ => false
def Arg.isDatetime : Arg → Bool | .datetime _ _ => true | _ => false
def Arg.isTimedelta : Arg → Bool | .timedelta _ _ => true | _ => false
def Elem.isTs : Elem → Bool | .ts _ _ => true | .bad => false
def Elem.val : Elem → Int | .ts _ v => v | .bad => 0
def Arg.isSeq : Arg → Bool | .seq _ => true | _ => false
/-- the elements of a sequence argument (nothing for the other kinds, which the code never iterates) -/
def Arg.elems : Arg → List Elem | .seq l => l | _ => []
/-- the timestamp values of a sequence argument, as the monotonicity scan reads them -/
def Arg.elemVals (a : Arg) : List Int := a.elems.map Elem.val

/-- `_get_direction`: INCREASING = -1, UNKNOWN = 0, DECREASING = 1 -/
def direction (l r : Int) : Int := if l < r then -1 else if r < l then 1 else 0

/-- the body of the `for i in range(1, len(timestamps))` loop with its `direction` accumulator -/
def monoLoop (dir : Int) (prev : Int) : List Int → Bool
  | [] => true
  | x :: xs =>
    let c := direction prev x
    if c = 0 then monoLoop dir x xs
    else if dir = 0 then monoLoop c x xs
    else if c ≠ dir then false
    else monoLoop dir x xs

/-- `_are_timestamps_monotonic` -/
def areMonotonic : List Int → Bool
  | [] => true
  | x :: xs => monoLoop 0 x xs

structure T where
  mode : Mode
  timestamp : Arg
  offset : Arg
  interval : Arg
  stamps : Option (List Elem)
  deriving DecidableEq, Repr

/-- `validate_unsupported_arg` -/
def unsupported (a : Arg) : Except PyErr Unit := if a.isNone then .ok () else .error .ValueError

/-- `Timing.__init__`: strategy lookup, `validate_init_args`, then the members are stored as given
    (the timestamps sequence is copied into a list) -/
def ctor (mode : Mode) (timestamp offset interval stamps : Arg) : Except PyErr T :=
  match mode with
  | .unknown => .error .ValueError
  | .none =>
    if ¬ (timestamp.isDatetime ∨ timestamp.isNone) then .error .TypeError
    else if ¬ (offset.isTimedelta ∨ offset.isNone) then .error .TypeError
    else (unsupported interval).bind fun _ => (unsupported stamps).bind fun _ =>
      .ok ⟨mode, timestamp, offset, interval, none⟩
  | .regular =>
    if ¬ (timestamp.isDatetime ∨ timestamp.isNone) then .error .TypeError
    else if ¬ (offset.isTimedelta ∨ offset.isNone) then .error .TypeError
    else if ¬ interval.isTimedelta then .error .TypeError
    else (unsupported stamps).bind fun _ => .ok ⟨mode, timestamp, offset, interval, none⟩
  | .irregular =>
    (unsupported timestamp).bind fun _ => (unsupported offset).bind fun _ => (unsupported interval).bind fun _ =>
      match stamps with
      | .seq elems =>
        if ¬ elems.all Elem.isTs then .error .TypeError
        else if ¬ areMonotonic (elems.map Elem.val) then .error .ValueError
        else .ok ⟨mode, timestamp, offset, interval, some elems⟩
      | _ => .error .TypeError

def T.hasTimestamp (t : T) : Bool := ¬ t.timestamp.isNone
def T.hasStartTime (t : T) : Bool := t.hasTimestamp
def T.hasOffset (t : T) : Bool := ¬ t.offset.isNone
def T.hasInterval (t : T) : Bool := ¬ t.interval.isNone
/-- reading a member: the value, or RuntimeError when absent -/
def member (a : Arg) : Except PyErr Arg := if a.isNone then .error .RuntimeError else .ok a

def empty : T := ⟨.none, .absent, .absent, .absent, none⟩

/-! ### timestamps (single family) -/

/-- value ranges of a family: absolute values and durations -/
structure Fam where
  absLo : Int
  absHi : Int     -- exclusive
  relLo : Int
  relHi : Int     -- exclusive

def famDt : Fam := ⟨0, 3652059 * 86400000000, -999999999 * 86400000000, 1000000000 * 86400000000⟩
def famHt : Fam :=
  ⟨0, 3652059 * 86400000000000000000000000000, -999999999 * 86400000000000000000000000000,
   1000000000 * 86400000000000000000000000000⟩
def famBt : Fam :=
  ⟨-170141183460469231731687303715884105728, 170141183460469231731687303715884105728,
   -170141183460469231731687303715884105728, 170141183460469231731687303715884105728⟩

def Fam.abs (F : Fam) (v : Int) : Except PyErr Int := if F.absLo ≤ v ∧ v < F.absHi then .ok v else .error .OverflowError
def Fam.rel (F : Fam) (v : Int) : Except PyErr Int := if F.relLo ≤ v ∧ v < F.relHi then .ok v else .error .OverflowError

/-- `start_time`: `timestamp (+ time_offset)`; RuntimeError without a timestamp -/
def startTime (F : Fam) (timestamp offset : Option Int) : Except PyErr Int :=
  match timestamp with
  | none => .error .RuntimeError
  | some ts => match offset with
    | none => .ok ts
    | some off => F.abs (ts + off)

/-- the generator loop: yields `t`, then `t += dt` before every further item -/
def genLoop (F : Fam) (dt : Int) : Nat → Int → Except PyErr (List Int)
  | 0, _ => .ok []
  | 1, t => .ok [t]
  | n + 2, t => (F.abs (t + dt)).bind fun t' => (genLoop F dt (n + 1) t').map (t :: ·)

/-- `list(timing.get_timestamps(i, n))` for REGULAR timing that has a timestamp -/
def regularTimestamps (F : Fam) (timestamp : Int) (offset : Option Int) (dt : Int) (i n : Int) :
    Except PyErr (List Int) :=
  if i < 0 then .error .ValueError
  else if n < 0 then .error .ValueError
  else
    (startTime F (some timestamp) offset).bind fun st =>
    (F.rel (i * dt)).bind fun d =>
    (F.abs (st + d)).bind fun t0 =>
    genLoop F dt n.toNat t0

/-- `list(timing.get_timestamps(i, n))` for IRREGULAR timing -/
def irregularTimestamps (stamps : List Int) (i n : Int) : Except PyErr (List Int) :=
  if i < 0 then .error .ValueError
  else if n < 0 then .error .ValueError
  else if i + n > stamps.length then .error .ValueError
  else .ok ((stamps.drop i.toNat).take n.toNat)

/-- `get_timestamps` for any mode (values of one family) -/
def getTimestamps (F : Fam) (mode : Mode) (timestamp offset interval : Option Int) (stamps : List Int)
    (i n : Int) : Except PyErr (List Int) :=
  if i < 0 then .error .ValueError
  else if n < 0 then .error .ValueError
  else match mode with
    | .irregular => irregularTimestamps stamps i n
    | .regular =>
      match timestamp, interval with
      | some ts, some dt => regularTimestamps F ts offset dt i n
      | _, _ => .error .NoTimestampInformationError
    | _ => .error .NoTimestampInformationError

/-! ### line protocol -/

def parseFam : String → Option Fam
  | "dt" => some famDt | "ht" => some famHt | "bt" => some famBt | _ => none
def parseOpt (s : String) : Option (Option Int) := if s = "-" then some none else s.toInt?.map some
def parseList (s : String) : Option (List Int) :=
  if s = "[]" then some []
  else (((s.replace "[" "").replace "]" "").splitOn ",").mapM (fun (x : String) => x.toInt?)
def parseMode : String → Option Mode
  | "NONE" => some .none | "REGULAR" => some .regular | "IRREGULAR" => some .irregular | "UNKNOWN" => some .unknown
  | _ => none

/-- argument kinds of the constructor matrix: A absent, Dd/Dh/Db datetime, Td/Th/Tb timedelta,
    Sm monotonic seq, Se empty seq, Sn non-monotonic seq, Sb seq with a bad element, Sx mixed-family mono seq, O other -/
def parseKind : String → Option Arg
  | "A" => some .absent
  | "Dd" => some (.datetime .dt 5) | "Dh" => some (.datetime .ht 5) | "Db" => some (.datetime .bt 5)
  | "Td" => some (.timedelta .dt 3) | "Th" => some (.timedelta .ht 3) | "Tb" => some (.timedelta .bt 3)
  | "Se" => some (.seq [])
  | "Sm" => some (.seq [.ts .dt 1, .ts .dt 2, .ts .dt 2, .ts .dt 7])
  | "Sd" => some (.seq [.ts .ht 9, .ts .ht 4, .ts .ht 4])
  | "Sn" => some (.seq [.ts .bt 1, .ts .bt 3, .ts .bt 2])
  | "Sb" => some (.seq [.ts .dt 1, .bad])
  | "O" => some .other
  | _ => none

def renderT (t : T) : String :=
  let m := match t.mode with | .none => "NONE" | .regular => "REGULAR" | .irregular => "IRREGULAR" | .unknown => "UNKNOWN"
  let b (x : Bool) := if x then "1" else "0"
  s!"{m} ts={b t.hasTimestamp} st={b t.hasStartTime} off={b t.hasOffset} si={b t.hasInterval} n={match t.stamps with | none => "-" | some l => toString l.length}"

instance : Py.Render T := ⟨renderT⟩

def dispatch : List String → Option String
  | ["timing", "ctor", m, a, b, c, d] =>
    match parseMode m, parseKind a, parseKind b, parseKind c, parseKind d with
    | some mode, some x, some y, some z, some w => some (Py.render (ctor mode x y z w))
    | _, _, _, _, _ => none
  | ["timing", "mono", l] => (parseList l).map fun xs => Py.render (areMonotonic xs)
  | ["timing", "get", f, m, ts, off, si, stamps, i, n] =>
    match parseFam f, parseMode m, parseOpt ts, parseOpt off, parseOpt si, parseList stamps, i.toInt?, n.toInt? with
    | some F, some mode, some a, some b, some c, some l, some i', some n' =>
      some (Py.render (getTimestamps F mode a b c l i' n'))
    | _, _, _, _, _, _, _, _ => none
  | ["timing", "start", f, ts, off] =>
    match parseFam f, parseOpt ts, parseOpt off with
    | some F, some a, some b => some (Py.render (startTime F a b))
    | _, _, _ => none
  | _ => none

end Model.Timing
