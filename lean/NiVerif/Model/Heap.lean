/-
  Memory aliasing (hand model): a heap of cells, references that select positions of a cell (any strided, reversed,
  row or column view is a list of positions), NumPy's `asarray(a, dtype, copy=…)` rule, and objects (waveforms,
  spectrums, XYData axes) that hold a reference plus a window.

  Mirrors
    * `np.asarray(array, dtype, copy=copy)` in `from_array_1d/2d`, `from_lines`, `XYData.from_arrays_1d`
      (copy=True: always a new array; copy=False: the same array object, or ValueError when a copy would be needed —
      a dtype cast or a non-array input);
    * constructors and `load_data(copy=False)` adopting the given array; `load_data(copy=True)` writing into the
      object's own buffer (growing it in place when it is too small);
    * `raw_data` / `data` / `get_raw_data` / `get_data` / `x_data` / `y_data` / `DigitalWaveformSignal.data` as basic
      slices (views) of the buffer; `append` within capacity writing behind the window;
    * the copy rule for `extended_properties` and `Timing` timestamps (share only when asked and possible).
  Cells hold integers (the harness uses values that are exact in every dtype involved).
  Tie: tools/props/c12.py — the harness locates the real arrays in memory (base address, strides) and compares
  the cell and positions with what this model computes.
-/
import NiVerif.Py.Err

namespace Model.Heap

abbrev Cell := List Int
abbrev Heap := List Cell

structure Ref where
  cell : Nat
  idx : List Nat          -- positions inside the cell, in view order (C order for 2-D views)
  dtype : Nat
  deriving DecidableEq, Repr

def cellOf (h : Heap) (c : Nat) : Cell := (h[c]?).getD []
def readAt (h : Heap) (c p : Nat) : Int := (cellOf h c)[p]?.getD 0
def writeAt (h : Heap) (c p : Nat) (v : Int) : Heap := h.set c ((cellOf h c).set p v)

def rd (h : Heap) (r : Ref) : List Int := r.idx.map (readAt h r.cell)
/-- `view[k] = v` -/
def wr (h : Heap) (r : Ref) (k : Nat) (v : Int) : Heap :=
  match r.idx[k]? with
  | some p => writeAt h r.cell p v
  | none => h

/-- a new array holding `vals` -/
def alloc (h : Heap) (vals : List Int) (dt : Nat) : Heap × Ref := (h ++ [vals], ⟨h.length, List.range vals.length, dt⟩)

/-- basic slice `view[s : s+n]` -/
def Ref.slice (r : Ref) (s n : Nat) : Ref := { r with idx := (r.idx.drop s).take n }
/-- any further indexing of a view: positions `ks` of it -/
def Ref.pick (r : Ref) (ks : List Nat) : Ref := { r with idx := ks.filterMap (fun k => r.idx[k]?) }

/-- positions of a reference are pairwise distinct (true of every NumPy view without broadcasting) -/
def Ref.inj (r : Ref) : Prop := ∀ (i j p : Nat), r.idx[i]? = some p → r.idx[j]? = some p → i = j

/-- a reference is valid in a heap when its cell exists and its positions are inside it -/
def Ref.valid (r : Ref) (h : Heap) : Prop := r.cell < h.length ∧ ∀ p ∈ r.idx, p < (cellOf h r.cell).length

structure W where
  ref : Ref
  k : Nat
  v : Int
  deriving DecidableEq, Repr

def writes (h : Heap) (ws : List W) : Heap := ws.foldl (fun s w => wr s w.ref w.k w.v) h

/-! ### asarray -/

inductive Src where
  | arr (r : Ref)
  | seq (vals : List Int)
  deriving DecidableEq, Repr

/-- `np.asarray(src, dtype, copy=copy)` -/
def asarray (h : Heap) (s : Src) (dt : Option Nat) (copy : Bool) : Except PyErr (Heap × Ref) :=
  match s with
  | .arr r =>
    let want := dt.getD r.dtype
    if copy then .ok (alloc h (rd h r) want)
    else if want ≠ r.dtype then .error .ValueError
    else .ok (h, r)
  | .seq vals => if copy then .ok (alloc h vals (dt.getD 0)) else .error .ValueError

/-! ### the NumPy 1.x primitives the compatibility shim `_numpy1x.asarray` is written in (vocabulary of Gen/AsarrayShim.lean) -/

/-- the outcome of a NumPy call that returns an array `b` for an argument `a`: the heap, `b`, whether `b is a`, whether `b.base is None` -/
structure AsRes where
  heap : Heap
  ref : Ref
  isA : Bool
  baseNone : Bool
  deriving DecidableEq, Repr

/-- `np.asarray(a, dtype)` without a copy argument: an ndarray of the wanted dtype is returned as it is (`sub`: an instance of
    an ndarray subclass such as a memmap comes back as a base-class view of it; `owns`: `a.base is None`), anything else is
    converted into a new array -/
def npAsarrayLegacy (h : Heap) (a : Src) (sub owns : Bool) (dt : Option Nat) : AsRes :=
  match a with
  | .arr r =>
    let want := dt.getD r.dtype
    if want = r.dtype then ⟨h, r, !sub, !sub && owns⟩
    else let x := alloc h (rd h r) want; ⟨x.1, x.2, false, true⟩
  | .seq vals => let x := alloc h vals (dt.getD 0); ⟨x.1, x.2, false, true⟩

/-- `np.copy(b)` -/
def npCopy (b : AsRes) : AsRes := let x := alloc b.heap (rd b.heap b.ref) b.ref.dtype; ⟨x.1, x.2, false, true⟩

/-! ### objects -/

structure Obj where
  buf : Ref
  ncols : Nat       -- 1 for numeric waveforms / spectrums / XY axes; the signal count for digital waveforms
  start : Nat
  count : Nat
  deriving DecidableEq, Repr

def rowsOf (ncols len : Nat) : Nat := if ncols = 0 then 0 else len / ncols
def Obj.rows (o : Obj) : Nat := rowsOf o.ncols o.buf.idx.length
/-- `raw_data` / `data` -/
def Obj.view (o : Obj) : Ref := o.buf.slice (o.start * o.ncols) (o.count * o.ncols)
/-- `get_raw_data(s, n)` / `get_data(s, n)` -/
def Obj.window (o : Obj) (s n : Nat) : Ref := o.view.slice (s * o.ncols) (n * o.ncols)
/-- `signals[…].data`: column `c` of the data -/
def Obj.column (o : Obj) (c : Nat) : Ref := o.view.pick ((List.range o.count).map fun j => j * o.ncols + c)

/-- constructor with `raw_data=` / `data=`: the object keeps the array it was given -/
def adopt (r : Ref) (ncols start : Nat) (count : Option Nat) : Except PyErr Obj :=
  let rows := rowsOf ncols r.idx.length
  if start > rows then .error .ValueError
  else
    let n := count.getD (rows - start)
    if start + n > rows then .error .ValueError else .ok ⟨r, ncols, start, n⟩

/-- the owner of a whole cell can be resized in place; a view cannot -/
def ownsCell (h : Heap) (r : Ref) : Bool := r.idx == List.range (cellOf h r.cell).length

/-- `capacity = rows` (growth only) -/
def grow (h : Heap) (o : Obj) (rows : Nat) : Except PyErr (Heap × Obj) :=
  if rows ≤ o.rows then .ok (h, o)
  else if !ownsCell h o.buf then .error .ValueError
  else
    let cell := cellOf h o.buf.cell
    let cell' := cell ++ List.replicate (rows * o.ncols - cell.length) 0
    .ok (h.set o.buf.cell cell', { o with buf := { o.buf with idx := List.range cell'.length } })

/-- wr `vals` through `r` starting at view position `k` -/
def writeMany (h : Heap) (r : Ref) : Nat → List Int → Heap
  | _, [] => h
  | k, v :: vs => writeMany (wr h r k v) r (k + 1) vs

/-- `load_data(src, copy=True, start_index=s, sample_count=n)`: values are rd first (NumPy buffers overlapping
    assignments), then stored at the beginning of the object's own buffer -/
def loadCopy (h : Heap) (o : Obj) (src : Ref) (s n : Nat) : Except PyErr (Heap × Obj) :=
  let vals := rd h (src.slice (s * o.ncols) (n * o.ncols))
  match grow h o n with
  | .error e => .error e
  | .ok (h1, o1) => .ok (writeMany h1 o1.buf 0 vals, { o1 with start := 0, count := n })

/-- `load_data(src, copy=False, …)`: the object now holds `src` -/
def loadAdopt (o : Obj) (src : Ref) (s n : Nat) : Obj := { o with buf := src, start := s, count := n }

/-- `append(values)` when the capacity suffices: stored behind the window, in the buffer the object holds -/
def appendWithin (h : Heap) (o : Obj) (vals : List Int) : Except PyErr (Heap × Obj) :=
  let rows := rowsOf o.ncols vals.length
  if o.start + o.count + rows > o.rows then .error .ValueError    -- would need to grow: not this operation
  else .ok (writeMany h o.buf ((o.start + o.count) * o.ncols) vals, { o with count := o.count + rows })

/-- `append(values)` in general: grow the buffer in place first when the capacity does not suffice (only the owner of a
    whole array can; NumPy refuses to resize a view) -/
def appendGrow (h : Heap) (o : Obj) (vals : List Int) : Except PyErr (Heap × Obj) :=
  let need := o.start + o.count + rowsOf o.ncols vals.length
  match grow h o need with
  | .error e => .error e
  | .ok (h1, o1) => appendWithin h1 o1 vals

/-! ### copy rule for extended properties / timestamps -/

/-- `if copy_flag or not isinstance(arg, Shareable): fresh copy else: the same object` -/
def shareOrCopy (h : Heap) (r : Ref) (shareable copyFlag : Bool) : Heap × Ref :=
  if copyFlag || !shareable then alloc h (rd h r) r.dtype else (h, r)

/-! ### line protocol (stateful) -/

structure St where
  heap : Heap := []
  refs : List (String × Ref) := []
  srcs : List (String × List Int) := []      -- non-array sources
  objs : List (String × Obj) := []

def St.ref (s : St) (n : String) : Option Ref := (s.refs.find? (·.1 == n)).map (·.2)
def St.obj (s : St) (n : String) : Option Obj := (s.objs.find? (·.1 == n)).map (·.2)
def St.seq (s : St) (n : String) : Option (List Int) := (s.srcs.find? (·.1 == n)).map (·.2)
def St.setRef (s : St) (n : String) (r : Ref) : St := { s with refs := (n, r) :: s.refs.filter (·.1 != n) }
def St.setObj (s : St) (n : String) (o : Obj) : St := { s with objs := (n, o) :: s.objs.filter (·.1 != n) }

def ints (t : String) : Option (List Int) := if t = "_" then some [] else (t.splitOn ",").mapM fun (x : String) => x.toInt?
def nats (t : String) : Option (List Nat) := if t = "_" then some [] else (t.splitOn ",").mapM fun (x : String) => x.toNat?
def showInts (l : List Int) : String := if l = [] then "_" else ",".intercalate (l.map toString)
def showNats (l : List Nat) : String := if l = [] then "_" else ",".intercalate (l.map toString)
def showRef (r : Ref) : String := s!"cell={r.cell} idx={showNats r.idx} dtype={r.dtype}"
def errText (e : PyErr) : String := "err " ++ e.name
def optNat (t : String) : Option (Option Nat) := if t = "-" then some none else t.toNat?.map some

def step (s : St) : List String → Option (St × String)
  | ["reset"] => some ({}, "ok")
  | ["alloc", n, dt, vals] =>
    match dt.toNat?, ints vals with
    | some d, some v => let (h, r) := alloc s.heap v d; some ({ s with heap := h }.setRef n r, "ok " ++ showRef r)
    | _, _ => none
  | ["seq", n, vals] => (ints vals).map fun v => ({ s with srcs := (n, v) :: s.srcs.filter (·.1 != n) }, "ok")
  | ["pick", n, base, ks] =>
    match s.ref base, nats ks with
    | some b, some k => let r := b.pick k; some (s.setRef n r, "ok " ++ showRef r)
    | _, _ => none
  | ["asarray", n, src, dt, copy] =>
    match (match s.ref src with | some r => some (Src.arr r) | none => (s.seq src).map Src.seq), optNat dt with
    | some sr, some d =>
      match asarray s.heap sr d (copy == "1") with
      | .ok (h, r) => some ({ s with heap := h }.setRef n r, "ok " ++ showRef r)
      | .error e => some (s, errText e)
    | _, _ => none
  | ["adopt", w, r, nc, st, cnt] =>
    match s.ref r, nc.toNat?, st.toNat?, optNat cnt with
    | some r', some c, some a, some b =>
      match adopt r' c a b with
      | .ok o => some (s.setObj w o, "ok " ++ showRef o.view)
      | .error e => some (s, errText e)
    | _, _, _, _ => none
  | ["loadcopy", w, r, st, cnt] =>
    match s.obj w, s.ref r, st.toNat?, cnt.toNat? with
    | some o, some r', some a, some b =>
      match loadCopy s.heap o r' a b with
      | .ok (h, o') => some ({ s with heap := h }.setObj w o', "ok " ++ showRef o'.view)
      | .error e => some (s, errText e)
    | _, _, _, _ => none
  | ["loadadopt", w, r, st, cnt] =>
    match s.obj w, s.ref r, st.toNat?, cnt.toNat? with
    | some o, some r', some a, some b => let o' := loadAdopt o r' a b; some (s.setObj w o', "ok " ++ showRef o'.view)
    | _, _, _, _ => none
  | ["append", w, vals] =>
    match s.obj w, ints vals with
    | some o, some v =>
      match appendWithin s.heap o v with
      | .ok (h, o') => some ({ s with heap := h }.setObj w o', "ok " ++ showRef o'.view)
      | .error e => some (s, errText e)
    | _, _ => none
  | ["appendg", w, vals] =>
    match s.obj w, ints vals with
    | some o, some v =>
      match appendGrow s.heap o v with
      | .ok (h, o') => some ({ s with heap := h }.setObj w o', "ok " ++ showRef o'.view)
      | .error e => some (s, errText e)
    | _, _ => none
  | ["bufref", n, w] =>
    -- the caller's array object *is* the buffer the object holds (it was adopted): after an in-place resize the
    -- caller's name denotes the grown array
    (s.obj w).map fun o => (s.setRef n o.buf, "ok " ++ showRef o.buf)
  | ["wref", r, k, v] =>
    match s.ref r, k.toNat?, v.toInt? with
    | some r', some k', some v' => some ({ s with heap := wr s.heap r' k' v' }, "ok")
    | _, _, _ => none
  | ["wobj", w, k, v] =>
    match s.obj w, k.toNat?, v.toInt? with
    | some o, some k', some v' => some ({ s with heap := wr s.heap o.view k' v' }, "ok")
    | _, _, _ => none
  | ["wcol", w, c, k, v] =>
    match s.obj w, c.toNat?, k.toNat?, v.toInt? with
    | some o, some c', some k', some v' => some ({ s with heap := wr s.heap (o.column c') k' v' }, "ok")
    | _, _, _, _ => none
  | ["read", r] => (s.ref r).map fun r' => (s, "ok " ++ showInts (rd s.heap r'))
  | ["readobj", w] => (s.obj w).map fun o => (s, "ok " ++ showInts (rd s.heap o.view))
  | ["view", w] => (s.obj w).map fun o => (s, "ok " ++ showRef o.view)
  | ["window", w, a, b] =>
    match s.obj w, a.toNat?, b.toNat? with
    | some o, some a', some b' => some (s, "ok " ++ showRef (o.window a' b'))
    | _, _, _ => none
  | ["column", w, c] =>
    match s.obj w, c.toNat? with
    | some o, some c' => some (s, "ok " ++ showRef (o.column c'))
    | _, _ => none
  | ["share", n, r, shareable, copyFlag] =>
    (s.ref r).map fun r' =>
      let (h, r2) := shareOrCopy s.heap r' (shareable == "1") (copyFlag == "1")
      ({ s with heap := h }.setRef n r2, "ok " ++ showRef r2)
  | _ => none

end Model.Heap
