/-
  Element storage of DateTimeArray / TimeDeltaArray (hand model over generated definitions):
  store = `to_tuple().to_cvi()` written into the 16-byte record; load = `.item()` → `from_cvi`
  → `from_tuple`.  Tie: correspondence against `arr._array.tobytes()` and indexing (tools/props/c02.py).
-/
import NiVerif.Gen.TimeDelta
import NiVerif.Gen.DateTime
import NiVerif.Model.Record

namespace Model.BtElem
open Gen.TimeDelta

/-- what the array classes store for an element -/
def arrStore (t : Int) : List Int :=
  let c := Gen.TimeValueTuple.to_cvi (to_tuple t).1 (to_tuple t).2
  Model.Record.encodeCvi c.1 c.2

/-- what indexing returns -/
def arrLoad (bytes : List Int) : Except PyErr Int :=
  match Model.Record.decodeCvi bytes with
  | none => .error .ValueError
  | some (l, m) =>
    let tv := Gen.TimeValueTuple.from_cvi l m
    from_tuple tv.1 tv.2

/-! ### Interpreting the element chains of `Gen/BtElemSites` (tier T29)

  A store site applies a chain of argument-less methods to one element; a value on its way is an element (its tick count),
  a TimeValueTuple or the pair handed to NumPy.  Each method is the *generated* function of the element's class. -/

inductive V where
  | elem (ticks : Int)
  | tv (whole frac : Int)
  | cvi (lsb msb : Int)
  deriving Repr, DecidableEq

/-- the element class of an array class -/
def isDateTime (cls : String) : Bool := cls == "DateTimeArray"

def storeStep (cls : String) (v : V) (method : String) : Option V :=
  match method, v with
  | "to_tuple", .elem t =>
    let p := if isDateTime cls then Gen.DateTime.to_tuple t else Gen.TimeDelta.to_tuple t
    some (.tv p.1 p.2)
  | "to_cvi", .tv w f => let c := Gen.TimeValueTuple.to_cvi w f; some (.cvi c.1 c.2)
  | _, _ => none

/-- the bytes a store site writes for the element `t` (none: the chain does not end in the pair NumPy expects) -/
def runStore (cls : String) (chain : List String) (t : Int) : Option (List Int) :=
  match chain.foldlM (storeStep cls) (V.elem t) with
  | some (.cvi l m) => some (Model.Record.encodeCvi l m)
  | _ => none

/-- a decoding site: `.item()` reads the record as (lsb, msb), then the chain's functions -/
def runLoad (cls : String) (chain : List String) (bytes : List Int) : Option (Except PyErr Int) :=
  match chain with
  | ["item", "from_cvi", "from_tuple"] =>
    some (match Model.Record.decodeCvi bytes with
      | none => .error .ValueError
      | some (l, m) =>
        let tv := Gen.TimeValueTuple.from_cvi l m
        if isDateTime cls then Gen.DateTime.from_tuple tv.1 tv.2 else Gen.TimeDelta.from_tuple tv.1 tv.2)
  | _ => none

/-- pickling an array (`__reduce__` = the class applied to `list(iter(self))`): every record is decoded by the `__getitem__`
    site, the constructor encodes every element again -/
def arrPickle (records : List (List Int)) : Except PyErr (List (List Int)) :=
  (records.mapM arrLoad).map (fun elems => elems.map arrStore)

def dispatch : List String → Option String
  | ["elem", "store", a] => a.toInt?.map (fun t => Py.render (arrStore t))
  | "elem" :: "load" :: bs => (bs.mapM (fun (t : String) => t.toInt?)).map (fun l => Py.render (arrLoad l))
  | _ => none

end Model.BtElem
