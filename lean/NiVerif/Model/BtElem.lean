/-
  Element storage of DateTimeArray / TimeDeltaArray (hand model over generated definitions):
  store = `to_tuple().to_cvi()` written into the 16-byte record; load = `.item()` → `from_cvi`
  → `from_tuple`.  Tie: correspondence against `arr._array.tobytes()` and indexing (tools/props/c02.py).
-/
import NiVerif.Gen.TimeDelta
import NiVerif.Model.Record

namespace Model.BtElem
open Gen.TimeDelta

/-- what the array classes store for an element -/
def arrStore (t : Int) : List Int :=
  let c := Gen.TimeValueTuple.to_cvi (to_tuple t).1 (to_tuple t).2
  Model.Record.encodeCvi c.1 c.2

/-- what indexing returns -/
def arrLoad (bytes : List Int) : Except PyErr Int :=
  match Model.Record.decodeCvi bytes with
  | none => .error .ValueError
  | some (l, m) =>
    let tv := Gen.TimeValueTuple.from_cvi l m
    from_tuple tv.1 tv.2

def dispatch : List String → Option String
  | ["elem", "store", a] => a.toInt?.map (fun t => Py.render (arrStore t))
  | "elem" :: "load" :: bs => (bs.mapM (fun (t : String) => t.toInt?)).map (fun l => Py.render (arrLoad l))
  | _ => none

end Model.BtElem
