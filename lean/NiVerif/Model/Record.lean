/-
  NumPy structured-dtype records as packed little-endian byte strings (hand model).
  Assumed (NumPy, x86-64): fields of a dtype built from a plain field list are packed in order
  with no padding; uint64/int64 are stored little-endian, int64 in two's complement.
  Tie: correspondence against `ndarray.tobytes()` / `dtype.fields` in tools/props/c02.py.
-/
import NiVerif.Py.Int
import NiVerif.Py.Err
import NiVerif.Py.Render

namespace Model.Record

/-- size in bytes of a NumPy scalar type name -/
def sizeOf? : String → Option Nat
  | "uint64" => some 8 | "int64" => some 8 | "int16" => some 2 | "uint16" => some 2
  | "int32" => some 4 | "uint32" => some 4 | "int8" => some 1 | "uint8" => some 1
  | "float32" => some 4 | "float64" => some 8
  | _ => none

/-- packed layout: (name, offset, type) per field, and the item size -/
def layoutAux : List (String × String) → Nat → Option (List (String × Nat × String) × Nat)
  | [], off => some ([], off)
  | (n, t) :: rest, off =>
    match sizeOf? t with
    | none => none
    | some sz =>
      match layoutAux rest (off + sz) with
      | none => none
      | some (l, total) => some ((n, off, t) :: l, total)

def layout (fields : List (String × String)) : Option (List (String × Nat × String) × Nat) :=
  layoutAux fields 0

/-- the 8 little-endian bytes of `n mod 2^64` -/
def le64 (n : Int) : List Int :=
  [n % 256, n / 256 % 256, n / 65536 % 256, n / 16777216 % 256, n / 4294967296 % 256,
   n / 1099511627776 % 256, n / 281474976710656 % 256, n / 72057594037927936 % 256]

/-- value of 8 little-endian bytes as an unsigned integer -/
def unLe64 : List Int → Option Int
  | [b0, b1, b2, b3, b4, b5, b6, b7] =>
    some (b0 + b1 * 256 + b2 * 65536 + b3 * 16777216 + b4 * 4294967296 + b5 * 1099511627776
          + b6 * 281474976710656 + b7 * 72057594037927936)
  | _ => none

/-- two's-complement reinterpretation of an unsigned 64-bit value as int64 -/
def toSigned64 (u : Int) : Int := if u < 9223372036854775808 then u else u - 18446744073709551616

/-- The 16-byte CVI record holding (lsb : uint64, msb : int64). -/
def encodeCvi (lsb msb : Int) : List Int := le64 lsb ++ le64 msb

def decodeCvi (bytes : List Int) : Option (Int × Int) :=
  match unLe64 (bytes.take 8), unLe64 (bytes.drop 8) with
  | some l, some m => some (l, toSigned64 m)
  | _, _ => none

theorem unLe64_le64 (n : Int) : unLe64 (le64 n) = some (n % 18446744073709551616) := by
  simp only [le64, unLe64]
  congr 1
  omega

theorem decode_encode (lsb msb : Int) (hl : 0 ≤ lsb ∧ lsb < 18446744073709551616)
    (hm : -9223372036854775808 ≤ msb ∧ msb < 9223372036854775808) :
    decodeCvi (encodeCvi lsb msb) = some (lsb, msb) := by
  have h1 : (encodeCvi lsb msb).take 8 = le64 lsb := by simp [encodeCvi, le64]
  have h2 : (encodeCvi lsb msb).drop 8 = le64 msb := by simp [encodeCvi, le64]
  simp only [decodeCvi, h1, h2, unLe64_le64, toSigned64]
  congr 1
  ext
  · simp; omega
  · simp only; split <;> omega

theorem le64_length (n : Int) : (le64 n).length = 8 := rfl
theorem le64_bytes (n : Int) : ∀ b ∈ le64 n, 0 ≤ b ∧ b < 256 := by
  intro b hb
  simp only [le64, List.mem_cons, List.mem_nil_iff, or_false] at hb
  rcases hb with h | h | h | h | h | h | h | h <;> subst h <;> omega

def dispatch : List String → Option String
  | ["rec", "encode", a, b] =>
    match a.toInt?, b.toInt? with
    | some x, some y => some (Py.render (encodeCvi x y))
    | _, _ => none
  | "rec" :: "decode" :: bs =>
    match bs.mapM (fun t => t.toInt?) with
    | some l => some (Py.render (decodeCvi l))
    | none => none
  | _ => none

end Model.Record
