/-
  DateTimeArray / TimeDeltaArray (hand model of the implementation's *algorithm* over `List Int`,
  elements = tick counts; element storage round trip is C02).

  Mirrors `_datetime_array.py` / `_timedelta_array.py`: `__getitem__`/`__setitem__`/`__delitem__` by int
  (NumPy indexing: negative indices, IndexError), the three slice-assignment branches (shrink = assign
  the first `new` selected positions then `del self[start+new : stop]`, grow = assign the selection then
  `np.insert(array, stop, rest)`, equal = strided assignment), the extended-slice length check
  (`step != 1`), `stop = start` for an empty step-1 selection, `np.delete` for slices, `insert` with
  index clamping + `np.insert`, `extend` via `np.append`, and the `MutableSequence` mixins written out
  (`append` = insert at len, `pop` = getitem + delitem, `remove` = del self[self.index(v)], `reverse` =
  pairwise swaps, `clear` = pop until IndexError, `+=` = extend).
  Tie: three-way differential (this model, Py/ListSpec.lean, a real Python list, the real classes) in
  tools/props/c17.py.
-/
import NiVerif.Py.ListSpec
import NiVerif.Py.Render

namespace Model.BtArray
open Py.Slice

abbrev Arr := List Int

/-- NumPy integer indexing `a[i]` -/
def npIndex (a : Arr) (i : Int) : Except PyErr Nat :=
  let j := if i < 0 then i + a.length else i
  if j < 0 ∨ j ≥ a.length then .error .IndexError else .ok j.toNat

def getItem (a : Arr) (i : Int) : Except PyErr Int := (npIndex a i).map fun j => a.getD j 0
def setItem (a : Arr) (i : Int) (x : Int) : Except PyErr Arr := (npIndex a i).map fun j => a.set j x
/-- `np.delete(a, i)` -/
def delItem (a : Arr) (i : Int) : Except PyErr Arr := (npIndex a i).map fun j => a.eraseIdx j

/-- `a[s:e] = vs` with equal lengths (contiguous) -/
def assignRange (a : Arr) (s : Nat) (vs : Arr) : Arr := a.take s ++ vs ++ a.drop (s + vs.length)
/-- `np.delete(a, slice(s, e))`, `s ≤ e` -/
def deleteRange (a : Arr) (s e : Nat) : Arr := a.take s ++ a.drop e
/-- `np.insert(a, pos, vs)`, `0 ≤ pos ≤ len` -/
def insertAt (a : Arr) (pos : Nat) (vs : Arr) : Arr := a.take pos ++ vs ++ a.drop pos

/-- `__setitem__(slice, values)` -/
def setSlice (a : Arr) (start stop step : Option Int) (vs : Arr) : Except PyErr Arr :=
  (indices start stop step a.length).bind fun (s, e, st) =>
    let selected := rangeLen s e st
    let new := vs.length
    if st ≠ 1 ∧ new ≠ selected then .error .ValueError
    else
      let e := if st = 1 ∧ e < s then s else e
      if new < selected then
        -- shrink: only reachable with step 1
        .ok (deleteRange (assignRange a s.toNat vs) (s.toNat + new) e.toNat)
      else if new > selected then
        -- grow: only reachable with step 1
        .ok (insertAt (assignRange a s.toNat (vs.take selected)) e.toNat (vs.drop selected))
      else
        .ok (Py.ListSpec.scatter a (rangeList s e st) vs)

/-- `np.delete(a, slice)` -/
def delSlice (a : Arr) (start stop step : Option Int) : Except PyErr Arr :=
  (indices start stop step a.length).map fun (s, e, st) =>
    let idx := rangeList s e st
    (a.zipIdx.filter fun p => !(idx.contains (p.2 : Int))).map (·.1)

def getSlice (a : Arr) (start stop step : Option Int) : Except PyErr Arr :=
  (indices start stop step a.length).map fun (s, e, st) => (rangeList s e st).map fun i => a.getD i.toNat 0

/-- `insert(index, value)`: clamp to [-len, len], then `np.insert` (a negative position counts from the end) -/
def insert (a : Arr) (i : Int) (x : Int) : Arr :=
  let n : Int := a.length
  let c := min (max i (-n)) n
  let pos := if c < 0 then c + n else c
  insertAt a pos.toNat [x]

def append (a : Arr) (x : Int) : Arr := insert a a.length x
def extend (a : Arr) (vs : Arr) : Arr := a ++ vs
/-- `pop(i)`: `v = self[i]; del self[i]; return v` -/
def pop (a : Arr) (i : Int) : Except PyErr (Int × Arr) :=
  (getItem a i).bind fun v => (delItem a i).map fun a' => (v, a')
/-- `Sequence.index(value)` by iteration -/
def indexOf (a : Arr) (x : Int) : Except PyErr Nat :=
  let i := a.findIdx (· = x)
  if i < a.length then .ok i else .error .ValueError
def remove (a : Arr) (x : Int) : Except PyErr Arr := (indexOf a x).bind fun i => delItem a i
/-- `MutableSequence.reverse`: swap a[i] and a[n-1-i] for i < n // 2 -/
def reverseLoop (a : Arr) : Nat → Arr
  | 0 => a
  | k + 1 =>
    let a' := reverseLoop a k
    let n := a.length
    let x := a'.getD k 0
    let y := a'.getD (n - 1 - k) 0
    (a'.set k y).set (n - 1 - k) x
def reverse (a : Arr) : Arr := reverseLoop a (a.length / 2)
def count (a : Arr) (x : Int) : Nat := a.count x

/-! line protocol (stateful): one array -/
def optInt (s : String) : Option (Option Int) := if s = "-" then some none else s.toInt?.map some
def parseList (s : String) : Option (List Int) :=
  if s = "[]" then some [] else (((s.replace "[" "").replace "]" "").splitOn ",").mapM fun (x : String) => x.toInt?

def res (r : Except PyErr Arr) (old : Arr) : Arr × String :=
  match r with
  | .ok a => (a, "ok " ++ Py.render a)
  | .error e => (old, "err " ++ e.name ++ " " ++ e.base.name)

/-- `impl` = the array classes' algorithm, `spec` = Python list; both on the same state -/
def step (mode : String) (a : Arr) : List String → Option (Arr × String)
  | ["new", l] => (parseList l).map fun x => (x, "ok " ++ Py.render x)
  | ["get", i] => i.toInt?.map fun j =>
      (a, Py.render (if mode = "impl" then getItem a j else Py.ListSpec.getItem a j))
  | ["set", i, x] => match i.toInt?, x.toInt? with
      | some j, some v => some (res (if mode = "impl" then setItem a j v else Py.ListSpec.setItem a j v) a)
      | _, _ => none
  | ["del", i] => i.toInt?.map fun j => res (if mode = "impl" then delItem a j else Py.ListSpec.delItem a j) a
  | ["getslice", s, e, st] => match optInt s, optInt e, optInt st with
      | some s', some e', some st' =>
        some (a, Py.render (if mode = "impl" then getSlice a s' e' st' else Py.ListSpec.getSlice a s' e' st'))
      | _, _, _ => none
  | ["setslice", s, e, st, vs] => match optInt s, optInt e, optInt st, parseList vs with
      | some s', some e', some st', some v =>
        some (res (if mode = "impl" then setSlice a s' e' st' v else Py.ListSpec.setSlice a s' e' st' v) a)
      | _, _, _, _ => none
  | ["delslice", s, e, st] => match optInt s, optInt e, optInt st with
      | some s', some e', some st' =>
        some (res (if mode = "impl" then delSlice a s' e' st' else Py.ListSpec.delSlice a s' e' st') a)
      | _, _, _ => none
  | ["insert", i, x] => match i.toInt?, x.toInt? with
      | some j, some v => some (res (.ok (if mode = "impl" then insert a j v else Py.ListSpec.insert a j v)) a)
      | _, _ => none
  | ["append", x] => x.toInt?.map fun v => res (.ok (if mode = "impl" then append a v else a ++ [v])) a
  | ["extend", vs] => (parseList vs).map fun v => res (.ok (extend a v)) a
  | ["extendself"] => some (res (.ok (extend a a)) a)
  | ["pop", i] => i.toInt?.map fun j =>
      match (if mode = "impl" then pop a j else Py.ListSpec.pop a j) with
      | .ok (v, a') => (a', s!"ok {v} " ++ Py.render a')
      | .error e => (a, "err " ++ e.name ++ " " ++ e.base.name)
  | ["remove", x] => x.toInt?.map fun v => res (if mode = "impl" then remove a v else Py.ListSpec.remove a v) a
  | ["reverse"] => some (res (.ok (if mode = "impl" then reverse a else a.reverse)) a)
  | ["clear"] => some (([] : Arr), "ok []")
  | ["index", x] => x.toInt?.map fun v =>
      (a, Py.render (if mode = "impl" then indexOf a v else Py.ListSpec.indexOf a v))
  | ["count", x] => x.toInt?.map fun v => (a, "ok " ++ toString (count a v))
  | ["len"] => some (a, "ok " ++ toString a.length)
  | _ => none

end Model.BtArray
