/-
  Argument objects of the Vector methods (hand-written, for translator tier T13, `nitypes/vector.py`):
  what Python distinguishes in `__setitem__`, `insert`, `__delitem__`.  Stored elements are `Item`s
  (`none` = an object that is not a bool/int/float/str), so that the generated methods are total and
  say what a method *without* its checks would store.
-/
import NiVerif.Model.Vector

namespace Model.Vector

abbrev Item := Option Val

/-- `isinstance(item, T)` for a stored / iterated object -/
def itemInstOf (x : Item) (t : VT) : Bool := match x with | some y => instOf y t | none => false

/-- a value argument -/
inductive Arg where
  | scalar (x : Val) (chars : List Val)   -- a bool/int/float/str; `chars` = `list(x)` when x is a str
  | iterable (xs : List Item)             -- a list / tuple / range / generator / … with these items
  | other                                  -- neither (None, object())
  deriving Repr

/-- an index argument -/
inductive Index where
  | int (i : Int)
  | slice (start stop step : Option Int)
  deriving Repr

namespace Arg
/-- `isinstance(v, Iterable)`: a str is Iterable -/
def isIterable : Arg → Bool | .iterable _ => true | .scalar x _ => x.ty = .str | .other => false
/-- `isinstance(v, str)` -/
def isStr : Arg → Bool | .scalar x _ => x.ty = .str | _ => false
/-- `isinstance(v, T)` -/
def instOf (a : Arg) (t : VT) : Bool := match a with | .scalar x _ => Model.Vector.instOf x t | _ => false
/-- the object as an element of a list -/
def asItem : Arg → Item | .scalar x _ => some x | _ => none
/-- what iterating over the object yields (`list(v)`, `for x in v`): TypeError for a non-iterable -/
def items : Arg → Except PyErr (List Item)
  | .iterable xs => .ok xs
  | .scalar x chars => if x.ty = .str then .ok (chars.map some) else .error .TypeError
  | .other => .error .TypeError
/-- `list(v)` as an object -/
def toList (a : Arg) : Except PyErr Arg := a.items.map Arg.iterable
end Arg

namespace Index
/-- `isinstance(i, slice)` -/
def isSlice : Index → Bool | .slice .. => true | .int _ => false
end Index

/-- `l[index] = obj` on a Python list: an int index stores the object itself; a slice takes the object's items -/
def store (l : List Item) (index : Index) (obj : Arg) : Except PyErr (List Item) :=
  match index with
  | .int i => Py.ListSpec.setItem l i obj.asItem
  | .slice s e st => obj.items.bind fun xs => Py.ListSpec.setSlice l s e st xs

/-- `del l[index]` -/
def delIndex (l : List Item) (index : Index) : Except PyErr (List Item) :=
  match index with
  | .int i => Py.ListSpec.delItem l i
  | .slice s e st => Py.ListSpec.delSlice l s e st

/-- `for x in obj: if <bad x>: raise e` -/
def forAllItems (obj : Arg) (bad : Item → Bool) (e : PyErr) : Except PyErr Unit :=
  obj.items.bind fun xs => if xs.any bad then .error e else .ok ()

/-! ### the constructor's arguments (translator tier T13b) -/

/-- the `value_type` argument -/
inductive VTArg where
  | none                -- None (falsy)
  | vt (t : VT)         -- one of bool, int, float, str (or a subclass of one of them)
  | other               -- any other (truthy) object: `object`, a tuple of types, `bytes`, `complex`, an instance …
  deriving Repr

/-- the type of an item: one of the four scalar types, or some other type -/
inductive ItemType where
  | scalar (t : VT)
  | other
  deriving Repr

namespace VTArg
/-- `not value_type` -/
def falsy : VTArg → Bool | .none => true | _ => false
/-- `isinstance(value_type, type) and issubclass(value_type, (bool, int, float, str))` -/
def isSupported : VTArg → Bool | .vt _ => true | _ => false
def asItemType : VTArg → ItemType | .vt t => .scalar t | _ => .other
def ofOption : Option VT → VTArg | some t => .vt t | Option.none => .none
end VTArg

/-- `type(x)` -/
def typeOf : Item → ItemType | some v => .scalar v.ty | none => .other
/-- `isinstance(x, (bool, int, float, str))` -/
def isScalar : Item → Bool := Option.isSome
/-- `isinstance(x, T)` for a type object; a non-scalar is an instance of its own (other) type -/
def itemInstOfType (x : Item) : ItemType → Bool
  | .scalar t => itemInstOf x t
  | .other => x.isNone

/-- `for index, value in enumerate(xs): <body>` where the body may rebind one variable and may raise -/
def forEnum {σ : Type} (xs : List Item) (start : Nat) (s : σ) (f : Nat → Item → σ → Except PyErr σ) : Except PyErr σ :=
  match xs with
  | [] => .ok s
  | x :: rest => (f start x s).bind fun s' => forEnum rest (start + 1) s' f

/-! line protocol: the facts Python can observe about an argument object of each kind (tools/props/c18.py compares them with
    `isinstance(x, Iterable)`, `isinstance(x, str)`, `isinstance(x, T)` and `list(x)` on real objects) -/
def parseArgKind (kind ty : String) : Option Arg :=
  match kind, ty with
  | "scalar", "b" => some (.scalar ⟨.bool, 1⟩ [])
  | "scalar", "i" => some (.scalar ⟨.int, 3⟩ [])
  | "scalar", "f" => some (.scalar ⟨.float, 5⟩ [])
  | "scalar", "s" => some (.scalar ⟨.str, 7⟩ [⟨.str, 8⟩, ⟨.str, 9⟩])
  | "iterable", _ => some (.iterable [some ⟨.int, 1⟩, none])
  | "other", _ => some .other
  | _, _ => none

def argFacts (a : Arg) : String :=
  let b (x : Bool) : String := if x then "t" else "f"
  s!"iter={b a.isIterable} str={b a.isStr} inst={b (a.instOf .bool)}{b (a.instOf .int)}{b (a.instOf .float)}{b (a.instOf .str)} "
    ++ s!"list={match a.items with | .ok xs => "ok" ++ toString xs.length | .error e => e.name} scalar={b a.asItem.isSome}"

/-- the stateful protocol of Model/Vector.lean plus `vk <kind> <type>` -/
def stepArgs (v : V) : List String → Option (V × String)
  | ["vk", kind, ty] => (parseArgKind kind ty).map fun a => (v, argFacts a)
  | toks => step v toks

end Model.Vector
