/-
  The waveform buffer machine (hand model): AnalogWaveform / ComplexWaveform / Spectrum /
  DigitalWaveform as `(backing buffer, start_index, sample_count)` plus timing, scale mode,
  extended properties and the digital name cache.

  Mirrors (statement order and error classes) `_numeric.py`, `_spectrum.py`, `_digital/_waveform.py`:
  `_init_with_new_array`, `_init_with_provided_array`, `get_raw_data/get_data`, the `sample_count` /
  `capacity` / `timing` setters, `_append_array`, `_append_waveforms`, `_increase_capacity`,
  `_load_array`, `__reduce__`/`_unpickle`, and from `_timing`: `_append_timestamps`, `_append_timing`.

  Abstractions: a sample is a row of integers (1 column for numeric classes, `signal_count` for
  digital); a dtype is an opaque tag; an input array is `(dtype, ndim, rows, ncols)`; sample
  intervals and timestamps are integers of one family; the scale mode is an identity tag.
  NumPy behaviour assumed: `zeros`/`full`, slice assignment of equal shapes, `resize(refcheck=False)`
  keeps the prefix and zero-fills, and raises ValueError on an array that does not own its data.
  Aliasing between the waveform and caller-held arrays is the subject of Model/Heap.lean (C12).
  Tie: tools/props/wfm_harness.py (shared by C01 C07 C09 C10 C13 C15).
-/
import NiVerif.Py.Err
import NiVerif.Py.Render
import NiVerif.Model.Timing

namespace Model.Wfm

inductive Kind where | analog | complex | spectrum | digital
  deriving DecidableEq, Repr

abbrev Row := List Int

inductive TMode where | none | regular | irregular
  deriving DecidableEq, Repr

/-- the part of a `Timing` the waveform logic looks at; `tag` stands for the remaining members -/
structure WTiming where
  mode : TMode
  interval : Option Int
  stamps : List Int
  tag : Int
  deriving DecidableEq, Repr

def WTiming.empty : WTiming := ⟨.none, none, [], 0⟩

inductive Warning where | timingMismatch | scalingMismatch
  deriving DecidableEq, Repr

/-- an ndarray argument -/
structure Arr where
  dtype : Nat
  ndim : Nat
  rows : List Row
  ncols : Nat          -- shape[1] for 2-D arrays (1 for 1-D)
  owned : Bool         -- owns its data (resizable)
  deriving DecidableEq, Repr

structure W where
  kind : Kind
  dtype : Nat
  ncols : Nat
  buf : List Row
  start : Nat
  count : Nat
  resizable : Bool
  timing : WTiming
  scale : Int
  props : List (String × String)
  namesCache : Option (List String)
  deriving DecidableEq, Repr

def W.capacity (w : W) : Nat := w.buf.length
/-- the data view: `raw_data` / `data` -/
def W.view (w : W) : List Row := (w.buf.drop w.start).take w.count
def W.isDigital (w : W) : Bool := w.kind == .digital
def W.hasTiming (w : W) : Bool := w.kind != .spectrum

def zeroRow (ncols : Nat) (fill : Int) : Row := List.replicate ncols fill

/-- `arg_to_uint(name, value, default)` -/
def argUint (x : Option Int) (dflt : Int) : Except PyErr Int :=
  let v := x.getD dflt
  if v < 0 then .error .ValueError else .ok v

/-- `start_index` / `sample_count` against a length: `s ≤ len`, `s + n ≤ len` (default n = len - s) -/
def window (len : Int) (start count : Option Int) : Except PyErr (Nat × Nat) := do
  let s ← argUint start 0
  if s > len then throw .StartIndexTooLargeError
  let n ← argUint count (len - s)
  if s + n > len then throw .StartIndexOrSampleCountTooLargeError
  return (s.toNat, n.toNat)

/-- irregular timing must carry one timestamp per sample (`_validate_timing`) -/
def checkTimingCount (kind : Kind) (t : WTiming) (n : Nat) : Except PyErr Unit :=
  if kind ≠ .spectrum ∧ t.mode = .irregular ∧ t.stamps.length ≠ n then .error .IrregularTimestampCountMismatchError
  else .ok ()

/-- geometry of `_init_with_new_array`: (start, count, capacity) -/
def newGeom (count start cap : Option Int) : Except PyErr (Nat × Nat × Nat) := do
  let s ← argUint start 0
  let n ← argUint count 0
  let c ← argUint cap n
  return (s.toNat, n.toNat, c.toNat)

/-- `_init_with_new_array` (+ the rest of `__init__`; timing validated against the sample count) -/
def ctorNew (kind : Kind) (dtype : Nat) (dtypeOk : Bool) (count ncols start cap : Option Int) (fill : Int)
    (props : List (String × String)) (timing : Option WTiming) (scale : Int) : Except PyErr W := do
  let g ← newGeom count start cap
  if kind = .digital ∧ ncols.getD 1 < 0 then throw .ValueError
  if ¬ dtypeOk then throw .TypeError
  if g.1 > g.2.2 then throw .StartIndexTooLargeError
  if g.1 + g.2.1 > g.2.2 then throw .StartIndexOrSampleCountTooLargeError
  checkTimingCount kind (timing.getD WTiming.empty) g.2.1
  let c : Nat := if kind = .digital then (ncols.getD 1).toNat else 1
  return { kind := kind, dtype := dtype, ncols := c,
           buf := List.replicate g.2.2 (zeroRow c fill), start := g.1, count := g.2.1,
           resizable := true, timing := timing.getD WTiming.empty, scale := scale, props := props,
           namesCache := none }

/-- dtype / ndim checks of `_init_with_provided_array` -/
def checkArr (kind : Kind) (a : Arr) (dtypeReq : Option Nat) (dtypeOk : Bool) : Except PyErr Unit := do
  if kind ≠ .digital ∧ a.ndim ≠ 1 then throw .ValueError
  if (dtypeReq.getD a.dtype) ≠ a.dtype then throw .DatatypeMismatchError
  if ¬ dtypeOk then throw .TypeError
  if kind = .digital ∧ a.ndim ≠ 1 ∧ a.ndim ≠ 2 then throw .ValueError

def checkCap (cap : Option Int) (len : Int) : Except PyErr Unit := do
  let capv ← argUint cap len
  if capv ≠ len then throw .CapacityMismatchError

def checkNcols (kind : Kind) (ncols : Option Int) (have_ : Nat) : Except PyErr Unit := do
  if kind = .digital ∧ ncols.getD have_ < 0 then throw .ValueError
  if kind = .digital ∧ ncols.getD have_ ≠ have_ then throw .SignalCountMismatchError

/-- `_init_with_provided_array` (+ the rest of `__init__`) -/
def ctorArr (kind : Kind) (a : Arr) (dtypeReq : Option Nat) (dtypeOk : Bool) (start count ncols cap : Option Int)
    (props : List (String × String)) (timing : Option WTiming) (scale : Int) : Except PyErr W := do
  checkArr kind a dtypeReq dtypeOk
  checkCap cap a.rows.length
  let g ← window a.rows.length start count
  checkNcols kind ncols a.ncols
  checkTimingCount kind (timing.getD WTiming.empty) g.2
  return { kind := kind, dtype := a.dtype, ncols := a.ncols, buf := a.rows, start := g.1, count := g.2,
           resizable := a.owned, timing := timing.getD WTiming.empty, scale := scale, props := props,
           namesCache := none }

/-- `get_raw_data(start, count)` / `get_data` -/
def getData (w : W) (start count : Option Int) : Except PyErr (List Row) := do
  let g ← window w.count start count
  return (w.view.drop g.1).take g.2

/-- the capacity setter: `ndarray.resize` in place (prefix kept, zero fill), ValueError when the buffer is borrowed -/
def setCapacity (w : W) (value : Option Int) : Except PyErr W := do
  let v ← argUint value 0
  if value.isNone then throw .TypeError
  if v < w.start + w.count then throw .CapacityTooSmallError
  if v.toNat = w.capacity then return w
  if ¬ w.resizable then throw .ValueError
  return { w with buf := (w.buf ++ List.replicate (v.toNat - w.capacity) (zeroRow w.ncols 0)).take v.toNat }

def increaseCapacity (w : W) (amount : Nat) : Except PyErr W :=
  if w.start + w.count + amount > w.capacity then setCapacity w (some ((w.start + w.count + amount : Nat) : Int))
  else .ok w

/-- the sample_count setter -/
def setCount (w : W) (value : Option Int) : Except PyErr W := do
  if w.kind = .spectrum then throw .AttributeError      -- Spectrum.sample_count is read-only
  if value.isNone then throw .TypeError
  let v ← argUint value 0
  if w.start + v > w.capacity then throw .StartIndexOrSampleCountTooLargeError
  if w.hasTiming ∧ w.timing.mode = .irregular ∧ v.toNat ≠ w.timing.stamps.length then
    throw .IrregularTimestampCountMismatchError
  return { w with count := v.toNat }

/-- the timing setter (`_validate_timing`) -/
def setTiming (w : W) (t : WTiming) : Except PyErr W :=
  if t.mode = .irregular ∧ t.stamps.length ≠ w.count then .error .IrregularTimestampCountMismatchError
  else .ok { w with timing := t }

/-- `Timing._append_timestamps` -/
def appendTimestamps (t : WTiming) (ts : Option (List Int)) (typesOk : Bool) : Except PyErr WTiming :=
  match t.mode with
  | .irregular =>
    match ts with
    | none => .error .TimingMismatchError
    | some l =>
      if ¬ typesOk then .error .TypeError
      else if l = [] then .ok t
      else if Model.Timing.areMonotonic (t.stamps ++ l) then .ok { t with stamps := t.stamps ++ l, tag := 0 }
      else .error .ValueError
  | _ => if ts.isSome then .error .ValueError else .ok t

/-- `Timing._append_timing` + the interval warning -/
def appendTiming (t o : WTiming) : Except PyErr (WTiming × List Warning) :=
  match t.mode with
  | .irregular =>
    if o.mode ≠ .irregular then .error .SampleIntervalModeMismatchError
    else if t.stamps = [] then .ok (o, [])
    else if o.stamps = [] then .ok (t, [])
    else if Model.Timing.areMonotonic (t.stamps ++ o.stamps) then
      .ok ({ t with stamps := t.stamps ++ o.stamps, tag := 0 }, [])
    else .error .ValueError
  | _ =>
    if o.mode = .irregular then .error .SampleIntervalModeMismatchError
    else .ok (t, if t.interval ≠ o.interval then [.timingMismatch] else [])

/-- `Timing.create_with_irregular_interval(stamps)` as the waveform model sees it (used by the generated `append_timing` /
    `append_timestamps`, translator tier T18): monotonic timestamps or ValueError; no interval -/
def createIrregular (stamps : List Int) : Except PyErr WTiming :=
  if Model.Timing.areMonotonic stamps then .ok ⟨.irregular, none, stamps, 0⟩ else .error .ValueError

/-- write `rows` into the buffer at `off` (equal shapes; the caller guarantees room) -/
def writeAt (buf : List Row) (off : Nat) (rows : List Row) : List Row :=
  buf.take off ++ rows ++ buf.drop (off + rows.length)

/-- `ExtendedPropertyDictionary._merge`: keys the receiver lacks, first writer wins, insertion order -/
def mergeProps (p o : List (String × String)) : List (String × String) :=
  o.foldl (fun acc kv => if acc.any (fun x => x.1 == kv.1) then acc else acc ++ [kv]) p

def LINE_NAMES : String := "NI_LineNames"

/-- the name cache is dropped when NI_LineNames is added by a merge (key-changed notification) -/
def mergeInto (w : W) (o : List (String × String)) : W :=
  let added := o.any (fun kv => kv.1 == LINE_NAMES) && !(w.props.any (fun kv => kv.1 == LINE_NAMES))
  { w with props := mergeProps w.props o, namesCache := if added then none else w.namesCache }

/-- dtype / shape checks shared by `_append_array` and `_load_array` -/
def checkInput (w : W) (a : Arr) : Except PyErr Unit := do
  if a.dtype ≠ w.dtype then throw .DatatypeMismatchError
  if w.kind ≠ .digital ∧ a.ndim ≠ 1 then throw .ValueError
  if w.kind = .digital ∧ a.ndim ≠ 1 ∧ a.ndim ≠ 2 then throw .ValueError

def checkStampCount (ts : Option (List Int)) (n : Nat) : Except PyErr Unit :=
  match ts with
  | some l => if l.length ≠ n then .error .IrregularTimestampCountMismatchError else .ok ()
  | none => .ok ()

/-- `append(ndarray, timestamps)` -/
def appendArray (w : W) (a : Arr) (ts : Option (List Int)) (typesOk : Bool) : Except PyErr W := do
  checkInput w a
  if w.kind = .digital ∧ a.ncols ≠ w.ncols then throw .SignalCountMismatchError
  if w.kind = .spectrum ∧ ts.isSome then throw .TypeError
  checkStampCount ts a.rows.length
  let nt ← (if w.hasTiming then appendTimestamps w.timing ts typesOk else .ok w.timing)
  let w1 ← increaseCapacity w a.rows.length
  return { w1 with timing := nt, buf := writeAt w1.buf (w1.start + w1.count) a.rows,
                   count := w1.count + a.rows.length }

def foldTiming (t : WTiming) : List W → Except PyErr (WTiming × List Warning)
  | [] => .ok (t, [])
  | o :: os => do
    let (t1, w1) ← appendTiming t o.timing
    let (t2, w2) ← foldTiming t1 os
    return (t2, w1 ++ w2)

def copyAll (w : W) : List W → W
  | [] => w
  | o :: os =>
    let w1 := { w with buf := writeAt w.buf (w.start + w.count) o.view, count := w.count + o.count }
    copyAll (mergeInto w1 o.props) os

/-- the per-source checks of the first loop, in source order: dtype, then (digital) signal count -/
def checkSources (w : W) : List W → Except PyErr Unit
  | [] => .ok ()
  | o :: os =>
    if o.dtype ≠ w.dtype then .error .DatatypeMismatchError
    else if w.kind = .digital ∧ o.ncols ≠ w.ncols then .error .SignalCountMismatchError
    else checkSources w os

/-- `append(waveform)` / `append([waveforms])` -/
def appendWaveforms (w : W) (os : List W) : Except PyErr (W × List Warning) := do
  checkSources w os
  let sw : List Warning := if w.kind = .analog ∨ w.kind = .complex then
      (os.filter (fun o => o.scale ≠ w.scale)).map (fun _ => Warning.scalingMismatch) else []
  let (nt, tw) ← (if w.hasTiming then foldTiming w.timing os else .ok (w.timing, []))
  let w1 ← increaseCapacity w ((os.map (·.count)).sum)
  return (copyAll { w1 with timing := nt } os, sw ++ tw)

/-- `load_data(array, copy=, start_index=, sample_count=)` -/
def loadData (w : W) (a : Arr) (copy : Bool) (start count : Option Int) : Except PyErr W := do
  checkInput w a
  let g ← window a.rows.length start count
  if w.hasTiming ∧ w.timing.mode = .irregular ∧ g.2 ≠ w.timing.stamps.length then
    throw .IrregularTimestampCountMismatchError
  if w.kind = .digital ∧ a.ncols ≠ w.ncols then throw .SignalCountMismatchError
  if copy then
    let w1 ← (if g.2 > w.capacity then setCapacity w (some (g.2 : Int)) else .ok w)
    return { w1 with buf := writeAt w1.buf 0 ((a.rows.drop g.1).take g.2), start := 0, count := g.2 }
  else
    return { w with buf := a.rows, start := g.1, count := g.2, resizable := a.owned }

/-- a write through the data view: `w.raw_data[i] = row` -/
def writeView (w : W) (i : Int) (row : Row) : Except PyErr W :=
  let j := if i < 0 then i + w.count else i
  if j < 0 ∨ j ≥ w.count then .error .IndexError
  else .ok { w with buf := writeAt w.buf (w.start + j.toNat) [row] }

/-- `pickle.loads(pickle.dumps(w))` / `copy.deepcopy(w)`: `__reduce__` passes the visible window, the
    dtype, the properties, timing and scale mode to the constructor -/
def pickle (w : W) : Except PyErr W :=
  ctorArr w.kind ⟨w.dtype, if w.kind = .digital then 2 else 1, w.view, w.ncols, true⟩ (some w.dtype) true
    none (some (w.count : Int)) (if w.kind = .digital then some (w.ncols : Int) else none) none
    w.props (some w.timing) w.scale

/-- observable state (what `==` and the public accessors see) -/
structure Obs where
  kind : Kind
  dtype : Nat
  ncols : Nat
  data : List Row
  timing : WTiming
  scale : Int
  props : List (String × String)
  deriving DecidableEq, Repr

def W.obs (w : W) : Obs := ⟨w.kind, w.dtype, w.ncols, w.view, w.timing, w.scale, w.props⟩

end Model.Wfm
