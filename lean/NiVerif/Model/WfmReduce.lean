/-
  Interpreting the `__reduce__` tables of `Gen/WfmReduce` (tier T30) over the buffer machine of Model/Wfm.lean.

  `Gen.WfmReduce.reduce_args` / `reduce_kwargs` say, per class, which *member of the object* every constructor argument of the
  pickled form reads (`view` = the visible window `_data[start : start + count]`, `buffer` = the whole `_data`, `count`, `ncols`,
  `dtype`, `props`, `timing`, `scale`, …); `ctor_params` is the constructor's own parameter list.  `pickleVia` zips them and makes
  the constructor call of the model with exactly those arguments; a parameter that is not passed keeps the constructor's default.
  Tie: the tables are regenerated from the source on every run; `Model.Wfm.ctorArr` is tied by the stateful protocol of C01 / C13.
-/
import NiVerif.Model.Wfm
import NiVerif.Gen.WfmReduce

namespace Model.WfmReduce
open Model.Wfm

def clsOf : Kind → String
  | .analog => "NumericWaveform" | .complex => "NumericWaveform" | .digital => "DigitalWaveform" | .spectrum => "Spectrum"

/-- the name of the constructor parameter that takes the array -/
def dataParam : Kind → String
  | .analog => "raw_data" | .complex => "raw_data" | _ => "data"

/-- parameter ↦ member word, from the generated tables; `none` when the call would be refused by Python itself
    (more positional arguments than parameters, an unknown or doubly bound keyword) -/
def bindings (cls : String) : Option (List (String × String)) := do
  let pos ← Gen.WfmReduce.reduce_args.lookup cls
  let kws ← Gen.WfmReduce.reduce_kwargs.lookup cls
  let ps ← Gen.WfmReduce.ctor_params.lookup cls
  if pos.length > ps.1.length then none
  else if kws.any (fun kv => !(ps.2.contains kv.1 || ps.1.contains kv.1)) then none
  else if kws.any (fun kv => ((ps.1.take pos.length).contains kv.1)) then none
  else some (ps.1.zip pos ++ kws)

def intArg (w : W) (b : List (String × String)) (p : String) : Option (Option Int) :=
  match b.lookup p with
  | none => some none
  | some "None" => some none
  | some "count" => some (some (w.count : Int))
  | some "ncols" => some (some (w.ncols : Int))
  | some "capacity" => some (some (w.capacity : Int))
  | some "start" => some (some (w.start : Int))
  | _ => none

/-- the constructor call `__reduce__` describes, on the model (none: the tables bind a parameter to a member of another type) -/
def pickleVia (w : W) : Option (Except PyErr W) := do
  let b ← bindings (clsOf w.kind)
  let rows ← match b.lookup (dataParam w.kind) with
    | some "view" => some w.view
    | some "buffer" => some w.buf
    | _ => none
  let count ← intArg w b "sample_count"
  let ncols ← intArg w b "signal_count"
  let start ← intArg w b "start_index"
  let cap ← intArg w b "capacity"
  let dtypeReq ← match b.lookup "dtype" with
    | none => some none | some "dtype" => some (some w.dtype) | _ => none
  let props ← match b.lookup "extended_properties" with
    | none => some [] | some "props" => some w.props | _ => none
  -- Spectrum has no timing / scale parameter, DigitalWaveform no scale parameter: the model's record carries those fields unchanged
  let timing ← match b.lookup "timing" with
    | some "timing" => some (some w.timing)
    | none => some (if w.kind = .spectrum then some w.timing else none)
    | _ => none
  let scale ← match b.lookup "scale_mode" with
    | some "scale" => some w.scale
    | none => some (if w.kind = .analog ∨ w.kind = .complex then 0 else w.scale)
    | _ => none
  some (ctorArr w.kind ⟨w.dtype, if w.kind = .digital then 2 else 1, rows, w.ncols, true⟩ dtypeReq true
          start count ncols cap props timing scale)

/-- one conjunct of `__eq__`: the comparison of one member of both objects (`none`: not a member of the model).  Spectrum's two
    frequency members are not part of `W`: their conjuncts are outside the model and read as true. -/
def memberEq (a b : W) : String → Option Bool
  | "dtype" => some (a.dtype == b.dtype)
  | "view" => some (a.view == b.view)
  | "buffer" => some (a.buf == b.buf)
  | "props" => some (a.props == b.props)
  | "timing" => some (a.timing == b.timing)
  | "scale" => some (a.scale == b.scale)
  | "count" => some (a.count == b.count)
  | "ncols" => some (a.ncols == b.ncols)
  | "start" => some (a.start == b.start)
  | "capacity" => some (a.capacity == b.capacity)
  | "start_frequency" => some true
  | "frequency_increment" => some true
  | _ => none

/-- `a == b` for two objects of one class, as the generated member list says -/
def eqVia (a b : W) : Option Bool := do
  let ms ← Gen.WfmReduce.eq_members.lookup (clsOf a.kind)
  let bs ← ms.mapM (memberEq a b)
  some (bs.all id)

end Model.WfmReduce
