/-
  bintime.DateTime calendar fields and construction from fields (hand model over generated kernels
  and Model/Calendar.lean).

  year/month/day: `self._to_hightime_datetime().year` …  = `_HT_EPOCH_1904 + to_hightime_timedelta`
  (hightime `datetime.__add__`: ordinal-based, then `date.fromordinal(delta.days)`);
  hour … yoctosecond are the generated `Gen.DateTime.*` properties.
  Construction `DateTime(y, m, d, H, M, S, us, fs, ys, tzinfo=utc)`: `ht.datetime(...)` →
  `_to_offset` → `value - _HT_EPOCH_1904` (hightime `__sub__`, via `toordinal`) → `TimeDelta(ht.timedelta)`.
  Tie: tools/props/c14.py.
-/
import NiVerif.Gen.DateTime
import NiVerif.Model.Mixed
import NiVerif.Model.Calendar

namespace Model.DtFields
open Model.Mixed Model.Calendar

abbrev DAY_YS : Int := 86400000000000000000000000000

/-- (year, month, day) of a DateTime, or OverflowError outside years 1..9999 -/
def ymd (t : Int) : Except PyErr (Int × Int × Int) :=
  (htOfBtDt t).map fun q => ord2ymd (q / DAY_YS + 1)

/-- all nine fields -/
def fields (t : Int) : Except PyErr (List Int) :=
  (ymd t).map fun r =>
    [r.1, r.2.1, r.2.2, Gen.DateTime.hour t, Gen.DateTime.minute t, Gen.DateTime.second t,
     Gen.DateTime.microsecond t, Gen.DateTime.femtosecond t, Gen.DateTime.yoctosecond t]

def fieldsValid (y m d H M S us fs ys : Int) : Prop :=
  validYmd y m d ∧ 0 ≤ H ∧ H < 24 ∧ 0 ≤ M ∧ M < 60 ∧ 0 ≤ S ∧ S < 60 ∧ 0 ≤ us ∧ us < 1000000
  ∧ 0 ≤ fs ∧ fs < 1000000000 ∧ 0 ≤ ys ∧ ys < 1000000000
instance (y m d H M S us fs ys : Int) : Decidable (fieldsValid y m d H M S us fs ys) := by
  unfold fieldsValid validYmd; exact inferInstance

/-- ys since 0001-01-01 of a hightime.datetime with these fields -/
def htAbsOfFields (y m d H M S us fs ys : Int) : Int :=
  ((ymd2ord y m d - 1) * 86400 + H * 3600 + M * 60 + S) * 1000000000000000000000000
    + us * 1000000000000000000 + fs * 1000000000 + ys

/-- `DateTime(y, m, d, H, M, S, us, fs, ys, tzinfo=datetime.timezone.utc)` -/
def ctor (y m d H M S us fs ys : Int) : Except PyErr Int :=
  if fieldsValid y m d H M S us fs ys then btDtOfHt (htAbsOfFields y m d H M S us fs ys)
  else .error .ValueError

/-- the positional arguments `__repr__` prints after (year, month, day, hour, minute) -/
def reprTail (S us fs ys : Int) : List Int :=
  if ys ≠ 0 then [S, us, fs, ys] else if fs ≠ 0 then [S, us, fs] else if us ≠ 0 then [S, us]
  else if S ≠ 0 then [S] else []

/-- missing trailing constructor arguments default to 0 -/
def padTail (l : List Int) : Int × Int × Int × Int :=
  (l.getD 0 0, l.getD 1 0, l.getD 2 0, l.getD 3 0)

def dispatch : List String → Option String
  | ["dtf", "fields", a] => a.toInt?.map fun t => Py.render (fields t)
  | ["dtf", "reprtail", a] => a.toInt?.map fun t =>
      Py.render (reprTail (Gen.DateTime.second t) (Gen.DateTime.microsecond t) (Gen.DateTime.femtosecond t)
        (Gen.DateTime.yoctosecond t))
  | "dtf" :: "ctor" :: args =>
    match args.mapM (fun (s : String) => s.toInt?) with
    | some [y, m, d, H, M, S, us, fs, ys] => some (Py.render (ctor y m d H M S us fs ys))
    | _ => none
  | _ => none

end Model.DtFields
