/-
  `DigitalWaveform.from_port` / `from_ports` (hand model; `bit_mask` and the port-dtype choice are
  regenerated in Gen/Port.lean).

  Mirrors `_port.py`: `_mask_to_column_indices` (the `while mask != 0` loop: test bit 0, append the
  column, `bit_position += 1`, `mask >>= 1`; `reverse()` for 'big'), `port_to_line_data` (reject a mask
  wider than the port; unpack every sample to `port_size` bits, MSB first for 'big', LSB first for
  'little'; full mask → all columns, otherwise the selected columns), and `from_port` (default mask,
  port width from the array dtype or from the mask for sequences, state-dtype view = element retag,
  start_index / sample_count row window with the checks of `_init_with_provided_array`).

  Modelled, not verified: NumPy `ascontiguousarray(dtype=byte order)`, `view(uint8)`, `unpackbits`,
  fancy column indexing — collapsed to "a function of the integer sample values".
  Tie: tools/props/c06.py (8-bit ports: all values x all masks exhaustively).
-/
import NiVerif.Gen.Port

namespace Model.Port

/-- bit `b` of a natural number, as 0/1 -/
def bit (v : Nat) (b : Nat) : Int := if v.testBit b then 1 else 0

/-- column of the unpacked row that holds bit position `pos` -/
def colOf (big : Bool) (w : Nat) (pos : Nat) : Int := if big then (w : Int) - 1 - pos else pos

/-- the `while mask != 0` loop (fuel = number of remaining iterations allowed) -/
def colLoop (big : Bool) (w : Nat) : Nat → Nat → Nat → List Int
  | 0, _, _ => []
  | f + 1, m, pos =>
    if m = 0 then []
    else (if m % 2 = 1 then [colOf big w pos] else []) ++ colLoop big w f (m / 2) (pos + 1)

/-- `_mask_to_column_indices(mask, port_size, bitorder)` -/
def maskToColumns (mask : Int) (w : Nat) (big : Bool) : Except PyErr (List Int) :=
  if mask < 0 then .error .ValueError
  else
    let l := colLoop big w (Py.bitLen mask.toNat) mask.toNat 0
    .ok (if big then l.reverse else l)

/-- one sample unpacked to `w` line states: MSB first for 'big', LSB first for 'little' -/
def unpackRow (v : Nat) (w : Nat) (big : Bool) : List Int :=
  (List.range w).map fun c => bit v (if big then w - 1 - c else c)

/-- Python list/NumPy indexing `row[c]` with a possibly negative column index -/
def pick (row : List Int) (c : Int) : Int :=
  let j := if c < 0 then c + row.length else c
  row.getD j.toNat 0

/-- `port_to_line_data(port_data, mask, bitorder)` on the integer sample values -/
def portToLine (values : List Nat) (w : Nat) (mask : Int) (big : Bool) : Except PyErr (List (List Int)) :=
  (Gen.Port.bit_mask w).bind fun full =>
  if mask > full then .error .ValueError
  else if mask = full then .ok (values.map fun v => unpackRow (v % 2 ^ w) w big)
  else (maskToColumns mask w big).map fun cols =>
    values.map fun v => cols.map fun c => pick (unpackRow (v % 2 ^ w) w big) c

/-- `from_port(array, mask, dtype, bitorder=, start_index=, sample_count=)`:
    `width` = 8·itemsize of an ndarray input, or `none` for a Python sequence (then the mask is
    mandatory and the width comes from `get_port_dtype(mask)`) -/
def fromPort (values : List Nat) (width : Option Nat) (mask : Option Int) (big : Bool)
    (start count : Option Int) : Except PyErr (List (List Int)) :=
  let dflt : Except PyErr Int := match width with
    | some w => Gen.Port.bit_mask w
    | none => if mask.isNone then .error .ValueError else .ok 0
  dflt.bind fun d =>
  (Py.argToUint (mask.getD d)).bind fun m =>
  (match width with
    | some w => Except.ok w
    | none => (Gen.Port._get_port_dtype m).map Int.toNat).bind fun w =>
  (portToLine values w m big).bind fun rows =>
  -- `_init_with_provided_array`: start_index ≤ len, start_index + sample_count ≤ len
  (Py.argToUint (start.getD 0)).bind fun s =>
  if s > rows.length then .error .StartIndexTooLargeError
  else (Py.argToUint (count.getD ((rows.length : Int) - s))).bind fun n =>
  if s + n > rows.length then .error .StartIndexOrSampleCountTooLargeError
  else .ok ((rows.drop s.toNat).take n.toNat)

/-! line protocol: port <big|little> <width|-> <mask|-> <start|-> <count|-> [v,v,…] -/
def parseOpt (s : String) : Option (Option Int) := if s = "-" then some none else s.toInt?.map some
def parseNats (s : String) : Option (List Nat) :=
  if s = "[]" then some []
  else (((s.replace "[" "").replace "]" "").splitOn ",").mapM fun (x : String) => x.toNat?

def dispatch : List String → Option String
  | ["port", bo, w, m, s, n, vs] =>
    match parseOpt w, parseOpt m, parseOpt s, parseOpt n, parseNats vs with
    | some w', some m', some s', some n', some vals =>
      some (Py.render (fromPort vals (w'.map Int.toNat) m' (bo == "big") s' n'))
    | _, _, _, _, _ => none
  | ["portcols", bo, w, m] =>
    match w.toNat?, m.toInt? with
    | some w', some m' => some (Py.render (maskToColumns m' w' (bo == "big")))
    | _, _ => none
  | _ => none

end Model.Port
