/-
  1-D NumPy array primitives the bintime arrays use (hand-written prelude for translator tier T17), over tick-count lists:
  `a[start:stop:step] = list` (shapes must agree, a one-element list is broadcast), `np.delete` (slice / index), `np.insert`.
  Tie: the correspondence of tools/props/c17.py runs the real classes - whose storage these primitives describe - against
  Model/BtArray.lean, and Props/C17 proves the generated methods (which are built from these primitives) equal to that model.
-/
import NiVerif.Model.BtArray

namespace Model.Np1
open Py.Slice Model.BtArray

/-- `a[start:stop:step] = vs` -/
def setSlice (a : Arr) (start stop step : Option Int) (vs : List Int) : Except PyErr Arr :=
  (indices start stop step a.length).bind fun (s, e, st) =>
    let n := rangeLen s e st
    if vs.length = n then .ok (Py.ListSpec.scatter a (rangeList s e st) vs)
    else if vs.length = 1 then .ok (Py.ListSpec.scatter a (rangeList s e st) (List.replicate n (vs.headD 0)))
    else .error .ValueError

/-- `np.delete(a, slice(start, stop, step))` -/
def delete (a : Arr) (start stop step : Option Int) : Except PyErr Arr := Model.BtArray.delSlice a start stop step

/-- `np.delete(a, i)` -/
def deleteAt (a : Arr) (i : Int) : Except PyErr Arr := Model.BtArray.delItem a i

/-- `np.insert(a, pos, vs)`: IndexError outside [-len, len]; a negative position counts from the end -/
def insert (a : Arr) (pos : Int) (vs : List Int) : Except PyErr Arr :=
  let n : Int := a.length
  if pos < -n ∨ pos > n then .error .IndexError
  else .ok (insertAt a (if pos < 0 then pos + n else pos).toNat vs)

/-- NumPy's conversion of a Python int used as an index: values in [2^63, 2^64) do not fit the C index type and raise OverflowError
    ("Python int too large to convert to C long"); everything else is range-checked against the length (IndexError) -/
def cIndex (k : Int) : Except PyErr Int :=
  if (2 : Int) ^ 63 ≤ k ∧ k < (2 : Int) ^ 64 then .error .OverflowError else .ok k
/-- `a[k]` for a Python int `k` -/
def getAt (a : Arr) (k : Int) : Except PyErr Int := (cIndex k).bind fun j => Model.BtArray.getItem a j
/-- `a[k] = x` -/
def setAt (a : Arr) (k : Int) (x : Int) : Except PyErr Arr := (cIndex k).bind fun j => Model.BtArray.setItem a j x

end Model.Np1
