/-
  1-D NumPy array primitives the bintime arrays use (hand-written prelude for translator tier T17), over tick-count lists:
  `a[start:stop:step] = list` (shapes must agree, a one-element list is broadcast), `np.delete` (slice / index), `np.insert`.
  Tie: the correspondence of tools/props/c17.py runs the real classes - whose storage these primitives describe - against
  Model/BtArray.lean, and Props/C17 proves the generated methods (which are built from these primitives) equal to that model.
-/
import NiVerif.Model.BtArray

namespace Model.Np1
open Py.Slice Model.BtArray

/-- `a[start:stop:step] = vs` -/
def setSlice (a : Arr) (start stop step : Option Int) (vs : List Int) : Except PyErr Arr :=
  (indices start stop step a.length).bind fun (s, e, st) =>
    let n := rangeLen s e st
    if vs.length = n then .ok (Py.ListSpec.scatter a (rangeList s e st) vs)
    else if vs.length = 1 then .ok (Py.ListSpec.scatter a (rangeList s e st) (List.replicate n (vs.headD 0)))
    else .error .ValueError

/-- `np.delete(a, slice(start, stop, step))` -/
def delete (a : Arr) (start stop step : Option Int) : Except PyErr Arr := Model.BtArray.delSlice a start stop step

/-- `np.delete(a, i)` -/
def deleteAt (a : Arr) (i : Int) : Except PyErr Arr := Model.BtArray.delItem a i

/-- `np.insert(a, pos, vs)`: IndexError outside [-len, len]; a negative position counts from the end -/
def insert (a : Arr) (pos : Int) (vs : List Int) : Except PyErr Arr :=
  let n : Int := a.length
  if pos < -n ∨ pos > n then .error .IndexError
  else .ok (insertAt a (if pos < 0 then pos + n else pos).toNat vs)

end Model.Np1
