/-
  Binary operators between bintime values and datetime / hightime / int operands, both operand
  orders, including Python's reflected-operator dispatch (hand model over generated kernels).

  Values:
    btTd t   bintime.TimeDelta, ticks            btDt t   bintime.DateTime, ticks since 1904-01-01Z
    dtTd u   datetime.timedelta, microseconds    dtDt p   UTC datetime.datetime, µs since 0001-01-01
    htTd y   hightime.timedelta, yoctoseconds    htDt q   UTC hightime.datetime, ys since 0001-01-01
    int n    Python int                          bool b   comparison result

  Modelled, not verified (CPython 3.12 / hightime 1.0.0 behaviour): `datetime`/`hightime` operators
  return NotImplemented for bintime operands, so Python calls the bintime reflected method
  (`__radd__ = __add__`, `__rsub__`, `__rmul__ = __mul__`, `<` ↔ `>`); absolute datetimes are
  integer µs / ys since 0001-01-01 and `datetime ± timedelta` raises OverflowError outside years
  1..9999.  Tie: tools/props/c03.py runs the real operands through every (op, kind, kind) cell.
-/
import NiVerif.Gen.TimeDelta
import NiVerif.Gen.DateTime
import NiVerif.Model.Conv

namespace Model.Mixed
open Model.Conv

inductive V where
  | btTd (t : Int) | dtTd (u : Int) | htTd (y : Int)
  | btDt (t : Int) | dtDt (p : Int) | htDt (q : Int)
  | int (n : Int) | bool (b : Bool) | pair (a : Int) (b : Int)
  deriving DecidableEq, Repr

inductive Op where
  | add | sub | mul | floordiv | mod | divmod | lt | le | eq | gt | ge
  deriving DecidableEq, Repr

/-- days from 0001-01-01 to 9999-12-31 inclusive -/
abbrev MAX_ORDINAL : Int := 3652059
/-- 1904-01-01 is ordinal 695 056, i.e. 695 055 days after 0001-01-01 -/
abbrev EPOCH_DAYS : Int := 695055

abbrev dtAbsInRange (p : Int) : Prop := 0 ≤ p ∧ p < MAX_ORDINAL * 86400000000
abbrev htAbsInRange (q : Int) : Prop := 0 ≤ q ∧ q < MAX_ORDINAL * 86400000000000000000000000000

def dtAbs (p : Int) : Except PyErr V := if dtAbsInRange p then .ok (.dtDt p) else .error .OverflowError
def htAbs (q : Int) : Except PyErr V := if htAbsInRange q then .ok (.htDt q) else .error .OverflowError

abbrev DT_EPOCH : Int := EPOCH_DAYS * 86400000000
abbrev HT_EPOCH : Int := EPOCH_DAYS * 86400000000000000000000000000

/-- `DateTime(dt.datetime)`: `TimeDelta(value - _DT_EPOCH_1904)` (UTC operands) -/
def btDtOfDt (p : Int) : Except PyErr Int := btOfDt (p - DT_EPOCH)
/-- `DateTime(ht.datetime)` -/
def btDtOfHt (q : Int) : Except PyErr Int := btOfHt (q - HT_EPOCH)
/-- `_to_hightime_datetime()` : `_HT_EPOCH_1904 + to_hightime_timedelta` -/
def htOfBtDt (t : Int) : Except PyErr Int :=
  (htOfBt t).bind fun y => if htAbsInRange (HT_EPOCH + y) then .ok (HT_EPOCH + y) else .error .OverflowError
/-- `_to_datetime_datetime()` -/
def dtOfBtDt (t : Int) : Except PyErr Int :=
  (dtOfBt t).bind fun u => if dtAbsInRange (DT_EPOCH + u) then .ok (DT_EPOCH + u) else .error .OverflowError

/-- `_convert_to_dt_datetime(ht.datetime)`: field copy drops femto/yoctoseconds (keeps tzinfo, fold) -/
def dtAbsOfHt (q : Int) : Int := q / 1000000000000000000
/-- `_convert_to_ht_datetime(dt.datetime)`: field copy, exact -/
def htAbsOfDt (p : Int) : Int := p * 1000000000000000000

/-- `DateTime._to_offset`: only `tzinfo == datetime.timezone.utc` is accepted (naive and every other
    zone: ValueError); `utcEq` says whether the operand's tzinfo compares equal to timezone.utc -/
def toOffsetChecked (utcEq : Bool) (r : Except PyErr Int) : Except PyErr Int :=
  if utcEq then r else .error .ValueError

/-- the five comparison operators on two integers of one family; `none` for non-comparison operators -/
def cmpBool (op : Op) (a b : Int) : Option Bool :=
  match op with
  | .lt => some (decide (a < b)) | .le => some (decide (a ≤ b))
  | .eq => some (decide (a = b)) | .gt => some (decide (b < a))
  | .ge => some (decide (b ≤ a))
  | _ => none

def isCmp (op : Op) : Bool := match op with | .lt | .le | .eq | .gt | .ge => true | _ => false

def cmpInt (op : Op) (a b : Int) : Except PyErr V :=
  match cmpBool op a b with
  | some r => .ok (.bool r)
  | none => .error .TypeError

def bt (r : Except PyErr Int) : Except PyErr V := r.map V.btTd
def btD (r : Except PyErr Int) : Except PyErr V := r.map V.btDt

/-- `_compare_hightime_timedelta` / `_compare_hightime_datetime`: the bintime value is promoted to hightime; when that is
    impossible (OverflowError: it lies beyond hightime's range, on the side of its sign) it is beyond every hightime value.
    The result of the operator is `compare(...) <op> 0`. -/
def cmpHt (op : Op) (promoted : Except PyErr Int) (ticks : Int) (other : Int) : Except PyErr V :=
  match promoted with
  | .ok p => cmpInt op p other
  | .error _ => cmpInt op (if ticks < 0 then -1 else 1) 0

/-- `TimeDelta.__op__(self, value)` -/
def tdOp (op : Op) (a : Int) (r : V) : Option (Except PyErr V) :=
  open Gen.TimeDelta in
  match op, r with
  | .add, .btTd b => some (bt (add_TD a b))
  | .add, .dtTd u => some ((btOfDt u).bind fun b => bt (add_TD a b))
  | .add, .htTd y => some ((btOfHt y).bind fun b => bt (add_TD a b))
  | .add, .htDt q => some ((htOfBt a).bind fun y => htAbs (q + y))
  | .add, .dtDt p => some ((dtOfBt a).bind fun u => dtAbs (p + u))
  | .sub, .btTd b => some (bt (sub_TD a b))
  | .sub, .dtTd u => some ((btOfDt u).bind fun b => bt (sub_TD a b))
  | .sub, .htTd y => some ((btOfHt y).bind fun b => bt (sub_TD a b))
  | .mul, .int n => some (bt (mul_int a n))
  | .floordiv, .btTd b => some ((floordiv_TD a b).map V.int)
  | .floordiv, .int n => some (bt (floordiv_int a n))
  | .mod, .btTd b => some (bt (mod_TD a b))
  | .mod, .dtTd u => some ((btOfDt u).bind fun b => bt (mod_TD a b))
  | .mod, .htTd y => some ((btOfHt y).bind fun b => bt (mod_TD a b))
  | .divmod, .btTd b => some ((divmod_TD a b).map fun p => V.pair p.1 p.2)
  | .divmod, .dtTd u => some ((btOfDt u).bind fun b => (divmod_TD a b).map fun p => V.pair p.1 p.2)
  | .divmod, .htTd y => some ((btOfHt y).bind fun b => (divmod_TD a b).map fun p => V.pair p.1 p.2)
  | op, .btTd b => if isCmp op then some (cmpInt op a b) else none
  | op, .htTd y => if isCmp op then some (cmpHt op (htOfBt a) a y) else none -- `_compare_hightime_timedelta`: promote bt → ht
  | op, .dtTd u => if isCmp op then some ((btOfDt u).bind fun b => cmpInt op a b) else none -- promote dt → bt
  | _, _ => none

/-- the reflected method `TimeDelta.__rop__(self, value)` (value is the *left* operand) -/
def tdROp (op : Op) (a : Int) (l : V) : Option (Except PyErr V) :=
  open Gen.TimeDelta in
  match op, l with
  | .add, v => tdOp .add a v -- __radd__ = __add__
  | .mul, v => tdOp .mul a v -- __rmul__ = __mul__
  | .sub, .btTd b => some (bt (rsub_TD a b))
  | .sub, .dtTd u => some ((btOfDt u).bind fun b => bt (sub_TD b a))
  | .sub, .htTd y => some ((btOfHt y).bind fun b => bt (sub_TD b a))
  | .sub, .htDt q => some ((htOfBt a).bind fun y => htAbs (q - y))
  | .sub, .dtDt p => some ((dtOfBt a).bind fun u => dtAbs (p - u))
  | .lt, v => tdOp .gt a v | .le, v => tdOp .ge a v | .eq, v => tdOp .eq a v
  | .gt, v => tdOp .lt a v | .ge, v => tdOp .le a v
  | _, _ => none

/-- `DateTime.__op__(self, value)` -/
def dtOp (op : Op) (a : Int) (r : V) : Option (Except PyErr V) :=
  open Gen.DateTime in
  match op, r with
  | .add, .btTd d => some (btD (add_TD a d))
  | .add, .dtTd u => some ((btOfDt u).bind fun d => btD (add_TD a d))
  | .add, .htTd y => some ((btOfHt y).bind fun d => btD (add_TD a d))
  | .sub, .btDt b => some (bt (sub_DT a b))
  | .sub, .dtDt p => some ((btDtOfDt p).bind fun b => bt (sub_DT a b))
  | .sub, .htDt q => some ((btDtOfHt q).bind fun b => bt (sub_DT a b))
  | .sub, .btTd d => some (btD (sub_TD a d))
  | .sub, .dtTd u => some ((btOfDt u).bind fun d => btD (sub_TD a d))
  | .sub, .htTd y => some ((btOfHt y).bind fun d => btD (sub_TD a d))
  | op, .btDt b => if isCmp op then some (cmpInt op a b) else none
  | op, .htDt q => if isCmp op then some (cmpHt op (htOfBtDt a) a q) else none   -- `_compare_hightime_datetime`
  | op, .dtDt p => if isCmp op then some ((btDtOfDt p).bind fun b => cmpInt op a b) else none
  | _, _ => none

def dtROp (op : Op) (a : Int) (l : V) : Option (Except PyErr V) :=
  open Gen.DateTime in
  match op, l with
  | .add, v => dtOp .add a v
  | .sub, .btDt b => some (bt (rsub_DT a b))
  | .sub, .dtDt p => some ((btDtOfDt p).bind fun b => bt (sub_DT b a))
  | .sub, .htDt q => some ((btDtOfHt q).bind fun b => bt (sub_DT b a))
  | .sub, .btTd d => some (btD (Gen.TimeDelta.sub_TD d a)) -- `value - self._offset`, re-wrapped as DateTime
  -- `TimeDelta(value) - self` → TimeDelta.__sub__(DateTime) is NotImplemented → DateTime.__rsub__(TimeDelta)
  | .sub, .dtTd u => some ((btOfDt u).bind fun d => btD (Gen.TimeDelta.sub_TD d a))
  | .sub, .htTd y => some ((btOfHt y).bind fun d => btD (Gen.TimeDelta.sub_TD d a))
  | .lt, v => dtOp .gt a v | .le, v => dtOp .ge a v | .eq, v => dtOp .eq a v
  | .gt, v => dtOp .lt a v | .ge, v => dtOp .le a v
  | _, _ => none

/-- `l op r` with Python's dispatch: the left operand's method first, then the reflected method of
    the right operand; NotImplemented from both is a TypeError (`==` falls back to identity: False). -/
def binop (op : Op) (l r : V) : Except PyErr V :=
  let first : Option (Except PyErr V) :=
    match l with
    | .btTd a => tdOp op a r
    | .btDt a => dtOp op a r
    | _ => none
  match first with
  | some x => x
  | none =>
    let second : Option (Except PyErr V) :=
      match r with
      | .btTd b => tdROp op b l
      | .btDt b => dtROp op b l
      | _ => none
    match second with
    | some x => x
    | none => if op = .eq then .ok (.bool false) else .error .TypeError

/-! line protocol: `mixed <op> <kind> <int> <kind> <int>` -/
def parseOp : String → Option Op
  | "add" => some .add | "sub" => some .sub | "mul" => some .mul | "floordiv" => some .floordiv
  | "mod" => some .mod | "divmod" => some .divmod | "lt" => some .lt | "le" => some .le
  | "eq" => some .eq | "gt" => some .gt | "ge" => some .ge | _ => none

def parseV (k : String) (n : Int) : Option V :=
  match k with
  | "btTd" => some (.btTd n) | "dtTd" => some (.dtTd n) | "htTd" => some (.htTd n)
  | "btDt" => some (.btDt n) | "dtDt" => some (.dtDt n) | "htDt" => some (.htDt n)
  | "int" => some (.int n) | _ => none

def renderV : V → String
  | .btTd t => s!"btTd {t}" | .dtTd u => s!"dtTd {u}" | .htTd y => s!"htTd {y}"
  | .btDt t => s!"btDt {t}" | .dtDt p => s!"dtDt {p}" | .htDt q => s!"htDt {q}"
  | .int n => s!"int {n}" | .bool b => s!"bool {if b then "True" else "False"}"
  | .pair a b => s!"pair {a} {b}"

instance : Py.Render V := ⟨renderV⟩

def dispatch : List String → Option String
  | ["convabs", f, n] =>
    match n.toInt? with
    | none => none
    | some x =>
      match f with
      | "btDtOfDt" => some (Py.render (btDtOfDt x))
      | "btDtOfHt" => some (Py.render (btDtOfHt x))
      | "htOfBtDt" => some (Py.render (htOfBtDt x))
      | "dtOfBtDt" => some (Py.render (dtOfBtDt x))
      | "dtAbsOfHt" => some (Py.render (dtAbsOfHt x))
      | "htAbsOfDt" => some (Py.render (htAbsOfDt x))
      | _ => none
  | ["mixed", op, k1, n1, k2, n2] =>
    match parseOp op, n1.toInt?, n2.toInt? with
    | some o, some a, some b =>
      match parseV k1 a, parseV k2 b with
      | some l, some r => some (Py.render (binop o l r))
      | _, _ => none
    | _, _, _ => none
  | _ => none

end Model.Mixed
