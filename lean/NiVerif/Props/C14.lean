/-
  C14 — Calendar fields, normalized fields and text agree with the tick value.
-/
import NiVerif.Gen.TimeDelta
import NiVerif.Gen.DateTime
import NiVerif.Proofs.Bits
import NiVerif.Proofs.ConvLemmas
import NiVerif.Proofs.Calendar
import NiVerif.Model.DtFields
import NiVerif.Model.TdText

namespace Props.C14
open Gen.TimeDelta

abbrev T : Int := 18446744073709551616
abbrev Y : Int := 1000000000000000000000000

/-! ### TimeDelta: normalized fields -/

theorem td_fields_ranges (t : Int) :
    0 ≤ seconds t ∧ seconds t < 86400 ∧ 0 ≤ microseconds t ∧ microseconds t < 1000000
    ∧ 0 ≤ femtoseconds t ∧ femtoseconds t < 1000000000 ∧ 0 ≤ yoctoseconds t ∧ yoctoseconds t < 1000000000 := by
  py_norm
  omega

/-- the fields add up to the value rounded down to a yoctosecond -/
theorem td_fields_sum (t : Int) :
    ((days t * 86400 + seconds t) * 1000000 + microseconds t) * 1000000000000000000
      + femtoseconds t * 1000000000 + yoctoseconds t = t * Y / T := by
  py_norm
  unfold T Y
  have h1 : t * 1000000000000000000000000
      = 1000000000000000000000000 * (t % 18446744073709551616)
        + 18446744073709551616 * (t / 18446744073709551616 * 1000000000000000000000000) := by omega
  rw [h1, Int.add_mul_ediv_left _ _ (by decide)]
  generalize t % 18446744073709551616 = r
  generalize t / 18446744073709551616 = w
  -- nested floors: ⌊⌊Y·r/T⌋ / 10⁹⌋ = ⌊10¹⁵·r/T⌋ and ⌊⌊10¹⁵·r/T⌋ / 10⁹⌋ = ⌊10⁶·r/T⌋
  have n1 : 1000000000000000000000000 * r / 18446744073709551616 / 1000000000
      = 1000000000000000 * r / 18446744073709551616 := by omega
  have n2 : 1000000000000000 * r / 18446744073709551616 / 1000000000
      = 1000000 * r / 18446744073709551616 := by omega
  omega

/-! ### TimeDelta: text -/

open Model.TdText

/-- the shown value is within half of 10⁻¹⁸ s of the exact one -/
theorem td_str_value (t : Int) :
    2 * (total18 t * T - t * 1000000000000000000) ≤ T ∧ -T < 2 * (total18 t * T - t * 1000000000000000000) := by
  unfold total18 T; omega

/-- `str(TimeDelta)` is the normal-form rendering of that rounded value (in particular a fraction that
    rounds up to a whole second is carried, never printed as `.1`) -/
theorem td_str_eq (t : Int) : Gen.TimeDelta.str t = renderTd18 (total18 t) := by
  unfold renderTd18 total18
  py_norm
  have hx : (t * 1000000000000000000 + 9223372036854775808) / 18446744073709551616
      = t / 18446744073709551616 * 1000000000000000000
        + (1000000000000000000 * (t % 18446744073709551616) + 9223372036854775808) / 18446744073709551616 := by
    have h1 : t * 1000000000000000000 + 9223372036854775808
        = (1000000000000000000 * (t % 18446744073709551616) + 9223372036854775808)
          + 18446744073709551616 * (t / 18446744073709551616 * 1000000000000000000) := by omega
    rw [h1, Int.add_mul_ediv_left _ _ (by decide)]; omega
  rw [hx]
  generalize (1000000000000000000 * (t % 18446744073709551616) + 9223372036854775808) / 18446744073709551616 = F
  generalize t / 18446744073709551616 = W
  have e1 : (W * 1000000000000000000 + F) / 1000000000000000000 = W + F / 1000000000000000000 := by omega
  have e2 : (W * 1000000000000000000 + F) % 1000000000000000000 = F % 1000000000000000000 := by omega
  rw [e1, e2]

-- the pinned tree printed '0:00:00.1' for 2^64-1 ticks; the carry is now part of the text
example : Gen.TimeDelta.str 18446744073709551615 = "0:00:01" := by decide +kernel
example : renderTd18 (total18 (-1)) = "0:00:00" := by decide +kernel

/-! ### DateTime: calendar fields -/
section DateTimeFields
open Model.DtFields Model.Mixed Model.Calendar Proofs.Conv

/-- ticks of DateTime.min (0001-01-01T00:00:00Z) and DateTime.max (9999-12-31T23:59:59 + (2⁶⁴−1) ticks) -/
abbrev DT_MIN : Int := -(695055 * 86400 * 18446744073709551616)
abbrev DT_MAX : Int := (3652059 - 695055) * 86400 * 18446744073709551616 - 1

/-- the instant in yoctoseconds since 0001-01-01T00:00:00Z, rounded down: defined exactly on [min, max] -/
theorem dt_instant (t : Int) (h : DT_MIN ≤ t ∧ t ≤ DT_MAX) :
    htOfBtDt t = .ok (HT_EPOCH + t * Y / T) := by
  unfold htOfBtDt
  rw [bt_to_ht]
  have hr : Py.htTdInRange (t * Proofs.Conv.Y / Proofs.Conv.T) := by
    unfold Py.htTdInRange Py.MAX_DAYS Py.YS_PER_DAY Proofs.Conv.Y Proofs.Conv.T DT_MIN DT_MAX at *; omega
  rw [if_pos hr]
  simp only [Proofs.bind_ok]
  have ha : htAbsInRange (HT_EPOCH + t * Proofs.Conv.Y / Proofs.Conv.T) := by
    unfold htAbsInRange Model.Mixed.MAX_ORDINAL HT_EPOCH EPOCH_DAYS Proofs.Conv.Y Proofs.Conv.T DT_MIN DT_MAX at *; omega
  rw [if_pos ha]

theorem dt_out_of_range (t : Int) (h : t < DT_MIN ∨ DT_MAX < t) : htOfBtDt t = .error .OverflowError := by
  unfold htOfBtDt
  rw [bt_to_ht]
  split
  · simp only [Proofs.bind_ok]
    have ha : ¬ htAbsInRange (HT_EPOCH + t * Proofs.Conv.Y / Proofs.Conv.T) := by
      unfold htAbsInRange Model.Mixed.MAX_ORDINAL HT_EPOCH EPOCH_DAYS Proofs.Conv.Y Proofs.Conv.T DT_MIN DT_MAX at *; omega
    rw [if_neg ha]
  · rfl

/-- the sub-day decomposition of the instant into the generated hour … yoctosecond properties -/
theorem dt_subday (t : Int) :
    HT_EPOCH + t * Y / T
      = ((695055 + Gen.TimeDelta.days t) * 86400 + Gen.DateTime.hour t * 3600 + Gen.DateTime.minute t * 60
          + Gen.DateTime.second t) * 1000000000000000000000000
        + Gen.DateTime.microsecond t * 1000000000000000000 + Gen.DateTime.femtosecond t * 1000000000
        + Gen.DateTime.yoctosecond t
    ∧ 0 ≤ Gen.DateTime.hour t ∧ Gen.DateTime.hour t < 24 ∧ 0 ≤ Gen.DateTime.minute t ∧ Gen.DateTime.minute t < 60
    ∧ 0 ≤ Gen.DateTime.second t ∧ Gen.DateTime.second t < 60
    ∧ 0 ≤ Gen.DateTime.microsecond t ∧ Gen.DateTime.microsecond t < 1000000
    ∧ 0 ≤ Gen.DateTime.femtosecond t ∧ Gen.DateTime.femtosecond t < 1000000000
    ∧ 0 ≤ Gen.DateTime.yoctosecond t ∧ Gen.DateTime.yoctosecond t < 1000000000 := by
  have hs := td_fields_sum t
  have hr := td_fields_ranges t
  simp only [Gen.DateTime.hour, Gen.DateTime.minute, Gen.DateTime.second, Gen.DateTime.microsecond,
    Gen.DateTime.femtosecond, Gen.DateTime.yoctosecond, Proofs.floorDiv_pos', Proofs.mod_pos']
  unfold HT_EPOCH EPOCH_DAYS
  generalize Gen.TimeDelta.seconds t = s at *
  generalize Gen.TimeDelta.microseconds t = us at *
  generalize Gen.TimeDelta.femtoseconds t = fs at *
  generalize Gen.TimeDelta.yoctoseconds t = ys at *
  generalize Gen.TimeDelta.days t = d at *
  omega

/-- For every DateTime from min to max: (year, month, day) is a valid proleptic-Gregorian date, and
    together with hour … yoctosecond it identifies exactly the instant ⌊ticks·10²⁴/2⁶⁴⌋ ys after
    1904-01-01T00:00:00Z (as ys since 0001-01-01: days before the date, then the time of day). -/
theorem dt_fields_calendar (t : Int) (h : DT_MIN ≤ t ∧ t ≤ DT_MAX) :
    ∃ y m d, ymd t = .ok (y, m, d) ∧ validYmd y m d
      ∧ htAbsOfFields y m d (Gen.DateTime.hour t) (Gen.DateTime.minute t) (Gen.DateTime.second t)
          (Gen.DateTime.microsecond t) (Gen.DateTime.femtosecond t) (Gen.DateTime.yoctosecond t)
        = HT_EPOCH + t * Y / T := by
  have hd := dt_subday t
  obtain ⟨hq, hH0, hH1, hM0, hM1, hS0, hS1, hu0, hu1, hf0, hf1, hy0, hy1⟩ := hd
  have hi := dt_instant t h
  have hin : 0 ≤ HT_EPOCH + t * Y / T ∧ HT_EPOCH + t * Y / T < 3652059 * 86400000000000000000000000000 := by
    unfold HT_EPOCH EPOCH_DAYS Y T DT_MIN DT_MAX at *; omega
  -- the ordinal of the day
  have hday : (HT_EPOCH + t * Y / T) / DAY_YS + 1 = 695056 + Gen.TimeDelta.days t := by
    rw [hq]; unfold DAY_YS
    generalize Gen.TimeDelta.days t = d at *
    generalize Gen.DateTime.hour t = H at *
    generalize Gen.DateTime.minute t = Mi at *
    generalize Gen.DateTime.second t = S at *
    generalize Gen.DateTime.microsecond t = us at *
    generalize Gen.DateTime.femtosecond t = fs at *
    generalize Gen.DateTime.yoctosecond t = ys at *
    omega
  have hn : 1 ≤ 695056 + Gen.TimeDelta.days t ∧ 695056 + Gen.TimeDelta.days t ≤ Model.Calendar.MAX_ORDINAL := by
    rw [← hday]; unfold DAY_YS Model.Calendar.MAX_ORDINAL; omega
  have hspec := Proofs.Calendar.ord2ymd_spec _ hn.1 hn.2
  refine ⟨(ord2ymd (695056 + Gen.TimeDelta.days t)).1, (ord2ymd (695056 + Gen.TimeDelta.days t)).2.1,
    (ord2ymd (695056 + Gen.TimeDelta.days t)).2.2, ?_, hspec.1, ?_⟩
  · unfold ymd; rw [hi]; simp only [Except.map]; rw [hday]
  · unfold htAbsOfFields; rw [hspec.2, hq]
    generalize Gen.TimeDelta.days t = d at *
    omega

/-- Building a DateTime from those fields returns the identical tick value. -/
theorem dt_fields_rebuild (t : Int) (h : DT_MIN ≤ t ∧ t ≤ DT_MAX) :
    ∃ y m d, ymd t = .ok (y, m, d) ∧
      ctor y m d (Gen.DateTime.hour t) (Gen.DateTime.minute t) (Gen.DateTime.second t)
        (Gen.DateTime.microsecond t) (Gen.DateTime.femtosecond t) (Gen.DateTime.yoctosecond t) = .ok t := by
  obtain ⟨y, m, d, hy, hv, hq⟩ := dt_fields_calendar t h
  obtain ⟨_, hH0, hH1, hM0, hM1, hS0, hS1, hu0, hu1, hf0, hf1, hy0, hy1⟩ := dt_subday t
  refine ⟨y, m, d, hy, ?_⟩
  unfold ctor
  rw [if_pos ⟨hv, hH0, hH1, hM0, hM1, hS0, hS1, hu0, hu1, hf0, hf1, hy0, hy1⟩, hq]
  exact btdt_ht_btdt t _ (dt_instant t h)

/-- `repr` drops only trailing sub-minute arguments that are zero, so evaluating it passes the same fields -/
theorem repr_roundtrip (S us fs ys : Int) : padTail (reprTail S us fs ys) = (S, us, fs, ys) := by
  unfold reprTail padTail
  split
  · rfl
  · split
    · simp_all
    · split
      · simp_all
      · split <;> simp_all

/-- outside [min, max] the calendar fields are refused (OverflowError), never wrapped -/
theorem dt_fields_refused (t : Int) (h : t < DT_MIN ∨ DT_MAX < t) : ymd t = .error .OverflowError := by
  unfold ymd; rw [dt_out_of_range t h]; rfl

-- non-vacuity: the epoch itself, and the last representable tick
example : DT_MIN ≤ 0 ∧ (0:Int) ≤ DT_MAX ∧ DT_MIN ≤ DT_MAX := by unfold DT_MIN DT_MAX; omega
example : ymd 0 = .ok (1904, 1, 1) := by rfl

end DateTimeFields

end Props.C14
