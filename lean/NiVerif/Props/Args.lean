/-
  Integer arguments (translator tier T12): theorems over `Gen/Args.lean`, which is regenerated from
  `nitypes/_arguments.py` (`arg_to_int`, `arg_to_uint`) on every run, over `Py.IntArg` — the kinds of object Python
  distinguishes where an integer is accepted.

  Every size, index, count, capacity and tick argument of the library goes through these two converters.  The geometry
  translations (tier T5, `Gen/Geometry.lean`) and the buffer model read such an argument as an optional mathematical integer
  through the prelude's `Py.argToUintOpt`; the theorems below justify that reading from the source: an accepted argument of
  ANY integer kind (bool, int subclass, NumPy scalar of any width, `__index__` object) is handed on as the exact Python int
  of its value, so no later `start + count` can wrap in a narrow NumPy type or index with a bool mask, and everything
  else is refused with TypeError.  Used by C01, C07 and C16 (tools/props/args_harness.py ties `Py.IntArg` to real objects).
-/
import NiVerif.Gen.Args

namespace Props.Args
open Py Py.IntArg

/-- what `arg_to_int` must do, kind by kind -/
def intSpec (a : IntArg) (d : Option Int) : Except PyErr IntArg :=
  match a with
  | .none => (match d with | some n => .ok (.int n) | Option.none => .error .TypeError)
  | .conv _ | .other => .error .TypeError
  | x => match x.indexValue with | some n => .ok (.int n) | Option.none => .error .TypeError

/-- **the generated `arg_to_int` is the specification**: None takes the default (TypeError without one); every integer kind
    (int, bool, int subclass, NumPy integer, `__index__` object) becomes the exact int of its value; floats, Decimals, strings
    and everything else are refused with TypeError -/
theorem gen_arg_to_int_spec (a : IntArg) (d : Option Int) : Gen.Args.arg_to_int a d = intSpec a d := by
  cases a <;> cases d <;> simp [Gen.Args.arg_to_int, intSpec, isNone, isInt, index, toInt, indexValue, ofDefault, Except.bind]

/-- whatever is accepted comes back as an exact Python int: never a bool, a NumPy scalar or another object whose arithmetic
    or indexing differs from an int's -/
theorem gen_arg_to_int_plain (a : IntArg) (d : Option Int) (r : IntArg) (h : Gen.Args.arg_to_int a d = .ok r) :
    ∃ n, r = .int n := by
  rw [gen_arg_to_int_spec] at h
  cases a <;> cases d <;> simp [intSpec, indexValue] at h <;> exact ⟨_, h.symm⟩

/-- **the prelude's `Py.argToUintOpt`, which the geometry translations (tier T5) use for `arg_to_uint`, is the generated
    `arg_to_uint`** on every integer-like argument, and every other argument is refused with TypeError -/
theorem gen_arg_to_uint_eq_prelude (a : IntArg) (d : Option Int) :
    Gen.Args.arg_to_uint a d =
      match a.asOpt with
      | some o => (Py.argToUintOpt o d).map IntArg.int
      | Option.none => .error .TypeError := by
  unfold Gen.Args.arg_to_uint
  rw [gen_arg_to_int_spec]
  cases a <;> cases d <;>
    simp [intSpec, asOpt, indexValue, Py.argToUintOpt, Py.argToUint, ltInt, Except.bind, Except.map] <;>
    (try split) <;> simp_all <;> omega

theorem argToUintOpt_nonneg (o d : Option Int) (v : Int) (h : Py.argToUintOpt o d = .ok v) : 0 ≤ v := by
  unfold Py.argToUintOpt Py.argToUint at h
  repeat' split at h
  all_goals first | (injection h with h; omega) | cases h

/-- whatever `arg_to_uint` accepts comes back as an exact, non-negative Python int -/
theorem gen_arg_to_uint_plain (a : IntArg) (d : Option Int) (r : IntArg) (h : Gen.Args.arg_to_uint a d = .ok r) :
    ∃ n, r = .int n ∧ 0 ≤ n := by
  rw [gen_arg_to_uint_eq_prelude] at h
  split at h
  · rename_i o _
    cases hv : Py.argToUintOpt o d with
    | error e => rw [hv] at h; cases h
    | ok v =>
      rw [hv] at h
      simp only [Except.map] at h
      injection h with h
      exact ⟨v, h.symm, argToUintOpt_nonneg o d v hv⟩
  · cases h

/-- two arguments that stand for the same integer are indistinguishable after conversion, whatever their kinds -/
theorem gen_arg_to_uint_kind_independent (a b : IntArg) (d : Option Int) (n : Int)
    (ha : a.indexValue = some n) (hb : b.indexValue = some n) : Gen.Args.arg_to_uint a d = Gen.Args.arg_to_uint b d := by
  rw [gen_arg_to_uint_eq_prelude, gen_arg_to_uint_eq_prelude]
  have h1 : a.asOpt = some (some n) := by cases a <;> simp_all [asOpt, indexValue]
  have h2 : b.asOpt = some (some n) := by cases b <;> simp_all [asOpt, indexValue]
  rw [h1, h2]

/- non-vacuity: the kinds that matter are accepted and normalised, the others refused -/
example : Gen.Args.arg_to_uint (.np 200) Option.none = .ok (.int 200) := by decide
example : Gen.Args.arg_to_uint (.bool true) Option.none = .ok (.int 1) := by decide
example : Gen.Args.arg_to_uint (.idx (-1)) Option.none = .error .ValueError := by decide
example : Gen.Args.arg_to_uint .none (some 7) = .ok (.int 7) := by decide
example : Gen.Args.arg_to_int (.conv 3) (some 7) = .error .TypeError := by decide
example : (IntArg.np 200).indexValue = some 200 ∧ (IntArg.int 200).indexValue = some 200 := by decide

end Props.Args
