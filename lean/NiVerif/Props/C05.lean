/-
  C05 — complex-integer conversion is exact, layout-faithful and shape/stride agnostic.
-/
import NiVerif.Model.Complex
import NiVerif.Gen.ComplexConvert

namespace Props.C05
open Model.Complex Gen.ComplexDtypes

/-! ### layout and tables (about the generated source tables) -/

/-- ComplexInt32DType is a 4-byte record: int16 `real` at offset 0, int16 `imag` at offset 2 -/
theorem ci32_layout : layout ComplexInt32DType_fields = ([("real", 0, "int16"), ("imag", 2, "int16")], 4) := by decide

theorem supported_iff (d : DT) : supported d = true ↔ (d = .c64 ∨ d = .c128 ∨ d = .ci32
    ∨ ∃ n, d = .other n ∧ (n = "complex64" ∨ n = "complex128" ∨ n = "ComplexInt32DType")) := by
  cases d <;> simp [supported, DT.name, COMPLEX_DTYPES_table]

theorem field_table : fieldOf .c64 = some "float32" ∧ fieldOf .c128 = some "float64" ∧ fieldOf .ci32 = some "int16" := by
  decide

/-! ### int16 → float is exact -/

theorem bitlen_le (m p : Nat) (h : m < 2 ^ p) : bitlen m ≤ p := by
  unfold bitlen
  split
  · omega
  · rename_i hm
    have := (Nat.log2_lt hm).mpr h
    omega

theorem roundNat_exact (p m : Nat) (h : m < 2 ^ p) : roundNat p m = m := by
  unfold roundNat
  rw [if_pos (bitlen_le m p h)]

theorem sign_mul_natAbs (n : Int) : (if n < 0 then -1 else 1) * (n.natAbs : Int) = n := by
  split <;> omega

theorem roundDy_int_exact (p : Nat) (n : Int) (e : Nat) (h : n.natAbs < 2 ^ p) : roundDy p ⟨n, e⟩ = ⟨n, e⟩ := by
  unfold roundDy
  simp only [roundNat_exact p _ h, sign_mul_natAbs]

def IsI16 (x : Dy) : Prop := x.exp = 0 ∧ -32768 ≤ x.num ∧ x.num ≤ 32767

theorem i16_lt_pow (x : Dy) (h : IsI16 x) (p : Nat) (hp : 16 ≤ p) : x.num.natAbs < 2 ^ p := by
  have : (2 : Nat) ^ 16 ≤ 2 ^ p := Nat.pow_le_pow_right (by decide) hp
  have h16 : (2 : Nat) ^ 16 = 65536 := by decide
  obtain ⟨_, h1, h2⟩ := h
  omega

/-- every int16 is a binary32 and a binary64 value: the field conversion returns it unchanged -/
theorem field_to_float_exact (x : Dy) (h : IsI16 x) :
    fieldConv "float32" x = x ∧ fieldConv "float64" x = x := by
  unfold fieldConv fieldBits
  simp only
  constructor
  · exact roundDy_int_exact 24 x.num x.exp (i16_lt_pow x h 24 (by decide))
  · exact roundDy_int_exact 53 x.num x.exp (i16_lt_pow x h 53 (by decide))

/-! ### float → int16 truncates toward zero -/

/-- for a non-negative value the result t satisfies t ≤ x < t+1; for a negative one t-1 < x ≤ t (stated over the
    numerator: x = num / 2^exp) -/
theorem trunc_toward_zero (x : Dy) :
    (0 ≤ x.num → 0 ≤ truncDy x ∧ truncDy x * 2 ^ x.exp ≤ x.num ∧ x.num < (truncDy x + 1) * 2 ^ x.exp)
    ∧ (x.num < 0 → truncDy x ≤ 0 ∧ (truncDy x - 1) * 2 ^ x.exp < x.num ∧ x.num ≤ truncDy x * 2 ^ x.exp) := by
  unfold truncDy
  have hd : (0 : Int) < 2 ^ x.exp := Int.pow_pos (by decide)
  generalize (2 : Int) ^ x.exp = d at hd
  constructor
  · intro h
    rw [Int.tdiv_eq_ediv_of_nonneg h]
    have h1 := Int.emod_add_mul_ediv x.num d
    have h2 := Int.emod_nonneg x.num (by omega : d ≠ 0)
    have h3 := Int.emod_lt_of_pos x.num hd
    have h4 : 0 ≤ x.num / d := Int.ediv_nonneg h (by omega)
    refine ⟨h4, ?_, ?_⟩
    · rw [Int.mul_comm]; omega
    · rw [Int.add_mul, Int.mul_comm]; omega
  · intro h
    have hn : x.num = -(-x.num) := by omega
    rw [hn, Int.neg_tdiv, Int.tdiv_eq_ediv_of_nonneg (by omega)]
    generalize -x.num = y at *
    have hy : 0 < y := by omega
    have h1 := Int.emod_add_mul_ediv y d
    have h2 := Int.emod_nonneg y (by omega : d ≠ 0)
    have h3 := Int.emod_lt_of_pos y hd
    have h4 : 0 ≤ y / d := Int.ediv_nonneg (by omega) (by omega)
    refine ⟨by omega, ?_, ?_⟩
    · have : (-(y / d) - 1) * d = -(d * (y / d)) - d := by
        rw [Int.sub_mul, Int.neg_mul, Int.mul_comm]; omega
      rw [this]; omega
    · have : -(y / d) * d = -(d * (y / d)) := by rw [Int.neg_mul, Int.mul_comm]
      rw [this]; omega

theorem trunc_int (n : Int) : truncDy ⟨n, 0⟩ = n := by
  unfold truncDy; simp [Int.tdiv_one]

theorem wrap16_id (n : Int) (h1 : -32768 ≤ n) (h2 : n ≤ 32767) : wrap16 n = n := by
  unfold wrap16; omega

/-- a float whose truncation lies in the int16 range converts to exactly that truncation (no wrap) -/
theorem field_to_int_is_trunc (x : Dy) (h1 : -32768 ≤ truncDy x) (h2 : truncDy x ≤ 32767) :
    fieldConv "int16" x = ⟨truncDy x, 0⟩ := by
  unfold fieldConv fieldBits
  simp only [wrap16_id _ h1 h2]

theorem field_roundtrip (x : Dy) (h : IsI16 x) :
    fieldConv "int16" (fieldConv "float32" x) = x ∧ fieldConv "int16" (fieldConv "float64" x) = x := by
  obtain ⟨e1, e2⟩ := field_to_float_exact x h
  rw [e1, e2]
  obtain ⟨he, h1, h2⟩ := h
  have : x = ⟨x.num, 0⟩ := by cases x; simp_all
  have ht : truncDy x = x.num := by rw [this]; exact trunc_int _
  have := field_to_int_is_trunc x (by omega) (by omega)
  rw [this, ht]
  cases x; simp_all

/-! ### the view / astype / view pipeline is an element-wise map -/

theorem pipeline_is_map (f : Dy → Dy) : ∀ l : List Elem,
    deinterleave ((interleave l).map f) = l.map fun e => (f e.1, f e.2)
  | [] => rfl
  | (a, b) :: r => by simp [interleave, deinterleave, pipeline_is_map f r]

/-- the function applied to every element, whatever the shape -/
def elemFun (req : DT) : Elem → Elem := fun e =>
  match fieldOf req with
  | some fr => (fieldConv fr e.1, fieldConv fr e.2)
  | none => e

theorem convertElems_ok (req src : DT) (l l' : List Elem) (h : convertElems req src l = .ok l') :
    l' = l.map (elemFun req) := by
  unfold convertElems at h
  unfold elemFun
  cases hr : fieldOf req with
  | none => rw [hr] at h; split at h <;> cases h
  | some fr =>
    rw [hr] at h
    split at h
    · cases hv : fieldOf src with
      | none => rw [hv] at h; cases h
      | some fv =>
        rw [hv] at h
        injection h with h
        rw [← h, pipeline_is_map]
    · injection h with h
      rw [← h]

/-- whether the conversion succeeds does not depend on the elements -/
theorem convertElems_indep (req src : DT) (l l' m : List Elem) (h : convertElems req src l = .ok l') :
    convertElems req src m = .ok (m.map (elemFun req)) := by
  unfold convertElems at h ⊢
  unfold elemFun
  cases hr : fieldOf req with
  | none => rw [hr] at h; split at h <;> cases h
  | some fr =>
    rw [hr] at h
    split
    · rename_i hc
      rw [if_pos hc] at h
      cases hv : fieldOf src with
      | none => rw [hv] at h; cases h
      | some fv => simp only [pipeline_is_map]
    · rfl

/-- **Element-wise, shape preserved.**  A successful conversion has the requested dtype, the input's shape, and its
    k-th element is the conversion of the input's k-th element. -/
theorem convert_elementwise (req : DT) (a r : Arr) (h : convert req a = .ok r) (hne : req ≠ a.dtype) :
    r.dtype = req ∧ r.shape = a.shape ∧ r.elems = a.elems.map (elemFun req) := by
  unfold convert at h
  split at h
  · cases h
  · cases hc : convertElems req a.dtype a.elems with
    | error e => rw [hc] at h; cases h
    | ok l =>
      rw [hc] at h
      injection h with h
      subst h
      exact ⟨rfl, rfl, convertElems_ok _ _ _ _ hc⟩

theorem gather_map (f : Elem → Elem) (l : List Elem) (ks : List Nat) :
    gather (l.map f) ks = (gather l ks).map f := by
  unfold gather
  induction ks with
  | nil => rfl
  | cons k r ih =>
    simp only [List.filterMap_cons, List.getElem?_map]
    cases l[k]? with
    | none => simpa using ih
    | some x => simpa using ih

/-- **Stride / layout agnostic.**  Converting any view of an array (positions `ks` in any order: strided, reversed,
    transposed, a column) gives that same view of the converted array. -/
theorem convert_view (req : DT) (a r : Arr) (ks : List Nat) (sh : List Nat) (h : convert req a = .ok r) :
    convert req ⟨a.dtype, sh, gather a.elems ks⟩ = .ok ⟨r.dtype, sh, gather r.elems ks⟩ := by
  by_cases hne : req = a.dtype
  · unfold convert at h ⊢
    split at h
    · cases h
    · rename_i hs
      injection h with h; subst h
      rw [hne] at hs
      simp only [hne, if_true]
      rw [if_neg hs]
  · obtain ⟨h1, h2, h3⟩ := convert_elementwise req a r h hne
    rw [h3, gather_map, h1]
    unfold convert at h ⊢
    split at h
    · cases h
    · rename_i hs
      simp only [hs, Bool.false_eq_true, if_false, hne]
      cases hc : convertElems req a.dtype a.elems with
      | error e => rw [hc] at h; cases h
      | ok l => rw [convertElems_indep _ _ _ _ (gather a.elems ks) hc]

/-! ### the properties over whole arrays -/

def AllI16 (l : List Elem) : Prop := ∀ e ∈ l, IsI16 e.1 ∧ IsI16 e.2

theorem map_id_of (f : Elem → Elem) (l : List Elem) (h : ∀ e ∈ l, f e = e) : l.map f = l := by
  induction l with
  | nil => rfl
  | cons x r ih =>
    simp only [List.map_cons]
    rw [h x (List.mem_cons_self ..), ih (fun e he => h e (List.mem_cons_of_mem _ he))]

/-- **Exact.**  Every ComplexInt32 array — all 2^32 values per element, any shape — converts to complex64 and to
    complex128 with exactly real + imag·j. -/
theorem to_float_exact (a : Arr) (hd : a.dtype = .ci32) (hv : AllI16 a.elems) :
    convert .c64 a = .ok ⟨.c64, a.shape, a.elems⟩ ∧ convert .c128 a = .ok ⟨.c128, a.shape, a.elems⟩ := by
  have h64 : ∀ e ∈ a.elems, (fun e : Elem => (fieldConv "float32" e.1, fieldConv "float32" e.2)) e = e := by
    intro e he
    obtain ⟨h1, h2⟩ := hv e he
    simp only [(field_to_float_exact e.1 h1).1, (field_to_float_exact e.2 h2).1]
  have h128 : ∀ e ∈ a.elems, (fun e : Elem => (fieldConv "float64" e.1, fieldConv "float64" e.2)) e = e := by
    intro e he
    obtain ⟨h1, h2⟩ := hv e he
    simp only [(field_to_float_exact e.1 h1).2, (field_to_float_exact e.2 h2).2]
  unfold convert convertElems
  simp only [hd, show supported .c64 = true from by decide, show supported .c128 = true from by decide,
    Bool.not_true, Bool.false_eq_true, if_false, reduceCtorEq, or_true, if_true,
    field_table.1, field_table.2.1, field_table.2.2, pipeline_is_map]
  exact ⟨by rw [map_id_of _ _ h64], by rw [map_id_of _ _ h128]⟩

/-- **Round trip.**  … and converting back returns the original pairs. -/
theorem roundtrip (a : Arr) (hd : a.dtype = .ci32) (hv : AllI16 a.elems) :
    (convert .c64 a).bind (convert .ci32) = .ok a ∧ (convert .c128 a).bind (convert .ci32) = .ok a := by
  obtain ⟨e1, e2⟩ := to_float_exact a hd hv
  rw [e1, e2]
  have hback : ∀ e ∈ a.elems, (fun e : Elem => (fieldConv "int16" e.1, fieldConv "int16" e.2)) e = e := by
    intro e he
    obtain ⟨h1, h2⟩ := hv e he
    have r1 := (field_roundtrip e.1 h1).1
    have r2 := (field_roundtrip e.2 h2).1
    rw [(field_to_float_exact e.1 h1).1] at r1
    rw [(field_to_float_exact e.2 h2).1] at r2
    simp only [r1, r2]
  simp only [Except.bind]
  unfold convert convertElems
  simp only [show supported .ci32 = true from by decide, Bool.not_true, Bool.false_eq_true, if_false, reduceCtorEq,
    true_or, if_true, field_table.1, field_table.2.1, field_table.2.2, pipeline_is_map]
  rw [map_id_of _ _ hback]
  cases a; simp_all

/-- **Truncation.**  Complex floats whose parts truncate into the int16 range convert by truncating each part toward
    zero. -/
theorem to_int_truncates (a : Arr) (hd : a.dtype = .c64 ∨ a.dtype = .c128)
    (hv : ∀ e ∈ a.elems, (-32768 ≤ truncDy e.1 ∧ truncDy e.1 ≤ 32767) ∧ (-32768 ≤ truncDy e.2 ∧ truncDy e.2 ≤ 32767)) :
    convert .ci32 a = .ok ⟨.ci32, a.shape, a.elems.map fun e => (⟨truncDy e.1, 0⟩, ⟨truncDy e.2, 0⟩)⟩ := by
  unfold convert convertElems
  have hne : ¬ DT.ci32 = a.dtype := by rcases hd with h | h <;> rw [h] <;> simp
  have hf : ∃ fv, fieldOf a.dtype = some fv := by
    rcases hd with h | h <;> rw [h]
    · exact ⟨_, field_table.1⟩
    · exact ⟨_, field_table.2.1⟩
  obtain ⟨fv, hfv⟩ := hf
  simp only [show supported .ci32 = true from by decide, Bool.not_true, Bool.false_eq_true, if_false, hne, true_or, if_true,
    field_table.2.2, hfv, pipeline_is_map]
  congr 2
  apply List.map_congr_left
  intro e he
  obtain ⟨⟨a1, a2⟩, ⟨b1, b2⟩⟩ := hv e he
  rw [field_to_int_is_trunc e.1 a1 a2, field_to_int_is_trunc e.2 b1 b2]

theorem same_dtype_identity (req : DT) (a : Arr) (hs : supported req = true) (h : req = a.dtype) :
    convert req a = .ok a := by
  subst h; unfold convert; simp [hs]

theorem unsupported_dtype_TypeError (req : DT) (a : Arr) (hs : supported req = false) :
    convert req a = .error .TypeError := by
  unfold convert; simp [hs]

/-! ### complex64 → complex128 is exact -/

theorem bitlen_lt_pow (m : Nat) : m < 2 ^ bitlen m := by
  unfold bitlen
  split
  · subst_vars; decide
  · exact Nat.lt_log2_self

/-- a number that is a multiple of 2^k with quotient below 2^p already has at most p significant bits -/
theorem roundNat_dvd_exact (p m k : Nat) (hd : 2 ^ k ∣ m) (hq : m / 2 ^ k < 2 ^ p) : roundNat p m = m := by
  unfold roundNat
  split
  · rfl
  · rename_i hb
    simp only
    have hm : m < 2 ^ (p + k) := by
      obtain ⟨c, hc⟩ := hd
      rw [hc, Nat.mul_div_cancel_left _ (Nat.two_pow_pos k)] at hq
      rw [hc, Nat.pow_add, Nat.mul_comm]
      exact Nat.mul_lt_mul_of_pos_right hq (Nat.two_pow_pos k)
    have hbl : bitlen m ≤ p + k := bitlen_le m _ hm
    have hs : bitlen m - p ≤ k := by omega
    have hdvd : 2 ^ (bitlen m - p) ∣ m := Nat.dvd_trans (Nat.pow_dvd_pow 2 hs) hd
    have hr : m % 2 ^ (bitlen m - p) = 0 := Nat.mod_eq_zero_of_dvd hdvd
    have hpos : 0 < 2 ^ (bitlen m - p - 1) := Nat.two_pow_pos _
    rw [hr]
    have : ¬ (0 > 2 ^ (bitlen m - p - 1) ∨ 0 = 2 ^ (bitlen m - p - 1) ∧ m / 2 ^ (bitlen m - p) % 2 = 1) := by omega
    rw [if_neg this]
    exact Nat.div_mul_cancel hdvd

/-- binary32 → binary64 is exact: a value rounded to 24 significant bits is unchanged by rounding to 53 -/
theorem widen_exact (m : Nat) : roundNat 53 (roundNat 24 m) = roundNat 24 m := by
  by_cases hb : bitlen m ≤ 24
  · have : roundNat 24 m = m := by unfold roundNat; rw [if_pos hb]
    rw [this]
    unfold roundNat
    rw [if_pos (by omega)]
  · have hm := bitlen_lt_pow m
    generalize hs : bitlen m - 24 = s
    have hq : m / 2 ^ s < 2 ^ 24 := by
      apply Nat.div_lt_of_lt_mul
      rw [← Nat.pow_add]
      have : s + 24 = bitlen m := by omega
      rw [this]; exact hm
    have hval : roundNat 24 m =
        (if m % 2 ^ s > 2 ^ (s - 1) ∨ (m % 2 ^ s = 2 ^ (s - 1) ∧ m / 2 ^ s % 2 = 1) then m / 2 ^ s + 1 else m / 2 ^ s) * 2 ^ s := by
      unfold roundNat
      rw [if_neg hb]
      simp only [hs]
    rw [hval]
    generalize hq' : (if m % 2 ^ s > 2 ^ (s - 1) ∨ (m % 2 ^ s = 2 ^ (s - 1) ∧ m / 2 ^ s % 2 = 1) then m / 2 ^ s + 1 else m / 2 ^ s) = q'
    have hle : q' ≤ 2 ^ 24 := by rw [← hq']; split <;> omega
    apply roundNat_dvd_exact 53 _ s (Nat.dvd_mul_left _ _)
    rw [Nat.mul_div_cancel _ (Nat.two_pow_pos s)]
    have : (2 : Nat) ^ 24 < 2 ^ 53 := by decide
    omega

theorem c64_to_c128_exact (x : Dy) : fieldConv "float64" (fieldConv "float32" x) = fieldConv "float32" x := by
  unfold fieldConv fieldBits
  simp only
  unfold roundDy
  simp only
  have hsign : ∀ (k : Nat), (((if x.num < 0 then (-1 : Int) else 1) * (k : Int)).natAbs) = k := by
    intro k; split <;> omega
  have hneg : ∀ (k : Nat), k ≠ 0 → (((if x.num < 0 then (-1 : Int) else 1) * (k : Int)) < 0 ↔ x.num < 0) := by
    intro k hk; split <;> omega
  rw [hsign, widen_exact]
  generalize roundNat 24 x.num.natAbs = k
  congr 1
  by_cases hx : x.num < 0
  · simp only [hx, if_true]
    by_cases hk : k = 0
    · subst hk; simp
    · have : (-1 : Int) * (k : Int) < 0 := by omega
      rw [if_pos this]
  · simp only [hx, if_false]
    have : ¬ ((1 : Int) * (k : Int) < 0) := by omega
    rw [if_neg this]

-- non-vacuity
example : convert .c64 ⟨.ci32, [2], [(⟨-32768, 0⟩, ⟨32767, 0⟩), (⟨5, 0⟩, ⟨-7, 0⟩)]⟩
    = .ok ⟨.c64, [2], [(⟨-32768, 0⟩, ⟨32767, 0⟩), (⟨5, 0⟩, ⟨-7, 0⟩)]⟩ := by decide
example : convert .ci32 ⟨.c128, [1], [(⟨-5, 1⟩, ⟨65535, 1⟩)]⟩ = .ok ⟨.ci32, [1], [(⟨-2, 0⟩, ⟨32767, 0⟩)]⟩ := by decide
example : roundNat 24 16777217 = 16777216 ∧ roundNat 24 16777219 = 16777220 := by decide


/-! ### T25: the generated `convert_complex` (Gen/ComplexConvert.lean) is the model's `convert` -/

open Gen.ComplexConvert in
theorem gen_inner_eq (req : DT) (a : Arr) :
    _convert_complexint32_array req a =
      (match fieldOf req, fieldOf a.dtype with
       | some fr, some _ => Except.ok ⟨req, a.shape, deinterleave ((interleave a.elems).map (fieldConv fr))⟩
       | _, _ => Except.error PyErr.TypeError) := by
  unfold _convert_complexint32_array viewAs FArr.astype viewFields
  cases fieldOf req <;> cases fieldOf a.dtype <;> simp

theorem scalar_has_one (a : Arr) (hwf : a.WF) (hs : a.shape = []) : ∃ e, a.elems = [e] := by
  unfold Arr.WF at hwf; rw [hs] at hwf; simp [size] at hwf
  match h : a.elems, hwf with
  | [e], _ => exact ⟨e, rfl⟩

/-- **Dispatch.**  For every requested dtype and every well-formed array (any shape, 0-d included) the code's
    validation, identity route, ComplexInt32 route (with the `reshape(1)`…`[0]` detour of a 0-d input) and `astype` route
    compute exactly `Model.Complex.convert` - so every theorem above about `convert` is a theorem about the generated
    `convert_complex`. -/
theorem gen_convert_complex_eq_model (req : DT) (a : Arr) (hwf : a.WF) :
    Gen.ComplexConvert.convert_complex req a = convert req a := by
  unfold Gen.ComplexConvert.convert_complex convert
  by_cases hsup : supported req = true
  · simp only [hsup, not_true_eq_false, if_false, Bool.not_true, Bool.false_eq_true]
    by_cases hid : req = a.dtype
    · simp only [if_pos hid]
    · simp only [if_neg hid]
      unfold convertElems
      by_cases hci : req = DT.ci32 ∨ a.dtype = DT.ci32
      · rw [if_pos hci, if_pos hci]
        by_cases hs : a.shape = []
        · rw [if_pos hs]
          obtain ⟨e, he⟩ := scalar_has_one a hwf hs
          simp only [Except.bind, reshape1, he, List.length_singleton, if_true, gen_inner_eq]
          cases fieldOf req <;> cases fieldOf a.dtype <;> simp [index0, interleave, deinterleave, size, hs]
        · rw [if_neg hs]
          simp only [Except.bind, gen_inner_eq]
          cases fieldOf req <;> cases fieldOf a.dtype <;> simp
      · rw [if_neg hci, if_neg hci]
        simp only [Except.bind, astypeArr]
        cases fieldOf req <;> simp
  · simp [hsup]

/-- a successful conversion of a well-formed array is well formed (same shape, same number of elements) -/
theorem gen_convert_wf (req : DT) (a r : Arr) (hwf : a.WF) (h : Gen.ComplexConvert.convert_complex req a = .ok r) :
    r.WF ∧ r.shape = a.shape := by
  rw [gen_convert_complex_eq_model req a hwf] at h
  by_cases hne : req = a.dtype
  · unfold convert at h
    split at h
    · cases h
    · injection h with h; subst h; exact ⟨hwf, rfl⟩
  · obtain ⟨_, h2, h3⟩ := convert_elementwise req a r h hne
    refine ⟨?_, h2⟩
    unfold Arr.WF at *
    rw [h2, h3, List.length_map, hwf]

/-- **Exact and round trip, on the generated code.** -/
theorem gen_to_float_exact (a : Arr) (hwf : a.WF) (hd : a.dtype = .ci32) (hv : AllI16 a.elems) :
    Gen.ComplexConvert.convert_complex .c64 a = .ok ⟨.c64, a.shape, a.elems⟩ ∧
    Gen.ComplexConvert.convert_complex .c128 a = .ok ⟨.c128, a.shape, a.elems⟩ := by
  rw [gen_convert_complex_eq_model _ a hwf, gen_convert_complex_eq_model _ a hwf]
  exact to_float_exact a hd hv

theorem gen_roundtrip (a : Arr) (hwf : a.WF) (hd : a.dtype = .ci32) (hv : AllI16 a.elems) :
    (Gen.ComplexConvert.convert_complex .c64 a).bind (Gen.ComplexConvert.convert_complex .ci32) = .ok a ∧
    (Gen.ComplexConvert.convert_complex .c128 a).bind (Gen.ComplexConvert.convert_complex .ci32) = .ok a := by
  obtain ⟨e1, e2⟩ := gen_to_float_exact a hwf hd hv
  obtain ⟨r1, r2⟩ := roundtrip a hd hv
  obtain ⟨m1, m2⟩ := to_float_exact a hd hv
  rw [e1, e2]
  rw [m1] at r1; rw [m2] at r2
  simp only [Except.bind] at r1 r2 ⊢
  have w1 : (Arr.mk .c64 a.shape a.elems).WF := hwf
  have w2 : (Arr.mk .c128 a.shape a.elems).WF := hwf
  rw [gen_convert_complex_eq_model _ _ w1, gen_convert_complex_eq_model _ _ w2]
  exact ⟨r1, r2⟩

theorem gen_to_int_truncates (a : Arr) (hwf : a.WF) (hd : a.dtype = .c64 ∨ a.dtype = .c128)
    (hv : ∀ e ∈ a.elems, (-32768 ≤ truncDy e.1 ∧ truncDy e.1 ≤ 32767) ∧ (-32768 ≤ truncDy e.2 ∧ truncDy e.2 ≤ 32767)) :
    Gen.ComplexConvert.convert_complex .ci32 a
      = .ok ⟨.ci32, a.shape, a.elems.map fun e => (⟨truncDy e.1, 0⟩, ⟨truncDy e.2, 0⟩)⟩ := by
  rw [gen_convert_complex_eq_model _ a hwf]; exact to_int_truncates a hd hv

/-- the 0-d detour really is taken and really returns a 0-d value -/
example : Gen.ComplexConvert.convert_complex .c64 ⟨.ci32, [], [(⟨-3, 0⟩, ⟨4, 0⟩)]⟩ = .ok ⟨.c64, [], [(⟨-3, 0⟩, ⟨4, 0⟩)]⟩ := by decide
example : Gen.ComplexConvert.convert_complex .ci32 ⟨.c128, [2, 1], [(⟨-5, 1⟩, ⟨65535, 1⟩), (⟨7, 2⟩, ⟨0, 0⟩)]⟩
    = .ok ⟨.ci32, [2, 1], [(⟨-2, 0⟩, ⟨32767, 0⟩), (⟨1, 0⟩, ⟨0, 0⟩)]⟩ := by decide
example : (Arr.mk .ci32 [2, 1] [(⟨1, 0⟩, ⟨2, 0⟩), (⟨3, 0⟩, ⟨4, 0⟩)]).WF := by simp [Arr.WF, size]

end Props.C05
