/-
  C04 — Time conversions err by less than the coarser resolution, exact when possible.
  (timedelta legs; T = 2^64 ticks/s, M = 10^6 µs/s, Y = 10^24 ys/s)
-/
import NiVerif.Proofs.ConvLemmas
import NiVerif.Model.Mixed
import NiVerif.Gen.TimeDeltaFloat
import NiVerif.Gen.Conversion

namespace Props.C04
open Gen.TimeDelta Model.Conv

open Proofs.Conv
abbrev InI128 (t : Int) : Prop := -(2:Int)^127 ≤ t ∧ t < (2:Int)^127

/-! ### the conversion equations, restated from Proofs/ConvLemmas.lean as property theorems -/
theorem bt_to_dt_floor (t us : Int) (h : dtOfBt t = .ok us) : 0 ≤ t * M - us * T ∧ t * M - us * T < T :=
  Proofs.Conv.bt_to_dt_floor t us h
theorem bt_to_dt_overflow_refused (t : Int) (h : ¬ Py.dtTdInRange (t * M / T)) :
    dtOfBt t = .error .OverflowError := Proofs.Conv.bt_to_dt_overflow_refused t h
theorem bt_to_dt_total (t : Int) :
    dtOfBt t = if Py.dtTdInRange (t * M / T) then .ok (t * M / T) else .error .OverflowError := bt_to_dt t
theorem dt_to_bt_floor (us t : Int) (h : Py.dtTdInRange us) (ht : btOfDt us = .ok t) :
    0 ≤ us * T - t * M ∧ us * T - t * M < M := Proofs.Conv.dt_to_bt_floor us t h ht
theorem dt_to_bt_never_overflows (us : Int) (h : Py.dtTdInRange us) : btOfDt us = .ok (us * T / M) := dt_to_bt us h
theorem bt_to_ht_floor (t ys : Int) (h : htOfBt t = .ok ys) : 0 ≤ t * Y - ys * T ∧ t * Y - ys * T < T :=
  Proofs.Conv.bt_to_ht_floor t ys h
theorem bt_to_ht_total (t : Int) :
    htOfBt t = if Py.htTdInRange (t * Y / T) then .ok (t * Y / T) else .error .OverflowError := bt_to_ht t
theorem ht_to_bt_nearest (ys : Int) :
    2 * (btTicksOfHt ys * Y - ys * T) ≤ Y ∧ -Y ≤ 2 * (btTicksOfHt ys * Y - ys * T) := Proofs.Conv.ht_to_bt_nearest ys
theorem ht_to_bt_never_overflows (ys : Int) (h : Py.htTdInRange ys) : btOfHt ys = .ok (btTicksOfHt ys) :=
  ht_to_bt_in_range ys h

/-! ### round trips -/

/-- bintime → hightime → bintime is the identity -/
theorem bt_ht_bt (t ys : Int) (h : htOfBt t = .ok ys) : btTicksOfHt ys = t := Proofs.Conv.bt_ht_bt t ys h

/-- datetime → hightime → datetime is the identity -/
theorem dt_ht_dt (us : Int) (h : Py.dtTdInRange us) :
    htOfDt us = .ok (us * 1000000000000000000) ∧ dtOfHt (us * 1000000000000000000) = .ok us := by
  unfold Py.dtTdInRange Py.MAX_DAYS Py.US_PER_DAY at h
  unfold htOfDt dtOfHt dtFields Py.htTimedelta Py.dtTimedelta Py.htTdInRange Py.dtTdInRange
    Py.MAX_DAYS Py.US_PER_DAY Py.YS_PER_DAY
  have h1 : us / 86400000000 = us / 1000000 / 86400 := by omega
  have h2 : us % 86400000000 / 1000000 = us / 1000000 % 86400 := by omega
  constructor
  · simp only []
    have e : ((((us / 86400000000 * 86400 + us % 86400000000 / 1000000) * 1000000 + us % 1000000) * 1000000000 + 0) *
        1000000000 + 0) = us * 1000000000000000000 := by omega
    rw [e, if_pos (by omega)]
  · have e1 : us * 1000000000000000000 / 1000000000000000000 = us := by omega
    simp only [e1]
    have e : ((us / 86400000000 * 86400 + us % 86400000000 / 1000000) * 1000000 + us % 1000000) = us := by omega
    rw [e]; py_cases

/-- hightime → datetime truncates (rounds down) to the microsecond -/
theorem ht_to_dt_trunc (ys us : Int) (h : dtOfHt ys = .ok us) :
    0 ≤ ys - us * 1000000000000000000 ∧ ys - us * 1000000000000000000 < 1000000000000000000 := by
  unfold dtOfHt dtFields Py.dtTimedelta at h
  have e : ((ys / 1000000000000000000 / 86400000000 * 86400 + ys / 1000000000000000000 % 86400000000 / 1000000) * 1000000
      + ys / 1000000000000000000 % 1000000) = ys / 1000000000000000000 := by
    generalize ys / 1000000000000000000 = us
    have h1 : us / 86400000000 = us / 1000000 / 86400 := by omega
    have h2 : us % 86400000000 / 1000000 = us / 1000000 % 86400 := by omega
    omega
  simp only [e] at h
  split at h
  · injection h with h; subst h; omega
  · cases h

/-! ### exact whenever representable, monotone -/

theorem dt_to_bt_exact_when_representable (us : Int) (h : Py.dtTdInRange us) (hd : M ∣ us * T) (t : Int)
    (ht : btOfDt us = .ok t) : t * M = us * T := by
  rw [dt_to_bt us h] at ht; injection ht with ht; subst ht
  exact Int.ediv_mul_cancel hd

theorem bt_to_dt_exact_when_representable (t us : Int) (hd : T ∣ t * M) (h : dtOfBt t = .ok us) :
    us * T = t * M := by
  rw [bt_to_dt] at h; split at h
  · injection h with h; subst h
    exact Int.ediv_mul_cancel hd
  · cases h

theorem bt_to_ht_exact_when_representable (t ys : Int) (hd : T ∣ t * Y) (h : htOfBt t = .ok ys) :
    ys * T = t * Y := by
  rw [bt_to_ht] at h; split at h
  · injection h with h; subst h
    exact Int.ediv_mul_cancel hd
  · cases h

theorem ht_to_bt_exact_when_representable (ys t : Int) (hd : ys * T = t * Y) : btTicksOfHt ys = t := by
  have hb := ht_to_bt_nearest ys
  rw [hd] at hb
  generalize btTicksOfHt ys = b at *
  simp only [Y] at hb
  omega

theorem dt_to_bt_monotone (a b : Int) (h : a ≤ b) : a * T / M ≤ b * T / M := by unfold T M; omega
theorem bt_to_dt_monotone (a b : Int) (h : a ≤ b) : a * M / T ≤ b * M / T := by unfold T M; omega
theorem bt_to_ht_monotone (a b : Int) (h : a ≤ b) : a * Y / T ≤ b * Y / T := by unfold T Y; omega
theorem ht_to_dt_monotone (a b : Int) (h : a ≤ b) : a / 1000000000000000000 ≤ b / 1000000000000000000 := by omega
theorem ht_to_bt_monotone (a b : Int) (h : a ≤ b) : btTicksOfHt a ≤ btTicksOfHt b := by
  have ha := ht_to_bt_nearest a
  have hb := ht_to_bt_nearest b
  -- nearest-tick rounding of a smaller value cannot exceed that of a larger one
  by_cases hab : a = b
  · subst hab; omega
  · have hlt : a < b := by omega
    unfold T Y at *
    generalize btTicksOfHt a = x at *
    generalize btTicksOfHt b = y at *
    -- y*Y ≥ b*T − Y/2 ≥ (a+1)*T − Y/2 ;  x*Y ≤ a*T + Y/2 ;  T > Y would be needed for strictness
    -- only ≤ is claimed: if x > y then x ≥ y+1 and (x−y)*Y ≤ (a−b)*T + Y < Y, contradiction
    omega

/-- TimeDelta(int seconds) is exact -/
theorem td_of_int_exact (s : Int) : to_ticks_int s = s * T := by py_norm

/-! ### absolute times (datetime.datetime = µs, hightime.datetime = ys since 0001-01-01Z, UTC) -/
section Abs
open Model.Mixed

/-- bintime.DateTime → datetime.datetime: rounded down by less than 1 µs, OverflowError outside years 1..9999 -/
theorem btdt_to_dt_floor (t p : Int) (h : dtOfBtDt t = .ok p) :
    0 ≤ (t * M + DT_EPOCH * T) - p * T ∧ (t * M + DT_EPOCH * T) - p * T < T ∧ dtAbsInRange p := by
  unfold dtOfBtDt at h
  obtain ⟨u, hu, h⟩ := (show ∃ u, dtOfBt t = .ok u ∧ _ from by
    cases hd : dtOfBt t with
    | error e => rw [hd] at h; cases h
    | ok u => rw [hd] at h; exact ⟨u, rfl, h⟩)
  have hf := Proofs.Conv.bt_to_dt_floor t u hu
  simp only [Proofs.bind_ok] at h
  split at h
  · rename_i hr; injection h with h; subst h
    refine ⟨?_, ?_, hr⟩ <;> (unfold T M DT_EPOCH EPOCH_DAYS at *; omega)
  · cases h

/-- datetime.datetime (UTC) → bintime.DateTime: rounded down by less than one tick, always representable -/
theorem dt_to_btdt_floor (p : Int) (h : dtAbsInRange p) :
    ∃ t, btDtOfDt p = .ok t ∧ 0 ≤ (p - DT_EPOCH) * T - t * M ∧ (p - DT_EPOCH) * T - t * M < M := by
  unfold dtAbsInRange MAX_ORDINAL at h
  have hr : Py.dtTdInRange (p - DT_EPOCH) := by
    unfold Py.dtTdInRange Py.MAX_DAYS Py.US_PER_DAY DT_EPOCH EPOCH_DAYS; omega
  refine ⟨_, dt_to_bt _ hr, ?_, ?_⟩ <;> (unfold T M; omega)

theorem btdt_to_ht_floor (t q : Int) (h : htOfBtDt t = .ok q) :
    0 ≤ (t * Y + HT_EPOCH * T) - q * T ∧ (t * Y + HT_EPOCH * T) - q * T < T ∧ htAbsInRange q := by
  unfold htOfBtDt at h
  obtain ⟨y, hy, h⟩ := (show ∃ y, htOfBt t = .ok y ∧ _ from by
    cases hd : htOfBt t with
    | error e => rw [hd] at h; cases h
    | ok y => rw [hd] at h; exact ⟨y, rfl, h⟩)
  have hf := Proofs.Conv.bt_to_ht_floor t y hy
  simp only [Proofs.bind_ok] at h
  split at h
  · rename_i hr; injection h with h; subst h
    refine ⟨?_, ?_, hr⟩ <;> (unfold T Y HT_EPOCH EPOCH_DAYS at *; omega)
  · cases h

theorem ht_to_btdt_nearest (q : Int) (h : htAbsInRange q) :
    ∃ t, btDtOfHt q = .ok t ∧ 2 * (t * Y - (q - HT_EPOCH) * T) ≤ Y ∧ -Y ≤ 2 * (t * Y - (q - HT_EPOCH) * T) := by
  unfold htAbsInRange MAX_ORDINAL at h
  have hr : Py.htTdInRange (q - HT_EPOCH) := by
    unfold Py.htTdInRange Py.MAX_DAYS Py.YS_PER_DAY HT_EPOCH EPOCH_DAYS; omega
  exact ⟨_, ht_to_bt_in_range _ hr, Proofs.Conv.ht_to_bt_nearest _⟩

/-- bintime → hightime → bintime is the identity on absolute times -/
theorem btdt_ht_btdt (t q : Int) (h : htOfBtDt t = .ok q) : btDtOfHt q = .ok t := Proofs.Conv.btdt_ht_btdt t q h

/-- datetime → hightime → datetime is the identity; hightime → datetime truncates below 1 µs -/
theorem dt_ht_dt_abs (p : Int) : dtAbsOfHt (htAbsOfDt p) = p := by unfold dtAbsOfHt htAbsOfDt; omega
theorem ht_to_dt_abs_trunc (q : Int) :
    0 ≤ q - dtAbsOfHt q * 1000000000000000000 ∧ q - dtAbsOfHt q * 1000000000000000000 < 1000000000000000000 := by
  unfold dtAbsOfHt; omega
theorem ht_to_dt_abs_in_range (q : Int) (h : htAbsInRange q) : dtAbsInRange (dtAbsOfHt q) := by
  unfold htAbsInRange dtAbsInRange MAX_ORDINAL dtAbsOfHt at *; omega

/-- naive and non-UTC input to bintime is refused; UTC input is converted -/
theorem tz_rules (r : Except PyErr Int) :
    toOffsetChecked false r = .error .ValueError ∧ toOffsetChecked true r = r := ⟨rfl, rfl⟩

end Abs

-- non-vacuity
example : Py.dtTdInRange 86400000001 ∧ Py.htTdInRange (-5) ∧ InI128 (T + 1) := by
  unfold Py.dtTdInRange Py.htTdInRange Py.MAX_DAYS Py.US_PER_DAY Py.YS_PER_DAY InI128 T; omega

end Props.C04

/-! ### TimeDelta(float seconds): the generated float branch of `_to_ticks` (Gen/TimeDeltaFloat.lean) -/
namespace Props.C04
open Py

/-- rounding to the nearest integer moves a dyadic value by at most one half -/
theorem round_error (x : Dyad) : 2 * (Dyad.round x * 2 ^ x.exp - x.num).natAbs ≤ 2 ^ x.exp := by
  unfold Dyad.round
  simp only
  have hd : (0 : Int) < 2 ^ x.exp := Int.pow_pos (by decide)
  have h1 := Int.emod_add_mul_ediv x.num (2 ^ x.exp)
  have h2 := Int.emod_nonneg x.num (by omega : (2 : Int) ^ x.exp ≠ 0)
  have h3 := Int.emod_lt_of_pos x.num hd
  have hnat : ((2 ^ x.exp : Nat) : Int) = (2 : Int) ^ x.exp := by simp
  generalize hD : (2 : Int) ^ x.exp = D at *
  generalize x.num / D = q at *
  generalize x.num % D = r at *
  have hq : ∀ k : Int, k * D - x.num = (k - q) * D - r := by
    intro k
    have : x.num = r + D * q := h1.symm
    rw [this, Int.sub_mul, Int.mul_comm q D]; omega
  have e1 : (q + 1 - q) * D = D := by
    have : q + 1 - q = 1 := by omega
    rw [this, Int.one_mul]
  have e0 : (q - q) * D = 0 := by
    have : q - q = 0 := by omega
    rw [this, Int.zero_mul]
  have goalNat : ∀ k : Int, (k = q ∧ 2 * r ≤ D) ∨ (k = q + 1 ∧ D ≤ 2 * r) → 2 * (k * D - x.num).natAbs ≤ 2 ^ x.exp := by
    intro k hk
    have hcast : ((2 ^ x.exp : Nat) : Int) = D := hnat
    rcases hk with ⟨rfl, hr⟩ | ⟨rfl, hr⟩
    · rw [hq, e0]; omega
    · rw [hq, e1]; omega
  split
  · exact goalNat _ (Or.inr ⟨rfl, by omega⟩)
  · split
    · exact goalNat _ (Or.inl ⟨rfl, by omega⟩)
    · split
      · exact goalNat _ (Or.inl ⟨rfl, by omega⟩)
      · exact goalNat _ (Or.inr ⟨rfl, by omega⟩)

theorem round_int (n : Int) : Dyad.round ⟨n, 0⟩ = n := by
  unfold Dyad.round
  simp only [Int.pow_zero, Int.ediv_one, Int.emod_one]
  split
  · omega
  · split
    · rfl
    · omega

/-- what the generated code computes: whole·2^64 + round(frac·2^64), with x = whole + frac -/
theorem to_ticks_float_unfold (x : Dyad) :
    Gen.TimeDeltaFloat.to_ticks_float x =
      Int.tdiv x.num (2 ^ x.exp) * 2 ^ 64
        + Dyad.round ⟨(x.num - Int.tdiv x.num (2 ^ x.exp) * 2 ^ x.exp) * 2 ^ 64, x.exp⟩ := by
  unfold Gen.TimeDeltaFloat.to_ticks_float Dyad.modf Dyad.toInt Dyad.mulInt
  simp only [Gen.TimeDeltaFloat._TICKS_PER_SECOND, Nat.pow_zero, Int.pow_zero, Int.tdiv_one]
  rfl

/-- **TimeDelta(float) is the nearest tick**: for every finite float x = num/2^exp the tick count t satisfies
    |t − x·2^64| ≤ 1/2 (stated as 2·|t·2^exp − num·2^64| ≤ 2^exp) -/
theorem float_to_ticks_nearest (x : Dyad) :
    2 * (Gen.TimeDeltaFloat.to_ticks_float x * 2 ^ x.exp - x.num * 2 ^ 64).natAbs ≤ 2 ^ x.exp := by
  rw [to_ticks_float_unfold]
  have h := round_error ⟨(x.num - Int.tdiv x.num (2 ^ x.exp) * 2 ^ x.exp) * 2 ^ 64, x.exp⟩
  simp only at h
  generalize Int.tdiv x.num (2 ^ x.exp) = w at *
  generalize Dyad.round ⟨(x.num - w * 2 ^ x.exp) * 2 ^ 64, x.exp⟩ = q at *
  have : (w * 2 ^ 64 + q) * 2 ^ x.exp - x.num * 2 ^ 64 = q * 2 ^ x.exp - (x.num - w * 2 ^ x.exp) * 2 ^ 64 := by
    rw [Int.add_mul, Int.sub_mul]
    have : w * 2 ^ 64 * 2 ^ x.exp = w * 2 ^ x.exp * 2 ^ 64 := by
      rw [Int.mul_assoc, Int.mul_assoc, Int.mul_comm (2 ^ 64) (2 ^ x.exp)]
    omega
  rw [this]
  exact h

/-- integers and floats with at most 64 fractional bits convert exactly -/
theorem float_to_ticks_exact (x : Dyad) (h : x.exp ≤ 64) :
    Gen.TimeDeltaFloat.to_ticks_float x * 2 ^ x.exp = x.num * 2 ^ 64 := by
  have hn := float_to_ticks_nearest x
  -- t·2^e − num·2^64 is a multiple of 2^e that is at most 2^e/2 in absolute value
  obtain ⟨k, hk⟩ : ∃ k : Nat, 64 = x.exp + k := ⟨64 - x.exp, by omega⟩
  have hpow : (2 : Int) ^ 64 = 2 ^ x.exp * 2 ^ k := by rw [hk, Int.pow_add]
  have hdiff : Gen.TimeDeltaFloat.to_ticks_float x * 2 ^ x.exp - x.num * 2 ^ 64
      = (Gen.TimeDeltaFloat.to_ticks_float x - x.num * 2 ^ k) * 2 ^ x.exp := by
    rw [Int.sub_mul, hpow]
    have : x.num * (2 ^ x.exp * 2 ^ k) = x.num * 2 ^ k * 2 ^ x.exp := by
      rw [Int.mul_comm (2 ^ x.exp) (2 ^ k), Int.mul_assoc]
    rw [this]
  rw [hdiff] at hn
  have hd : (0 : Int) < 2 ^ x.exp := Int.pow_pos (by decide)
  have hnat : ((2 ^ x.exp : Nat) : Int) = (2 : Int) ^ x.exp := by simp
  generalize Gen.TimeDeltaFloat.to_ticks_float x - x.num * 2 ^ k = z at *
  have hz : z = 0 := by
    apply Classical.byContradiction
    intro hne
    have : (2 : Int) ^ x.exp ≤ ((z * 2 ^ x.exp).natAbs : Int) := by
      rw [Int.natAbs_mul]
      have h1 : 1 ≤ z.natAbs := by omega
      have : ((2 : Int) ^ x.exp).natAbs = 2 ^ x.exp := by
        rw [Int.natAbs_pow]; rfl
      rw [this]
      have := Nat.mul_le_mul_right (2 ^ x.exp) h1
      simp only [Nat.one_mul] at this
      rw [← hnat]
      exact_mod_cast this
    omega
  have : Gen.TimeDeltaFloat.to_ticks_float x * 2 ^ x.exp - x.num * 2 ^ 64 = 0 := by rw [hdiff, hz, Int.zero_mul]
  omega

-- 0.75 ticks rounds to 1 tick (truncation would give 0); 0.5 ticks rounds to the even 0; 1.5 ticks to 2
example : Gen.TimeDeltaFloat.to_ticks_float ⟨3, 66⟩ = 1 ∧ Gen.TimeDeltaFloat.to_ticks_float ⟨1, 65⟩ = 0
    ∧ Gen.TimeDeltaFloat.to_ticks_float ⟨3, 65⟩ = 2 ∧ Gen.TimeDeltaFloat.to_ticks_float ⟨-3, 1⟩ = -(3 * 2 ^ 63) := by decide +kernel

/-! ### T24: the dispatch of `convert_timedelta` as regenerated from `nitypes/time/_conversion.py` -/

section T24
open Gen.Conversion Gen.TimeDelta Model.Conv Proofs.Conv Model.Mixed

/-- units per second of each family: ticks, microseconds, yoctoseconds -/
def unitsPerSecond : Fam3 → Int | .bt => T | .dt => M | .ht => Y

/-- the values each family can hold -/
def famInRange : Fam3 → Int → Prop
  | .bt, t => InI128 t
  | .dt, us => Py.dtTdInRange us
  | .ht, ys => Py.htTdInRange ys

/-- **C04's headline over the dispatch regenerated from `nitypes/time/_conversion.py`**: for all nine (destination, source) pairs and
    every source value, a conversion that succeeds differs from the exact value by strictly less than one unit of the coarser of the
    two resolutions (`x / U_src − y / U_dst`, cross-multiplied) -/
theorem gen_convert_timedelta_error (d s : Fam3) (x y : Int) (hx : famInRange s x)
    (h : Gen.Conversion.convert_timedelta d s x = .ok y) :
    (x * unitsPerSecond d - y * unitsPerSecond s).natAbs < (max (unitsPerSecond s) (unitsPerSecond d)).natAbs := by
  cases d <;> cases s <;> simp only [Gen.Conversion.convert_timedelta, unitsPerSecond, famInRange] at h hx ⊢
  · -- bt <- bt
    injection h with h; subst h; unfold T; omega
  · -- bt <- dt
    have := dt_to_bt_floor x y hx h
    unfold T M at *; omega
  · -- bt <- ht
    have hb := ht_to_bt_never_overflows x hx
    rw [hb] at h; injection h with h; subst h
    have := ht_to_bt_nearest x
    unfold T Y at *; omega
  · -- dt <- bt
    have := bt_to_dt_floor x y h
    unfold T M at *; omega
  · injection h with h; subst h; unfold M; omega
  · -- dt <- ht
    have := ht_to_dt_trunc x y h
    unfold M Y at *; omega
  · -- ht <- bt
    have := bt_to_ht_floor x y h
    unfold T Y at *; omega
  · -- ht <- dt
    have := (dt_ht_dt x hx).1
    rw [this] at h; injection h with h; subst h
    unfold M Y; omega
  · injection h with h; subst h; unfold Y; omega

/-- same-type requests return the value itself -/
theorem gen_convert_same_type (f : Fam3) (x : Int) : Gen.Conversion.convert_timedelta f f x = .ok x := by cases f <;> rfl

/-- the two identities of the property over the generated dispatch: bintime → hightime → bintime and datetime → hightime → datetime -/
theorem gen_convert_round_trips (x y : Int) :
    (Gen.Conversion.convert_timedelta .ht .bt x = .ok y → Gen.Conversion.convert_timedelta .bt .ht y = .ok x)
    ∧ (Py.dtTdInRange x → ∃ z, Gen.Conversion.convert_timedelta .ht .dt x = .ok z ∧ Gen.Conversion.convert_timedelta .dt .ht z = .ok x) := by
  constructor
  · intro h
    simp only [Gen.Conversion.convert_timedelta] at h ⊢
    have hr : Py.htTdInRange y := by
      have ht := bt_to_ht_total x
      rw [h] at ht
      split at ht
      · rename_i hin; injection ht with ht; rw [ht]; exact hin
      · cases ht
    rw [ht_to_bt_never_overflows y hr, bt_ht_bt x y h]
  · intro hx
    exact ⟨_, (dt_ht_dt x hx).1, (dt_ht_dt x hx).2⟩
/-- an instant of each family as a numerator over the common denominator 2^64 · 10^24 (seconds since 0001-01-01 UTC) -/
def instantN : Fam3 → Int → Int
  | .bt, t => t * Y + HT_EPOCH * T
  | .dt, p => p * 1000000000000000000 * T
  | .ht, q => q * T
/-- one unit of each family over the same denominator -/
def unitN : Fam3 → Int | .bt => Y | .dt => T * 1000000000000000000 | .ht => T
/-- the instants each family can hold (bintime: whatever produced the value) -/
def absInRange : Fam3 → Int → Prop
  | .bt, _ => True
  | .dt, p => dtAbsInRange p
  | .ht, q => htAbsInRange q

/-- **the same headline for absolute times**, over the regenerated dispatch of `convert_datetime`: for all nine pairs a successful
    conversion is off by strictly less than one unit of the coarser resolution -/
theorem gen_convert_datetime_error (d s : Fam3) (x y : Int) (hx : absInRange s x)
    (h : Gen.Conversion.convert_datetime d s x = .ok y) :
    (instantN s x - instantN d y).natAbs < (max (unitN s) (unitN d)).natAbs := by
  cases d <;> cases s <;> simp only [Gen.Conversion.convert_datetime, instantN, unitN, absInRange] at h hx ⊢
  · injection h with h; subst h; unfold Y; omega
  · -- bt <- dt
    obtain ⟨t, ht, h1, h2⟩ := dt_to_btdt_floor x hx
    rw [ht] at h; injection h with h; subst h
    unfold T M Y HT_EPOCH DT_EPOCH EPOCH_DAYS at *; omega
  · -- bt <- ht
    obtain ⟨t, ht, h1, h2⟩ := ht_to_btdt_nearest x hx
    rw [ht] at h; injection h with h; subst h
    unfold T Y HT_EPOCH EPOCH_DAYS at *; omega
  · -- dt <- bt
    obtain ⟨h1, h2, _⟩ := btdt_to_dt_floor x y h
    unfold T M Y HT_EPOCH DT_EPOCH EPOCH_DAYS at *; omega
  · injection h with h; subst h; unfold T; omega
  · -- dt <- ht
    injection h with h; subst h
    have := ht_to_dt_abs_trunc x
    unfold T at *; omega
  · -- ht <- bt
    obtain ⟨h1, h2, _⟩ := btdt_to_ht_floor x y h
    unfold T Y HT_EPOCH EPOCH_DAYS at *; omega
  · -- ht <- dt
    injection h with h; subst h
    unfold htAbsOfDt T; omega
  · injection h with h; subst h; unfold T; omega
end T24

end Props.C04
