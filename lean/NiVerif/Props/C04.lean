/-
  C04 — Time conversions err by less than the coarser resolution, exact when possible.
  (timedelta legs; T = 2^64 ticks/s, M = 10^6 µs/s, Y = 10^24 ys/s)
-/
import NiVerif.Proofs.ConvLemmas

namespace Props.C04
open Gen.TimeDelta Model.Conv

open Proofs.Conv
abbrev InI128 (t : Int) : Prop := -(2:Int)^127 ≤ t ∧ t < (2:Int)^127

/-! ### round trips -/

/-- bintime → hightime → bintime is the identity -/
theorem bt_ht_bt (t ys : Int) (h : htOfBt t = .ok ys) : btTicksOfHt ys = t := by
  rw [bt_to_ht] at h; split at h
  · injection h with h; subst h
    have hb := ht_to_bt_nearest (t * Y / T)
    unfold T Y at *
    generalize btTicksOfHt _ = b at *
    omega
  · cases h

/-- datetime → hightime → datetime is the identity -/
theorem dt_ht_dt (us : Int) (h : Py.dtTdInRange us) :
    htOfDt us = .ok (us * 1000000000000000000) ∧ dtOfHt (us * 1000000000000000000) = .ok us := by
  unfold Py.dtTdInRange Py.MAX_DAYS Py.US_PER_DAY at h
  unfold htOfDt dtOfHt dtFields Py.htTimedelta Py.dtTimedelta Py.htTdInRange Py.dtTdInRange
    Py.MAX_DAYS Py.US_PER_DAY Py.YS_PER_DAY
  have h1 : us / 86400000000 = us / 1000000 / 86400 := by omega
  have h2 : us % 86400000000 / 1000000 = us / 1000000 % 86400 := by omega
  constructor
  · simp only []
    have e : ((((us / 86400000000 * 86400 + us % 86400000000 / 1000000) * 1000000 + us % 1000000) * 1000000000 + 0) *
        1000000000 + 0) = us * 1000000000000000000 := by omega
    rw [e, if_pos (by omega)]
  · have e1 : us * 1000000000000000000 / 1000000000000000000 = us := by omega
    simp only [e1]
    have e : ((us / 86400000000 * 86400 + us % 86400000000 / 1000000) * 1000000 + us % 1000000) = us := by omega
    rw [e]; py_cases

/-- hightime → datetime truncates (rounds down) to the microsecond -/
theorem ht_to_dt_trunc (ys us : Int) (h : dtOfHt ys = .ok us) :
    0 ≤ ys - us * 1000000000000000000 ∧ ys - us * 1000000000000000000 < 1000000000000000000 := by
  unfold dtOfHt dtFields Py.dtTimedelta at h
  have e : ((ys / 1000000000000000000 / 86400000000 * 86400 + ys / 1000000000000000000 % 86400000000 / 1000000) * 1000000
      + ys / 1000000000000000000 % 1000000) = ys / 1000000000000000000 := by
    generalize ys / 1000000000000000000 = us
    have h1 : us / 86400000000 = us / 1000000 / 86400 := by omega
    have h2 : us % 86400000000 / 1000000 = us / 1000000 % 86400 := by omega
    omega
  simp only [e] at h
  split at h
  · injection h with h; subst h; omega
  · cases h

/-! ### exact whenever representable, monotone -/

theorem dt_to_bt_exact_when_representable (us : Int) (h : Py.dtTdInRange us) (hd : M ∣ us * T) (t : Int)
    (ht : btOfDt us = .ok t) : t * M = us * T := by
  rw [dt_to_bt us h] at ht; injection ht with ht; subst ht
  exact Int.ediv_mul_cancel hd

theorem bt_to_dt_exact_when_representable (t us : Int) (hd : T ∣ t * M) (h : dtOfBt t = .ok us) :
    us * T = t * M := by
  rw [bt_to_dt] at h; split at h
  · injection h with h; subst h
    exact Int.ediv_mul_cancel hd
  · cases h

theorem bt_to_ht_exact_when_representable (t ys : Int) (hd : T ∣ t * Y) (h : htOfBt t = .ok ys) :
    ys * T = t * Y := by
  rw [bt_to_ht] at h; split at h
  · injection h with h; subst h
    exact Int.ediv_mul_cancel hd
  · cases h

theorem ht_to_bt_exact_when_representable (ys t : Int) (hd : ys * T = t * Y) : btTicksOfHt ys = t := by
  have hb := ht_to_bt_nearest ys
  rw [hd] at hb
  generalize btTicksOfHt ys = b at *
  simp only [Y] at hb
  omega

theorem dt_to_bt_monotone (a b : Int) (h : a ≤ b) : a * T / M ≤ b * T / M := by unfold T M; omega
theorem bt_to_dt_monotone (a b : Int) (h : a ≤ b) : a * M / T ≤ b * M / T := by unfold T M; omega
theorem bt_to_ht_monotone (a b : Int) (h : a ≤ b) : a * Y / T ≤ b * Y / T := by unfold T Y; omega
theorem ht_to_dt_monotone (a b : Int) (h : a ≤ b) : a / 1000000000000000000 ≤ b / 1000000000000000000 := by omega
theorem ht_to_bt_monotone (a b : Int) (h : a ≤ b) : btTicksOfHt a ≤ btTicksOfHt b := by
  have ha := ht_to_bt_nearest a
  have hb := ht_to_bt_nearest b
  -- nearest-tick rounding of a smaller value cannot exceed that of a larger one
  by_cases hab : a = b
  · subst hab; omega
  · have hlt : a < b := by omega
    unfold T Y at *
    generalize btTicksOfHt a = x at *
    generalize btTicksOfHt b = y at *
    -- y*Y ≥ b*T − Y/2 ≥ (a+1)*T − Y/2 ;  x*Y ≤ a*T + Y/2 ;  T > Y would be needed for strictness
    -- only ≤ is claimed: if x > y then x ≥ y+1 and (x−y)*Y ≤ (a−b)*T + Y < Y, contradiction
    omega

/-- TimeDelta(int seconds) is exact -/
theorem td_of_int_exact (s : Int) : to_ticks_int s = s * T := by py_norm

-- non-vacuity
example : Py.dtTdInRange 86400000001 ∧ Py.htTdInRange (-5) ∧ InI128 (T + 1) := by
  unfold Py.dtTdInRange Py.htTdInRange Py.MAX_DAYS Py.US_PER_DAY Py.YS_PER_DAY InI128 T; omega

end Props.C04
