/-
  C20 — A Timing object holds exactly the members its mode allows, and never changes.
  (The model has no operation that mutates a `T`; attribute protection of the Python object is
  observed directly by the harness.)
-/
import NiVerif.Model.Timing

namespace Props.C20
open Model.Timing

/-- the members a mode allows (the property's table) -/
def allowed (mode : Mode) (ts off si st : Arg) : Prop :=
  match mode with
  | .none => (ts.isDatetime ∨ ts.isNone) ∧ (off.isTimedelta ∨ off.isNone) ∧ si.isNone ∧ st.isNone
  | .regular => (ts.isDatetime ∨ ts.isNone) ∧ (off.isTimedelta ∨ off.isNone) ∧ si.isTimedelta ∧ st.isNone
  | .irregular => ts.isNone ∧ off.isNone ∧ si.isNone ∧
      ∃ elems, st = .seq elems ∧ elems.all Elem.isTs = true ∧ areMonotonic (elems.map Elem.val) = true
  | .unknown => False

theorem unsupported_ok (a : Arg) : unsupported a = .ok () ↔ a.isNone = true := by
  unfold unsupported; split <;> simp_all

theorem unsupported_err (a : Arg) (h : a.isNone = false) : unsupported a = .error .ValueError := by
  unfold unsupported; simp [h]

/-- construction succeeds exactly for the allowed member combinations, and stores them as given -/
theorem ctor_accepts_iff_allowed (mode : Mode) (ts off si st : Arg) :
    (∃ t, ctor mode ts off si st = .ok t) ↔ allowed mode ts off si st := by
  cases mode <;> simp only [ctor, allowed]
  · -- NONE
    constructor
    · rintro ⟨t, h⟩
      split at h; · cases h
      split at h; · cases h
      rename_i ha hb
      cases hi : si.isNone <;> cases hs : st.isNone <;>
        simp_all [unsupported, Except.bind]
      exact ⟨by cases hd : ts.isDatetime <;> simp_all, by cases hd : off.isTimedelta <;> simp_all⟩
    · rintro ⟨h1, h2, h3, h4⟩
      simp [h1, h2, unsupported, h3, h4, Except.bind]
  · -- REGULAR
    constructor
    · rintro ⟨t, h⟩
      split at h; · cases h
      split at h; · cases h
      split at h; · cases h
      cases hs : st.isNone <;> simp_all [unsupported, Except.bind]
      exact ⟨by cases hd : ts.isDatetime <;> simp_all, by cases hd : off.isTimedelta <;> simp_all⟩
    · rintro ⟨h1, h2, h3, h4⟩
      simp [h1, h2, h3, unsupported, h4, Except.bind]
  · -- IRREGULAR
    constructor
    · rintro ⟨t, h⟩
      cases h1 : ts.isNone <;> cases h2 : off.isNone <;> cases h3 : si.isNone <;>
        simp [unsupported, h1, h2, h3, Except.bind] at h
      cases st <;> simp at h
      rename_i elems
      refine ⟨rfl, rfl, rfl, elems, rfl, ?_⟩
      split at h; · cases h
      split at h; · cases h
      simp_all
    · rintro ⟨h1, h2, h3, elems, he, ha, hm⟩
      subst he
      simp [unsupported, h1, h2, h3, Except.bind, ha, hm]
  · -- unknown mode
    simp

/-- every rejection is a TypeError or a ValueError -/
theorem ctor_error_class (mode : Mode) (ts off si st : Arg) (e : PyErr)
    (h : ctor mode ts off si st = .error e) : e = .TypeError ∨ e = .ValueError := by
  cases mode <;> simp only [ctor] at h
  · split at h; · injection h with h; simp [← h]
    split at h; · injection h with h; simp [← h]
    cases hi : si.isNone <;> cases hs : st.isNone <;> simp [unsupported, hi, hs, Except.bind] at h <;> simp [← h]
  · split at h; · injection h with h; simp [← h]
    split at h; · injection h with h; simp [← h]
    split at h; · injection h with h; simp [← h]
    cases hs : st.isNone <;> simp [unsupported, hs, Except.bind] at h <;> simp [← h]
  · cases h1 : ts.isNone <;> cases h2 : off.isNone <;> cases h3 : si.isNone <;>
      simp [unsupported, h1, h2, h3, Except.bind] at h <;> try (simp [← h])
    cases st <;> simp at h <;> try (simp [← h])
    split at h; · injection h with h; simp [← h]
    split at h; · injection h with h; simp [← h]
    cases h
  · injection h with h; simp [← h]

/-- a constructed Timing holds exactly the arguments it was given, in the mode it was given -/
theorem ctor_stores (mode : Mode) (ts off si st : Arg) (t : T) (h : ctor mode ts off si st = .ok t) :
    t.mode = mode ∧ t.timestamp = ts ∧ t.offset = off ∧ t.interval = si
    ∧ (mode = .irregular → ∃ elems, st = .seq elems ∧ t.stamps = some elems)
    ∧ (mode ≠ .irregular → t.stamps = none) := by
  cases mode <;> simp only [ctor] at h
  · split at h; · cases h
    split at h; · cases h
    cases hi : si.isNone <;> cases hs : st.isNone <;> simp [unsupported, hi, hs, Except.bind] at h
    subst h; simp
  · split at h; · cases h
    split at h; · cases h
    split at h; · cases h
    cases hs : st.isNone <;> simp [unsupported, hs, Except.bind] at h
    subst h; simp
  · cases h1 : ts.isNone <;> cases h2 : off.isNone <;> cases h3 : si.isNone <;>
      simp [unsupported, h1, h2, h3, Except.bind] at h
    cases st <;> simp at h
    rename_i elems
    split at h; · cases h
    split at h; · cases h
    injection h with h; subst h; simp
  · cases h

/-- has_timestamp / has_start_time / has_time_offset / has_sample_interval report exactly which members were given -/
theorem has_flags_exact (mode : Mode) (ts off si st : Arg) (t : T) (h : ctor mode ts off si st = .ok t) :
    t.hasTimestamp = !ts.isNone ∧ t.hasStartTime = !ts.isNone ∧ t.hasOffset = !off.isNone
    ∧ t.hasInterval = !si.isNone := by
  obtain ⟨_, h1, h2, h3, _⟩ := ctor_stores mode ts off si st t h
  simp [T.hasTimestamp, T.hasStartTime, T.hasOffset, T.hasInterval, h1, h2, h3]

/-- reading an absent member raises RuntimeError, a present one returns it -/
theorem absent_member_RuntimeError (a : Arg) :
    (a.isNone = true → member a = .error .RuntimeError) ∧ (a.isNone = false → member a = .ok a) := by
  unfold member; constructor <;> intro h <;> simp [h]

theorem empty_has_nothing :
    empty.mode = .none ∧ empty.hasTimestamp = false ∧ empty.hasStartTime = false ∧ empty.hasOffset = false
    ∧ empty.hasInterval = false ∧ empty.stamps = none ∧ ctor .none .absent .absent .absent .absent = .ok empty := by
  refine ⟨rfl, rfl, rfl, rfl, rfl, rfl, rfl⟩

/-- equality is equality of the mode and of all members (structural; `deriving DecidableEq`) -/
theorem eq_iff_members (a b : T) :
    a = b ↔ (a.mode = b.mode ∧ a.timestamp = b.timestamp ∧ a.offset = b.offset ∧ a.interval = b.interval
      ∧ a.stamps = b.stamps) := by
  constructor
  · intro h; subst h; simp
  · intro ⟨h1, h2, h3, h4, h5⟩; cases a; cases b; simp_all

/-- the named constructors are the general constructor with the corresponding mode -/
def createNoInterval (ts off : Arg) := ctor .none ts off .absent .absent
def createRegular (si ts off : Arg) := ctor .regular ts off si .absent
def createIrregular (st : Arg) := ctor .irregular .absent .absent .absent st

theorem named_ctors_agree (ts off si st : Arg) :
    createNoInterval ts off = ctor .none ts off .absent .absent
    ∧ createRegular si ts off = ctor .regular ts off si .absent
    ∧ createIrregular st = ctor .irregular .absent .absent .absent st := ⟨rfl, rfl, rfl⟩

-- non-vacuity: each mode has accepted and rejected argument tuples
example : (ctor .regular (.datetime .ht 5) .absent (.timedelta .ht 3) .absent).isOk = true
    ∧ ctor .regular .absent .absent .absent .absent = .error .TypeError
    ∧ ctor .irregular .absent .absent .absent (.seq [.ts .dt 1, .ts .dt 3, .ts .dt 2]) = .error .ValueError
    ∧ ctor .irregular .absent (.timedelta .dt 1) .absent (.seq []) = .error .ValueError := by
  refine ⟨rfl, rfl, by simp [ctor, unsupported, Arg.isNone, Except.bind, Elem.isTs, areMonotonic, monoLoop, direction, Elem.val], rfl⟩

end Props.C20
