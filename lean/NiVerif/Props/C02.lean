/-
  C02 — NI-BTF 128-bit values round-trip bit-exactly through every representation.
  Theorems are stated over the definitions regenerated from /repo on every run
  (`Gen.TimeDelta`, `Gen.TimeValueTuple`).
-/
import NiVerif.Gen.TimeDelta
import NiVerif.Gen.DateTime
import NiVerif.Gen.BtDtypes
import NiVerif.Gen.BtElemSites
import NiVerif.Model.Record
import NiVerif.Model.BtElem
import NiVerif.Proofs.Bits

namespace Props.C02
open Gen.TimeDelta

abbrev InI128 (t : Int) : Prop := -(2:Int)^127 ≤ t ∧ t < (2:Int)^127
abbrev InI64 (w : Int) : Prop := -(2:Int)^63 ≤ w ∧ w < (2:Int)^63
abbrev InU64 (f : Int) : Prop := 0 ≤ f ∧ f < (2:Int)^64

/-- whole_seconds = floor(ticks/2^64), fractional_seconds = ticks mod 2^64, and they recompose. -/
theorem to_tuple_spec (t : Int) :
    to_tuple t = (t / 2^64, t % 2^64) ∧ t = (to_tuple t).1 * 2^64 + (to_tuple t).2 := by
  py_norm
  constructor
  · trivial
  · omega

/-- The tuple of an in-range value is in the (int64, uint64) range. -/
theorem to_tuple_range (t : Int) (h : InI128 t) : InI64 (to_tuple t).1 ∧ InU64 (to_tuple t).2 := by
  unfold InI128 at h; unfold InI64 InU64
  py_norm
  omega

/-- from_ticks accepts exactly the signed 128-bit range and returns the value itself
    (no wrap, clamp or truncation). -/
theorem from_ticks_range (t : Int) :
    from_ticks t = if InI128 t then .ok t else .error .OverflowError := by
  unfold InI128
  py_norm
  py_cases

theorem from_tuple_to_tuple (t : Int) (h : InI128 t) :
    from_tuple (to_tuple t).1 (to_tuple t).2 = .ok t := by
  unfold InI128 at h
  py_norm
  have e : Py.or (t / 18446744073709551616 * 18446744073709551616) (t % 18446744073709551616) = t := by
    rw [Proofs.or_shl64_low _ _ (by omega) (by omega)]; omega
  rw [e]
  py_cases

theorem to_tuple_from_tuple (w f : Int) (hw : InI64 w) (hf : InU64 f) :
    from_tuple w f = .ok (w * 2^64 + f) ∧ to_tuple (w * 2^64 + f) = (w, f) := by
  unfold InI64 at hw; unfold InU64 at hf
  py_norm
  rw [Proofs.or_shl64_low _ _ (by omega) (by omega)]
  constructor
  · py_cases
  · ext <;> simp <;> omega

/-- whole seconds outside int64 or fractions outside uint64 are rejected with OverflowError. -/
theorem from_tuple_rejects (w f : Int) (h : ¬ InI64 w ∨ ¬ InU64 f) :
    from_tuple w f = .error .OverflowError := by
  unfold InI64 InU64 at h
  py_norm
  py_cases

/-- CVI record order: (lsb, msb) = (fraction, seconds), and back. -/
theorem cvi_roundtrip (w f : Int) :
    Gen.TimeValueTuple.from_cvi (Gen.TimeValueTuple.to_cvi w f).1 (Gen.TimeValueTuple.to_cvi w f).2 = (w, f)
    ∧ Gen.TimeValueTuple.to_cvi w f = (f, w) := by
  simp [pygen]

/-- pickling passes the tick count to from_ticks: the value is reproduced. -/
theorem pickle_roundtrip (t : Int) (h : InI128 t) : from_ticks (ticks t) = .ok t := by
  rw [from_ticks_range]; simp only [pygen]; exact if_pos h

/-- The constructor's range check: a tick count computed from the argument is stored unchanged
    iff it is in the signed 128-bit range, otherwise OverflowError. -/
theorem init_check_range (t : Int) :
    init_check t = if InI128 t then .ok t else .error .OverflowError := by
  unfold InI128
  py_norm
  py_cases

/-! ### DateTime: every entry path delegates to the TimeDelta functions -/

theorem dt_from_ticks_range (t : Int) :
    Gen.DateTime.from_ticks t = if InI128 t then .ok t else .error .OverflowError := by
  simp only [Gen.DateTime.from_ticks, from_ticks_range]
  split <;> rfl

theorem dt_to_tuple_eq (t : Int) : Gen.DateTime.to_tuple t = to_tuple t := by
  simp only [Gen.DateTime.to_tuple]

theorem dt_from_tuple_to_tuple (t : Int) (h : InI128 t) :
    Gen.DateTime.from_tuple (Gen.DateTime.to_tuple t).1 (Gen.DateTime.to_tuple t).2 = .ok t := by
  simp only [Gen.DateTime.from_tuple, dt_to_tuple_eq, from_tuple_to_tuple t h, Proofs.bind_ok]

theorem dt_from_tuple_rejects (w f : Int) (h : ¬ InI64 w ∨ ¬ InU64 f) :
    Gen.DateTime.from_tuple w f = .error .OverflowError := by
  simp only [Gen.DateTime.from_tuple, from_tuple_rejects w f h, Proofs.bind_error]

theorem dt_from_offset_ticks (t : Int) : Gen.DateTime.ticks (Gen.DateTime.from_offset t) = t := by
  simp only [pygen]

theorem dt_pickle_roundtrip (t : Int) (h : InI128 t) :
    Gen.DateTime.from_ticks (Gen.DateTime.ticks t) = .ok t := by
  rw [dt_from_ticks_range]; simp only [pygen]; exact if_pos h

/-! ### The 16-byte CVI record held by DateTimeArray / TimeDeltaArray -/

/-- Both structured dtypes are {lsb: uint64 @0, msb: int64 @8}, 16 bytes. -/
theorem cvi_layout :
    Model.Record.layout Gen.BtDtypes.CVIAbsoluteTimeDType_fields
      = some ([("lsb", 0, "uint64"), ("msb", 8, "int64")], 16)
    ∧ Model.Record.layout Gen.BtDtypes.CVITimeIntervalDType_fields
      = some ([("lsb", 0, "uint64"), ("msb", 8, "int64")], 16) := by
  constructor <;> decide

open Model.BtElem in
/-- The record bytes are: fraction (ticks mod 2^64) little-endian at offset 0, whole seconds
    (floor(ticks/2^64), two's complement) little-endian at offset 8. -/
theorem record_bytes (t : Int) :
    arrStore t = Model.Record.le64 (t % 2^64) ++ Model.Record.le64 (t / 2^64) := by
  unfold arrStore
  py_norm
  rfl

open Model.BtElem in
theorem record_roundtrip (t : Int) (h : InI128 t) : arrLoad (arrStore t) = .ok t := by
  have hr := to_tuple_range t h
  have hs := to_tuple_spec t
  unfold InI64 InU64 at hr
  unfold arrStore arrLoad
  simp only [Gen.TimeValueTuple.to_cvi, Gen.TimeValueTuple.from_cvi]
  rw [Model.Record.decode_encode _ _ (by omega) (by omega)]
  exact from_tuple_to_tuple t h

/-! ### Tier T29: the element chains at every store / load site of the two array classes (`Gen/BtElemSites`) -/

open Model.BtElem in
/-- the documented chain writes the model's record, for either class -/
theorem store_chain_eq_model (cls : String) (t : Int) :
    runStore cls ["to_tuple", "to_cvi"] t = some (arrStore t) := by
  unfold runStore arrStore
  simp only [List.foldlM_cons, List.foldlM_nil, storeStep, Option.bind_eq_bind, Option.bind_some, Option.pure_def]
  cases isDateTime cls <;> simp [dt_to_tuple_eq]

open Model.BtElem in
/-- **Every statement of DateTimeArray / TimeDeltaArray that writes records** — constructor, `a[i] = x`, the three branches of
    slice assignment with the `np.insert` of the growing branch, `insert` — **stores, for every element, exactly the record of
    `record_bytes`**: fraction little-endian at offset 0, whole seconds at offset 8. -/
theorem gen_store_sites_eq_model :
    ∀ s ∈ Gen.BtElemSites.store_sites, ∀ t : Int, runStore s.1 s.2.2.2 t = some (arrStore t) := by
  have h : ∀ s ∈ Gen.BtElemSites.store_sites, s.2.2.2 = ["to_tuple", "to_cvi"] := by decide +kernel
  intro s hs t
  rw [h s hs]
  exact store_chain_eq_model s.1 t

theorem dt_from_tuple_eq (w f : Int) : Gen.DateTime.from_tuple w f = from_tuple w f := by
  simp only [Gen.DateTime.from_tuple]
  cases from_tuple w f <;> rfl

open Model.BtElem in
theorem load_chain_eq_model (cls : String) (bytes : List Int) :
    runLoad cls ["item", "from_cvi", "from_tuple"] bytes = some (arrLoad bytes) := by
  unfold runLoad arrLoad
  simp only [dt_from_tuple_eq, ite_self]

open Model.BtElem in
/-- every decoding site reads the record the way the model's `arrLoad` does -/
theorem gen_load_sites_eq_model :
    ∀ s ∈ Gen.BtElemSites.load_sites, ∀ bytes, runLoad s.1 s.2.2 bytes = some (arrLoad bytes) := by
  have h : ∀ s ∈ Gen.BtElemSites.load_sites, s.2.2 = ["item", "from_cvi", "from_tuple"] := by decide +kernel
  intro s hs b
  rw [h s hs]
  exact load_chain_eq_model s.1 b

open Model.BtElem in
/-- **C02's array clause over the sources' own statements**: whatever site stored an in-range element and whatever site reads
    it back, the element comes back bit-exactly. -/
theorem gen_array_element_roundtrip (t : Int) (h : InI128 t) :
    ∀ s ∈ Gen.BtElemSites.store_sites, ∀ l ∈ Gen.BtElemSites.load_sites,
      ∃ bytes, runStore s.1 s.2.2.2 t = some bytes ∧ runLoad l.1 l.2.2 bytes = some (.ok t) := by
  intro s hs l hl
  refine ⟨arrStore t, gen_store_sites_eq_model s hs t, ?_⟩
  rw [gen_load_sites_eq_model l hl, record_roundtrip t h]

/-- both classes have store sites of every kind and a decoding site; the constructors name the record dtypes of `cvi_layout` -/
theorem gen_sites_cover :
    (∀ c ∈ ["DateTimeArray", "TimeDeltaArray"], ∀ k ∈ ["fromiter", "setitem", "insert"],
        ∃ s ∈ Gen.BtElemSites.store_sites, s.1 = c ∧ s.2.2.1 = k)
    ∧ (∀ c ∈ ["DateTimeArray", "TimeDeltaArray"], ∃ l ∈ Gen.BtElemSites.load_sites, l.1 = c)
    ∧ Gen.BtElemSites.record_dtypes.map (fun d => (d.1, d.2.2))
        = [("TimeDeltaArray", "CVITimeIntervalDType"), ("DateTimeArray", "CVIAbsoluteTimeDType")] := by
  decide +kernel

open Model.BtElem in
/-- what the chain protects: a site that forgets `to_cvi`, or swaps the two calls, stores nothing the model accepts -/
theorem store_chain_refusals (cls : String) (t : Int) :
    runStore cls ["to_tuple"] t = none ∧ runStore cls ["to_cvi", "to_tuple"] t = none ∧ runStore cls [] t = none := by
  refine ⟨?_, ?_, ?_⟩ <;> simp [runStore, storeStep]

open Model.BtElem in
theorem load_store_all (ts : List Int) (h : ∀ t ∈ ts, InI128 t) : (ts.map arrStore).mapM arrLoad = .ok ts := by
  induction ts with
  | nil => rfl
  | cons t ts ih =>
    have h1 := record_roundtrip t (h t (by simp))
    have h2 := ih (fun x hx => h x (by simp [hx]))
    simp only [List.map_cons, List.mapM_cons, h1, h2, bind, Except.bind, pure, Except.pure]

open Model.BtElem in
/-- **Pickling / deep-copying a DateTimeArray or TimeDeltaArray of in-range elements, as `__reduce__` is written, reproduces
    every 16-byte record** (and `__eq__`, which compares the records, calls the copy equal). -/
theorem gen_array_pickle_roundtrip (ts : List Int) (h : ∀ t ∈ ts, InI128 t) :
    (∀ c ∈ Gen.BtElemSites.pickle_eq, c.2 = ("ctor(list(iter(self)))", "records"))
    ∧ arrPickle (ts.map arrStore) = .ok (ts.map arrStore) := by
  refine ⟨by decide +kernel, ?_⟩
  simp only [arrPickle, load_store_all ts h]
  rfl

-- non-vacuity: the hypotheses are met by non-trivial values
example : InI128 (-(2:Int)^127) ∧ InI128 ((2:Int)^127 - 1) ∧ InI64 (-5) ∧ InU64 ((2:Int)^64 - 1) := by
  unfold InI128 InI64 InU64; omega

end Props.C02
