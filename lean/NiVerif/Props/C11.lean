/-
  C11 — scaled data is gain*raw+offset, element by element, in the requested dtype.
-/
import NiVerif.Model.Scaling
import NiVerif.Gen.ScaledData

namespace Props.C11
open Model.Scaling Model.Complex Gen.Scaling

/-! ### what the scale mode stores, and the dtype that results (about the generated code) -/

/-- whatever numeric type gain and offset were given as, a plain Python float is stored -/
theorem stored_is_pyfloat (gk ok k : Py.Kind) :
    (LinearScaleMode.gain_stored gk ok = .ok k → k = .pyfloat) ∧ (LinearScaleMode.offset_stored gk ok = .ok k → k = .pyfloat) := by
  cases gk <;> cases ok <;> cases k <;> decide

theorem stored_error_iff (gk ok : Py.Kind) :
    ((∃ e, LinearScaleMode.gain_stored gk ok = .error e) ↔ gk = .noFloat)
    ∧ ((∃ e, LinearScaleMode.offset_stored gk ok = .error e) ↔ ok = .noFloat) := by
  cases gk <;> cases ok <;> simp [LinearScaleMode.gain_stored, LinearScaleMode.offset_stored, Py.Kind.argToFloat,
    Py.Kind.floatCall, bind, Except.bind, pure, Except.pure]

/-- **The requested dtype is honoured**: the arithmetic never promotes the converted data -/
theorem dtype_honoured (req : SDt) (m : Mode) (d : SDt) (h : resultDtype req m = .ok d) : d = req := by
  cases m with
  | none => injection h with h; exact h.symm
  | linear g o gk ok =>
    simp only [resultDtype] at h
    cases hg : LinearScaleMode.gain_stored gk ok with
    | error e => rw [hg] at h; cases h
    | ok a =>
      cases ho : LinearScaleMode.offset_stored gk ok with
      | error e => rw [hg, ho] at h; cases h
      | ok b =>
        rw [hg, ho] at h
        injection h with h
        rw [(stored_is_pyfloat gk ok a).1 hg, (stored_is_pyfloat gk ok b).2 ho] at h
        simpa [promote, Py.Kind.weak] using h.symm

/-- the promotion table itself: only a non-weak float64-like operand changes the dtype -/
theorem promote_table (d : SDt) :
    promote d .pyfloat = d ∧ promote d .pyint = d ∧ promote d .npfloat32 = d ∧ promote d .floatSubclass = d.widen := by
  simp [promote, Py.Kind.weak]

/-! ### get_scaled_data -/

theorem getScaled_dtype (w : Wf) (req : Option SDt) (s c : Option Int) (dt : SDt) (l : List Elem)
    (h : getScaled w req s c = .ok (dt, l)) :
    dt = req.getD (defaultDtype w.kind) ∧ supportedScaled w.kind dt = true := by
  unfold getScaled at h
  simp only at h
  split at h
  · cases h
  · rename_i hs
    cases hw : window w.data.length s c with
    | error e => rw [hw] at h; cases h
    | ok sc =>
      obtain ⟨a, b⟩ := sc
      rw [hw] at h
      simp only at h
      cases hc : convertData w (req.getD (defaultDtype w.kind)) ((w.data.drop a).take b) with
      | error e => rw [hc] at h; cases h
      | ok conv =>
        rw [hc] at h
        simp only at h
        cases hr : resultDtype (req.getD (defaultDtype w.kind)) w.mode with
        | error e => rw [hr] at h; cases h
        | ok rdt =>
          rw [hr] at h
          injection h with h
          injection h with h1 h2
          have := dtype_honoured _ _ _ hr
          subst h1
          exact ⟨this, by rw [this]; simpa using hs⟩

theorem default_dtype : defaultDtype .analog = .f64 ∧ defaultDtype .complex = .c128 := ⟨rfl, rfl⟩

theorem unsupported_dtype_TypeError (w : Wf) (dt : SDt) (s c : Option Int) (h : supportedScaled w.kind dt = false) :
    getScaled w (some dt) s c = .error .TypeError := by
  unfold getScaled; simp [h]

theorem window_ok_iff (n : Nat) (s c : Option Int) (a b : Nat) :
    window n s c = .ok (a, b) ↔
      (0 ≤ s.getD 0 ∧ s.getD 0 ≤ n ∧ 0 ≤ c.getD (n - s.getD 0) ∧ s.getD 0 + c.getD (n - s.getD 0) ≤ n
        ∧ (a : Int) = s.getD 0 ∧ (b : Int) = c.getD (n - s.getD 0)) := by
  unfold window
  simp only
  constructor
  · intro h
    split at h; · cases h
    split at h; · cases h
    split at h; · cases h
    split at h; · cases h
    injection h with h
    injection h with h1 h2
    omega
  · intro ⟨h1, h2, h3, h4, h5, h6⟩
    rw [if_neg (by omega), if_neg (by omega), if_neg (by omega), if_neg (by omega)]
    congr 2 <;> omega

theorem window_error_ValueError (n : Nat) (s c : Option Int) (e : PyErr) (h : window n s c = .error e) : e = .ValueError := by
  unfold window at h
  simp only at h
  split at h; · injection h with h; exact h.symm
  split at h; · injection h with h; exact h.symm
  split at h; · injection h with h; exact h.symm
  split at h; · injection h with h; exact h.symm
  cases h

/-- **Length and window**: the result has exactly `sample_count` elements and its k-th element is the scaled
    conversion of raw[start + k] -/
theorem analog_window (w : Wf) (hk : w.kind = .analog) (req : Option SDt) (s c : Option Int) (dt : SDt) (l : List Elem)
    (h : getScaled w req s c = .ok (dt, l)) :
    ∃ a b, window w.data.length s c = .ok (a, b) ∧ l.length = b ∧
      ∀ k, k < b → l[k]? = (w.data[a + k]?).map fun e => scaleElem dt.bits .analog w.mode (roundDy dt.bits e.1, e.2) := by
  have hdt := (getScaled_dtype w req s c dt l h).1
  unfold getScaled at h
  simp only at h
  split at h
  · cases h
  · cases hw : window w.data.length s c with
    | error e => rw [hw] at h; cases h
    | ok sc =>
      obtain ⟨a, b⟩ := sc
      rw [hw] at h
      simp only at h
      have hab := (window_ok_iff _ _ _ _ _).mp hw
      have hle : a + b ≤ w.data.length := by omega
      unfold convertData at h
      simp only [hk] at h
      rw [hk] at hdt
      cases hr : resultDtype (req.getD (defaultDtype WKind.analog)) w.mode with
      | error e => rw [hr] at h; cases h
      | ok rdt =>
        rw [hr] at h
        injection h with h
        injection h with h1 h2
        refine ⟨a, b, rfl, ?_, ?_⟩
        · rw [← h2]; simp; omega
        · intro k hkb
          rw [← h2, ← hdt]
          simp only [List.map_map, List.getElem?_map, List.getElem?_take, hkb, if_true, List.getElem?_drop]
          cases w.data[a + k]? <;> rfl

/-- **NO_SCALING** returns the converted samples as they are -/
theorem no_scaling_is_cast (p : Nat) (k : WKind) (e : Elem) : scaleElem p k .none e = e := rfl

/-- **Linear scaling** is `fl(fl(x·g) + o)` on the real part (gain and offset first rounded to the array's dtype, as
    NumPy does with Python scalars), and `fl(y·g)` on the imaginary part: the offset goes to the real part only.
    This is a statement about the generated `_transform_data` expression. -/
theorem linear_value (p : Nat) (g o : Dy) (gk ok : Py.Kind) (x y : Dy) :
    scaleElem p .analog (.linear g o gk ok) (x, y) = (roundDy p (Dy.add (roundDy p (Dy.mul x (roundDy p g))) (roundDy p o)), y)
    ∧ scaleElem p .complex (.linear g o gk ok) (x, y)
        = (roundDy p (Dy.add (roundDy p (Dy.mul x (roundDy p g))) (roundDy p o)), roundDy p (Dy.mul y (roundDy p g))) := by
  constructor <;> rfl

/-! ### accuracy: every operation is within half a unit in the last place -/

theorem bitlen_pos_pow (m : Nat) (hm : m ≠ 0) : 2 ^ (bitlen m - 1) ≤ m := by
  unfold bitlen
  rw [if_neg hm]
  simpa using Nat.log2_self_le hm

/-- rounding to p significant bits moves a number by at most half of 2^(bitlen - p) -/
theorem roundNat_error (p m : Nat) (hb : p < bitlen m) :
    2 * (roundNat p m) ≤ 2 * m + 2 ^ (bitlen m - p) ∧ 2 * m ≤ 2 * (roundNat p m) + 2 ^ (bitlen m - p) := by
  unfold roundNat
  rw [if_neg (by omega)]
  simp only
  generalize hs : bitlen m - p = s
  have hspos : 0 < s := by omega
  have hdm := Nat.div_add_mod m (2 ^ s)
  have hlt : m % 2 ^ s < 2 ^ s := Nat.mod_lt _ (Nat.two_pow_pos s)
  have hhalf : 2 * 2 ^ (s - 1) = 2 ^ s := by
    have : s = (s - 1) + 1 := by omega
    rw [this, Nat.pow_succ]; simp; omega
  generalize m / 2 ^ s = q at *
  generalize m % 2 ^ s = r at *
  generalize 2 ^ (s - 1) = half at *
  generalize 2 ^ s = t at *
  split
  · rename_i hc
    rw [Nat.add_mul, Nat.mul_comm q t]
    rcases hc with hc | ⟨hc, _⟩ <;> omega
  · rename_i hc
    rw [Nat.mul_comm q t]
    have : r ≤ half := by
      apply Classical.byContradiction
      intro hn
      exact hc (Or.inl (by omega))
    omega

theorem roundNat_exact_small (p m : Nat) (hb : bitlen m ≤ p) : roundNat p m = m := by
  unfold roundNat; rw [if_pos hb]

/-- the same for signed dyadic values: |round(x) − x| ≤ ½·2^(bitlen|x.num| − p)·2^(−x.exp), exponent unchanged -/
theorem roundDy_error (p : Nat) (x : Dy) :
    (roundDy p x).exp = x.exp ∧
      2 * ((roundDy p x).num - x.num).natAbs ≤ (if p < bitlen x.num.natAbs then 2 ^ (bitlen x.num.natAbs - p) else 0) := by
  unfold roundDy
  refine ⟨rfl, ?_⟩
  simp only
  by_cases hb : p < bitlen x.num.natAbs
  · rw [if_pos hb]
    obtain ⟨h1, h2⟩ := roundNat_error p x.num.natAbs hb
    generalize roundNat p x.num.natAbs = r at *
    generalize 2 ^ (bitlen x.num.natAbs - p) = u at *
    by_cases hx : x.num < 0
    · rw [if_pos hx]; omega
    · rw [if_neg hx]; omega
  · rw [if_neg hb, roundNat_exact_small p _ (by omega)]
    by_cases hx : x.num < 0
    · rw [if_pos hx]; omega
    · rw [if_neg hx]; omega

/-- **Within a few ulps**: the scaled value is two correctly rounded operations away from gain·x̂ + offset — the
    product is within half an ulp of ĝ·x̂, the result within half an ulp of (that product + ô) -/
theorem linear_error (p : Nat) (x g o : Dy) :
    let P := Dy.mul x g
    let S := Dy.add (roundDy p P) o
    let y := LinearScaleMode.transform (ops p) x g o
    (2 * ((roundDy p P).num - P.num).natAbs ≤ (if p < bitlen P.num.natAbs then 2 ^ (bitlen P.num.natAbs - p) else 0))
    ∧ y.exp = S.exp
    ∧ (2 * (y.num - S.num).natAbs ≤ (if p < bitlen S.num.natAbs then 2 ^ (bitlen S.num.natAbs - p) else 0)) := by
  intro P S y
  refine ⟨(roundDy_error p P).2, ?_, ?_⟩
  · exact (roundDy_error p S).1
  · exact (roundDy_error p S).2

/-- `scaled_data` is `get_scaled_data()` over the whole waveform -/
theorem scaled_data_eq (w : Wf) : scaledData w = getScaled w none (some 0) none := rfl

-- non-vacuity: 0.1 * 1 + 0.5 in single precision
example : getScaled ⟨.analog, .other "int32", [(⟨1, 0⟩, ⟨0, 0⟩)], .linear ⟨3602879701896397, 55⟩ ⟨1, 1⟩ .floatSubclass .pyfloat⟩ (some .f32) none none
    = .ok (.f32, [(⟨5033165 * 2 ^ 32, 55⟩, ⟨0, 0⟩)]) := by decide +kernel

/-! ### T23: `get_scaled_data` end to end, as regenerated from the sources -/

/-- the default and the supported scaled dtypes of the two numeric classes, as read from the sources, are the model's -/
theorem gen_scaled_dtype_tables (k : WKind) (d : SDt) :
    Gen.ScaledData.default_scaled_dtype k = defaultDtype k ∧ (Gen.ScaledData.supported_scaled_dtypes k).contains d = supportedScaled k d := by
  cases k <;> cases d <;> simp [Gen.ScaledData.default_scaled_dtype, Gen.ScaledData.supported_scaled_dtypes, defaultDtype, supportedScaled]

theorem get_scaled_core (w : Wf) (dt : SDt) (start count : Option Int) :
    (if ¬ ((Gen.ScaledData.supported_scaled_dtypes w.kind).contains dt = true) then Except.error PyErr.TypeError else
      Except.bind (window w.data.length start count) (fun sc =>
      Except.bind (convertData w dt ((w.data.drop sc.1).take sc.2)) (fun converted_data =>
      Except.bind (resultDtype dt w.mode) (fun rdt =>
        Except.ok (rdt, converted_data.map (scaleElem dt.bits w.kind w.mode))))))
    = (if !supportedScaled w.kind dt then .error .TypeError
       else match window w.data.length start count with
        | .error e => .error e
        | .ok (s, c) =>
          match convertData w dt ((w.data.drop s).take c) with
          | .error e => .error e
          | .ok conv =>
            match resultDtype dt w.mode with
            | .error e => .error e
            | .ok rdt => .ok (rdt, conv.map (scaleElem dt.bits w.kind w.mode))) := by
  rw [(gen_scaled_dtype_tables w.kind dt).2]
  cases hs : supportedScaled w.kind dt with
  | false => simp
  | true =>
    simp only [Bool.not_true, Bool.false_eq_true, not_true_eq_false, if_false, Except.bind]
    cases hw : window w.data.length start count with
    | error e => rfl
    | ok sc =>
      obtain ⟨s, c⟩ := sc
      simp only
      cases hc : convertData w dt ((w.data.drop s).take c) with
      | error e => rfl
      | ok conv =>
        simp only
        cases hr : resultDtype dt w.mode <;> rfl

/-- **`get_scaled_data` as regenerated from the source is the model's `getScaled`**: default dtype, `validate_dtype` (TypeError) before
    the window (ValueError) before the conversion, then the scale mode; and `scaled_data` is `get_scaled_data()` -/
theorem gen_get_scaled_eq_model (w : Wf) (req : Option SDt) (start count : Option Int) :
    Gen.ScaledData.get_scaled_data w req start count = getScaled w req start count := by
  unfold Gen.ScaledData.get_scaled_data getScaled
  cases req with
  | none =>
    simp only [Option.getD, (gen_scaled_dtype_tables w.kind .f32).1]
    exact get_scaled_core w (defaultDtype w.kind) start count
  | some d =>
    simp only [Option.getD]
    exact get_scaled_core w d start count

theorem gen_scaled_data_eq_model (w : Wf) : Gen.ScaledData.scaled_data w = scaledData w := by
  unfold Gen.ScaledData.scaled_data scaledData
  exact gen_get_scaled_eq_model w none (some 0) none

end Props.C11
