/-
  C16 — DigitalWaveform.test reports exactly the incompatible (sample, signal) positions.
-/
import NiVerif.Model.DigitalTest
import NiVerif.Gen.Geometry
import NiVerif.Proofs.Bits
import NiVerif.Gen.TestLoops

namespace Props.C16
open Model.DigitalTest Gen.DigitalState

/-- NI's state compatibility table (specification constant; rows/columns 0 1 Z L H X T V):
    a drive state is compatible with itself and with the compare states that accept its level,
    X (don't compare) with everything -/
def niTable : List (List Int) :=
  [[1, 0, 0, 1, 0, 1, 0, 1],   -- 0 : 0 L X V
   [0, 1, 0, 0, 1, 1, 0, 1],   -- 1 : 1 H X V
   [0, 0, 1, 0, 0, 1, 1, 0],   -- Z : Z X T
   [1, 0, 0, 1, 0, 1, 0, 0],   -- L : 0 L X
   [0, 1, 0, 0, 1, 1, 0, 0],   -- H : 1 H X
   [1, 1, 1, 1, 1, 1, 1, 1],   -- X : everything
   [0, 0, 1, 0, 0, 1, 1, 0],   -- T : Z X T
   [1, 1, 0, 0, 0, 1, 0, 1]]   -- V : 0 1 X V

def compat (x y : Int) : Bool := ((niTable.getD x.toNat []).getD y.toNat 0) ≠ 0
abbrev validState (x : Int) : Prop := 0 ≤ x ∧ x ≤ 7

theorem table_is_ni : _STATE_TEST_TABLE = niTable := by decide
theorem table_symm : ∀ x : Fin 8, ∀ y : Fin 8, compat x.val y.val = compat y.val x.val := by decide
theorem table_refl : ∀ x : Fin 8, compat x.val x.val = true := by decide
theorem x_compatible_with_all : ∀ x : Fin 8, compat 5 x.val = true ∧ compat x.val 5 = true := by decide
theorem enum_values : DigitalState_values = [0, 1, 2, 3, 4, 5, 6, 7]
    ∧ DigitalState_members.map Prod.fst = ["FORCE_DOWN", "FORCE_UP", "FORCE_OFF", "COMPARE_LOW", "COMPARE_HIGH",
        "COMPARE_UNKNOWN", "COMPARE_OFF", "COMPARE_VALID"] := by decide

def testOk (x y : Int) : Bool :=
  match Gen.DigitalState.test x y with
  | .ok b => b == !compat x y
  | .error _ => false

theorem state_test_table : ∀ x : Fin 8, ∀ y : Fin 8, testOk x.val y.val = true := by decide +kernel

/-- `DigitalState.test(a, e)` is True (failure) exactly for the incompatible pairs -/
theorem state_test_spec (x y : Int) (hx : validState x) (hy : validState y) :
    Gen.DigitalState.test x y = .ok (!compat x y) := by
  have h := state_test_table ⟨x.toNat, by omega⟩ ⟨y.toNat, by omega⟩
  have ex : ((x.toNat : Nat) : Int) = x := by omega
  have ey : ((y.toNat : Nat) : Int) = y := by omega
  simp only [ex, ey] at h
  unfold testOk at h
  split at h
  · rename_i b hb; rw [hb]; simp at h; rw [h]
  · cases h

/-- values that are not digital states raise ValueError -/
theorem bad_state_ValueError (x y : Int) (h : ¬ validState x ∨ (validState x ∧ ¬ validState y)) :
    Gen.DigitalState.test x y = .error .ValueError := by
  have hv : ∀ z : Int, ¬ validState z → Py.enumCheck DigitalState_values z = .error .ValueError := by
    intro z hz
    unfold Py.enumCheck DigitalState_values
    have : ([0, 1, 2, 3, 4, 5, 6, 7] : List Int).contains z = false := by
      simp only [List.contains_eq_mem, List.mem_cons, List.mem_nil_iff, or_false, decide_eq_false_iff_not]
      unfold validState at hz; omega
    rw [this]; rfl
  unfold Gen.DigitalState.test
  rcases h with h | ⟨hx, hy⟩
  · rw [hv x h]; rfl
  · have : Py.enumCheck DigitalState_values x = .ok x := by
      unfold Py.enumCheck DigitalState_values
      have : ([0, 1, 2, 3, 4, 5, 6, 7] : List Int).contains x = true := by
        simp only [List.contains_eq_mem, List.mem_cons, List.mem_nil_iff, or_false, decide_eq_true_eq]
        unfold validState at hx; omega
      rw [this]; rfl
    rw [this]
    simp only [Except.bind]
    have hrow : ∃ r, Py.listGetE _STATE_TEST_TABLE x = .ok r := by
      have : x = 0 ∨ x = 1 ∨ x = 2 ∨ x = 3 ∨ x = 4 ∨ x = 5 ∨ x = 6 ∨ x = 7 := by unfold validState at hx; omega
      rcases this with h | h | h | h | h | h | h | h <;> subst h <;> exact ⟨_, rfl⟩
    obtain ⟨r, hr⟩ := hrow
    rw [hr]; simp only [Except.bind]
    rw [hv y hy]

/-! ### the window: exactly the incompatible positions, ordered by sample then by data column -/

def wellFormed (w : W) : Prop := ∀ r ∈ w.rows, r.length = w.nsig ∧ ∀ v ∈ r, validState v

def specRow (nsig : Nat) (ra re : List Int) (s es : Int) : List Failure :=
  (List.range nsig).filterMap fun c =>
    if compat (ra.getD c 0) (re.getD c 0) then none
    else some ⟨s, es, (nsig : Int) - 1 - c, ra.getD c 0, re.getD c 0⟩

/-- the failures the property demands for the window of `n` samples starting at `s` / `es` -/
def specFailures (a e : W) (s es : Nat) (n : Nat) : List Failure :=
  (List.range n).flatMap fun k =>
    specRow a.nsig (a.rows.getD (s + k) []) (e.rows.getD (es + k) []) ((s + k : Nat) : Int) ((es + k : Nat) : Int)

theorem listGetE_nat {α} (l : List α) (i : Nat) (h : i < l.length) : Py.listGetE l (i : Int) = .ok l[i] := by
  unfold Py.listGetE
  have : ¬ ((i : Int) < 0) := by omega
  simp only [this, if_false, Int.toNat_natCast]
  rw [List.getElem?_eq_getElem h]

theorem enumCheck_valid (v : Int) (h : validState v) : Py.enumCheck DigitalState_values v = .ok v := by
  unfold Py.enumCheck DigitalState_values
  have : ([0, 1, 2, 3, 4, 5, 6, 7] : List Int).contains v = true := by
    simp only [List.contains_eq_mem, List.mem_cons, List.mem_nil_iff, or_false, decide_eq_true_eq]
    unfold validState at h; omega
  rw [this]; rfl

theorem colStep_spec (nsig : Nat) (ra re : List Int) (s es : Int) (c : Nat)
    (ha : c < ra.length) (he : c < re.length) (va : ∀ v ∈ ra, validState v) (ve : ∀ v ∈ re, validState v) :
    colStep nsig ra re s es c =
      .ok (if compat (ra.getD c 0) (re.getD c 0) then none
           else some ⟨s, es, (nsig : Int) - 1 - c, ra.getD c 0, re.getD c 0⟩) := by
  unfold colStep
  have h1 : ra.getD c 0 = ra[c] := by simp [List.getD, List.getElem?_eq_getElem ha]
  have h2 : re.getD c 0 = re[c] := by simp [List.getD, List.getElem?_eq_getElem he]
  rw [listGetE_nat ra c ha, listGetE_nat re c he, h1, h2]
  simp only [Except.bind]
  rw [enumCheck_valid _ (va _ (List.getElem_mem ha)), enumCheck_valid _ (ve _ (List.getElem_mem he))]
  simp only [Except.bind]
  rw [state_test_spec _ _ (va _ (List.getElem_mem ha)) (ve _ (List.getElem_mem he))]
  simp only [Except.bind]
  cases compat ra[c] re[c] <;> simp

theorem colLoop_spec (nsig : Nat) (ra re : List Int) (s es : Int) (va : ∀ v ∈ ra, validState v)
    (ve : ∀ v ∈ re, validState v) : ∀ cs : List Nat, (∀ c ∈ cs, c < ra.length ∧ c < re.length) →
    colLoop nsig ra re s es cs = .ok (cs.filterMap fun c =>
      if compat (ra.getD c 0) (re.getD c 0) then none
      else some ⟨s, es, (nsig : Int) - 1 - c, ra.getD c 0, re.getD c 0⟩) := by
  intro cs
  induction cs with
  | nil => intro _; rfl
  | cons c cs ih =>
    intro h
    have hc := h c (by simp)
    unfold colLoop
    rw [colStep_spec nsig ra re s es c hc.1 hc.2 va ve, ih (fun x hx => h x (by simp [hx]))]
    simp only [Except.bind, List.filterMap_cons]
    cases hcc : compat (ra.getD c 0) (re.getD c 0) <;> simp only [Bool.false_eq_true, if_false, if_true]

theorem specFailures_succ (a e : W) (s es n : Nat) :
    specFailures a e s es (n + 1) =
      specRow a.nsig (a.rows.getD s []) (e.rows.getD es []) (s : Int) (es : Int)
        ++ specFailures a e (s + 1) (es + 1) n := by
  unfold specFailures
  rw [List.range_succ_eq_map, List.flatMap_cons, List.flatMap_map]
  simp only [Nat.add_zero]
  congr 1
  congr 1
  funext k
  have h1 : s + 1 + k = s + (k + 1) := by omega
  have h2 : es + 1 + k = es + (k + 1) := by omega
  simp only [Function.comp, h1, h2]

theorem sampleLoop_spec (a e : W) (ha : wellFormed a) (he : wellFormed e) (hn : a.nsig = e.nsig) :
    ∀ (n s es : Nat), s + n ≤ a.rows.length → es + n ≤ e.rows.length →
    sampleLoop a e n (s : Int) (es : Int) = .ok (specFailures a e s es n) := by
  intro n
  induction n with
  | zero => intro s es _ _; rfl
  | succ n ih =>
    intro s es h1 h2
    unfold sampleLoop
    have hs : s < a.rows.length := by omega
    have hes : es < e.rows.length := by omega
    rw [listGetE_nat _ s hs, listGetE_nat _ es hes]
    simp only [Except.bind]
    have wa := ha _ (List.getElem_mem hs)
    have we := he _ (List.getElem_mem hes)
    rw [colLoop_spec a.nsig _ _ s es wa.2 we.2 (List.range a.nsig)
      (fun c hc => by rw [List.mem_range] at hc; rw [wa.1, we.1, ← hn]; exact ⟨hc, hc⟩)]
    simp only [Except.bind]
    have e1 : ((s : Int) + 1) = ((s + 1 : Nat) : Int) := by omega
    have e2 : ((es : Int) + 1) = ((es + 1 : Nat) : Int) := by omega
    rw [e1, e2, ih (s + 1) (es + 1) (by omega) (by omega)]
    simp only [Except.bind]
    rw [specFailures_succ]
    have r1 : a.rows.getD s [] = a.rows[s] := by simp [List.getD, List.getElem?_eq_getElem hs]
    have r2 : e.rows.getD es [] = e.rows[es] := by simp [List.getD, List.getElem?_eq_getElem hes]
    rw [r1, r2]
    rfl

/-- For well-formed waveforms and a window that fits both, `test` returns exactly the failures the
    specification lists — right sample indices into both waveforms, signal index = signal_count-1-column,
    both states, ordered by sample then by data column. -/
theorem failures_exact (a e : W) (ha : wellFormed a) (he : wellFormed e) (hn : a.nsig = e.nsig)
    (s es n : Nat) (h1 : s + n ≤ a.rows.length) (h2 : es + n ≤ e.rows.length) :
    Model.DigitalTest.test a e (some s) (some es) (some n) = .ok (specFailures a e s es n) := by
  unfold Model.DigitalTest.test argToUint
  simp only [Option.getD_some]
  rw [if_neg (by omega), if_neg (by omega), if_neg (by omega)]
  simp only [Except.bind]
  rw [if_neg (by simp [hn]), if_neg (by omega), if_neg (by omega)]
  simpa using sampleLoop_spec a e ha he hn n s es h1 h2

/-- default sample_count is "to the end of self" -/
theorem default_count (a e : W) (s es : Nat) (h : s ≤ a.rows.length) :
    Model.DigitalTest.test a e (some s) (some es) none = Model.DigitalTest.test a e (some s) (some es) (some ((a.rows.length - s : Nat) : Int)) := by
  unfold Model.DigitalTest.test argToUint
  simp only [Option.getD_some, Option.getD_none]
  have h0 : ¬ ((s : Int) < 0) := by omega
  simp only [h0, if_false, Except.bind]
  have : ((a.rows.length : Int) - s) = ((a.rows.length - s : Nat) : Int) := by omega
  rw [this]

/-- success is True iff there are no failures -/
def success (r : List Failure) : Bool := r.isEmpty
theorem success_iff_nil (r : List Failure) : success r = true ↔ r = [] := by
  unfold success; simp

/-- windows that do not fit either waveform, differing signal counts and negative arguments raise ValueError -/
theorem window_errors (a e : W) (s es n : Int) (x : PyErr)
    (h : s < 0 ∨ es < 0 ∨ n < 0 ∨ a.nsig ≠ e.nsig ∨ s + n > a.rows.length ∨ es + n > e.rows.length)
    (hx : Model.DigitalTest.test a e (some s) (some es) (some n) = .error x) : x.base = .ValueError := by
  unfold Model.DigitalTest.test argToUint at hx
  simp only [Option.getD_some] at hx
  by_cases c1 : s < 0
  · rw [if_pos c1] at hx; injection hx with hx; subst hx; rfl
  · rw [if_neg c1] at hx; simp only [Except.bind] at hx
    by_cases c2 : es < 0
    · rw [if_pos c2] at hx; injection hx with hx; subst hx; rfl
    · rw [if_neg c2] at hx; simp only [Except.bind] at hx
      by_cases c3 : n < 0
      · rw [if_pos c3] at hx; injection hx with hx; subst hx; rfl
      · rw [if_neg c3] at hx; simp only [Except.bind] at hx
        split at hx
        · injection hx with hx; subst hx; rfl
        · split at hx
          · injection hx with hx; subst hx; rfl
          · split at hx
            · injection hx with hx; subst hx; rfl
            · rename_i d1 d2 d3
              exfalso
              rcases h with h | h | h | h | h | h
              · exact c1 h
              · exact c2 h
              · exact c3 h
              · exact d1 h
              · exact d2 h
              · exact d3 h

theorem window_always_refused (a e : W) (s es n : Int)
    (h : s < 0 ∨ es < 0 ∨ n < 0 ∨ a.nsig ≠ e.nsig ∨ s + n > a.rows.length ∨ es + n > e.rows.length) :
    ∃ x, Model.DigitalTest.test a e (some s) (some es) (some n) = .error x := by
  unfold Model.DigitalTest.test argToUint
  simp only [Option.getD_some]
  by_cases c1 : s < 0
  · exact ⟨_, by rw [if_pos c1]; rfl⟩
  · rw [if_neg c1]; simp only [Except.bind]
    by_cases c2 : es < 0
    · exact ⟨_, by rw [if_pos c2]⟩
    · rw [if_neg c2]; simp only [Except.bind]
      by_cases c3 : n < 0
      · exact ⟨_, by rw [if_pos c3]⟩
      · rw [if_neg c3]; simp only [Except.bind]
        by_cases d1 : a.nsig ≠ e.nsig
        · exact ⟨_, by rw [if_pos d1]⟩
        · rw [if_neg d1]
          by_cases d2 : s + n > a.rows.length
          · exact ⟨_, by rw [if_pos d2]⟩
          · rw [if_neg d2]
            by_cases d3 : es + n > e.rows.length
            · exact ⟨_, by rw [if_pos d3]⟩
            · exfalso; rcases h with h | h | h | h | h | h <;> contradiction

/-- to_char / from_char are mutually inverse over '01ZLHXTV' -/
theorem char_roundtrip :
    (∀ x : Fin 8, (toChar x.val).bind fromChar = .ok x.val)
    ∧ (∀ c ∈ "01ZLHXTV".toList, (fromChar c).bind toChar = .ok c)
    ∧ _CHAR_TABLE = "01ZLHXTV" := by
  refine ⟨by decide +kernel, by decide +kernel, by decide⟩

-- non-vacuity: a concrete window with one failure in each row
example : Model.DigitalTest.test ⟨[[0, 1], [2, 3]], 2⟩ ⟨[[3, 3], [6, 4]], 2⟩ (some 0) (some 0) (some 2)
    = .ok [⟨0, 0, 0, 1, 3⟩, ⟨1, 1, 0, 3, 4⟩] := by rfl

/-! ### the tie by proof for the argument checks of `DigitalWaveform.test` (Gen/Geometry `digital_test_window`, translator tier T5) -/

theorem argToUintOpt_some' (x : Option Int) (d : Int) : Py.argToUintOpt x (some d) = Model.DigitalTest.argToUint x d := by
  cases x <;> simp [Py.argToUintOpt, Py.argToUint, Model.DigitalTest.argToUint]

/-- `waveform.test(...)` of the model is: the window check regenerated from the source, then the comparison loops over the validated
    window - for all waveforms and all (optional) arguments -/
theorem gen_test_window_eq_model (a e : Model.DigitalTest.W) (start expStart count : Option Int) :
    Model.DigitalTest.test a e start expStart count
      = (Gen.Geometry.digital_test_window start expStart count a.rows.length a.nsig e.rows.length e.nsig).bind
          (fun g => Model.DigitalTest.sampleLoop a e g.2.2.toNat g.1 g.2.1) := by
  unfold Model.DigitalTest.test Gen.Geometry.digital_test_window
  simp only [argToUintOpt_some', Model.DigitalTest.argToUint]
  cases start <;> cases expStart <;> cases count <;>
    simp only [Option.getD, Proofs.bind_ite, Proofs.bind_ok, Proofs.bind_error] <;>
    (repeat' split) <;> first | rfl | (exfalso; omega) | (simp_all <;> omega)

/-- an accepted test window lies inside both waveforms and the signal counts agree -/
theorem gen_test_window_inside (s es n : Option Int) (na sa ne se : Int) (g : Int × Int × Int)
    (h : Gen.Geometry.digital_test_window s es n na sa ne se = .ok g) :
    0 ≤ g.1 ∧ 0 ≤ g.2.1 ∧ 0 ≤ g.2.2 ∧ g.1 + g.2.2 ≤ na ∧ g.2.1 + g.2.2 ≤ ne ∧ sa = se := by
  unfold Gen.Geometry.digital_test_window at h
  simp only [argToUintOpt_some', Model.DigitalTest.argToUint] at h
  cases s <;> cases es <;> cases n <;> simp only [Option.getD, Proofs.bind_ite, Proofs.bind_ok, Proofs.bind_error] at h <;>
    (repeat' split at h) <;> (cases h <;> dsimp only <;> omega)

/-! ### T19: the comparison loops regenerated from `DigitalWaveform.test` are the model's -/

section T19
open Model.DigitalTest

/-- the body of the generated column loop -/
def colBody (a e : Model.DigitalTest.W) (s es : Int) (column_index : Nat) (failures : List Failure) : Except PyErr (List Failure) :=
  let signal_index : Int := (a.nsig : Int) - 1 - (column_index : Int)
  Except.bind (W.at a s column_index) (fun raw_actual_state =>
  Except.bind (Py.enumCheck Gen.DigitalState.DigitalState_values raw_actual_state) (fun actual_state =>
  Except.bind (W.at e es column_index) (fun raw_expected_state =>
  Except.bind (Py.enumCheck Gen.DigitalState.DigitalState_values raw_expected_state) (fun expected_state =>
  Except.bind (Gen.DigitalState.test actual_state expected_state) (fun failed =>
  Except.ok (if failed = true then failures ++ [(⟨s, es, signal_index, actual_state, expected_state⟩ : Failure)] else failures))))))

theorem colBody_eq (a e : Model.DigitalTest.W) (s es : Int) (ra re : List Int) (ha : Py.listGetE a.rows s = .ok ra) (he : Py.listGetE e.rows es = .ok re)
    (c : Nat) (acc : List Failure) :
    colBody a e s es c acc = (colStep a.nsig ra re s es c).map (fun f => match f with | some x => acc ++ [x] | none => acc) := by
  unfold colBody colStep W.at
  rw [ha, he]
  simp only [Except.bind]
  cases h1 : Py.listGetE ra c with
  | error err => rfl
  | ok x =>
    simp only
    cases h2 : Py.enumCheck Gen.DigitalState.DigitalState_values x with
    | error err => rfl
    | ok sa =>
      simp only
      cases h3 : Py.listGetE re c with
      | error err => rfl
      | ok y =>
        simp only
        cases h4 : Py.enumCheck Gen.DigitalState.DigitalState_values y with
        | error err => rfl
        | ok se =>
          simp only
          cases h5 : Gen.DigitalState.test sa se with
          | error err => rfl
          | ok failed => cases failed <;> simp [Except.map]

theorem colLoop_acc (a e : Model.DigitalTest.W) (s es : Int) (ra re : List Int) (ha : Py.listGetE a.rows s = .ok ra) (he : Py.listGetE e.rows es = .ok re) :
    ∀ (k c0 : Nat) (acc : List Failure),
      Py.forRangeE c0 k acc (colBody a e s es) = (colLoop a.nsig ra re s es (List.range' c0 k)).map (fun r => acc ++ r) := by
  intro k
  induction k with
  | zero => intro c0 acc; simp [Py.forRangeE, colLoop, Except.map]
  | succ k ih =>
    intro c0 acc
    simp only [Py.forRangeE, List.range'_succ, colLoop]
    rw [colBody_eq a e s es ra re ha he]
    cases hs : colStep a.nsig ra re s es c0 with
    | error err => rfl
    | ok f =>
      simp only [Except.map, Except.bind]
      rw [ih]
      cases hr : colLoop a.nsig ra re s es (List.range' (c0 + 1) k) with
      | error err => rfl
      | ok rest => cases f <;> simp [Except.map]

theorem listGetE_ok {α : Type} (l : List α) (i : Int) (h0 : 0 ≤ i) (h1 : i < l.length) : ∃ x, Py.listGetE l i = .ok x := by
  unfold Py.listGetE
  have hn : ¬ i < 0 := by omega
  simp only [hn, if_false]
  have : i.toNat < l.length := by omega
  rw [List.getElem?_eq_getElem this]
  exact ⟨_, rfl⟩

/-- the body of the generated sample loop -/
def rowBody (a e : Model.DigitalTest.W) (st : List Failure × Int × Int) : Except PyErr (List Failure × Int × Int) :=
  let failures := st.1
  let start_sample : Int := st.2.1
  let expected_start_sample : Int := st.2.2
  Except.bind (Py.forRangeE 0 a.nsig failures (colBody a e start_sample expected_start_sample)) (fun failures =>
    Except.ok (failures, start_sample + 1, expected_start_sample + 1))

theorem rowBody_eq (a e : Model.DigitalTest.W) (s es : Int) (acc : List Failure) (ra re : List Int)
    (ha : Py.listGetE a.rows s = .ok ra) (he : Py.listGetE e.rows es = .ok re) :
    rowBody a e (acc, s, es) = (colLoop a.nsig ra re s es (List.range a.nsig)).map (fun f => (acc ++ f, s + 1, es + 1)) := by
  unfold rowBody
  simp only
  rw [colLoop_acc a e s es ra re ha he a.nsig 0 acc, List.range_eq_range']
  cases colLoop a.nsig ra re s es (List.range' 0 a.nsig) <;> rfl

theorem sampleLoop_succ (a e : Model.DigitalTest.W) (n : Nat) (s es : Int) (ra re : List Int)
    (ha : Py.listGetE a.rows s = .ok ra) (he : Py.listGetE e.rows es = .ok re) :
    sampleLoop a e (n + 1) s es = (colLoop a.nsig ra re s es (List.range a.nsig)).bind fun f =>
      (sampleLoop a e n (s + 1) (es + 1)).bind fun rest => .ok (f ++ rest) := by
  show ((Py.listGetE a.rows s).bind fun ra => (Py.listGetE e.rows es).bind fun re =>
      (colLoop a.nsig ra re s es (List.range a.nsig)).bind fun f =>
      (sampleLoop a e n (s + 1) (es + 1)).bind fun rest => .ok (f ++ rest)) = _
  rw [ha, he]
  rfl

/-- the generated sample loop, with its running state -/
theorem sampleLoop_acc (a e : Model.DigitalTest.W) : ∀ (n lo : Nat) (s es : Int) (acc : List Failure),
    0 ≤ s → s + n ≤ a.rows.length → 0 ≤ es → es + n ≤ e.rows.length →
    Py.forRangeE lo n (acc, s, es) (fun _ st => rowBody a e st)
      = (sampleLoop a e n s es).map (fun r => (acc ++ r, s + (n : Int), es + (n : Int))) := by
  intro n
  induction n with
  | zero => intro lo s es acc _ _ _ _; simp [Py.forRangeE, sampleLoop, Except.map]
  | succ n ih =>
    intro lo s es acc hs0 hs1 he0 he1
    obtain ⟨ra, hra⟩ := listGetE_ok a.rows s hs0 (by omega)
    obtain ⟨re, hre⟩ := listGetE_ok e.rows es he0 (by omega)
    show ((rowBody a e (acc, s, es)).bind fun s1 => Py.forRangeE (lo + 1) n s1 (fun _ st => rowBody a e st)) = _
    rw [rowBody_eq a e s es acc ra re hra hre, sampleLoop_succ a e n s es ra re hra hre]
    cases hc : colLoop a.nsig ra re s es (List.range a.nsig) with
    | error err => rfl
    | ok f =>
      show Py.forRangeE (lo + 1) n (acc ++ f, s + 1, es + 1) (fun _ st => rowBody a e st) = _
      rw [ih (lo + 1) (s + 1) (es + 1) (acc ++ f) (by omega) (by omega) (by omega) (by omega)]
      cases hr : sampleLoop a e n (s + 1) (es + 1) with
      | error err => rfl
      | ok rest =>
        show Except.ok (acc ++ f ++ rest, s + 1 + (n : Int), es + 1 + (n : Int)) = Except.ok (acc ++ (f ++ rest), s + ((n + 1 : Nat) : Int), es + ((n + 1 : Nat) : Int))
        congr 2
        · simp
        · congr 1 <;> omega

/-- **the generated comparison loops are the model's `sampleLoop`** for every window that passed the window checks -/
theorem gen_test_loops_eq_model (a e : Model.DigitalTest.W) (s es : Int) (n : Nat)
    (hs0 : 0 ≤ s) (hs1 : s + n ≤ a.rows.length) (he0 : 0 ≤ es) (he1 : es + n ≤ e.rows.length) :
    Gen.TestLoops.test_loops a e s es n = sampleLoop a e n s es := by
  have h := sampleLoop_acc a e n 0 s es [] hs0 hs1 he0 he1
  show (Py.forRangeE 0 ((n : Int).toNat) (([] : List Failure), s, es) (fun _ st => rowBody a e st)).map (fun st => st.1) = _
  rw [Int.toNat_natCast, h]
  cases sampleLoop a e n s es <;> simp [Except.map]

/-- **the model's `test` is the generated window check followed by the generated loops**: nothing of `DigitalWaveform.test` is left to
    the hand model but the data representation -/
theorem gen_test_eq_generated (a e : Model.DigitalTest.W) (start expStart count : Option Int) :
    Model.DigitalTest.test a e start expStart count
      = (Gen.Geometry.digital_test_window start expStart count a.rows.length a.nsig e.rows.length e.nsig).bind
          (fun g => Gen.TestLoops.test_loops a e g.1 g.2.1 g.2.2) := by
  rw [gen_test_window_eq_model]
  cases hg : Gen.Geometry.digital_test_window start expStart count a.rows.length a.nsig e.rows.length e.nsig with
  | error err => rfl
  | ok g =>
    obtain ⟨h1, h2, h3, h4, h5, _⟩ := gen_test_window_inside start expStart count _ _ _ _ g hg
    show Model.DigitalTest.sampleLoop a e g.2.2.toNat g.1 g.2.1 = Gen.TestLoops.test_loops a e g.1 g.2.1 g.2.2
    have hn : ((g.2.2.toNat : Nat) : Int) = g.2.2 := by omega
    have := gen_test_loops_eq_model a e g.1 g.2.1 g.2.2.toNat h1 (by omega) h2 (by omega)
    rw [hn] at this
    exact this.symm

end T19

end Props.C16
