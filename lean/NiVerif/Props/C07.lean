/-
  C07 — A rejected call leaves the object, and its arguments, exactly as they were.

  In the functional model an operation either returns a new state or an error, and arguments are
  immutable values, so "nothing changed" is how `step` is defined; what the theorems add is
  (a) the frame statement for whole histories with rejected calls interleaved at any position,
  (b) that every rejection of the modelled operations is decided from the *old* state and the arguments
      alone, including the unresizable-borrowed-buffer case, which is detected before anything is written.
  That the real objects and the caller's arrays are byte-for-byte unchanged after a rejected call is
  observed directly (oracle) around every rejected call of every generated history.
-/
import NiVerif.Model.Wfm
import NiVerif.Model.Atomic
import NiVerif.Proofs.WfmLemmas
import NiVerif.Props.C01
import NiVerif.Props.C10

namespace Props.C07
open Model.Wfm Proofs.Wfm Props.C01

/-- a rejected call leaves the whole observable (and hidden) state of the receiver as it was -/
theorem failed_step_frame (w : W) (op : Op) (h : succeeds w op = false) : step w op = w := by
  cases op <;> simp only [succeeds, step] at h ⊢
  all_goals
    split
    · rename_i heq; rw [heq] at h; simp [Except.isOk, Except.toBool] at h
    · rfl

/-- rejected calls anywhere in a history do not influence its outcome: dropping them gives the same final state -/
theorem rejected_calls_are_noops : ∀ (ops : List Op) (w : W),
    ops.foldl step w = (ops.foldl (fun acc op => if succeeds acc op then step acc op else acc) w) := by
  intro ops
  induction ops with
  | nil => intro w; rfl
  | cons op ops ih =>
    intro w
    simp only [List.foldl_cons]
    by_cases hs : succeeds w op = true
    · simp only [hs, if_true]; exact ih _
    · have hf : succeeds w op = false := by simpa using hs
      rw [failed_step_frame w op hf]
      simp only [hf, Bool.false_eq_true, if_false]; exact ih w

/-- growing a borrowed (non-owning) buffer is refused with ValueError — by the capacity setter itself … -/
theorem unresizable_capacity (w : W) (v : Nat) (hr : w.resizable = false) (hv : w.start + w.count ≤ v)
    (hne : v ≠ w.capacity) : setCapacity w (some (v : Int)) = .error .ValueError := by
  unfold setCapacity argUint
  simp only [bind, Except.bind, pure, Except.pure, throw, throwThe, MonadExceptOf.throw, Option.getD_some,
    Option.isNone_some]
  rw [if_neg (by omega)]; simp only
  rw [if_neg (by simp), if_neg (by omega), if_neg (by simpa using hne)]
  simp [hr]

/-- … and therefore by every append that needs more room, before the timing or a single sample is written -/
theorem unresizable_append_rejected (w : W) (a : Arr) (ts : Option (List Int)) (ok : Bool)
    (hr : w.resizable = false) (hroom : w.start + w.count + a.rows.length > w.capacity) :
    ∃ e, appendArray w a ts ok = .error e := by
  have hcap : increaseCapacity w a.rows.length = .error .ValueError := by
    unfold increaseCapacity
    rw [if_pos hroom]
    exact unresizable_capacity w _ hr (by omega) (by simp only [W.capacity] at *; omega)
  cases h : appendArray w a ts ok with
  | error e => exact ⟨e, rfl⟩
  | ok w' =>
    exfalso
    unfold appendArray at h
    unwind h
    rename_i _ _ _ _ _ _ _ _ _ _ _ _ w1 hw1
    rw [hcap] at hw1; cases hw1

theorem unresizable_append_waveforms_rejected (w : W) (os : List W) (hr : w.resizable = false)
    (hroom : w.start + w.count + (os.map (·.count)).sum > w.capacity) :
    ∃ e, appendWaveforms w os = .error e := by
  have hcap : increaseCapacity w (os.map (·.count)).sum = .error .ValueError := by
    unfold increaseCapacity
    rw [if_pos hroom]
    exact unresizable_capacity w _ hr (by omega) (by simp only [W.capacity] at *; omega)
  cases h : appendWaveforms w os with
  | error e => exact ⟨e, rfl⟩
  | ok p =>
    exfalso
    obtain ⟨w', ws⟩ := p
    obtain ⟨_, w1, _, _, hw1, _, _⟩ := Props.C10.appendWaveforms_unfold w os w' ws h
    rw [hcap] at hw1; cases hw1

/-- every rejection of the modelled calls is one of the documented exception classes -/
theorem rejection_classes (w : W) (a : Arr) (copy : Bool) (s n : Option Int) (e : PyErr)
    (h : loadData w a copy s n = .error e) :
    e = .DatatypeMismatchError ∨ e.base = .ValueError ∨ e = .TypeError := by
  unfold loadData at h
  simp only [bind, Except.bind, pure, Except.pure, throw, throwThe, MonadExceptOf.throw] at h
  cases hc : checkInput w a with
  | error e1 =>
    rw [hc] at h; injection h with h; subst h
    unfold checkInput at hc
    simp only [bind, Except.bind, pure, Except.pure, throw, throwThe, MonadExceptOf.throw] at hc
    repeat' (split at hc)
    all_goals (first | (cases hc; done) | (injection hc with hc; subst hc; simp [PyErr.base]))
  | ok u =>
    rw [hc] at h; simp only at h
    cases hw : window (a.rows.length : Int) s n with
    | error e1 =>
      rw [hw] at h; injection h with h; subst h
      exact Or.inr (Or.inl (window_err _ _ _ _ hw))
    | ok g =>
      rw [hw] at h; simp only at h
      repeat' (split at h)
      all_goals (first | (cases h; done) | (injection h with h; subst h; simp [PyErr.base]) | skip)
      all_goals
        rename_i heq
        split at heq
        · unfold setCapacity at heq
          simp only [bind, argUint_bind] at heq
          simp only [Except.bind, pure, Except.pure, throw, throwThe, MonadExceptOf.throw] at heq
          repeat' (split at heq)
          all_goals (first | (cases heq; done) | (injection heq with heq; subst heq; simp [PyErr.base]))
        · cases heq

end Props.C07

/-! ### the order of effects in the source (regenerated on every run): no raise after a change -/
namespace Props.C07
open Model.Atomic Gen.Atomic

/-- `append(array[, timestamps])`, `append(waveform(s))` and `load_data` of the numeric waveforms: on every path, in every
    buffer situation (owning or borrowed, writable or read-only, enough capacity or not), every statement that can raise comes
    before the first statement that changes observable state -/
theorem numeric_atomic :
    atomic numeric_increase_capacity numeric_append_array = true
    ∧ atomic numeric_increase_capacity numeric_append_waveforms = true
    ∧ atomic numeric_increase_capacity numeric_load_array = true := by decide +kernel

theorem digital_atomic :
    atomic digital_increase_capacity digital_append_array = true
    ∧ atomic digital_increase_capacity digital_append_waveforms = true
    ∧ atomic digital_increase_capacity digital_load_array = true := by decide +kernel

theorem spectrum_atomic :
    atomic spectrum_increase_capacity spectrum_append_array = true
    ∧ atomic spectrum_increase_capacity spectrum_append_spectrums = true
    ∧ atomic spectrum_increase_capacity spectrum_load_array = true := by decide +kernel

/-- the criterion is not vacuous: the orders the pinned tree had are rejected — timing installed before the copy (read-only
    buffer), capacity grown before a read-only copy, timing installed before the growth (borrowed buffer), a cached value
    written before the statement that raises -/
theorem criterion_rejects_old_orders :
    atomic [.local, .ifNeedGrowBegin, .resize, .ifNeedGrowEnd] [.check, .mergeTiming, .callGrow, .setTiming, .local, .copy, .setCount] = false
    ∧ atomic [.local, .ifNeedGrowBegin, .resize, .ifNeedGrowEnd] [.check, .mergeTiming, .callGrow, .local, .copy, .setTiming, .setCount] = false
    ∧ atomic numeric_increase_capacity [.check, .mergeTiming, .setTiming, .callGrow, .local, .copy, .setCount] = false
    ∧ atomic numeric_increase_capacity [.setStart, .setCount, .callGrow, .copy, .setCount] = false := by decide +kernel

end Props.C07
