/-
  C06 — Port data unpacks to the documented bit / line / signal mapping.
-/
import NiVerif.Model.Port
import NiVerif.Proofs.Bits
import NiVerif.Proofs.PortLemmas
import NiVerif.Gen.PortLine

namespace Props.C06
open Model.Port

/-- positions of the set bits of `m`, lowest first -/
def setBits (m : Nat) : List Nat := (List.range (Py.bitLen m)).filter fun b => m.testBit b

theorem lt_two_pow_bitLen (m : Nat) : m < 2 ^ Py.bitLen m := by
  unfold Py.bitLen
  by_cases h : m = 0
  · simp [h]
  · simp only [h, if_false]; exact Nat.lt_log2_self

theorem filter_range_succ (p : Nat → Bool) (k : Nat) :
    (List.range (k + 1)).filter p
      = (if p 0 then [0] else []) ++ ((List.range k).filter (fun b => p (b + 1))).map Nat.succ := by
  rw [List.range_succ_eq_map, List.filter_cons, List.filter_map]
  have : (p ∘ Nat.succ) = fun b => p (b + 1) := rfl
  rw [this]
  cases p 0 <;> simp

/-- the `while mask != 0` loop visits the set bits in increasing position -/
theorem colLoop_spec (big : Bool) (w : Nat) : ∀ (k m pos : Nat), m < 2 ^ k →
    colLoop big w k m pos = ((List.range k).filter fun b => m.testBit b).map fun b => colOf big w (pos + b) := by
  intro k
  induction k with
  | zero => intro m pos h; simp [colLoop]
  | succ k ih =>
    intro m pos h
    unfold colLoop
    by_cases hm : m = 0
    · subst hm; simp
    · simp only [hm, if_false]
      have hlt : m / 2 < 2 ^ k := by
        have : 2 ^ (k + 1) = 2 * 2 ^ k := by rw [Nat.pow_succ]; omega
        omega
      rw [ih (m / 2) (pos + 1) hlt, filter_range_succ]
      have hs : (fun b => m.testBit (b + 1)) = fun b => (m / 2).testBit b := by
        funext b; simp [Nat.testBit_succ]
      rw [hs, List.map_append, List.map_map]
      have h0 : m.testBit 0 = decide (m % 2 = 1) := by rw [Nat.testBit_zero]
      rw [h0]
      congr 1
      · by_cases hb : m % 2 = 1 <;> simp [hb]
      · apply List.map_congr_left
        intro b _
        simp only [Function.comp]
        congr 1; omega

/-- `_mask_to_column_indices`: little → the set bits ascending; big → `w-1-b` for the set bits descending -/
theorem columns_spec (mask : Nat) (w : Nat) :
    maskToColumns (mask : Int) w false = .ok ((setBits mask).map fun (b : Nat) => (b : Int))
    ∧ maskToColumns (mask : Int) w true = .ok ((setBits mask).reverse.map fun (b : Nat) => (w : Int) - 1 - b) := by
  unfold maskToColumns
  have hn : ¬ ((mask : Int) < 0) := by omega
  simp only [hn, if_false, Int.toNat_natCast]
  rw [colLoop_spec false w _ mask 0 (lt_two_pow_bitLen mask), colLoop_spec true w _ mask 0 (lt_two_pow_bitLen mask)]
  unfold setBits colOf
  constructor
  · simp
  · simp [List.map_reverse]

theorem negative_mask_ValueError (mask : Int) (w : Nat) (big : Bool) (h : mask < 0) :
    maskToColumns mask w big = .error .ValueError := by
  unfold maskToColumns; rw [if_pos h]

/-- one signal per set mask bit -/
theorem signal_count_popcount (mask w : Nat) (big : Bool) (cols : List Int)
    (h : maskToColumns (mask : Int) w big = .ok cols) : cols.length = (setBits mask).length := by
  have hs := columns_spec mask w
  cases big
  · rw [hs.1] at h; injection h with h; subst h; simp
  · rw [hs.2] at h; injection h with h; subst h; simp

theorem setBits_lt (m w : Nat) (h : m < 2 ^ w) : ∀ b ∈ setBits m, b < w := by
  intro b hb
  unfold setBits at hb
  rw [List.mem_filter, List.mem_range] at hb
  have := Py.bitLen_le_of_lt m w h
  omega

theorem pick_little (v w b : Nat) (h : b < w) : pick (unpackRow v w false) (b : Int) = bit v b := by
  unfold pick unpackRow
  have : ¬ ((b : Int) < 0) := by omega
  simp only [this, if_false, Int.toNat_natCast, Bool.false_eq_true]
  simp [List.getD, h]

theorem pick_big (v w b : Nat) (h : b < w) : pick (unpackRow v w true) ((w : Int) - 1 - b) = bit v b := by
  unfold pick unpackRow
  have hc : ¬ ((w : Int) - 1 - b < 0) := by omega
  have ht : ((w : Int) - 1 - b).toNat = w - 1 - b := by omega
  simp only [hc, if_false, ht, if_true]
  have hlt : w - 1 - b < w := by omega
  simp only [List.getD, List.getElem?_map, List.getElem?_range hlt, Option.map_some, Option.getD_some]
  congr 1; omega

/-- For a mask that fits the port: each sample's row is the sample's bits at the set mask positions,
    ascending for 'little', descending for 'big' (partial mask). -/
theorem line_data_partial (values : List Nat) (w mask : Nat) (big : Bool) (hw : mask < 2 ^ w - 1) :
    portToLine values w (mask : Int) big =
      .ok (values.map fun v =>
        (if big then (setBits mask).reverse else setBits mask).map fun b => bit (v % 2 ^ w) b) := by
  unfold portToLine
  have hfull : Gen.Port.bit_mask (w : Int) = .ok ((2 : Int) ^ w - 1) := by
    unfold Gen.Port.bit_mask Py.shl
    have : ¬ ((w : Int) < 0) := by omega
    simp [this]
  rw [hfull]; simp only [Except.bind]
  have hp : (0 : Nat) < 2 ^ w := Nat.two_pow_pos w
  have hc : ((2 : Int) ^ w - 1) = ((2 ^ w - 1 : Nat) : Int) := by
    rw [Int.ofNat_sub hp]; simp
  rw [hc]
  rw [if_neg (by omega), if_neg (by omega)]
  have hb := setBits_lt mask w (by omega)
  have hs := columns_spec mask w
  cases big
  · rw [hs.1]; simp only [Except.map, Bool.false_eq_true, if_false]
    congr 1
    apply List.map_congr_left; intro v _
    rw [List.map_map]
    apply List.map_congr_left; intro b hbm
    simp only [Function.comp]
    exact pick_little _ w b (hb b hbm)
  · rw [hs.2]; simp only [Except.map, if_true]
    congr 1
    apply List.map_congr_left; intro v _
    rw [List.map_map]
    apply List.map_congr_left; intro b hbm
    simp only [Function.comp]
    exact pick_big _ w b (hb b (List.mem_reverse.1 hbm))

theorem setBits_full (w : Nat) : setBits (2 ^ w - 1) = List.range w := by
  unfold setBits
  rw [Py.bitLen_two_pow_sub_one]
  apply List.filter_eq_self.2
  intro b hb
  rw [List.mem_range] at hb
  simp [Nat.testBit_two_pow_sub_one, hb]

/-- the full mask selects every line: same statement as for a partial mask -/
theorem line_data_full (values : List Nat) (w : Nat) (big : Bool) :
    portToLine values w (((2 ^ w - 1 : Nat)) : Int) big =
      .ok (values.map fun v =>
        (if big then (setBits (2 ^ w - 1)).reverse else setBits (2 ^ w - 1)).map fun b => bit (v % 2 ^ w) b) := by
  unfold portToLine
  have hfull : Gen.Port.bit_mask (w : Int) = .ok ((2 : Int) ^ w - 1) := by
    unfold Gen.Port.bit_mask Py.shl
    have : ¬ ((w : Int) < 0) := by omega
    simp [this]
  rw [hfull]; simp only [Except.bind]
  have hp : (0 : Nat) < 2 ^ w := Nat.two_pow_pos w
  have hc : ((2 : Int) ^ w - 1) = ((2 ^ w - 1 : Nat) : Int) := by
    rw [Int.ofNat_sub hp]; simp
  rw [hc, if_neg (by omega), if_pos rfl, setBits_full]
  congr 1
  apply List.map_congr_left; intro v _
  unfold unpackRow
  cases big
  · simp
  · simp only [if_true]
    apply List.ext_getElem
    · simp
    · intro i h1 h2
      simp only [List.length_map, List.length_range] at h1
      simp [List.getElem_reverse]

/-- Mask bits beyond the port width are rejected (ValueError), never turned into fabricated signals. -/
theorem mask_too_wide_rejected (values : List Nat) (w : Nat) (mask : Int) (big : Bool) (h : mask > (2 : Int) ^ w - 1) :
    portToLine values w mask big = .error .ValueError := by
  unfold portToLine
  have hfull : Gen.Port.bit_mask (w : Int) = .ok ((2 : Int) ^ w - 1) := by
    unfold Gen.Port.bit_mask Py.shl
    have : ¬ ((w : Int) < 0) := by omega
    simp [this]
  rw [hfull]; simp only [Except.bind]
  rw [if_pos h]

/-- signal i is data column (signal_count-1-i): with 'big' it holds the i-th lowest set mask bit,
    with 'little' the i-th highest -/
theorem signal_bit (v w mask : Nat) (big : Bool) (i : Nat) (hi : i < (setBits mask).length) :
    let row := (if big then (setBits mask).reverse else setBits mask).map fun b => bit (v % 2 ^ w) b
    row.reverse[i]? =
      some (bit (v % 2 ^ w) (if big then (setBits mask)[i] else (setBits mask).reverse[i]'(by simpa using hi))) := by
  cases big
  · simp only [Bool.false_eq_true, if_false]
    rw [← List.map_reverse, List.getElem?_map]
    simp [List.getElem?_eq_getElem (show i < (setBits mask).reverse.length by simpa using hi)]
  · simp only [if_true]
    rw [← List.map_reverse, List.reverse_reverse, List.getElem?_map, List.getElem?_eq_getElem hi]
    rfl

/-- the port width chosen for a Python sequence is the smallest of 8/16/32 bits that holds the mask -/
theorem port_width_of_mask (mask : Nat) :
    Gen.Port._get_port_dtype (mask : Int) =
      if mask < 256 then .ok 8 else if mask < 65536 then .ok 16 else if mask < 4294967296 then .ok 32
      else .error .ValueError := by
  unfold Gen.Port._get_port_dtype
  have h8 : Py.and (mask : Int) 255 = (mask : Int) % 256 := by
    have := Py.and_mask (mask : Int) 8; simpa using this
  have h16 : Py.and (mask : Int) 65535 = (mask : Int) % 65536 := by
    have := Py.and_mask (mask : Int) 16; simpa using this
  have h32 : Py.and (mask : Int) 4294967295 = (mask : Int) % 4294967296 := by
    have := Py.and_mask (mask : Int) 32; simpa using this
  rw [h8, h16, h32]
  split <;> split <;> (try split) <;> (try split) <;> (try split) <;> (try split) <;> first | rfl | omega

/-! ### the tie by proof: the function regenerated from `_mask_to_column_indices` (Gen/Port.lean, translator tier T8) -/
open Proofs.Port in
/-- the generated loop *is* the model's `maskToColumns`, for every mask (also negative), width and bit-order string -/
theorem gen_columns_eq_model (mask : Int) (w : Nat) (bo : String) :
    Gen.Port._mask_to_column_indices mask (w : Int) bo = maskToColumns mask w (decide (bo = "big")) := by
  unfold Gen.Port._mask_to_column_indices maskToColumns
  by_cases h : mask < 0
  · simp [h]
  · simp only [h, if_false]
    obtain ⟨m, rfl⟩ : ∃ m : Nat, mask = (m : Int) := ⟨mask.toNat, by omega⟩
    simp only [Int.toNat_natCast]
    rw [whileFuel_colLoop0 (decide (bo = "big")) w]
    · have := colLoopState_fst (decide (bo = "big")) w (Py.bitLen m) m 0 []
      generalize colLoopState (decide (bo = "big")) w (Py.bitLen m) m 0 [] = st at this ⊢
      obtain ⟨p, q, c⟩ := st
      simp only [List.nil_append] at this
      subst this
      by_cases hbo : bo = "big" <;> simp [hbo]
    · intro acc pos m; simp
    · intro acc pos m
      simp only [and_one_nat, shr_one_nat]
      have hp : ((pos : Int) + 1) = ((pos + 1 : Nat) : Int) := by omega
      have h1 : ¬ (((1 : Nat) : Int) = 0) := by decide
      have h0 : (((0 : Nat) : Int) = 0) := by decide
      by_cases hb : m % 2 = 1
      · simp only [hb, ne_eq, if_true, h1, not_false_eq_true]
        by_cases hbo : bo = "big"
        · simp only [hbo, if_true, decide_true, colOf, hp]
        · simp only [hbo, if_false, decide_false, colOf, hp]; rfl
      · have hb0 : m % 2 = 0 := by omega
        simp only [hb0, ne_eq, h0, not_true_eq_false, if_false, hp]
        simp

/-- … hence the code's column list is the property's: the set bits ascending for 'little', `w-1-b` for the set bits descending
    for 'big', and a negative mask is a ValueError -/
theorem gen_columns_spec (mask w : Nat) :
    Gen.Port._mask_to_column_indices (mask : Int) (w : Int) "little" = .ok ((setBits mask).map fun (b : Nat) => (b : Int))
    ∧ Gen.Port._mask_to_column_indices (mask : Int) (w : Int) "big"
        = .ok ((setBits mask).reverse.map fun (b : Nat) => (w : Int) - 1 - b) := by
  rw [gen_columns_eq_model, gen_columns_eq_model]
  exact columns_spec mask w

theorem gen_negative_mask_ValueError (mask : Int) (w : Nat) (bo : String) (h : mask < 0) :
    Gen.Port._mask_to_column_indices mask (w : Int) bo = .error .ValueError := by
  rw [gen_columns_eq_model]; exact negative_mask_ValueError mask w _ h

example : Gen.Port._mask_to_column_indices 0xDEADBEEF 32 "big"
    = .ok [0, 1, 3, 4, 5, 6, 8, 10, 12, 13, 15, 16, 18, 19, 20, 21, 22, 24, 25, 26, 28, 29, 30, 31] := by decide +kernel

-- non-vacuity: the documented examples
example : portToLine [0, 1, 2, 3] 8 3 true = .ok [[0, 0], [0, 1], [1, 0], [1, 1]] := by decide +kernel
example : portToLine [0, 1, 2, 3] 8 3 false = .ok [[0, 0], [1, 0], [0, 1], [1, 1]] := by decide +kernel
example : portToLine [1] 8 511 true = .error .ValueError := by decide +kernel

/-! ### T20: `port_to_line_data` as regenerated from `_port.py` is the model's `portToLine` -/

/-- **the generated `port_to_line_data` is the model's `portToLine`** for every sample list, port width, mask and bit order: the mask
    check, the full-mask shortcut, and otherwise the columns of the (generated, tier T8) mask loop -/
theorem gen_port_to_line_eq_model (values : List Nat) (w : Nat) (mask : Int) (bo : String) :
    Gen.PortLine.port_to_line_data values (w : Int) mask bo = portToLine values w mask (decide (bo = "big")) := by
  unfold Gen.PortLine.port_to_line_data portToLine
  simp only [Int.toNat_natCast]
  cases hb : Gen.Port.bit_mask (w : Int) with
  | error err => rfl
  | ok full =>
    simp only [Except.bind]
    by_cases h1 : mask > full
    · simp [h1]
    · simp only [h1, if_false]
      by_cases h2 : mask = full
      · simp [h2]
      · simp only [h2, if_false]
        rw [gen_columns_eq_model]
        cases maskToColumns mask w (decide (bo = "big")) with
        | error err => rfl
        | ok cols => simp [Except.map, List.map_map, Function.comp]

end Props.C06
