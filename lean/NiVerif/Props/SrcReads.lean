/-
  T28 — the copying paths read their sources safely (Gen/SrcReads.lean over Py/SrcReads.lean); audited by C01 (and C07).
-/
import NiVerif.Gen.SrcReads

namespace Props.SrcReads
open Py.SrcReads

/-- **Sources are read before they can go stale.**  In `_append_array`, `_append_waveforms` / `_append_spectrums` and the copying
    branch of `_load_array` of all three buffer classes, every write into the buffer reads a source that was either bound after the last
    resize or replaced by a private copy (when it may share memory with the buffer) before it, and the writes of a loop over several
    sources read sources guarded unconditionally before the loop. -/
theorem gen_sources_read_safely : ∀ p ∈ Gen.SrcReads.all_paths, safe p.2 = true := by
  decide +kernel

/-- the nine paths, by name -/
theorem gen_paths_cover : Gen.SrcReads.all_paths.map (·.1) =
    ["numeric_append_array", "numeric_append_waveforms", "numeric_load_array", "spectrum_append_array", "spectrum_append_spectrums",
     "spectrum_load_array", "digital_append_array", "digital_append_waveforms", "digital_load_array"] := by
  decide +kernel

/-- every path really writes the buffer from a named source, after a resize (non-vacuity of `safe`) -/
theorem gen_paths_resize_then_write : ∀ p ∈ Gen.SrcReads.all_paths, p.2.contains .resize = true ∧ p.2.any (fun e => match e with | .write _ _ => true | _ => false) = true := by
  decide +kernel

end Props.SrcReads
