/-
  C08 — Timing yields exactly the requested timestamps, without drift, or refuses.
-/
import NiVerif.Model.Timing
import NiVerif.Gen.Irregular
import NiVerif.Gen.Regular
import NiVerif.Proofs.Bits
import NiVerif.Props.C20
import NiVerif.Gen.GetTimestamps

namespace Props.C08
open Model.Timing

/-! ### REGULAR: the k-th timestamp is timestamp + time_offset + (i+k)·sample_interval, exactly -/

theorem abs_ok (F : Fam) (v r : Int) (h : F.abs v = .ok r) : r = v := by
  unfold Fam.abs at h; split at h
  · injection h with h; exact h.symm
  · cases h
theorem rel_ok (F : Fam) (v r : Int) (h : F.rel v = .ok r) : r = v := by
  unfold Fam.rel at h; split at h
  · injection h with h; exact h.symm
  · cases h
theorem abs_err (F : Fam) (v : Int) (e : PyErr) (h : F.abs v = .error e) : e = .OverflowError := by
  unfold Fam.abs at h; split at h
  · cases h
  · injection h with h; exact h.symm
theorem rel_err (F : Fam) (v : Int) (e : PyErr) (h : F.rel v = .error e) : e = .OverflowError := by
  unfold Fam.rel at h; split at h
  · cases h
  · injection h with h; exact h.symm

/-- the generator loop yields `t, t+dt, t+2·dt, …` — no accumulated error, for any (also negative) dt -/
theorem genLoop_spec (F : Fam) (dt : Int) (n : Nat) : ∀ (t : Int) (L : List Int),
    genLoop F dt n t = .ok L → L.length = n ∧ ∀ k, k < n → L[k]? = some (t + (k : Int) * dt) := by
  induction n using Nat.strongRecOn with
  | _ n ih =>
    intro t L h
    match n, ih, h with
    | 0, _, h => simp [genLoop] at h; subst h; simp
    | 1, _, h =>
      simp [genLoop] at h; subst h
      refine ⟨rfl, ?_⟩
      intro k hk
      have : k = 0 := by omega
      subst this; simp
    | m + 2, ih, h =>
      simp only [genLoop] at h
      cases ha : F.abs (t + dt) with
      | error e => rw [ha] at h; cases h
      | ok t' =>
        rw [ha] at h; simp only [Except.bind] at h
        have ht' := abs_ok F _ _ ha
        cases hl : genLoop F dt (m + 1) t' with
        | error e => rw [hl] at h; cases h
        | ok L' =>
          rw [hl] at h
          simp [Except.bind, Except.map] at h
          subst h
          obtain ⟨hlen, hk⟩ := ih (m + 1) (by omega) t' L' hl
          refine ⟨by simp [hlen], ?_⟩
          intro k hk2
          cases k with
          | zero => simp
          | succ j =>
            have := hk j (by omega)
            simp only [List.getElem?_cons_succ, this, ht']
            congr 1
            have : ((j + 1 : Nat) : Int) = (j : Int) + 1 := by omega
            rw [this]
            have e1 : ((j : Int) + 1) * dt = (j : Int) * dt + dt := by
              rw [Int.add_mul, Int.one_mul]
            omega

theorem regular_kth (F : Fam) (ts : Int) (off : Option Int) (dt i n : Int) (L : List Int)
    (h : regularTimestamps F ts off dt i n = .ok L) :
    0 ≤ i ∧ 0 ≤ n ∧ (L.length : Int) = n ∧
      ∀ k : Nat, (k : Int) < n → L[k]? = some (ts + off.getD 0 + (i + (k : Int)) * dt) := by
  unfold regularTimestamps at h
  split at h; · cases h
  split at h; · cases h
  rename_i hi hn
  cases hs : startTime F (some ts) off with
  | error e => rw [hs] at h; cases h
  | ok st =>
    rw [hs] at h
    have hst : st = ts + off.getD 0 := by
      unfold startTime at hs
      cases off with
      | none => simp at hs; simp [hs]
      | some o => simp at hs; have := abs_ok F _ _ hs; simp [this]
    cases hr : F.rel (i * dt) with
    | error e => rw [hr] at h; cases h
    | ok d =>
      rw [hr] at h; simp only [Except.bind] at h
      have hd := rel_ok F _ _ hr
      cases ha : F.abs (st + d) with
      | error e => rw [ha] at h; cases h
      | ok t0 =>
        rw [ha] at h
        have ht0 := abs_ok F _ _ ha
        simp only [Except.bind] at h
        obtain ⟨hlen, hk⟩ := genLoop_spec F dt n.toNat t0 L h
        refine ⟨by omega, by omega, by omega, ?_⟩
        intro k hk2
        rw [hk k (by omega), ht0, hd, hst]
        congr 1
        rw [Int.add_mul]; omega

/-- a refusal of a well-formed REGULAR request is an OverflowError (a value outside the family's range) -/
theorem genLoop_err (F : Fam) (dt : Int) (n : Nat) : ∀ (t : Int) (e : PyErr),
    genLoop F dt n t = .error e → e = .OverflowError := by
  induction n using Nat.strongRecOn with
  | _ n ih =>
    intro t e h
    match n, ih, h with
    | 0, _, h => simp [genLoop] at h
    | 1, _, h => simp [genLoop] at h
    | m + 2, ih, h =>
      simp only [genLoop] at h
      cases ha : F.abs (t + dt) with
      | error e' => rw [ha] at h; simp [Except.bind] at h; subst h; exact abs_err F _ _ ha
      | ok t' =>
        rw [ha] at h; simp only [Except.bind] at h
        cases hl : genLoop F dt (m + 1) t' with
        | error e' =>
          rw [hl] at h; simp [Except.bind, Except.map] at h; subst h
          exact ih (m + 1) (by omega) t' _ hl
        | ok L' => rw [hl] at h; simp [Except.bind, Except.map] at h

theorem regular_refuses_only_on_range (F : Fam) (ts : Int) (off : Option Int) (dt i n : Int) (e : PyErr)
    (hi : 0 ≤ i) (hn : 0 ≤ n) (h : regularTimestamps F ts off dt i n = .error e) : e = .OverflowError := by
  unfold regularTimestamps at h
  rw [if_neg (by omega), if_neg (by omega)] at h
  cases hs : startTime F (some ts) off with
  | error e' =>
    rw [hs] at h; simp [Except.bind] at h; subst h
    unfold startTime at hs
    cases off with
    | none => simp at hs
    | some o => simp at hs; exact abs_err F _ _ hs
  | ok st =>
    rw [hs] at h
    cases hr : F.rel (i * dt) with
    | error e' => rw [hr] at h; simp [Except.bind] at h; subst h; exact rel_err F _ _ hr
    | ok d =>
      rw [hr] at h; simp only [Except.bind] at h
      cases ha : F.abs (st + d) with
      | error e' => rw [ha] at h; simp [Except.bind] at h; subst h; exact abs_err F _ _ ha
      | ok t0 =>
        rw [ha] at h; simp only [Except.bind] at h
        exact genLoop_err F dt _ _ _ h

/-- start_time is timestamp + time_offset (or the timestamp alone) -/
theorem start_time_spec (F : Fam) (ts : Int) (off : Option Int) (v : Int)
    (h : startTime F (some ts) off = .ok v) : v = ts + off.getD 0 := by
  unfold startTime at h
  cases off with
  | none => simp at h; simp [h]
  | some o => simp at h; have := abs_ok F _ _ h; simp [this]

/-! ### IRREGULAR: exactly the stored timestamps i .. i+n-1, or ValueError -/

theorem irregular_window (stamps : List Int) (i n : Int) :
    irregularTimestamps stamps i n =
      if 0 ≤ i ∧ 0 ≤ n ∧ i + n ≤ stamps.length then .ok ((stamps.drop i.toNat).take n.toNat)
      else .error .ValueError := by
  unfold irregularTimestamps
  split
  · rw [if_neg (by omega)]
  · split
    · rw [if_neg (by omega)]
    · split
      · rw [if_neg (by omega)]
      · rw [if_pos (by omega)]

theorem irregular_exact (stamps L : List Int) (i n : Int) (h : irregularTimestamps stamps i n = .ok L) :
    (L.length : Int) = n ∧ ∀ k : Nat, (k : Int) < n → L[k]? = stamps[i.toNat + k]? := by
  rw [irregular_window] at h
  split at h
  · rename_i hc
    injection h with h; subst h
    refine ⟨by simp; omega, ?_⟩
    intro k hk
    rw [List.getElem?_take]
    rw [if_pos (by omega), List.getElem?_drop]
  · cases h

/-- a request reaching beyond the stored timestamps raises ValueError instead of returning fewer -/
theorem irregular_beyond_ValueError (stamps : List Int) (i n : Int) (h : (stamps.length : Int) < i + n) :
    irregularTimestamps stamps i n = .error .ValueError := by
  rw [irregular_window, if_neg (by omega)]

/-! ### no timestamp information, negative arguments -/

theorem no_info_error (F : Fam) (ts off si : Option Int) (stamps : List Int) (i n : Int) (hi : 0 ≤ i) (hn : 0 ≤ n) :
    getTimestamps F .none ts off si stamps i n = .error .NoTimestampInformationError
    ∧ getTimestamps F .regular none off si stamps i n = .error .NoTimestampInformationError := by
  unfold getTimestamps
  rw [if_neg (by omega), if_neg (by omega)]
  exact ⟨rfl, rfl⟩

theorem negative_args_ValueError (F : Fam) (m : Mode) (ts off si : Option Int) (stamps : List Int) (i n : Int)
    (h : i < 0 ∨ n < 0) : getTimestamps F m ts off si stamps i n = .error .ValueError := by
  unfold getTimestamps
  by_cases hi : i < 0
  · rw [if_pos hi]
  · rw [if_neg hi, if_pos (by omega)]

/-! ### irregular timing accepts exactly the non-decreasing or non-increasing sequences -/

/-- adjacent-pair chains -/
def chainLe (prev : Int) : List Int → Prop
  | [] => True
  | x :: xs => prev ≤ x ∧ chainLe x xs
def chainGe (prev : Int) : List Int → Prop
  | [] => True
  | x :: xs => x ≤ prev ∧ chainGe x xs

def nonDecreasing : List Int → Prop | [] => True | x :: xs => chainLe x xs
def nonIncreasing : List Int → Prop | [] => True | x :: xs => chainGe x xs

theorem monoLoop_spec (l : List Int) : ∀ (dir prev : Int), (dir = 0 ∨ dir = -1 ∨ dir = 1) →
    (monoLoop dir prev l = true ↔
      ((dir = 0 → chainLe prev l ∨ chainGe prev l) ∧ (dir = -1 → chainLe prev l) ∧ (dir = 1 → chainGe prev l))) := by
  induction l with
  | nil => intro dir prev _; simp [monoLoop, chainLe, chainGe]
  | cons x xs ih =>
    intro dir prev hd
    simp only [monoLoop, direction, chainLe, chainGe]
    by_cases h1 : prev < x
    · -- increasing step
      simp only [h1, if_true, show ((-1:Int) = 0) = False from by simp, if_false]
      rcases hd with hd | hd | hd
      · subst hd
        simp only [if_true]
        rw [ih (-1) x (by simp)]
        constructor
        · intro ⟨_, h, _⟩; exact ⟨fun _ => Or.inl ⟨by omega, h (by simp)⟩, by simp, by simp⟩
        · intro ⟨h, _, _⟩
          refine ⟨by simp, fun _ => ?_, by simp⟩
          rcases h (by simp) with h | h
          · exact h.2
          · omega
      · subst hd
        simp only [show ((-1:Int) = 0) = False from by simp, if_false, ne_eq, not_true_eq_false]
        rw [ih (-1) x (by simp)]
        constructor
        · intro ⟨_, h, _⟩; exact ⟨by simp, fun _ => ⟨by omega, h (by simp)⟩, by simp⟩
        · intro ⟨_, h, _⟩; exact ⟨by simp, fun _ => (h (by simp)).2, by simp⟩
      · subst hd
        simp only [show ((1:Int) = 0) = False from by simp, if_false, ne_eq,
          show ((-1:Int) = 1) = False from by simp, not_false_eq_true, if_true]
        constructor
        · intro h; cases h
        · intro ⟨_, _, h⟩; have := (h (by simp)).1; omega
    · by_cases h2 : x < prev
      · simp only [h1, if_false, h2, if_true, show ((1:Int) = 0) = False from by simp]
        rcases hd with hd | hd | hd
        · subst hd
          simp only [if_true]
          rw [ih 1 x (by simp)]
          constructor
          · intro ⟨_, _, h⟩; exact ⟨fun _ => Or.inr ⟨by omega, h (by simp)⟩, by simp, by simp⟩
          · intro ⟨h, _, _⟩
            refine ⟨by simp, by simp, fun _ => ?_⟩
            rcases h (by simp) with h | h
            · omega
            · exact h.2
        · subst hd
          simp only [show ((-1:Int) = 0) = False from by simp, if_false, ne_eq,
            show ((1:Int) = -1) = False from by simp, not_false_eq_true, if_true]
          constructor
          · intro h; cases h
          · intro ⟨_, h, _⟩; have := (h (by simp)).1; omega
        · subst hd
          simp only [show ((1:Int) = 0) = False from by simp, if_false, ne_eq, not_true_eq_false]
          rw [ih 1 x (by simp)]
          constructor
          · intro ⟨_, _, h⟩; exact ⟨by simp, by simp, fun _ => ⟨by omega, h (by simp)⟩⟩
          · intro ⟨_, _, h⟩; exact ⟨by simp, by simp, fun _ => (h (by simp)).2⟩
      · -- equal: direction unchanged
        have hx : x = prev := by omega
        subst hx
        simp only [h1, if_false, if_true]
        rw [ih dir x hd]
        constructor
        · intro ⟨a, b, c⟩
          refine ⟨fun h => ?_, fun h => ⟨by omega, b h⟩, fun h => ⟨by omega, c h⟩⟩
          rcases a h with a | a
          · exact Or.inl ⟨by omega, a⟩
          · exact Or.inr ⟨by omega, a⟩
        · intro ⟨a, b, c⟩
          refine ⟨fun h => ?_, fun h => (b h).2, fun h => (c h).2⟩
          rcases a h with a | a
          · exact Or.inl a.2
          · exact Or.inr a.2

/-- the monotonicity scan accepts exactly the non-decreasing or non-increasing sequences -/
theorem mono_iff (ts : List Int) : areMonotonic ts = true ↔ (nonDecreasing ts ∨ nonIncreasing ts) := by
  cases ts with
  | nil => simp [areMonotonic, nonDecreasing]
  | cons x xs =>
    simp only [areMonotonic, nonDecreasing, nonIncreasing]
    rw [monoLoop_spec xs 0 x (by simp)]
    constructor
    · intro ⟨h, _, _⟩; exact h rfl
    · intro h; exact ⟨fun _ => h, by simp, by simp⟩

/-- irregular timing can be created from exactly the monotonic sequences of datetime objects;
    non-datetime elements are a TypeError, non-monotonic ones a ValueError -/
theorem irregular_ctor_accepts_iff (elems : List Elem) :
    ((∃ t, ctor .irregular .absent .absent .absent (.seq elems) = .ok t) ↔
      (elems.all Elem.isTs = true ∧ (nonDecreasing (elems.map Elem.val) ∨ nonIncreasing (elems.map Elem.val))))
    ∧ (elems.all Elem.isTs = false → ctor .irregular .absent .absent .absent (.seq elems) = .error .TypeError)
    ∧ (elems.all Elem.isTs = true → areMonotonic (elems.map Elem.val) = false →
        ctor .irregular .absent .absent .absent (.seq elems) = .error .ValueError) := by
  refine ⟨?_, ?_, ?_⟩
  · rw [Props.C20.ctor_accepts_iff_allowed]
    simp only [Props.C20.allowed, Arg.isNone, true_and]
    constructor
    · rintro ⟨e, he, ha, hm⟩
      injection he with he; subst he
      exact ⟨ha, (mono_iff _).1 hm⟩
    · rintro ⟨ha, hm⟩
      exact ⟨elems, rfl, ha, (mono_iff _).2 hm⟩
  · intro h; simp [ctor, unsupported, Arg.isNone, Except.bind, h]
  · intro h1 h2; simp [ctor, unsupported, Arg.isNone, Except.bind, h1, h2]

-- non-vacuity
example : regularTimestamps famDt 100 (some 5) (-3) 2 3 = .ok [99, 96, 93] := by rfl
example : irregularTimestamps [1, 2, 3, 4, 5] 3 4 = .error .ValueError := by rfl
example : areMonotonic [1, 1, 2, 2, 1] = false ∧ areMonotonic [3, 3, 2, 2] = true := by decide +kernel

end Props.C08

/-! ### the model's monotonicity scan is the source's loop (generated from `_irregular.py` on every run) -/
namespace Props.C08
open Model.Timing

theorem gen_direction_eq (l r : Int) : Gen.Irregular._get_direction l r = direction l r := rfl

/-- the generated loop body, named so that it can be unfolded one iteration at a time -/
def genBody (ts : List Int) : Nat → Int → Py.Loop Int Bool :=
  fun (i : Nat) (direction : Int) => (show Py.Loop Int Bool from
    let comparison := (Gen.Irregular._get_direction (Py.seqAt ts (i - 1)) (Py.seqAt ts i))
    if comparison = (0 : Int) then .cont direction
    else if direction = (0 : Int) then
      let direction := comparison
      .cont direction
    else if comparison ≠ direction then .ret false
    else .cont direction)

theorem gen_unfold (ts : List Int) : Gen.Irregular._are_timestamps_monotonic ts =
    (match Py.forRange 1 (ts.length - 1) (0 : Int) (genBody ts) with | .ret r => r | .cont _ => true) := rfl

def finish : Py.Loop Int Bool → Bool | .ret r => r | .cont _ => true

theorem forRange_succ {σ ρ : Type} (lo n : Nat) (s : σ) (f : Nat → σ → Py.Loop σ ρ) :
    Py.forRange lo (n + 1) s f = (match f lo s with | .ret r => .ret r | .cont s' => Py.forRange (lo + 1) n s' f) := rfl

/-- the loop from index `i` on, with accumulator `d`, is the model's recursion over the rest of the list -/
theorem gen_loop_eq (ts : List Int) : ∀ (n i : Nat) (d : Int), 1 ≤ i → i + n = ts.length →
    finish (Py.forRange i n d (genBody ts)) = monoLoop d (ts.getD (i - 1) 0) (ts.drop i) := by
  intro n
  induction n with
  | zero =>
    intro i d _ hi
    have : ts.drop i = [] := List.drop_eq_nil_of_le (by omega)
    simp [Py.forRange, this, monoLoop, finish]
  | succ n ih =>
    intro i d h1 hi
    have hlt : i < ts.length := by omega
    have hdrop : ts.drop i = ts[i] :: ts.drop (i + 1) := (List.drop_eq_getElem_cons hlt)
    rw [hdrop]
    have hget : Py.seqAt ts i = ts[i] := by
      unfold Py.seqAt; rw [List.getD_eq_getElem?_getD, List.getElem?_eq_getElem hlt]; rfl
    have hnext : ts.getD (i + 1 - 1) 0 = ts[i] := by
      simp only [Nat.add_sub_cancel]
      rw [List.getD_eq_getElem?_getD, List.getElem?_eq_getElem hlt]; rfl
    have ih' := fun d' => ih (i + 1) d' (by omega) (by omega)
    simp only [hnext] at ih'
    rw [forRange_succ]
    unfold monoLoop
    simp only
    have hb : genBody ts i d =
        (if direction (ts.getD (i - 1) 0) ts[i] = 0 then Py.Loop.cont d
         else if d = 0 then Py.Loop.cont (direction (ts.getD (i - 1) 0) ts[i])
         else if direction (ts.getD (i - 1) 0) ts[i] ≠ d then Py.Loop.ret false else Py.Loop.cont d) := by
      unfold genBody
      simp only [gen_direction_eq, hget]
      rfl
    rw [hb]
    by_cases hc : direction (ts.getD (i - 1) 0) ts[i] = 0
    · simp only [hc, if_true]
      exact ih' d
    · simp only [hc, if_false]
      by_cases hd : d = 0
      · simp only [hd, if_true]
        exact ih' _
      · simp only [hd, if_false]
        by_cases hne : direction (ts.getD (i - 1) 0) ts[i] ≠ d
        · simp only [hne, ne_eq, not_false_eq_true, if_true, finish]
        · simp only [hne, if_false]
          exact ih' d

/-- **The hand model's `areMonotonic` is the function the source defines** — so every theorem stated over the model's
    scan (C08, C09, C10, C20) is a theorem about `_are_timestamps_monotonic` as it is written today. -/
theorem gen_monotonic_eq_model (ts : List Int) : Gen.Irregular._are_timestamps_monotonic ts = areMonotonic ts := by
  rw [gen_unfold]
  cases ts with
  | nil => simp [Py.forRange, areMonotonic]
  | cons x xs =>
    have := gen_loop_eq (x :: xs) ((x :: xs).length - 1) 1 0 (by omega) (by simp; omega)
    simp only [areMonotonic]
    rw [show monoLoop 0 x xs = monoLoop 0 ((x :: xs).getD (1 - 1) 0) ((x :: xs).drop 1) from by simp]
    rw [← this]
    cases Py.forRange 1 ((x :: xs).length - 1) (0 : Int) (genBody (x :: xs)) <;> rfl

/-- hence the source's scan accepts exactly the non-decreasing or non-increasing sequences -/
theorem gen_monotonic_iff (ts : List Int) :
    Gen.Irregular._are_timestamps_monotonic ts = true ↔ (nonDecreasing ts ∨ nonIncreasing ts) := by
  rw [gen_monotonic_eq_model]; exact mono_iff ts

/-- advance-then-yield, `n` times -/
def advLoop (F : Fam) (dt : Int) : Nat → Int → Except PyErr (List Int)
  | 0, _ => .ok []
  | n + 1, t => (F.abs (t + dt)).bind fun t' => (advLoop F dt n t').map (t' :: ·)

theorem genLoop_succ (F : Fam) (dt : Int) (n : Nat) (t : Int) : genLoop F dt (n + 1) t = (advLoop F dt n t).map (t :: ·) := by
  induction n generalizing t with
  | zero => rfl
  | succ n ih =>
    simp only [genLoop, advLoop]
    cases h : F.abs (t + dt) with
    | error e => rfl
    | ok t' =>
      simp only [Except.bind]
      rw [ih t']

/-- every iteration after the first of a loop `if i != 0: t += dt; yield t` is advance-then-yield -/
theorem genRange_adv (F : Fam) (dt : Int) (body : Nat → Int → Except PyErr (Int × List Int))
    (hb : ∀ i t, i ≠ 0 → body i t = (F.abs (t + dt)).bind fun t' => .ok (t', [t'])) :
    ∀ (n lo : Nat) (t : Int), lo ≠ 0 → Py.genRange lo n t body = advLoop F dt n t := by
  intro n
  induction n with
  | zero => intro lo t _; rfl
  | succ n ih =>
    intro lo t hlo
    simp only [Py.genRange, advLoop, hb lo t hlo]
    cases h : F.abs (t + dt) with
    | error e => rfl
    | ok t' =>
      simp only [Except.bind]
      rw [ih (lo + 1) t' (by omega)]
      cases advLoop F dt n t' <;> rfl

/-- **the generator of the source is the model's loop**: `list(_generate_regular_timestamps(timing, i, n))` -/
theorem gen_regular_eq_model (F : Fam) (si st i n : Int) :
    Gen.Regular.generate_regular_timestamps F si st i n
      = (F.rel (i * si)).bind fun d => (F.abs (st + d)).bind fun t0 => genLoop F si n.toNat t0 := by
  unfold Gen.Regular.generate_regular_timestamps
  simp only [Proofs.bind_ok]
  cases h1 : F.rel (i * si) with
  | error e => rfl
  | ok d =>
    simp only [Except.bind]
    cases h2 : F.abs (st + d) with
    | error e => rfl
    | ok t0 =>
      simp only []
      cases hn : n.toNat with
      | zero => rfl
      | succ m =>
        rw [genLoop_succ]
        -- (the two side conditions are closed by arithmetic on the loop index, so `i != 0`, `i > 0`, `i >= 1`, `0 < i` … in the
        --  source all go through)
        simp (config := { decide := true }) only [Py.genRange, Except.bind, ne_eq, not_true_eq_false, if_false, Nat.lt_irrefl, gt_iff_lt, ge_iff_le,
          Nat.not_succ_le_zero, reduceIte]
        rw [genRange_adv F si _ (by
              intro i t hi
              have hp : 0 < i := Nat.pos_of_ne_zero hi
              have hq : 1 ≤ i := hp
              simp only [ne_eq, hi, not_false_eq_true, if_true, gt_iff_lt, hp, ge_iff_le, hq]
              cases F.abs (t + si) <;> rfl) m 1 t0 (by omega)]
        cases advLoop F si m t0 <;> rfl

/-- … hence the generator of the SOURCE yields, for `n ≥ 0`, exactly `n` timestamps, the k-th being `t0 + k·interval` with
    `t0 = start_time + start_index·interval` - no drift, nothing beyond what was asked for - or refuses with OverflowError -/
theorem gen_regular_spec (F : Fam) (si st i n : Int) (L : List Int)
    (h : Gen.Regular.generate_regular_timestamps F si st i n = .ok L) :
    L.length = n.toNat ∧ ∀ k : Nat, k < n.toNat → L[k]? = some (st + i * si + (k : Int) * si) := by
  rw [gen_regular_eq_model] at h
  cases h1 : F.rel (i * si) with
  | error e => rw [h1] at h; cases h
  | ok d =>
    rw [h1] at h; simp only [Except.bind] at h
    cases h2 : F.abs (st + d) with
    | error e => rw [h2] at h; cases h
    | ok t0 =>
      rw [h2] at h; simp only [] at h
      have hd : d = i * si := by
        unfold Fam.rel at h1; split at h1 <;> first | (injection h1 with h1; exact h1.symm) | cases h1
      have ht : t0 = st + d := by
        unfold Fam.abs at h2; split at h2 <;> first | (injection h2 with h2; exact h2.symm) | cases h2
      obtain ⟨hl, hk⟩ := genLoop_spec F si n.toNat t0 L h
      refine ⟨hl, fun k hkn => ?_⟩
      rw [hk k hkn, ht, hd]

theorem gen_regular_err (F : Fam) (si st i n : Int) (e : PyErr)
    (h : Gen.Regular.generate_regular_timestamps F si st i n = .error e) : e = .OverflowError := by
  rw [gen_regular_eq_model] at h
  cases h1 : F.rel (i * si) with
  | error e1 =>
    rw [h1] at h; simp only [Except.bind] at h; injection h with h; subst h
    unfold Fam.rel at h1; split at h1 <;> first | (cases h1; done) | (cases h1; rfl)
  | ok d =>
    rw [h1] at h; simp only [Except.bind] at h
    cases h2 : F.abs (st + d) with
    | error e2 =>
      rw [h2] at h; simp only [] at h; injection h with h; subst h
      unfold Fam.abs at h2; split at h2 <;> first | (cases h2; done) | (cases h2; rfl)
    | ok t0 =>
      rw [h2] at h; simp only [] at h
      exact genLoop_err F si n.toNat t0 e h

/-! ### T21: `Timing.get_timestamps` end to end, as regenerated from the sources -/

theorem gen_start_time_eq_model (F : Fam) (ts off : Option Int) : Gen.GetTimestamps.start_time F ts off = startTime F ts off := by
  unfold Gen.GetTimestamps.start_time startTime
  cases ts <;> cases off <;> rfl

/-- **`Timing.get_timestamps` as regenerated from the sources is the model's `getTimestamps`**: negative index / count refused, NONE
    refuses, REGULAR needs a timestamp and runs the generator from `start_time`, IRREGULAR checks the window and returns the slice -/
theorem gen_get_timestamps_eq_model (F : Fam) (mode : Mode) (ts off iv : Option Int) (stamps : List Int) (i n : Int)
    (h : mode = .regular → ts.isSome = true → iv.isSome = true) :
    Gen.GetTimestamps.get_timestamps F mode ts off iv stamps i n = getTimestamps F mode ts off iv stamps i n := by
  unfold Gen.GetTimestamps.get_timestamps getTimestamps
  by_cases hi : i < 0
  · simp [hi]
  · by_cases hn : n < 0
    · simp [hi, hn]
    · simp only [hi, hn, if_false]
      cases mode with
      | irregular =>
        simp only [Gen.GetTimestamps.irregular_get_timestamps, irregularTimestamps, hi, hn, if_false]
        by_cases hw : i + n > (stamps.length : Int)
        · simp [hw]
        · have e : (i + n).toNat - i.toNat = n.toNat := by omega
          simp [hw, e]
      | regular =>
        simp only [Gen.GetTimestamps.regular_get_timestamps]
        cases ts with
        | none => simp
        | some t =>
          cases iv with
          | none => exact absurd (h rfl rfl) (by simp)
          | some dt =>
            simp only [Option.isSome_some, if_true, regularTimestamps, hi, hn, if_false, gen_start_time_eq_model]
            cases hs : startTime F (some t) off with
            | error e => rfl
            | ok st =>
              simp only [Except.bind]
              rw [gen_regular_eq_model]
              rfl
      | none => rfl
      | unknown => rfl

end Props.C08
