/-
  C20 (continued) — the tie by proof for what a Timing accepts: the validators regenerated from the source
  (`Gen/TimingArgs.lean`, translator tier T9: `validate_unsupported_arg`, the three `validate_init_args`, the strategy table)
  against the hand model's constructor `Model.Timing.ctor`.  Kept in its own file because it needs C08's
  `gen_monotonic_eq_model` (and C08 imports C20).
-/
import NiVerif.Props.C08
import NiVerif.Gen.TimingArgs

namespace Props.C20
open Model.Timing

/-- `validate_unsupported_arg`: the argument must be None -/
theorem gen_unsupported_eq_model (a : Arg) : Gen.TimingArgs.validate_unsupported_arg a = unsupported a := by
  unfold Gen.TimingArgs.validate_unsupported_arg unsupported
  cases h : a.isNone <;> simp

/-- the mode a strategy class validates (the generated strategy table read as a function); every other mode is unknown -/
def validatorOf : Mode → Option (Arg → Arg → Arg → Arg → Except PyErr Unit)
  | .none => some Gen.TimingArgs.none_validate_init_args
  | .regular => some Gen.TimingArgs.regular_validate_init_args
  | .irregular => some Gen.TimingArgs.irregular_validate_init_args
  | .unknown => none

/-- the table in the source names exactly these three strategies for exactly the three modes -/
theorem gen_strategy_table :
    Gen.TimingArgs.strategy_for_mode =
      [("SampleIntervalMode.NONE", "NoneSampleIntervalStrategy"), ("SampleIntervalMode.REGULAR", "RegularSampleIntervalStrategy"),
       ("SampleIntervalMode.IRREGULAR", "IrregularSampleIntervalStrategy")] := rfl

/-- **`Timing.__init__` of the model is the source's validation**: for every mode and every four arguments the model's constructor
    accepts exactly when the generated `validate_init_args` of that mode's strategy returns, fails with the same error class
    otherwise, and stores the members as given (the timestamp sequence as a list of its elements) -/
theorem gen_ctor_eq_model (mode : Mode) (a b c d : Arg) :
    ctor mode a b c d =
      match validatorOf mode with
      | none => .error .ValueError
      | some v => (v a b c d).map fun _ =>
          ⟨mode, a, b, c, if mode = .irregular then some d.elems else none⟩ := by
  cases mode
  · -- NONE
    simp only [ctor, validatorOf, Gen.TimingArgs.none_validate_init_args, gen_unsupported_eq_model]
    by_cases h1 : (a.isDatetime = true ∨ a.isNone = true) <;> by_cases h2 : (b.isTimedelta = true ∨ b.isNone = true) <;>
      simp only [h1, h2, not_true_eq_false, not_false_eq_true, if_true, if_false, Except.map] <;>
      (unfold unsupported; cases c.isNone <;> cases d.isNone <;> simp [Except.bind])
  · -- REGULAR
    simp only [ctor, validatorOf, Gen.TimingArgs.regular_validate_init_args, gen_unsupported_eq_model]
    by_cases h1 : (a.isDatetime = true ∨ a.isNone = true) <;> by_cases h2 : (b.isTimedelta = true ∨ b.isNone = true) <;>
      by_cases h3 : c.isTimedelta = true <;>
      simp only [h1, h2, h3, not_true_eq_false, not_false_eq_true, if_true, if_false, Except.map] <;>
      (unfold unsupported; cases d.isNone <;> simp [Except.bind])
  · -- IRREGULAR
    simp only [ctor, validatorOf, Gen.TimingArgs.irregular_validate_init_args, gen_unsupported_eq_model,
      Props.C08.gen_monotonic_eq_model]
    unfold unsupported
    cases a.isNone <;> cases b.isNone <;> cases c.isNone <;> simp only [Bool.false_eq_true, if_false, if_true, Except.bind, Except.map]
    cases d <;> simp [Arg.isSeq, Arg.elems, Arg.elemVals, Except.map]
    rename_i elems
    by_cases h1 : (elems.all Elem.isTs) = true <;> by_cases h2 : areMonotonic (elems.map Elem.val) = true <;>
      simp_all [List.all_eq_true] <;>
      (split <;> simp_all)
  · -- unknown mode
    simp [ctor, validatorOf]

/-- hence acceptance by the source's validators is the property's table (`ctor_accepts_iff_allowed`, C20) -/
theorem gen_validators_accept_iff (mode : Mode) (a b c d : Arg) (v : Arg → Arg → Arg → Arg → Except PyErr Unit)
    (hv : validatorOf mode = some v) :
    (∃ u, v a b c d = .ok u) ↔ ∃ t, ctor mode a b c d = .ok t := by
  rw [gen_ctor_eq_model, hv]
  simp only []
  cases h : v a b c d <;> simp [Except.map]

/-- the `has_*` properties and the member accessors regenerated from the source are the model's: a flag is true exactly for a member
    that was given, reading an absent member raises RuntimeError, a present one is returned as given -/
theorem gen_accessors_eq_model (t : T) :
    Gen.TimingArgs.has_timestamp t = t.hasTimestamp ∧ Gen.TimingArgs.has_start_time t = t.hasStartTime ∧
    Gen.TimingArgs.has_time_offset t = t.hasOffset ∧ Gen.TimingArgs.has_sample_interval t = t.hasInterval ∧
    Gen.TimingArgs.member_timestamp t = member t.timestamp ∧ Gen.TimingArgs.member_time_offset t = member t.offset ∧
    Gen.TimingArgs.member_sample_interval t = member t.interval := by
  unfold Gen.TimingArgs.has_start_time Gen.TimingArgs.has_timestamp Gen.TimingArgs.has_time_offset Gen.TimingArgs.has_sample_interval
    Gen.TimingArgs.member_timestamp Gen.TimingArgs.member_time_offset Gen.TimingArgs.member_sample_interval
    T.hasStartTime T.hasTimestamp T.hasOffset T.hasInterval member
  refine ⟨?_, ?_, ?_, ?_, ?_, ?_, ?_⟩ <;> first | rfl | (cases h : Arg.isNone _ <;> simp [h])

/-- **the named constructors of the source are the model's**: each hands the general constructor its own mode, the given members
    and nothing else (tier T9c) -/
theorem gen_named_ctors_eq_model (ts off si st : Arg) :
    (let g := Gen.TimingArgs.create_with_no_interval ts off; ctor g.1 g.2.1 g.2.2.1 g.2.2.2.1 g.2.2.2.2) = createNoInterval ts off
    ∧ (let g := Gen.TimingArgs.create_with_regular_interval si ts off; ctor g.1 g.2.1 g.2.2.1 g.2.2.2.1 g.2.2.2.2) = createRegular si ts off
    ∧ (let g := Gen.TimingArgs.create_with_irregular_interval st; ctor g.1 g.2.1 g.2.2.1 g.2.2.2.1 g.2.2.2.2) = createIrregular st :=
  ⟨rfl, rfl, rfl⟩

/-- `Timing.__eq__` compares the mode and every member, and nothing else: the model's structural equality (`eq_iff_members`) -/
theorem gen_eq_compares_all_members :
    Gen.TimingArgs.eq_members.length = 5 ∧
    (∀ m, m ∈ ["_sample_interval_mode", "_timestamp", "_time_offset", "_sample_interval", "_timestamps"] ↔ m ∈ Gen.TimingArgs.eq_members) := by
  refine ⟨by decide, ?_⟩
  intro m
  simp only [Gen.TimingArgs.eq_members, List.mem_cons, List.mem_nil_iff, or_false]
  constructor <;> intro h <;> rcases h with h | h | h | h | h <;> simp [h]

/-- `Timing.__reduce__` hands the constructor exactly its five parameters, in order: a pickle round trip is `ctor mode members` (C13) -/
theorem gen_reduce_is_ctor_args :
    Gen.TimingArgs.reduce_args = ["_sample_interval_mode", "_timestamp", "_time_offset", "_sample_interval", "_timestamps"] := rfl

end Props.C20
