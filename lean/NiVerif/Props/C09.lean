/-
  C09 — Irregular timing always carries one monotonic timestamp per sample.
-/
import NiVerif.Model.Wfm
import NiVerif.Proofs.WfmLemmas
import NiVerif.Props.C01

namespace Props.C09
open Model.Wfm Proofs.Wfm Props.C01

/-- a `Timing` value is well formed: irregular timestamps are monotonic (C08/C20: the constructor enforces it) -/
def TimingWF (t : WTiming) : Prop := t.mode = .irregular → Model.Timing.areMonotonic t.stamps = true

/-- the C09 invariant -/
def Inv9 (w : W) : Prop :=
  w.hasTiming = true → w.timing.mode = .irregular →
    w.timing.stamps.length = w.count ∧ Model.Timing.areMonotonic w.timing.stamps = true

theorem checkTimingCount_ok (kind : Kind) (t : WTiming) (n : Nat) (h : checkTimingCount kind t n = .ok ()) :
    kind ≠ .spectrum → t.mode = .irregular → t.stamps.length = n := by
  unfold checkTimingCount at h
  split at h
  · cases h
  · rename_i hc
    intro h1 h2
    by_cases he : t.stamps.length = n
    · exact he
    · exact absurd ⟨h1, h2, he⟩ hc

theorem hasTiming_iff (w : W) : w.hasTiming = true ↔ w.kind ≠ .spectrum := by
  unfold W.hasTiming; cases w.kind <;> simp

theorem ctorNew_inv9 (kind : Kind) (dtype : Nat) (dok : Bool) (count ncols start cap : Option Int) (fill : Int)
    (props : List (String × String)) (timing : Option WTiming) (scale : Int) (w : W)
    (ht : ∀ t, timing = some t → TimingWF t)
    (h : ctorNew kind dtype dok count ncols start cap fill props timing scale = .ok w) : Inv9 w := by
  unfold ctorNew at h
  unwind h
  all_goals
    injection h with h; subst h
    have hc := checkTimingCount_ok _ _ _ (by assumption)
    intro h1 h2
    simp only at h1 h2 ⊢
    refine ⟨hc ((hasTiming_iff _).1 h1) h2, ?_⟩
    cases timing with
    | none => simp [WTiming.empty] at h2
    | some t => exact ht t rfl h2

theorem ctorArr_inv9 (kind : Kind) (a : Arr) (dreq : Option Nat) (dok : Bool) (start count ncols cap : Option Int)
    (props : List (String × String)) (timing : Option WTiming) (scale : Int) (w : W)
    (ht : ∀ t, timing = some t → TimingWF t)
    (h : ctorArr kind a dreq dok start count ncols cap props timing scale = .ok w) : Inv9 w := by
  unfold ctorArr at h
  unwind h
  injection h with h; subst h
  have hc := checkTimingCount_ok _ _ _ (by assumption)
  intro h1 h2
  simp only at h1 h2 ⊢
  refine ⟨hc ((hasTiming_iff _).1 h1) h2, ?_⟩
  cases timing with
  | none => simp [WTiming.empty] at h2
  | some t => exact ht t rfl h2

theorem setTiming_inv9 (w : W) (t : WTiming) (w' : W) (ht : TimingWF t) (h : setTiming w t = .ok w') : Inv9 w' := by
  unfold setTiming at h
  split at h
  · cases h
  · rename_i hc
    injection h with h; subst h
    intro _ h2
    simp only at h2 ⊢
    refine ⟨?_, ht h2⟩
    by_cases he : t.stamps.length = w.count
    · exact he
    · exact absurd ⟨h2, he⟩ hc

theorem setCount_inv9 (w : W) (v : Option Int) (w' : W) (hi : Inv9 w) (h : setCount w v = .ok w') : Inv9 w' := by
  unfold setCount at h
  unwind h
  injection h with h; subst h
  rename_i hc
  intro h1 h2
  simp only [W.hasTiming] at h1 h2 ⊢
  refine ⟨?_, (hi h1 h2).2⟩
  by_cases he : (v.getD 0).toNat = w.timing.stamps.length
  · exact he.symm
  · exact absurd ⟨h1, h2, he⟩ hc

theorem setCapacity_inv9 (w : W) (v : Option Int) (w' : W) (hi : Inv9 w) (h : setCapacity w v = .ok w') : Inv9 w' := by
  unfold setCapacity at h
  unwind h
  all_goals (injection h with h; subst h; exact hi)

theorem increaseCapacity_inv9 (w : W) (n : Nat) (w' : W) (hi : Inv9 w) (h : increaseCapacity w n = .ok w') :
    Inv9 w' ∧ w'.timing = w.timing ∧ w'.count = w.count ∧ w'.kind = w.kind := by
  unfold increaseCapacity at h
  split at h
  · refine ⟨setCapacity_inv9 w _ w' hi h, ?_⟩
    unfold setCapacity at h
    unwind h
    all_goals (injection h with h; subst h; exact ⟨rfl, rfl, rfl⟩)
  · injection h with h; subst h; exact ⟨hi, rfl, rfl, rfl⟩

theorem writeView_inv9 (w : W) (i : Int) (row : Row) (w' : W) (hi : Inv9 w) (h : writeView w i row = .ok w') : Inv9 w' := by
  obtain ⟨h1, h2, h3, _⟩ := writeView_frame w i row w' h
  intro a b
  simp only [W.hasTiming] at a ⊢
  rw [h1] at b ⊢; rw [h2]; rw [h3] at a
  exact hi (by simp only [W.hasTiming]; exact a) b

/-- `_append_timestamps`: the new timing has one more timestamp per appended sample and stays monotonic -/
theorem appendTimestamps_spec (t : WTiming) (ts : Option (List Int)) (ok : Bool) (nt : WTiming) (n : Nat)
    (hlen : ∀ l, ts = some l → l.length = n) (hm : TimingWF t) (h : appendTimestamps t ts ok = .ok nt) :
    nt.mode = t.mode ∧ (t.mode = .irregular → nt.stamps.length = t.stamps.length + n ∧ TimingWF nt)
    ∧ (t.mode ≠ .irregular → nt = t) := by
  unfold appendTimestamps at h
  cases hmode : t.mode <;> rw [hmode] at h <;> simp only at h
  · split at h
    · cases h
    · injection h with h; subst h
      exact ⟨hmode, fun hm' => (by cases hm'), fun _ => rfl⟩
  · split at h
    · cases h
    · injection h with h; subst h
      exact ⟨hmode, fun hm' => (by cases hm'), fun _ => rfl⟩
  · cases ts with
    | none => simp at h
    | some l =>
      simp only at h
      have hl := hlen l rfl
      split at h
      · cases h
      · split at h
        · injection h with h; subst h
          rename_i hnil
          subst hnil
          exact ⟨hmode, fun _ => ⟨by simp at hl; omega, hm⟩, fun hne => absurd rfl hne⟩
        · split at h
          · injection h with h; subst h
            rename_i hmono
            exact ⟨rfl, fun _ => ⟨by simp [hl], fun _ => hmono⟩, fun hne => absurd rfl hne⟩
          · cases h

theorem checkStampCount_ok (ts : Option (List Int)) (n : Nat) (h : checkStampCount ts n = .ok ()) :
    ∀ l, ts = some l → l.length = n := by
  intro l hl; subst hl
  unfold checkStampCount at h
  simp only at h
  split at h
  · cases h
  · rename_i hc; simpa using hc

theorem appendArray_inv9 (w : W) (a : Arr) (ts : Option (List Int)) (tok : Bool) (w' : W) (hi : Inv9 w)
    (h : appendArray w a ts tok = .ok w') : Inv9 w' := by
  unfold appendArray at h
  unwind h
  injection h with h; subst h
  rename_i _ _ _ _ _ _ _ hsc _ nt hnt _ w1 hw1
  have hlen := checkStampCount_ok ts a.rows.length (by assumption)
  obtain ⟨_, i2, i3, i4⟩ := increaseCapacity_inv9 w _ w1 hi hw1
  intro h1 h2
  simp only [W.hasTiming] at h1 h2 ⊢
  rw [i4] at h1
  have hT : w.hasTiming = true := by simp only [W.hasTiming]; exact h1
  rw [if_pos hT] at hnt
  have hwf : TimingWF w.timing := fun hm => (hi hT hm).2
  obtain ⟨s1, s2, s3⟩ := appendTimestamps_spec w.timing ts tok nt a.rows.length hlen hwf hnt
  have hm : w.timing.mode = .irregular := by rw [← s1]; exact h2
  obtain ⟨t1, t2⟩ := s2 hm
  refine ⟨?_, t2 h2⟩
  rw [t1, (hi hT hm).1, i3]

/-- `_append_timing` folded over the sources -/
theorem foldTiming_spec : ∀ (os : List W) (t : WTiming) (r : WTiming × List Warning),
    TimingWF t → (∀ o ∈ os, Inv9 o ∧ o.hasTiming = true) → foldTiming t os = .ok r →
    r.1.mode = t.mode ∧ TimingWF r.1
    ∧ (t.mode = .irregular → (∀ o ∈ os, o.timing.mode = .irregular)
        ∧ r.1.stamps.length = t.stamps.length + (os.map (·.count)).sum)
    ∧ (t.mode ≠ .irregular → r.1 = t ∧ ∀ o ∈ os, o.timing.mode ≠ .irregular) := by
  intro os
  induction os with
  | nil =>
    intro t r ht _ h
    simp only [foldTiming] at h
    injection h with h; subst h
    exact ⟨rfl, ht, fun _ => ⟨by simp, by simp⟩, fun _ => ⟨rfl, by simp⟩⟩
  | cons o os ih =>
    intro t r ht hos h
    simp only [foldTiming, bind, Except.bind] at h
    cases h1 : appendTiming t o.timing with
    | error e => rw [h1] at h; cases h
    | ok p =>
      rw [h1] at h
      simp only at h
      cases h2 : foldTiming p.1 os with
      | error e => rw [h2] at h; cases h
      | ok q =>
        rw [h2] at h
        simp only [pure, Except.pure] at h
        injection h with h; subst h
        obtain ⟨ho9, hoT⟩ := hos o (by simp)
        -- one step
        have step : p.1.mode = t.mode ∧ TimingWF p.1
            ∧ (t.mode = .irregular → o.timing.mode = .irregular ∧ p.1.stamps.length = t.stamps.length + o.count)
            ∧ (t.mode ≠ .irregular → p.1 = t ∧ o.timing.mode ≠ .irregular) := by
          unfold appendTiming at h1
          cases hmode : t.mode <;> rw [hmode] at h1 <;> simp only at h1
          · split at h1
            · cases h1
            · injection h1 with h1; subst h1
              rename_i hne
              exact ⟨hmode, ht, fun hm' => (by cases hm'), fun _ => ⟨rfl, hne⟩⟩
          · split at h1
            · cases h1
            · injection h1 with h1; subst h1
              rename_i hne
              exact ⟨hmode, ht, fun hm' => (by cases hm'), fun _ => ⟨rfl, hne⟩⟩
          · split at h1
            · cases h1
            · rename_i hoi
              have hoi' : o.timing.mode = .irregular := by simpa using hoi
              have ho := ho9 hoT hoi'
              split at h1
              · injection h1 with h1; subst h1
                rename_i hnil
                refine ⟨hoi', fun _ => ho.2, fun _ => ⟨hoi', by simp only; rw [hnil, ho.1]; simp⟩,
                  fun hne => absurd rfl hne⟩
              · split at h1
                · injection h1 with h1; subst h1
                  rename_i honil
                  refine ⟨hmode, ht, fun _ => ⟨hoi', ?_⟩, fun hne => absurd rfl hne⟩
                  simp only; rw [← ho.1, honil]; simp
                · split at h1
                  · injection h1 with h1; subst h1
                    rename_i hmono
                    refine ⟨rfl, fun _ => hmono, fun _ => ⟨hoi', by simp [ho.1]⟩, fun hne => absurd rfl hne⟩
                  · cases h1
        obtain ⟨s1, s2, s3, s4⟩ := step
        obtain ⟨k1, k2, k3, k4⟩ := ih p.1 q s2 (fun x hx => hos x (by simp [hx])) h2
        refine ⟨by rw [k1, s1], k2, ?_, ?_⟩
        · intro hm
          obtain ⟨a1, a2⟩ := s3 hm
          obtain ⟨b1, b2⟩ := k3 (by rw [s1]; exact hm)
          refine ⟨?_, ?_⟩
          · intro x hx
            rcases List.mem_cons.1 hx with rfl | hx'
            · exact a1
            · exact b1 x hx'
          · rw [b2, a2]; simp only [List.map_cons, List.sum_cons]; omega
        · intro hne
          obtain ⟨a1, a2⟩ := s4 hne
          obtain ⟨b1, b2⟩ := k4 (by rw [s1]; exact hne)
          refine ⟨by rw [b1, a1], ?_⟩
          intro x hx
          rcases List.mem_cons.1 hx with rfl | hx'
          · exact a2
          · exact b2 x hx'

theorem copyAll_timing : ∀ (os : List W) (w : W), (copyAll w os).timing = w.timing
    ∧ (copyAll w os).count = w.count + (os.map (·.count)).sum ∧ (copyAll w os).kind = w.kind := by
  intro os
  induction os with
  | nil => intro w; simp [copyAll]
  | cons o os ih =>
    intro w
    unfold copyAll
    obtain ⟨a, b, c⟩ := ih (mergeInto { w with buf := writeAt w.buf (w.start + w.count) o.view, count := w.count + o.count } o.props)
    refine ⟨a, ?_, c⟩
    rw [b]; simp only [List.map_cons, List.sum_cons]; show w.count + o.count + _ = _; omega

theorem appendWaveforms_inv9 (w : W) (os : List W) (w' : W) (ws : List Warning) (hi : Inv9 w)
    (hos : ∀ o ∈ os, Inv9 o ∧ o.kind = w.kind) (h : appendWaveforms w os = .ok (w', ws)) : Inv9 w' := by
  unfold appendWaveforms at h
  unwind h
  all_goals
    injection h with h
    injection h with h1 h2
    subst h1
    rename_i _ _ _ _ nt hnt _ w1 hw1 _
    obtain ⟨_, i2, i3, i4⟩ := increaseCapacity_inv9 w _ w1 hi hw1
    obtain ⟨c1, c2, c3⟩ := copyAll_timing os { w1 with timing := nt.1 }
    intro h1 h2
    simp only [W.hasTiming] at h1 h2 ⊢
    rw [c3] at h1; simp only at h1; rw [i4] at h1
    rw [c1] at h2 ⊢; simp only at h2 ⊢
    have hT : w.hasTiming = true := by simp only [W.hasTiming]; exact h1
    rw [if_pos hT] at hnt
    by_cases hm : w.timing.mode = .irregular
    · have hwf : TimingWF w.timing := fun hm => (hi hT hm).2
      obtain ⟨f1, f2, f3, _⟩ := foldTiming_spec os w.timing nt hwf
        (fun o ho => ⟨(hos o ho).1, by simp only [W.hasTiming]; rw [(hos o ho).2]; exact h1⟩) hnt
      obtain ⟨_, g2⟩ := f3 hm
      refine ⟨?_, f2 h2⟩
      rw [g2, (hi hT hm).1, c2]; simp only; rw [i3]
    · have hwf : TimingWF w.timing := fun hm' => absurd hm' hm
      obtain ⟨f1, _, _, _⟩ := foldTiming_spec os w.timing nt hwf
        (fun o ho => ⟨(hos o ho).1, by simp only [W.hasTiming]; rw [(hos o ho).2]; exact h1⟩) hnt
      rw [f1] at h2; exact absurd h2 hm

theorem loadData_inv9 (w : W) (a : Arr) (copy : Bool) (start count : Option Int) (w' : W) (hi : Inv9 w)
    (h : loadData w a copy start count = .ok w') : Inv9 w' := by
  unfold loadData at h
  unwind h
  · rename_i _ _ _ _ g _ hc _ _ _ w1 hw1
    injection h with h; subst h
    have hw : w1.timing = w.timing ∧ w1.kind = w.kind := by
      split at hw1
      · unfold setCapacity at hw1; unwind hw1
        all_goals (injection hw1 with hw1; subst hw1; exact ⟨rfl, rfl⟩)
      · injection hw1 with hw1; subst hw1; exact ⟨rfl, rfl⟩
    intro h1 h2
    simp only [W.hasTiming] at h1 h2 ⊢
    rw [hw.2] at h1; rw [hw.1] at h2 ⊢
    have hT : w.hasTiming = true := by simp only [W.hasTiming]; exact h1
    refine ⟨?_, (hi hT h2).2⟩
    by_cases he : g.2 = w.timing.stamps.length
    · exact he.symm
    · exact absurd ⟨hT, h2, he⟩ hc
  · rename_i _ _ _ _ g _ hc _ _
    injection h with h; subst h
    intro h1 h2
    simp only [W.hasTiming] at h1 h2 ⊢
    have hT : w.hasTiming = true := by simp only [W.hasTiming]; exact h1
    refine ⟨?_, (hi hT h2).2⟩
    by_cases he : g.2 = w.timing.stamps.length
    · exact he.symm
    · exact absurd ⟨hT, h2, he⟩ hc

/-- one call of a history: the invariant is kept by every public operation (a rejected call changes nothing) -/
def ArgsOk9 (w : W) : Op → Prop
  | .appendWaveforms os => ∀ o ∈ os, Inv9 o ∧ o.kind = w.kind
  | .setTiming t => TimingWF t
  | _ => True

theorem inv9_step (w : W) (op : Op) (hi : Inv9 w) (ha : ArgsOk9 w op) : Inv9 (step w op) ∧ (step w op).kind = w.kind := by
  cases op with
  | appendArray a ts ok =>
    simp only [step]
    cases h : appendArray w a ts ok with
    | error e => exact ⟨hi, rfl⟩
    | ok w' =>
      refine ⟨appendArray_inv9 w a ts ok w' hi h, ?_⟩
      unfold appendArray at h; unwind h; injection h with h; subst h
      rename_i _ _ _ _ _ _ _ _ _ _ _ _ w1 hw1
      exact (increaseCapacity_inv9 w _ w1 hi hw1).2.2.2
  | appendWaveforms os =>
    simp only [step]
    cases h : appendWaveforms w os with
    | error e => exact ⟨hi, rfl⟩
    | ok p =>
      obtain ⟨w', ws⟩ := p
      refine ⟨appendWaveforms_inv9 w os w' ws hi ha h, ?_⟩
      unfold appendWaveforms at h; unwind h
      all_goals
        injection h with h; injection h with h1 h2; subst h1
        rename_i _ _ _ _ nt _ _ w1 hw1 _
        rw [(copyAll_timing os _).2.2]
        exact (increaseCapacity_inv9 w _ w1 hi hw1).2.2.2
  | load a c s n =>
    simp only [step]
    cases h : loadData w a c s n with
    | error e => exact ⟨hi, rfl⟩
    | ok w' =>
      refine ⟨loadData_inv9 w a c s n w' hi h, ?_⟩
      unfold loadData at h; unwind h
      · rename_i _ _ _ _ g _ _ _ _ _ w1 hw1
        injection h with h; subst h
        split at hw1
        · unfold setCapacity at hw1; unwind hw1
          all_goals (injection hw1 with hw1; subst hw1; rfl)
        · injection hw1 with hw1; subst hw1; rfl
      · injection h with h; subst h; rfl
  | setCount v =>
    simp only [step]
    cases h : setCount w v with
    | error e => exact ⟨hi, rfl⟩
    | ok w' =>
      refine ⟨setCount_inv9 w v w' hi h, ?_⟩
      unfold setCount at h; unwind h; injection h with h; subst h; rfl
  | setCapacity v =>
    simp only [step]
    cases h : setCapacity w v with
    | error e => exact ⟨hi, rfl⟩
    | ok w' =>
      refine ⟨setCapacity_inv9 w v w' hi h, ?_⟩
      unfold setCapacity at h; unwind h
      all_goals (injection h with h; subst h; rfl)
  | setTiming t =>
    simp only [step]
    cases h : setTiming w t with
    | error e => exact ⟨hi, rfl⟩
    | ok w' =>
      refine ⟨setTiming_inv9 w t w' ha h, ?_⟩
      unfold setTiming at h; split at h
      · cases h
      · injection h with h; subst h; rfl
  | write i row =>
    simp only [step]
    cases h : writeView w i row with
    | error e => exact ⟨hi, rfl⟩
    | ok w' =>
      exact ⟨writeView_inv9 w i row w' hi h, (writeView_frame w i row w' h).2.2.1⟩

def HistOk9 : W → List Op → Prop
  | _, [] => True
  | w, op :: ops => ArgsOk9 w op ∧ HistOk9 (step w op) ops

/-- after any history of timing assignment, appends, load_data, sample_count assignment …: irregular timing
    has exactly one monotonic timestamp per sample -/
theorem inv9_reachable : ∀ (ops : List Op) (w : W), Inv9 w → HistOk9 w ops → Inv9 (ops.foldl step w) := by
  intro ops
  induction ops with
  | nil => intro w hi _; exact hi
  | cons op ops ih => intro w hi hh; exact ih (step w op) (inv9_step w op hi hh.1).1 hh.2

/-- consequently timing.get_timestamps(0, sample_count) succeeds and yields one timestamp per sample -/
theorem get_all_timestamps_ok (w : W) (hi : Inv9 w) (hT : w.hasTiming = true) (hm : w.timing.mode = .irregular) :
    Model.Timing.irregularTimestamps w.timing.stamps 0 w.count = .ok w.timing.stamps := by
  obtain ⟨hl, _⟩ := hi hT hm
  unfold Model.Timing.irregularTimestamps
  rw [if_neg (by omega), if_neg (by omega), if_neg (by omega)]
  simp only [Int.toNat_zero, List.drop_zero, Int.toNat_natCast]
  rw [List.take_of_length_le (by omega)]

/-- pickling reproduces a waveform that satisfies the invariant -/
theorem pickle_inv9 (w w' : W) (hi : Inv9 w) (h : pickle w = .ok w') : Inv9 w' := by
  unfold pickle ctorArr at h
  unwind h
  injection h with h; subst h
  have hcnt := checkTimingCount_ok _ _ _ (by assumption)
  intro h1 h2
  simp only [W.hasTiming, Option.getD_some] at h1 h2 hcnt ⊢
  have hT : w.hasTiming = true := by simp only [W.hasTiming]; exact h1
  exact ⟨hcnt ((hasTiming_iff w).1 hT) h2, (hi hT h2).2⟩

end Props.C09
