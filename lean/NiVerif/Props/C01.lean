import NiVerif.Model.Wfm
namespace Props.C01
open Model.Wfm
theorem stub : WTiming.empty.mode = .none := rfl
end Props.C01
