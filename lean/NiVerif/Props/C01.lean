/-
  C01 — Waveform sample buffers match a plain list model after every operation history.
-/
import NiVerif.Model.Wfm
import NiVerif.Proofs.WfmLemmas
import NiVerif.Proofs.Bits
import NiVerif.Gen.Geometry

namespace Props.C01
open Model.Wfm Proofs.Wfm

def RowsOk (n : Nat) (rows : List Row) : Prop := ∀ r ∈ rows, r.length = n

/-- 0 ≤ start_index, start_index + sample_count ≤ capacity, every buffer row has signal_count columns -/
def Inv (w : W) : Prop :=
  w.start + w.count ≤ w.capacity ∧ RowsOk w.ncols w.buf ∧ (w.kind ≠ .digital → w.ncols = 1)

/-- a well-formed ndarray argument: rectangular, a 1-D array has one column -/
def ArrOk (a : Arr) : Prop := RowsOk a.ncols a.rows ∧ (a.ndim = 1 → a.ncols = 1)

/-- the data view has exactly sample_count samples and signal_count columns -/
theorem view_shape (w : W) (h : Inv w) : w.view.length = w.count ∧ RowsOk w.ncols w.view := by
  obtain ⟨h1, h2, _⟩ := h
  unfold W.view W.capacity at *
  refine ⟨by simp only [List.length_take, List.length_drop]; omega, ?_⟩
  intro r hr
  exact h2 r (List.mem_of_mem_drop (List.mem_of_mem_take hr))

/-! ### construction -/

theorem ctorNew_spec (kind : Kind) (dtype : Nat) (dok : Bool) (count ncols start cap : Option Int) (fill : Int)
    (props : List (String × String)) (timing : Option WTiming) (scale : Int) (w : W)
    (h : ctorNew kind dtype dok count ncols start cap fill props timing scale = .ok w) :
    Inv w ∧ w.view = List.replicate w.count (zeroRow w.ncols fill)
    ∧ (w.count : Int) = count.getD 0 ∧ (w.start : Int) = start.getD 0 := by
  unfold ctorNew at h
  unwind h
  all_goals
    injection h with h; subst h
    have hg := newGeom_ok _ _ _ _ (by assumption)
    refine ⟨⟨?_, ?_, ?_⟩, ?_, hg.2.1, hg.1⟩
    · simp only [W.capacity, List.length_replicate]; omega
    · intro r hr; simp only [List.mem_replicate] at hr; rw [hr.2]; simp [zeroRow]
    · intro hk; first | (exfalso; exact hk (by assumption)) | rfl
    · simp only [W.view]
      exact view_replicate _ _ _ _ (by omega)

theorem ctorArr_spec (kind : Kind) (a : Arr) (dreq : Option Nat) (dok : Bool) (start count ncols cap : Option Int)
    (props : List (String × String)) (timing : Option WTiming) (scale : Int) (w : W) (ha : ArrOk a)
    (h : ctorArr kind a dreq dok start count ncols cap props timing scale = .ok w) :
    Inv w ∧ w.view = (a.rows.drop w.start).take w.count
      ∧ (w.start : Int) = start.getD 0 ∧ (w.count : Int) = count.getD ((a.rows.length : Int) - start.getD 0)
      ∧ w.start + w.count ≤ a.rows.length
      ∧ w.buf = a.rows ∧ w.kind = kind ∧ w.dtype = a.dtype ∧ w.ncols = a.ncols
      ∧ w.timing = timing.getD WTiming.empty ∧ w.props = props ∧ w.scale = scale := by
  unfold ctorArr at h
  unwind h
  injection h with h; subst h
  have hg := window_ok _ _ _ _ (by assumption)
  have hc : checkArr kind a dreq dok = .ok () := by assumption
  refine ⟨⟨?_, ha.1, ?_⟩, rfl, hg.1, hg.2.1, ?_, rfl, rfl, rfl, rfl, rfl, rfl, rfl⟩
  · simp only [W.capacity]; omega
  · intro hk
    simp only at hk ⊢
    unfold checkArr at hc
    unwind hc
    have : a.ndim = 1 := by
      by_cases hd : a.ndim = 1
      · exact hd
      · rename_i hnd _ _ _
        exact absurd ⟨hk, hd⟩ hnd
    exact ha.2 this
  · simp only; omega

/-! ### capacity, sample_count, timing, writes, reads -/

theorem setCapacity_spec (w : W) (v : Option Int) (w' : W) (hi : Inv w) (h : setCapacity w v = .ok w') :
    Inv w' ∧ w'.view = w.view ∧ w'.count = w.count ∧ w'.start = w.start ∧ w'.ncols = w.ncols ∧ w'.kind = w.kind
    ∧ w'.timing = w.timing ∧ w'.props = w.props ∧ w'.dtype = w.dtype ∧ w'.scale = w.scale
    ∧ (w'.capacity : Int) = v.getD 0 ∧ w'.namesCache = w.namesCache := by
  obtain ⟨h1, h2, h3⟩ := hi
  unfold setCapacity at h
  unwind h
  · injection h with h; subst h
    refine ⟨⟨h1, h2, h3⟩, rfl, rfl, rfl, rfl, rfl, rfl, rfl, rfl, rfl, ?_, rfl⟩
    omega
  · injection h with h; subst h
    have hlen : ((w.buf ++ List.replicate ((v.getD 0).toNat - w.capacity) (zeroRow w.ncols 0)).take (v.getD 0).toNat).length
        = (v.getD 0).toNat := by
      simp only [List.length_take, List.length_append, List.length_replicate, W.capacity] at *; omega
    refine ⟨⟨?_, ?_, h3⟩, ?_, rfl, rfl, rfl, rfl, rfl, rfl, rfl, rfl, ?_, rfl⟩
    · simp only [W.capacity] at *; rw [hlen]; omega
    · intro r hr
      have := List.mem_of_mem_take hr
      simp only [List.mem_append, List.mem_replicate] at this
      rcases this with h | h
      · exact h2 r h
      · rw [h.2]; simp [zeroRow]
    · simp only [W.view]
      apply List.ext_getElem?
      intro i
      simp only [List.getElem?_take, List.getElem?_drop, List.getElem?_append]
      by_cases hc : i < w.count
      · simp only [W.capacity] at *
        simp [hc, show w.start + i < (v.getD 0).toNat by omega, show w.start + i < w.buf.length by omega]
      · simp [hc]
    · simp only [W.capacity] at *; rw [hlen]; omega

theorem setCount_spec (w : W) (v : Option Int) (w' : W) (hi : Inv w) (h : setCount w v = .ok w') :
    Inv w' ∧ (w'.count ≤ w.count → w'.view = w.view.take w'.count)
    ∧ (w.count ≤ w'.count → w'.view.take w.count = w.view) ∧ w'.buf = w.buf ∧ w'.start = w.start
    ∧ (w'.count : Int) = v.getD 0 ∧ w'.ncols = w.ncols ∧ w'.kind = w.kind := by
  obtain ⟨h1, h2, h3⟩ := hi
  unfold setCount at h
  unwind h
  injection h with h; subst h
  refine ⟨⟨by simp only [W.capacity] at *; omega, h2, h3⟩, ?_, ?_, rfl, rfl, by simp only; omega, rfl, rfl⟩
  · intro hle
    simp only [W.view, List.take_take] at *
    rw [Nat.min_eq_left hle]
  · intro hle
    simp only [W.view, List.take_take] at *
    rw [Nat.min_eq_left hle]

theorem setTiming_spec (w : W) (t : WTiming) (w' : W) (hi : Inv w) (h : setTiming w t = .ok w') :
    Inv w' ∧ w'.view = w.view ∧ w'.timing = t ∧ w'.ncols = w.ncols ∧ w'.kind = w.kind := by
  unfold setTiming at h
  split at h
  · cases h
  · injection h with h; subst h; exact ⟨hi, rfl, rfl, rfl, rfl⟩

theorem writeView_spec (w : W) (i : Int) (row : Row) (w' : W) (hi : Inv w) (hr : row.length = w.ncols)
    (h : writeView w i row = .ok w') :
    Inv w' ∧ (∃ j : Nat, j < w.count ∧ (j : Int) = (if i < 0 then i + w.count else i) ∧ w'.view = w.view.set j row
      ∧ w'.count = w.count) ∧ w'.ncols = w.ncols ∧ w'.kind = w.kind := by
  obtain ⟨h1, h2, h3⟩ := hi
  unfold writeView at h
  simp only at h
  generalize hjd : (if i < 0 then i + (w.count : Int) else i) = j at h
  split at h
  · cases h
  · injection h with h; subst h
    have hj0 : 0 ≤ j ∧ j < w.count := by omega
    have hfit : w.start + j.toNat + [row].length ≤ w.buf.length := by
      simp only [W.capacity, List.length_cons, List.length_nil] at *; omega
    refine ⟨⟨?_, ?_, h3⟩, ⟨j.toNat, by omega, by omega, ?_, rfl⟩, rfl, rfl⟩
    · simp only [W.capacity, writeAt_length _ _ _ hfit] at *; exact h1
    · intro r hr'
      rcases mem_writeAt _ _ _ _ hr' with h | h
      · exact h2 r h
      · simp at h; rw [h]; exact hr
    · simp only [W.view]
      exact view_write _ _ _ _ _ (by simp only [W.capacity] at h1; exact h1) (by omega)

theorem writeView_frame (w : W) (i : Int) (row : Row) (w' : W) (h : writeView w i row = .ok w') :
    w'.timing = w.timing ∧ w'.count = w.count ∧ w'.kind = w.kind ∧ w'.props = w.props ∧ w'.start = w.start
    ∧ w'.dtype = w.dtype ∧ w'.scale = w.scale ∧ w'.ncols = w.ncols ∧ w'.namesCache = w.namesCache := by
  unfold writeView at h
  simp only at h
  generalize (if i < 0 then i + (w.count : Int) else i) = j at h
  split at h
  · cases h
  · injection h with h; subst h; exact ⟨rfl, rfl, rfl, rfl, rfl, rfl, rfl, rfl, rfl⟩

/-- get_raw_data / get_data(start, count) is the corresponding sub-list of the view, or a ValueError -/
theorem getData_spec (w : W) (start count : Option Int) :
    (∀ rows, getData w start count = .ok rows →
        ∃ s n : Nat, rows = (w.view.drop s).take n ∧ (s : Int) = start.getD 0
          ∧ (n : Int) = count.getD ((w.count : Int) - start.getD 0) ∧ s + n ≤ w.count)
    ∧ (∀ e, getData w start count = .error e → e.base = .ValueError) := by
  constructor
  · intro rows h
    unfold getData at h
    unwind h
    injection h with h; subst h
    have hg := window_ok _ _ _ _ (by assumption)
    exact ⟨_, _, rfl, hg.1, hg.2.1, by omega⟩
  · intro e h
    unfold getData at h
    simp only [bind, Except.bind, pure, Except.pure] at h
    split at h
    · injection h with h; subst h
      exact window_err _ _ _ _ (by assumption)
    · cases h

/-! ### append, load -/

theorem increaseCapacity_spec (w : W) (amount : Nat) (w1 : W) (hi : Inv w) (h : increaseCapacity w amount = .ok w1) :
    Inv w1 ∧ w1.view = w.view ∧ w1.count = w.count ∧ w1.start = w.start ∧ w1.ncols = w.ncols ∧ w1.kind = w.kind
    ∧ w1.timing = w.timing ∧ w1.props = w.props ∧ w1.dtype = w.dtype ∧ w1.scale = w.scale
    ∧ w1.start + w1.count + amount ≤ w1.capacity ∧ w1.namesCache = w.namesCache := by
  unfold increaseCapacity at h
  split at h
  · have hs := setCapacity_spec w _ w1 hi h
    obtain ⟨a1, a2, a3, a4, a5, a6, a7, a8, a9, a10, a11, a12⟩ := hs
    simp only [Option.getD_some] at a11
    exact ⟨a1, a2, a3, a4, a5, a6, a7, a8, a9, a10, by omega, a12⟩
  · injection h with h; subst h
    exact ⟨hi, rfl, rfl, rfl, rfl, rfl, rfl, rfl, rfl, rfl, by omega, rfl⟩

theorem checkInput_ok (w : W) (a : Arr) (h : checkInput w a = .ok ()) :
    a.dtype = w.dtype ∧ (w.kind ≠ .digital → a.ndim = 1) := by
  unfold checkInput at h
  unwind h
  rename_i h1 h2 _
  refine ⟨by simpa using h1, fun hk => ?_⟩
  by_cases hd : a.ndim = 1
  · exact hd
  · exact absurd ⟨hk, hd⟩ h2

/-- appended samples are concatenated, in order, after the existing ones -/
theorem appendArray_spec (w : W) (a : Arr) (ts : Option (List Int)) (tok : Bool) (w' : W) (hi : Inv w) (ha : ArrOk a)
    (h : appendArray w a ts tok = .ok w') :
    Inv w' ∧ w'.view = w.view ++ a.rows ∧ w'.count = w.count + a.rows.length ∧ w'.ncols = w.ncols
    ∧ w'.kind = w.kind ∧ w'.dtype = w.dtype := by
  unfold appendArray at h
  unwind h
  injection h with h; subst h
  have hc := checkInput_ok w a (by assumption)
  rename_i _ _ _ hsig _ _ _ _ _ nt _ _ w1 hw1
  obtain ⟨i1, i2, i3, i4, i5, i6, _, _, i9, _, i11, _⟩ := increaseCapacity_spec w _ w1 hi hw1
  obtain ⟨j1, j2, j3⟩ := i1
  have hcols : RowsOk w1.ncols a.rows := by
    rw [i5]
    by_cases hk : w.kind = .digital
    · have : a.ncols = w.ncols := by
        by_cases he : a.ncols = w.ncols
        · exact he
        · exact absurd ⟨hk, he⟩ hsig
      rw [← this]; exact ha.1
    · have h1 := ha.2 (hc.2 hk)
      rw [hi.2.2 hk, ← h1]; exact ha.1
  have hfit : w1.start + w1.count + a.rows.length ≤ w1.buf.length := by simp only [W.capacity] at i11; exact i11
  refine ⟨⟨?_, ?_, j3⟩, ?_, by simp only; omega, i5, i6, i9⟩
  · simp only [W.capacity, writeAt_length _ _ _ hfit] at *; omega
  · intro r hr
    rcases mem_writeAt _ _ _ _ hr with h | h
    · exact j2 r h
    · exact hcols r h
  · simp only [W.view] at *
    rw [view_append _ _ _ _ hfit, i2]

theorem mergeInto_frame (w : W) (o : List (String × String)) :
    (mergeInto w o).buf = w.buf ∧ (mergeInto w o).start = w.start ∧ (mergeInto w o).count = w.count
    ∧ (mergeInto w o).ncols = w.ncols ∧ (mergeInto w o).kind = w.kind ∧ (mergeInto w o).timing = w.timing
    ∧ (mergeInto w o).dtype = w.dtype ∧ (mergeInto w o).scale = w.scale := ⟨rfl, rfl, rfl, rfl, rfl, rfl, rfl, rfl⟩

/-- the copy loop of `_append_waveforms`: every source's visible samples, in source order -/
theorem copyAll_spec : ∀ (os : List W) (w : W), Inv w → (∀ o ∈ os, Inv o ∧ o.ncols = w.ncols) →
    w.start + w.count + (os.map (·.count)).sum ≤ w.capacity →
    Inv (copyAll w os) ∧ (copyAll w os).view = w.view ++ os.flatMap (·.view)
    ∧ (copyAll w os).count = w.count + (os.map (·.count)).sum ∧ (copyAll w os).ncols = w.ncols
    ∧ (copyAll w os).kind = w.kind ∧ (copyAll w os).dtype = w.dtype ∧ (copyAll w os).timing = w.timing := by
  intro os
  induction os with
  | nil => intro w hi _ _; simp [copyAll, hi]
  | cons o os ih =>
    intro w hi hos hroom
    simp only [List.map_cons, List.sum_cons] at hroom
    obtain ⟨ho, hcol⟩ := hos o (by simp)
    obtain ⟨hlen, hrows⟩ := view_shape o ho
    have hfit : w.start + w.count + o.view.length ≤ w.buf.length := by
      simp only [W.capacity] at hroom; omega
    let w1 : W := { w with buf := writeAt w.buf (w.start + w.count) o.view, count := w.count + o.count }
    have hi1 : Inv (mergeInto w1 o.props) := by
      refine ⟨?_, ?_, hi.2.2⟩
      · show w.start + (w.count + o.count) ≤ (writeAt w.buf (w.start + w.count) o.view).length
        rw [writeAt_length _ _ _ hfit]; simp only [W.capacity] at hroom; omega
      · intro r hr
        rcases mem_writeAt _ _ _ _ hr with h | h
        · exact hi.2.1 r h
        · have := hrows r h; rw [hcol] at this; exact this
    have hv1 : (mergeInto w1 o.props).view = w.view ++ o.view := by
      show ((writeAt w.buf (w.start + w.count) o.view).drop w.start).take (w.count + o.count) = _
      rw [← hlen, view_append _ _ _ _ hfit]; rfl
    have hroom1 : (mergeInto w1 o.props).start + (mergeInto w1 o.props).count + (os.map (·.count)).sum
        ≤ (mergeInto w1 o.props).capacity := by
      show w.start + (w.count + o.count) + _ ≤ (writeAt w.buf (w.start + w.count) o.view).length
      rw [writeAt_length _ _ _ hfit]; simp only [W.capacity] at hroom; omega
    have := ih (mergeInto w1 o.props) hi1 (fun x hx => by
      obtain ⟨a, b⟩ := hos x (by simp [hx]); exact ⟨a, b⟩) hroom1
    obtain ⟨k1, k2, k3, k4, k5, k6, k7⟩ := this
    unfold copyAll
    refine ⟨k1, ?_, ?_, k4, k5, k6, k7⟩
    · rw [k2, hv1]; simp [List.flatMap_cons, List.append_assoc]
    · rw [k3]; show w.count + o.count + _ = _; simp only [List.map_cons, List.sum_cons]; omega

theorem checkSources_ok (w : W) : ∀ (os : List W), checkSources w os = .ok () →
    ∀ o ∈ os, o.dtype = w.dtype ∧ (w.kind = .digital → o.ncols = w.ncols) := by
  intro os
  induction os with
  | nil => intro _ o ho; cases ho
  | cons x xs ih =>
    intro h o ho
    unfold checkSources at h
    split at h
    · cases h
    · split at h
      · cases h
      · rename_i h1 h2
        rcases List.mem_cons.1 ho with rfl | hm
        · refine ⟨by simpa using h1, fun hk => ?_⟩
          by_cases he : o.ncols = w.ncols
          · exact he
          · exact absurd ⟨hk, he⟩ h2
        · exact ih h o hm

/-- appending waveform(s): no sample lost, duplicated, reordered or invented -/
theorem appendWaveforms_spec (w : W) (os : List W) (w' : W) (ws : List Warning) (hi : Inv w)
    (hos : ∀ o ∈ os, Inv o ∧ o.kind = w.kind) (h : appendWaveforms w os = .ok (w', ws)) :
    Inv w' ∧ w'.view = w.view ++ os.flatMap (·.view) ∧ w'.count = w.count + (os.map (·.count)).sum
    ∧ w'.ncols = w.ncols ∧ w'.kind = w.kind ∧ w'.dtype = w.dtype := by
  unfold appendWaveforms at h
  unwind h
  all_goals
  injection h with h
  injection h with h1 h2
  subst h1
  have hc := checkSources_ok w os (by assumption)
  rename_i _ _ _ _ nt _ _ w1 hw1 _
  obtain ⟨i1, i2, i3, i4, i5, i6, _, _, i9, _, i11, _⟩ := increaseCapacity_spec w _ w1 hi hw1
  have hcols : ∀ o ∈ os, Inv o ∧ o.ncols = w1.ncols := by
    intro o ho
    obtain ⟨a, b⟩ := hos o ho
    refine ⟨a, ?_⟩
    rw [i5]
    by_cases hk : w.kind = .digital
    · exact (hc o ho).2 hk
    · rw [hi.2.2 hk]; exact a.2.2 (by rw [b]; exact hk)
  have := copyAll_spec os { w1 with timing := nt.1 } i1 hcols i11
  obtain ⟨k1, k2, k3, k4, k5, k6, _⟩ := this
  refine ⟨k1, ?_, ?_, ?_, ?_, ?_⟩
  · rw [k2]; show w1.view ++ _ = _; rw [i2]
  · rw [k3]; show w1.count + _ = _; rw [i3]
  · rw [k4]; exact i5
  · rw [k5]; exact i6
  · rw [k6]; exact i9

/-- loaded samples replace the old ones: exactly `array[start : start+count]` -/
theorem loadData_spec (w : W) (a : Arr) (copy : Bool) (start count : Option Int) (w' : W) (hi : Inv w) (ha : ArrOk a)
    (h : loadData w a copy start count = .ok w') :
    Inv w' ∧ ∃ s n : Nat, w'.view = (a.rows.drop s).take n ∧ w'.count = n ∧ (s : Int) = start.getD 0
      ∧ (n : Int) = count.getD ((a.rows.length : Int) - start.getD 0) ∧ s + n ≤ a.rows.length
      ∧ w'.ncols = w.ncols ∧ w'.kind = w.kind := by
  unfold loadData at h
  unwind h
  · -- copy=True
    rename_i _ _ _ _ g _ _ hsig _ _ w1 hw1
    have hc := checkInput_ok w a (by assumption)
    have hg := window_ok _ _ _ g (by assumption)
    have hcols : RowsOk w.ncols a.rows := by
      by_cases hk : w.kind = .digital
      · have : a.ncols = w.ncols := by
          by_cases he : a.ncols = w.ncols
          · exact he
          · exact absurd ⟨hk, he⟩ hsig
        rw [← this]; exact ha.1
      · have h1 := ha.2 (hc.2 hk)
        rw [hi.2.2 hk, ← h1]; exact ha.1
    injection h with h; subst h
    have hl : ((a.rows.drop g.1).take g.2).length = g.2 := by
      simp only [List.length_take, List.length_drop]; omega
    have hw : Inv w1 ∧ w1.ncols = w.ncols ∧ w1.kind = w.kind ∧ g.2 ≤ w1.capacity := by
      split at hw1
      · obtain ⟨i1, _, _, _, i5, i6, _, _, _, _, i11, _⟩ := setCapacity_spec w _ w1 hi hw1
        simp only [Option.getD_some] at i11
        exact ⟨i1, i5, i6, by omega⟩
      · injection hw1 with hw1; subst hw1; exact ⟨hi, rfl, rfl, by omega⟩
    obtain ⟨i1, i5, i6, icap⟩ := hw
    have hfit : 0 + ((a.rows.drop g.1).take g.2).length ≤ w1.buf.length := by
      simp only [W.capacity] at icap; omega
    refine ⟨⟨?_, ?_, ?_⟩, g.1, g.2, ?_, rfl, hg.1, hg.2.1, by omega, i5, i6⟩
    · simp only [W.capacity, writeAt_length _ _ _ hfit] at *; omega
    · intro r hr
      rcases mem_writeAt _ _ _ _ hr with h | h
      · exact i1.2.1 r h
      · rw [i5]; exact hcols r (List.mem_of_mem_drop (List.mem_of_mem_take h))
    · intro hk; rw [i5]; exact hi.2.2 (by rw [← i6]; exact hk)
    · simp only [W.view]
      have := view_load w1.buf ((a.rows.drop g.1).take g.2) (by omega)
      rw [hl] at this; exact this
  · -- copy=False: the array becomes the buffer
    rename_i _ _ _ _ g _ _ hsig _
    have hc := checkInput_ok w a (by assumption)
    have hg := window_ok _ _ _ g (by assumption)
    have hcols : RowsOk w.ncols a.rows := by
      by_cases hk : w.kind = .digital
      · have : a.ncols = w.ncols := by
          by_cases he : a.ncols = w.ncols
          · exact he
          · exact absurd ⟨hk, he⟩ hsig
        rw [← this]; exact ha.1
      · have h1 := ha.2 (hc.2 hk)
        rw [hi.2.2 hk, ← h1]; exact ha.1
    injection h with h; subst h
    refine ⟨⟨?_, hcols, hi.2.2⟩, g.1, g.2, rfl, rfl, hg.1, hg.2.1, by omega, rfl, rfl⟩
    simp only [W.capacity]; omega

/-! ### histories -/

/-- the public mutating calls on an existing object -/
inductive Op where
  | appendArray (a : Arr) (ts : Option (List Int)) (typesOk : Bool)
  | appendWaveforms (os : List W)
  | load (a : Arr) (copy : Bool) (start count : Option Int)
  | setCount (v : Option Int)
  | setCapacity (v : Option Int)
  | setTiming (t : WTiming)
  | write (i : Int) (row : Row)

/-- one call: a rejected call leaves the object as it was -/
def step (w : W) : Op → W
  | .appendArray a ts ok => match appendArray w a ts ok with | .ok w' => w' | .error _ => w
  | .appendWaveforms os => match appendWaveforms w os with | .ok (w', _) => w' | .error _ => w
  | .load a c s n => match loadData w a c s n with | .ok w' => w' | .error _ => w
  | .setCount v => match setCount w v with | .ok w' => w' | .error _ => w
  | .setCapacity v => match setCapacity w v with | .ok w' => w' | .error _ => w
  | .setTiming t => match setTiming w t with | .ok w' => w' | .error _ => w
  | .write i row => match writeView w i row with | .ok w' => w' | .error _ => w

/-- the arguments are well-formed NumPy arrays / waveforms of the same class / rows of the right width -/
def ArgsOk (w : W) : Op → Prop
  | .appendArray a _ _ => ArrOk a
  | .appendWaveforms os => ∀ o ∈ os, Inv o ∧ o.kind = w.kind
  | .load a _ _ _ => ArrOk a
  | .write _ row => row.length = w.ncols
  | _ => True

theorem inv_step (w : W) (op : Op) (hi : Inv w) (ha : ArgsOk w op) : Inv (step w op) ∧ (step w op).ncols = w.ncols
    ∧ (step w op).kind = w.kind := by
  cases op with
  | appendArray a ts ok =>
    simp only [step]
    cases h : appendArray w a ts ok with
    | error e => exact ⟨hi, rfl, rfl⟩
    | ok w' => obtain ⟨h1, _, _, h4, h5, _⟩ := appendArray_spec w a ts ok w' hi ha h; exact ⟨h1, h4, h5⟩
  | appendWaveforms os =>
    simp only [step]
    cases h : appendWaveforms w os with
    | error e => exact ⟨hi, rfl, rfl⟩
    | ok p => obtain ⟨w', ws⟩ := p; obtain ⟨h1, _, _, h4, h5, _⟩ := appendWaveforms_spec w os w' ws hi ha h; exact ⟨h1, h4, h5⟩
  | load a c s n =>
    simp only [step]
    cases h : loadData w a c s n with
    | error e => exact ⟨hi, rfl, rfl⟩
    | ok w' => obtain ⟨h1, _, _, _, _, _, _, _, h4, h5⟩ := loadData_spec w a c s n w' hi ha h; exact ⟨h1, h4, h5⟩
  | setCount v =>
    simp only [step]
    cases h : setCount w v with
    | error e => exact ⟨hi, rfl, rfl⟩
    | ok w' =>
      obtain ⟨h1, _, _, _, _, _, h4, h5⟩ := setCount_spec w v w' hi h
      exact ⟨h1, h4, h5⟩
  | setCapacity v =>
    simp only [step]
    cases h : setCapacity w v with
    | error e => exact ⟨hi, rfl, rfl⟩
    | ok w' => obtain ⟨h1, _, _, _, h4, h5, _⟩ := setCapacity_spec w v w' hi h; exact ⟨h1, h4, h5⟩
  | setTiming t =>
    simp only [step]
    cases h : setTiming w t with
    | error e => exact ⟨hi, rfl, rfl⟩
    | ok w' =>
      obtain ⟨h1, _, _, h4, h5⟩ := setTiming_spec w t w' hi h
      exact ⟨h1, h4, h5⟩
  | write i row =>
    simp only [step]
    cases h : writeView w i row with
    | error e => exact ⟨hi, rfl, rfl⟩
    | ok w' =>
      obtain ⟨h1, _, h4, h5⟩ := writeView_spec w i row w' hi ha h
      exact ⟨h1, h4, h5⟩

/-- the history-level argument condition (each call's arguments are well-formed at the state it is applied to) -/
def HistOk : W → List Op → Prop
  | _, [] => True
  | w, op :: ops => ArgsOk w op ∧ HistOk (step w op) ops

/-- after ANY sequence of public mutating calls, valid and invalid interleaved:
    0 ≤ start_index, start_index + sample_count ≤ capacity, the view has sample_count rows of signal_count columns -/
theorem inv_reachable : ∀ (ops : List Op) (w : W), Inv w → HistOk w ops →
    Inv (ops.foldl step w) ∧ (ops.foldl step w).view.length = (ops.foldl step w).count
    ∧ RowsOk (ops.foldl step w).ncols (ops.foldl step w).view := by
  intro ops
  induction ops with
  | nil => intro w hi _; exact ⟨hi, (view_shape w hi).1, (view_shape w hi).2⟩
  | cons op ops ih =>
    intro w hi hh
    exact ih (step w op) (inv_step w op hi hh.1).1 hh.2

/-- what a plain list of samples predicts for one call (`none`: the list model does not constrain the result
    beyond the invariant — growing sample_count exposes buffer cells) -/
def listStep (v : List Row) (w : W) : Op → Option (List Row)
  | .appendArray a _ _ => some (v ++ a.rows)
  | .appendWaveforms os => some (v ++ os.flatMap (·.view))
  | .load a _ s n =>
    some ((a.rows.drop (s.getD 0).toNat).take (n.getD ((a.rows.length : Int) - s.getD 0)).toNat)
  | .setCount c => if (c.getD 0).toNat ≤ v.length then some (v.take (c.getD 0).toNat) else none
  | .setCapacity _ => some v
  | .setTiming _ => some v
  | .write i row => some (v.set (if i < 0 then i + w.count else i).toNat row)

def succeeds (w : W) : Op → Bool
  | .appendArray a ts ok => (appendArray w a ts ok).isOk
  | .appendWaveforms os => (appendWaveforms w os).isOk
  | .load a c s n => (loadData w a c s n).isOk
  | .setCount v => (setCount w v).isOk
  | .setCapacity v => (setCapacity w v).isOk
  | .setTiming t => (setTiming w t).isOk
  | .write i row => (writeView w i row).isOk

/-- the view's contents are exactly what the list model predicts: a successful call transforms the view as the
    list operation does, a rejected call leaves it unchanged -/
theorem view_refines (w : W) (op : Op) (hi : Inv w) (ha : ArgsOk w op) :
    (succeeds w op = false → (step w op) = w)
    ∧ (succeeds w op = true → ∀ v, listStep w.view w op = some v → (step w op).view = v) := by
  cases op with
  | appendArray a ts ok =>
    simp only [succeeds, step, listStep]
    cases h : appendArray w a ts ok with
    | error e => simp [Except.isOk, Except.toBool]
    | ok w' =>
      refine ⟨by simp [Except.isOk, Except.toBool], fun _ v hv => ?_⟩
      injection hv with hv; subst hv
      exact (appendArray_spec w a ts ok w' hi ha h).2.1
  | appendWaveforms os =>
    simp only [succeeds, step, listStep]
    cases h : appendWaveforms w os with
    | error e => simp [Except.isOk, Except.toBool]
    | ok p =>
      obtain ⟨w', ws⟩ := p
      refine ⟨by simp [Except.isOk, Except.toBool], fun _ v hv => ?_⟩
      injection hv with hv; subst hv
      exact (appendWaveforms_spec w os w' ws hi ha h).2.1
  | load a c s n =>
    simp only [succeeds, step, listStep]
    cases h : loadData w a c s n with
    | error e => simp [Except.isOk, Except.toBool]
    | ok w' =>
      refine ⟨by simp [Except.isOk, Except.toBool], fun _ v hv => ?_⟩
      injection hv with hv; subst hv
      obtain ⟨_, s', n', h1, _, h3, h4, _⟩ := loadData_spec w a c s n w' hi ha h
      rw [h1]
      have e1 : (s.getD 0).toNat = s' := by omega
      have e2 : (n.getD ((a.rows.length : Int) - s.getD 0)).toNat = n' := by omega
      rw [e1, e2]
  | setCount c =>
    simp only [succeeds, step, listStep]
    cases h : setCount w c with
    | error e => simp [Except.isOk, Except.toBool]
    | ok w' =>
      refine ⟨by simp [Except.isOk, Except.toBool], fun _ v hv => ?_⟩
      obtain ⟨_, h2, _, _, _, h6, _, _⟩ := setCount_spec w c w' hi h
      have hl := (view_shape w hi).1
      split at hv
      · injection hv with hv; subst hv
        rename_i hle
        have : w'.count = (c.getD 0).toNat := by omega
        rw [h2 (by omega), this]
      · cases hv
  | setCapacity c =>
    simp only [succeeds, step, listStep]
    cases h : setCapacity w c with
    | error e => simp [Except.isOk, Except.toBool]
    | ok w' =>
      refine ⟨by simp [Except.isOk, Except.toBool], fun _ v hv => ?_⟩
      injection hv with hv; subst hv
      exact (setCapacity_spec w c w' hi h).2.1
  | setTiming t =>
    simp only [succeeds, step, listStep]
    cases h : setTiming w t with
    | error e => simp [Except.isOk, Except.toBool]
    | ok w' =>
      refine ⟨by simp [Except.isOk, Except.toBool], fun _ v hv => ?_⟩
      injection hv with hv; subst hv
      exact (setTiming_spec w t w' hi h).2.1
  | write i row =>
    simp only [succeeds, step, listStep]
    cases h : writeView w i row with
    | error e => simp [Except.isOk, Except.toBool]
    | ok w' =>
      refine ⟨by simp [Except.isOk, Except.toBool], fun _ v hv => ?_⟩
      injection hv with hv; subst hv
      obtain ⟨_, ⟨j, _, hj, hv', _⟩, _, _⟩ := writeView_spec w i row w' hi ha h
      rw [hv']; congr 1; omega

-- non-vacuity: a concrete history (construct, append, load a sub-range without copying, append again)
example : ((ctorNew .analog 4 true (some 2) none (some 1) (some 4) 0 [] none 0).bind fun w =>
    (appendArray w ⟨4, 1, [[7], [8]], 1, true⟩ none true).bind fun w =>
    (loadData w ⟨4, 1, [[1], [2], [3], [4]], 1, false⟩ false (some 1) (some 2)).map (·.view))
    = .ok [[2], [3]] := by rfl

/-! ### the tie by proof for the argument checks: `Gen/Geometry.lean` (translator tier T5) against the model's geometry functions -/

theorem argToUintOpt_some (x : Option Int) (d : Int) : Py.argToUintOpt x (some d) = argUint x d := by
  cases x <;> simp [Py.argToUintOpt, Py.argToUint, argUint]

/-- finish a goal that is a tree of `if`s over linear conditions on both sides: every leaf is `rfl` or contradictory -/
macro "geom_finish" : tactic =>
  `(tactic| ((repeat' split) <;> first | rfl | (simp only [Except.map]; done) | (exfalso; omega) | (simp_all [Except.map] <;> omega)))

/-- `get_raw_data` / `get_data` window check (all three classes): the generated check is the model's `window` -/
theorem gen_window_eq_model (len : Nat) (s n : Option Int) :
    (Gen.Geometry.numeric_get_raw_data_window s n len).map (fun p => (p.1.toNat, p.2.toNat)) = window len s n
    ∧ Gen.Geometry.spectrum_get_data_window s n len = Gen.Geometry.numeric_get_raw_data_window s n len
    ∧ Gen.Geometry.digital_get_data_window s n len = Gen.Geometry.numeric_get_raw_data_window s n len := by
  refine ⟨?_, rfl, rfl⟩
  unfold Gen.Geometry.numeric_get_raw_data_window window
  simp only [argToUintOpt_some, argUint, bind, pure, Except.pure, throw, throwThe, MonadExceptOf.throw]
  cases s <;> cases n <;>
    simp only [Option.getD, Proofs.bind_ite, Proofs.bind_ok, Proofs.bind_error] <;> geom_finish

/-- what an accepted window is: inside the samples -/
theorem gen_window_inside (len : Int) (s n : Option Int) (p : Int × Int)
    (h : Gen.Geometry.numeric_get_raw_data_window s n len = .ok p) : 0 ≤ p.1 ∧ 0 ≤ p.2 ∧ p.1 + p.2 ≤ len := by
  unfold Gen.Geometry.numeric_get_raw_data_window at h
  simp only [argToUintOpt_some, argUint] at h
  cases s <;> cases n <;> simp only [Option.getD, Proofs.bind_ite, Proofs.bind_ok, Proofs.bind_error] at h <;> (repeat' split at h) <;>
    (cases h <;> dsimp only <;> omega)

/-- `_init_with_provided_array` (numeric classes and Spectrum): capacity must equal the array length, then the window check -/
theorem gen_provided_geometry_eq_model (len : Nat) (s n cap : Option Int) :
    (Gen.Geometry.numeric_provided_geometry len s n cap).map (fun g => (g.1.toNat, g.2.1.toNat))
      = (checkCap cap len).bind (fun _ => window len s n)
    ∧ Gen.Geometry.spectrum_provided_geometry len s n cap = Gen.Geometry.numeric_provided_geometry len s n cap := by
  refine ⟨?_, rfl⟩
  unfold Gen.Geometry.numeric_provided_geometry checkCap window
  simp only [argToUintOpt_some, argUint, bind, pure, Except.pure, throw, throwThe, MonadExceptOf.throw]
  cases s <;> cases n <;> cases cap <;>
    simp only [Option.getD, Proofs.bind_ite, Proofs.bind_ok, Proofs.bind_error] <;> geom_finish

/-- a validated geometry satisfies the C01 invariant: 0 ≤ start, start + count ≤ capacity = len(array) -/
theorem gen_provided_geometry_invariant (len : Int) (s n cap : Option Int) (g : Int × Int × Int)
    (h : Gen.Geometry.numeric_provided_geometry len s n cap = .ok g) :
    0 ≤ g.1 ∧ 0 ≤ g.2.1 ∧ g.1 + g.2.1 ≤ g.2.2 ∧ g.2.2 = len := by
  unfold Gen.Geometry.numeric_provided_geometry at h
  simp only [argToUintOpt_some, argUint] at h
  cases s <;> cases n <;> cases cap <;> simp only [Option.getD, Proofs.bind_ite, Proofs.bind_ok, Proofs.bind_error] at h <;>
    (repeat' split at h) <;> (cases h <;> dsimp only <;> omega)

/-- `_init_with_new_array`: three conversions (start, count, capacity defaulting to count), the dtype check, then the two range checks -
    exactly the prefix of the model's `ctorNew` -/
theorem gen_new_geometry_eq_model (count start cap : Option Int) (dtypeOk : Bool) :
    (Gen.Geometry.numeric_new_geometry count start cap dtypeOk).map (fun g => (g.1.toNat, g.2.1.toNat, g.2.2.toNat))
      = (newGeom count start cap).bind (fun g =>
          if ¬ dtypeOk then .error .TypeError
          else if g.1 > g.2.2 then .error .StartIndexTooLargeError
          else if g.1 + g.2.1 > g.2.2 then .error .StartIndexOrSampleCountTooLargeError
          else .ok g)
    ∧ Gen.Geometry.spectrum_new_geometry count start cap dtypeOk = Gen.Geometry.numeric_new_geometry count start cap dtypeOk := by
  refine ⟨?_, rfl⟩
  unfold Gen.Geometry.numeric_new_geometry newGeom
  simp only [argToUintOpt_some, argUint, bind, pure, Except.pure]
  cases count <;> cases start <;> cases cap <;> cases dtypeOk <;>
    simp only [Option.getD, Bool.false_eq_true, not_false_eq_true, not_true_eq_false, if_true, if_false,
      Proofs.bind_ite, Proofs.bind_ok, Proofs.bind_error] <;> geom_finish

theorem gen_new_geometry_invariant (count start cap : Option Int) (ok : Bool) (g : Int × Int × Int)
    (h : Gen.Geometry.numeric_new_geometry count start cap ok = .ok g) :
    0 ≤ g.1 ∧ 0 ≤ g.2.1 ∧ g.1 + g.2.1 ≤ g.2.2 := by
  unfold Gen.Geometry.numeric_new_geometry at h
  simp only [argToUintOpt_some, argUint] at h
  cases count <;> cases start <;> cases cap <;> simp only [Option.getD, Proofs.bind_ite, Proofs.bind_ok, Proofs.bind_error] at h <;>
    (repeat' split at h) <;> (cases h <;> dsimp only <;> omega)

/-- the `sample_count` setter (numeric and digital; Spectrum has none): the model's `setCount` accepts exactly what the generated
    check accepts, with the same error otherwise, and stores the validated value -/
theorem gen_set_sample_count_eq_model (w : W) (value : Option Int) (hk : w.kind ≠ .spectrum) :
    setCount w value
      = (Gen.Geometry.numeric_set_sample_count value w.start w.capacity (decide (w.timing.mode = .irregular)) w.timing.stamps.length).map
          (fun v => { w with count := v.toNat })
    ∧ Gen.Geometry.digital_set_sample_count = Gen.Geometry.numeric_set_sample_count := by
  refine ⟨?_, rfl⟩
  unfold setCount Gen.Geometry.numeric_set_sample_count
  have ht : w.hasTiming = true := by unfold W.hasTiming; cases hkk : w.kind <;> simp_all
  simp only [hk, ht, if_false, bind, pure, Except.pure, throw, throwThe, MonadExceptOf.throw, argUint, Py.argToUintOpt, Py.argToUint,
    true_and, decide_eq_true_eq]
  cases value with
  | none => simp [Except.map, Except.bind]
  | some v =>
    simp only [Option.isNone_some, Bool.false_eq_true, if_false, Option.getD, Proofs.bind_ite, Proofs.bind_ok, Proofs.bind_error]
    all_goals geom_finish

/-- the `capacity` setter (all three classes): refused below start + count; equal capacity is a no-op; otherwise the resize -/
theorem gen_set_capacity_eq_model (w : W) (value : Option Int) :
    setCapacity w value
      = (Gen.Geometry.numeric_set_capacity value w.start w.count w.capacity).bind (fun v =>
          if v.toNat = w.capacity then .ok w
          else if ¬ w.resizable then .error .ValueError
          else .ok { w with buf := (w.buf ++ List.replicate (v.toNat - w.capacity) (zeroRow w.ncols 0)).take v.toNat })
    ∧ Gen.Geometry.spectrum_set_capacity = Gen.Geometry.numeric_set_capacity
    ∧ Gen.Geometry.digital_set_capacity = Gen.Geometry.numeric_set_capacity := by
  refine ⟨?_, rfl, rfl⟩
  unfold setCapacity Gen.Geometry.numeric_set_capacity
  simp only [bind, pure, Except.pure, throw, throwThe, MonadExceptOf.throw, argUint, Py.argToUintOpt, Py.argToUint]
  cases value with
  | none => simp [Except.bind]
  | some v =>
    simp only [Option.isNone_some, Bool.false_eq_true, if_false, Option.getD, Proofs.bind_ite, Proofs.bind_ok, Proofs.bind_error]
    all_goals geom_finish

/-- an accepted capacity never cuts into the live window -/
theorem gen_set_capacity_keeps_window (value : Option Int) (start count cap v : Int)
    (h : Gen.Geometry.numeric_set_capacity value start count cap = .ok v) : start + count ≤ v := by
  unfold Gen.Geometry.numeric_set_capacity at h
  cases value with
  | none => simp [Py.argToUintOpt, Except.bind] at h
  | some x =>
    simp only [Py.argToUintOpt, Py.argToUint, Proofs.bind_ite, Proofs.bind_ok, Proofs.bind_error] at h
    (repeat' split at h) <;> (cases h <;> omega)


end Props.C01
