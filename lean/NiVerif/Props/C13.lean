/-
  C13 — Pickle and deepcopy reproduce every public value exactly and independently.
  (Lean part: waveforms / Spectrum over Model/Wfm.lean, Timing over Model/Timing.lean, bintime values
  over the regenerated `__reduce__` argument; Scalar / Vector / XYData / arrays / dictionaries are
  decided by the oracle on the real objects and by the container models of C17-C19.)
-/
import NiVerif.Model.Wfm
import NiVerif.Model.WfmReduce
import NiVerif.Proofs.WfmLemmas
import NiVerif.Props.C01
import NiVerif.Props.C09
import NiVerif.Props.C02
import NiVerif.Props.C20

namespace Props.C13
open Model.Wfm Proofs.Wfm Props.C01 Props.C09

/-- what `__reduce__` hands to the constructor is accepted by it: pickling never fails on a reachable waveform -/
theorem pickle_succeeds (w : W) (hi : Inv w) (h9 : Inv9 w) : ∃ w', pickle w = .ok w' := by
  obtain ⟨hlen, _⟩ := view_shape w hi
  have hwin : window (w.view.length : Int) none (some (w.count : Int)) = .ok (0, w.count) := by
    unfold window argUint
    simp only [bind, Except.bind, pure, Except.pure, throw, throwThe, MonadExceptOf.throw, Option.getD_none,
      Option.getD_some]
    rw [if_neg (by omega)]; simp only
    rw [if_neg (by omega), if_neg (by omega)]; simp only
    rw [if_neg (by omega)]; simp
  have h1 : checkArr w.kind ⟨w.dtype, if w.kind = .digital then 2 else 1, w.view, w.ncols, true⟩ (some w.dtype) true
      = .ok () := by
    unfold checkArr
    by_cases hk : w.kind = .digital <;> simp [hk, bind, Except.bind, pure, Except.pure]
  have h2 : checkCap none (w.view.length : Int) = .ok () := by
    unfold checkCap argUint
    simp only [bind, Except.bind, pure, Except.pure, throw, throwThe, MonadExceptOf.throw, Option.getD_none]
    rw [if_neg (by omega)]; simp
  have h3 : checkNcols w.kind (if w.kind = .digital then some (w.ncols : Int) else none) w.ncols = .ok () := by
    unfold checkNcols
    by_cases hk : w.kind = .digital <;> simp [hk, bind, Except.bind, pure, Except.pure]
  have h4 : checkTimingCount w.kind ((some w.timing).getD WTiming.empty) w.count = .ok () := by
    unfold checkTimingCount
    simp only [Option.getD_some]
    rw [if_neg]
    rintro ⟨hk, hm, hne⟩
    exact hne (h9 ((hasTiming_iff w).2 hk) hm).1
  unfold pickle ctorArr
  simp only [bind, Except.bind, pure, Except.pure, h1, h2, h3, hwin, h4]
  exact ⟨_, rfl⟩

/-- the unpickled / deep-copied object has identical observable state (dtype, data, signal count, timing,
    scale mode, extended properties), no allocation slack, and owns a fresh buffer -/
theorem pickle_observe (w w' : W) (hi : Inv w) (h : pickle w = .ok w') :
    w'.obs = w.obs ∧ w'.start = 0 ∧ w'.capacity = w'.count ∧ w'.resizable = true ∧ w'.namesCache = none ∧ Inv w' := by
  obtain ⟨hlen, hrows⟩ := view_shape w hi
  have ha : ArrOk ⟨w.dtype, if w.kind = .digital then 2 else 1, w.view, w.ncols, true⟩ := by
    refine ⟨hrows, fun hnd => ?_⟩
    simp only at hnd ⊢
    by_cases hk : w.kind = .digital
    · simp [hk] at hnd
    · exact hi.2.2 hk
  have hs := ctorArr_spec _ _ _ _ _ _ _ _ _ _ _ w' ha h
  obtain ⟨i1, i2, i3, i4, i5, i6, i7, i8, i9, i10, i11, i12⟩ := hs
  simp only [Option.getD_none, Option.getD_some] at i3 i4 i10
  have hst : w'.start = 0 := by omega
  have hcnt : w'.count = w.count := by omega
  refine ⟨?_, hst, ?_, ?_, ?_, i1⟩
  · simp only [W.obs]
    rw [i2, hst, hcnt, i7, i8, i9, i10, i11, i12]
    simp only [List.drop_zero]
    rw [List.take_of_length_le (by omega)]
  · simp only [W.capacity, i6]; omega
  · unfold pickle ctorArr at h; unwind h; injection h with h; subst h; rfl
  · unfold pickle ctorArr at h; unwind h; injection h with h; subst h; rfl

/-- two objects with the same observable state compare equal whatever their start_index / capacity:
    equality is equality of the observable state (`__eq__`: dtype, data view, properties, timing, scale mode) -/
def weq (a b : W) : Bool := decide (a.obs = b.obs)

theorem eq_ignores_slack (a b : W) (h : a.obs = b.obs) : weq a b = true := by simp [weq, h]
theorem pickle_equal (w w' : W) (hi : Inv w) (h : pickle w = .ok w') : weq w' w = true :=
  eq_ignores_slack _ _ (pickle_observe w w' hi h).1

/-- pickling after any history: the invariants are kept, so pickling the copy again works and is idempotent on the
    observable state -/
theorem pickle_twice (w w' w'' : W) (hi : Inv w) (h1 : pickle w = .ok w') (h2 : pickle w' = .ok w'') :
    w''.obs = w.obs := by
  have a := pickle_observe w w' hi h1
  have b := pickle_observe w' w'' a.2.2.2.2.2 h2
  rw [b.1, a.1]

/-! ### Timing: `__reduce__` passes (mode, timestamp, time_offset, sample_interval, timestamps) to the constructor -/

open Model.Timing in
theorem timing_pickle (mode : Mode) (ts off si st : Arg) (t : T) (h : ctor mode ts off si st = .ok t) :
    ctor t.mode t.timestamp t.offset t.interval (match t.stamps with | some l => .seq l | none => .absent) = .ok t := by
  obtain ⟨h1, h2, h3, h4, h5, h6⟩ := Props.C20.ctor_stores mode ts off si st t h
  cases mode with
  | unknown => simp [ctor] at h
  | irregular =>
    obtain ⟨elems, he, hs⟩ := h5 rfl
    subst he
    rw [h1, h2, h3, h4, hs]
    simp only
    rw [h]
  | none =>
    have hn := h6 (by simp)
    rw [h1, h2, h3, h4, hn]
    simp only
    have hal := (Props.C20.ctor_accepts_iff_allowed .none ts off si st).1 ⟨t, h⟩
    simp only [Props.C20.allowed] at hal
    have : st = .absent := by cases st <;> simp [Arg.isNone] at hal ⊢
    rw [← this]; exact h
  | regular =>
    have hn := h6 (by simp)
    rw [h1, h2, h3, h4, hn]
    simp only
    have hal := (Props.C20.ctor_accepts_iff_allowed .regular ts off si st).1 ⟨t, h⟩
    simp only [Props.C20.allowed] at hal
    have : st = .absent := by cases st <;> simp [Arg.isNone] at hal ⊢
    rw [← this]; exact h

/-! ### bintime values: `from_ticks(ticks)` reproduces the value (C02) -/
theorem bintime_pickle (t : Int) (h : Props.C02.InI128 t) :
    Gen.TimeDelta.from_ticks (Gen.TimeDelta.ticks t) = .ok t ∧ Gen.DateTime.from_ticks (Gen.DateTime.ticks t) = .ok t :=
  ⟨Props.C02.pickle_roundtrip t h, Props.C02.dt_pickle_roundtrip t h⟩

-- non-vacuity: a waveform with slack (start 2, capacity 6) pickles to a compact one with the same contents
example : (pickle ⟨.analog, 4, 1, [[9], [9], [1], [2], [3], [9]], 2, 3, false, WTiming.empty, 0, [("a", "b")], none⟩).map
    (fun w => (w.view, w.start, w.capacity)) = .ok ([[1], [2], [3]], 0, 3) := by rfl

/-! ### Tier T30: the argument lists of `__reduce__`, regenerated from the three buffer classes (`Gen/WfmReduce`) -/

open Model.WfmReduce in
/-- **The constructor call that `__reduce__` of NumericWaveform / DigitalWaveform / Spectrum describes is the model's `pickle`**:
    the visible window (never the whole buffer), its length, the dtype, the column count of a digital waveform, the properties,
    the timing and the scale mode — and no start index or capacity. -/
theorem gen_pickle_eq_model (w : W) : pickleVia w = some (pickle w) := by
  obtain ⟨kind, dtype, ncols, buf, start, count, resizable, timing, scale, props, cache⟩ := w
  cases kind <;>
    simp [pickleVia, bindings, clsOf, dataParam, intArg, pickle, Gen.WfmReduce.reduce_args, Gen.WfmReduce.reduce_kwargs,
      Gen.WfmReduce.ctor_params, List.lookup, W.view, W.capacity]

/-- the pickled form is independent of allocation slack **because `__reduce__` never reads it**: per class, the constructor
    parameters it passes are all parameters except `start_index`, `capacity` (and the fill value of a new digital buffer) -/
theorem gen_reduce_passes_all_but_slack :
    ∀ c ∈ Gen.WfmReduce.ctor_params,
      ∃ b, Model.WfmReduce.bindings c.1 = some b ∧
        (c.2.1 ++ c.2.2).filter (fun p => !(b.map Prod.fst).contains p)
          = (c.2.1 ++ c.2.2).filter (fun p => ["start_index", "capacity", "default_value"].contains p) := by
  decide +kernel

/-- every class hands over the visible window, and its length as the sample count -/
theorem gen_reduce_reads_window :
    ∀ c ∈ ["NumericWaveform", "DigitalWaveform", "Spectrum"],
      ∃ b, Model.WfmReduce.bindings c = some b ∧ b.lookup "sample_count" = some "count" ∧
        (b.lookup "raw_data" = some "view" ∨ b.lookup "data" = some "view") ∧ ¬ (b.map Prod.snd).contains "buffer"
        ∧ b.lookup "copy_extended_properties" = some "False" := by
  decide +kernel

/-- `_unpickle` of all three classes is the constructor call (after copying an array that sits on the pickle's own buffer) -/
theorem gen_unpickle_is_ctor_call :
    Gen.WfmReduce.unpickle_is_ctor_call = ["NumericWaveform", "DigitalWaveform", "Spectrum"] := by decide

/-- consequence, over the generated tables: what `__reduce__` describes rebuilds a waveform with the same observable state -/
theorem gen_pickle_observe (w w' : W) (hi : Inv w) (h : Model.WfmReduce.pickleVia w = some (.ok w')) :
    w'.obs = w.obs ∧ w'.start = 0 ∧ w'.capacity = w'.count := by
  rw [gen_pickle_eq_model] at h
  have := pickle_observe w w' hi (by simpa using h)
  exact ⟨this.1, this.2.1, this.2.2.1⟩

open Model.WfmReduce in
/-- **"Two objects with the same observable state compare equal whatever their start_index / capacity", over the members the
    source's `__eq__` compares**: none of them is the buffer, the start index or the capacity. -/
theorem gen_eq_ignores_slack (a b : W) (h : a.obs = b.obs) : eqVia a b = some true := by
  obtain ⟨ka, da, na, bufa, sa, ca, ra, ta, sca, pa, cha⟩ := a
  obtain ⟨kb, db, nb, bufb, sb, cb, rb, tb, scb, pb, chb⟩ := b
  simp only [W.obs, Obs.mk.injEq, W.view] at h
  obtain ⟨hk, hd, hn, hv, ht, hs, hp⟩ := h
  subst hk hd hn ht hs hp
  cases ka <;>
    simp [eqVia, clsOf, memberEq, Gen.WfmReduce.eq_members, List.lookup, List.mapM_cons, List.mapM_nil, W.view, hv]

open Model.WfmReduce in
/-- and equality is not weaker than the observable state of the class: dtype, the visible window and the properties always,
    the timing of the waveform classes, the scale mode of the numeric ones -/
theorem gen_eq_sound (a b : W) (hk : a.kind = b.kind) (h : eqVia a b = some true) :
    a.dtype = b.dtype ∧ a.view = b.view ∧ a.props = b.props ∧ (a.kind ≠ .spectrum → a.timing = b.timing)
      ∧ (a.kind = .analog ∨ a.kind = .complex → a.scale = b.scale) := by
  obtain ⟨ka, da, na, bufa, sa, ca, ra, ta, sca, pa, cha⟩ := a
  obtain ⟨kb, db, nb, bufb, sb, cb, rb, tb, scb, pb, chb⟩ := b
  simp only at hk
  subst hk
  cases ka <;>
    simp [eqVia, clsOf, memberEq, Gen.WfmReduce.eq_members, List.lookup, List.mapM_cons, List.mapM_nil] at h ⊢ <;>
    first
      | exact h
      | exact ⟨h.1, h.2.1, h.2.2.1, h.2.2.2.1, h.2.2.2.2⟩
      | exact ⟨h.1, h.2.1, h.2.2.1, h.2.2.2⟩
      | exact ⟨h.1, h.2.1, h.2.2⟩

end Props.C13
