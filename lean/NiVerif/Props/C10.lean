/-
  C10 — Append merges timing, scaling and properties by the documented rules only.
-/
import NiVerif.Model.Wfm
import NiVerif.Proofs.WfmLemmas
import NiVerif.Props.C01
import NiVerif.Props.C09
import NiVerif.Props.ExtProps
import NiVerif.Gen.AppendTiming

namespace Props.C10
open Model.Wfm Proofs.Wfm Props.C01 Props.C09

/-! ### timing -/

/-- one `_append_timing` step: when it succeeds, what it returns, which warning it emits, and why it fails -/
theorem appendTiming_rules (t o : WTiming) :
    (t.mode ≠ .irregular →
        (o.mode = .irregular → appendTiming t o = .error .SampleIntervalModeMismatchError)
        ∧ (o.mode ≠ .irregular →
            appendTiming t o = .ok (t, if t.interval ≠ o.interval then [.timingMismatch] else [])))
    ∧ (t.mode = .irregular →
        (o.mode ≠ .irregular → appendTiming t o = .error .SampleIntervalModeMismatchError)
        ∧ (o.mode = .irregular → Model.Timing.areMonotonic (t.stamps ++ o.stamps) = true →
            ∃ r, appendTiming t o = .ok (r, []) ∧ r.mode = .irregular ∧ r.stamps = t.stamps ++ o.stamps)
        ∧ (o.mode = .irregular → t.stamps ≠ [] → o.stamps ≠ [] →
            Model.Timing.areMonotonic (t.stamps ++ o.stamps) = false → appendTiming t o = .error .ValueError)) := by
  unfold appendTiming
  cases hm : t.mode
  · refine ⟨fun _ => ⟨fun ho => by simp [ho], fun ho => by simp [ho]⟩, fun h => by cases h⟩
  · refine ⟨fun _ => ⟨fun ho => by simp [ho], fun ho => by simp [ho]⟩, fun h => by cases h⟩
  · refine ⟨fun h => absurd rfl h, fun _ => ⟨fun ho => by simp [ho], fun ho hmono => ?_, fun ho h1 h2 hb => by simp [ho, h1, h2, hb]⟩⟩
    simp only [ho, ne_eq, not_true_eq_false, if_false]
    by_cases h1 : t.stamps = []
    · exact ⟨o, by simp [h1], ho, by simp [h1]⟩
    · by_cases h2 : o.stamps = []
      · exact ⟨t, by simp [h1, h2], hm, by simp [h2]⟩
      · exact ⟨⟨.irregular, t.interval, t.stamps ++ o.stamps, 0⟩, by simp [h1, h2, hmono], rfl, rfl⟩

/-- NONE/REGULAR receivers keep their own timing unchanged and accept exactly NONE/REGULAR sources;
    IRREGULAR receivers accept only IRREGULAR sources and end up with the concatenated timestamps -/
theorem foldTiming_rules : ∀ (os : List W) (t : WTiming) (r : WTiming × List Warning), foldTiming t os = .ok r →
    (t.mode ≠ .irregular → r.1 = t ∧ (∀ o ∈ os, o.timing.mode ≠ .irregular)
        ∧ ((Warning.timingMismatch ∈ r.2) ↔ ∃ o ∈ os, o.timing.interval ≠ t.interval))
    ∧ (t.mode = .irregular → (∀ o ∈ os, o.timing.mode = .irregular)
        ∧ r.1.stamps = t.stamps ++ os.flatMap (·.timing.stamps) ∧ r.2 = []
        ∧ (os ≠ [] → r.1.mode = .irregular)) := by
  intro os
  induction os with
  | nil =>
    intro t r h
    simp only [foldTiming] at h
    injection h with h; subst h
    simp
  | cons o os ih =>
    intro t r h
    simp only [foldTiming, bind, Except.bind] at h
    cases h1 : appendTiming t o.timing with
    | error e => rw [h1] at h; cases h
    | ok p =>
      rw [h1] at h; simp only at h
      cases h2 : foldTiming p.1 os with
      | error e => rw [h2] at h; cases h
      | ok q =>
        rw [h2] at h; simp only [pure, Except.pure] at h
        injection h with h; subst h
        obtain ⟨k1, k2⟩ := ih p.1 q h2
        obtain ⟨a1, a2⟩ := appendTiming_rules t o.timing
        constructor
        · intro hne
          obtain ⟨b1, b2⟩ := a1 hne
          have hom : o.timing.mode ≠ .irregular := by
            intro ho; rw [b1 ho] at h1; cases h1
          rw [b2 hom] at h1
          injection h1 with h1; subst h1
          obtain ⟨c1, c2, c3⟩ := k1 hne
          refine ⟨c1, ?_, ?_⟩
          · intro x hx
            rcases List.mem_cons.1 hx with rfl | hx'
            · exact hom
            · exact c2 x hx'
          · simp only [List.mem_append, c3]
            constructor
            · rintro (h | ⟨x, hx, hd⟩)
              · refine ⟨o, by simp, ?_⟩
                by_cases hi : t.interval ≠ o.timing.interval
                · exact fun e => hi e.symm
                · simp [hi] at h
              · exact ⟨x, by simp [hx], hd⟩
            · rintro ⟨x, hx, hd⟩
              rcases List.mem_cons.1 hx with rfl | hx'
              · left
                have : t.interval ≠ x.timing.interval := fun e => hd e.symm
                simp [this]
              · right; exact ⟨x, hx', hd⟩
        · intro hirr
          obtain ⟨b1, b2, b3⟩ := a2 hirr
          have hom : o.timing.mode = .irregular := by
            by_cases ho : o.timing.mode = .irregular
            · exact ho
            · rw [b1 ho] at h1; cases h1
          -- whichever branch was taken, the result is irregular with the concatenated stamps
          have hp : p.1.mode = .irregular ∧ p.1.stamps = t.stamps ++ o.timing.stamps ∧ p.2 = [] := by
            unfold appendTiming at h1
            simp only [hirr, hom, ne_eq, not_true_eq_false, if_false] at h1
            split at h1
            · injection h1 with h1; subst h1
              rename_i hnil
              exact ⟨hom, by simp [hnil], rfl⟩
            · split at h1
              · injection h1 with h1; subst h1
                rename_i honil
                exact ⟨hirr, by simp [honil], rfl⟩
              · split at h1
                · injection h1 with h1; subst h1; exact ⟨rfl, rfl, rfl⟩
                · cases h1
          obtain ⟨c1, c2, c3, _⟩ := k2 hp.1
          refine ⟨?_, ?_, ?_, ?_⟩
          · intro x hx
            rcases List.mem_cons.1 hx with rfl | hx'
            · exact hom
            · exact c1 x hx'
          · rw [c2, hp.2.1]; simp [List.flatMap_cons, List.append_assoc]
          · rw [c3, hp.2.2]; rfl
          · intro _
            by_cases hos : os = []
            · subst hos
              simp only [foldTiming] at h2
              injection h2 with h2; subst h2; exact hp.1
            · exact (k2 hp.1).2.2.2 hos

/-! ### extended properties -/

def lookup (p : List (String × String)) (k : String) : Option String := (p.find? (fun kv => kv.1 == k)).map (·.2)

/-- properties of a source are added only under keys the receiver lacks; existing values are never overwritten -/
theorem mergeProps_lookup : ∀ (o p : List (String × String)) (k : String),
    lookup (mergeProps p o) k = (lookup p k).orElse (fun _ => lookup o k) := by
  intro o
  induction o with
  | nil => intro p k; simp [mergeProps, lookup]
  | cons kv o ih =>
    intro p k
    simp only [mergeProps, List.foldl_cons] at ih ⊢
    by_cases hany : p.any (fun x => x.1 == kv.1) = true
    · simp only [hany, if_true]
      rw [ih p k]
      cases hp : lookup p k with
      | some v => rfl
      | none =>
        simp only [Option.orElse]
        -- the key of kv is present in p, k is absent from p, so kv.1 ≠ k
        have hne : (kv.1 == k) = false := by
          cases hk : (kv.1 == k) with
          | false => rfl
          | true =>
            have hk' : kv.1 = k := by simpa using hk
            exfalso
            simp only [lookup, Option.map_eq_none_iff, List.find?_eq_none] at hp
            rw [List.any_eq_true] at hany
            obtain ⟨x, hx, hxe⟩ := hany
            have := hp x hx
            rw [← hk'] at this
            exact this hxe
        simp [lookup, List.find?_cons, hne]
    · simp only [hany, if_false, Bool.false_eq_true]
      rw [ih (p ++ [kv]) k]
      simp only [lookup, List.find?_append, List.find?_cons, List.find?_nil]
      cases hf : List.find? (fun kv => kv.1 == k) p with
      | some v => simp
      | none =>
        simp only [Option.or_none, Option.map_none, Option.orElse]
        cases hk : (kv.1 == k) <;> simp [hk]

/-- the receiver's own entries stay first, in their order (new keys are appended after them) -/
theorem mergeProps_prefix : ∀ (o p : List (String × String)), ∃ extra, mergeProps p o = p ++ extra := by
  intro o
  induction o with
  | nil => intro p; exact ⟨[], by simp [mergeProps]⟩
  | cons kv o ih =>
    intro p
    simp only [mergeProps, List.foldl_cons] at ih ⊢
    split
    · exact ih p
    · obtain ⟨e, he⟩ := ih (p ++ [kv])
      exact ⟨kv :: e, by rw [he]; simp⟩

theorem copyAll_props : ∀ (os : List W) (w : W),
    (copyAll w os).props = os.foldl (fun acc o => mergeProps acc o.props) w.props ∧ (copyAll w os).scale = w.scale := by
  intro os
  induction os with
  | nil => intro w; simp [copyAll]
  | cons o os ih =>
    intro w
    unfold copyAll
    obtain ⟨a, b⟩ := ih (mergeInto { w with buf := writeAt w.buf (w.start + w.count) o.view, count := w.count + o.count } o.props)
    exact ⟨by rw [a]; rfl, by rw [b]; rfl⟩

/-! ### the append rules -/

theorem foldTiming_warn_kind : ∀ (os : List W) (t : WTiming) (r : WTiming × List Warning),
    foldTiming t os = .ok r → ∀ x ∈ r.2, x = Warning.timingMismatch := by
  intro os
  induction os with
  | nil => intro t r h; simp only [foldTiming] at h; injection h with h; subst h; simp
  | cons o os ih =>
    intro t r h
    simp only [foldTiming, bind, Except.bind] at h
    cases h1 : appendTiming t o.timing with
    | error e => rw [h1] at h; cases h
    | ok p =>
      rw [h1] at h; simp only at h
      cases h2 : foldTiming p.1 os with
      | error e => rw [h2] at h; cases h
      | ok q =>
        rw [h2] at h; simp only [pure, Except.pure] at h
        injection h with h; subst h
        intro x hx
        rcases List.mem_append.1 hx with hx | hx
        · unfold appendTiming at h1
          repeat' (split at h1)
          all_goals (first | (cases h1; done) | skip)
          all_goals (injection h1 with h1; subst h1)
          all_goals (first | (cases hx; done) | (simp at hx; exact hx) | skip)
          all_goals (split at hx <;> first | (simp at hx; exact hx) | cases hx)
        · exact ih p.1 q h2 x hx

/-- the shape of a successful `append(waveform(s))` -/
theorem appendWaveforms_unfold (w : W) (os : List W) (w' : W) (ws : List Warning)
    (h : appendWaveforms w os = .ok (w', ws)) :
    ∃ (nt : WTiming × List Warning) (w1 : W), checkSources w os = .ok ()
      ∧ (if w.hasTiming = true then foldTiming w.timing os else .ok (w.timing, [])) = .ok nt
      ∧ increaseCapacity w ((os.map (·.count)).sum) = .ok w1
      ∧ w' = copyAll { w1 with timing := nt.1 } os
      ∧ ws = (if w.kind = .analog ∨ w.kind = .complex then
                (os.filter (fun o => o.scale ≠ w.scale)).map (fun _ => Warning.scalingMismatch) else []) ++ nt.2 := by
  unfold appendWaveforms at h
  unwind h
  all_goals
    injection h with h
    injection h with h1 h2
    subst h1 h2
    rename_i _ _ hcs _ nt hnt _ w1 hw1 hk
    refine ⟨nt, w1, hcs, hnt, hw1, rfl, ?_⟩
    first | rw [if_pos hk] | rw [if_neg hk]

/-- everything `append(waveform(s))` does to the receiver, when it succeeds -/
theorem append_rules (w : W) (os : List W) (w' : W) (ws : List Warning) (hi : Inv w)
    (hos : ∀ o ∈ os, Inv o ∧ o.kind = w.kind) (h : appendWaveforms w os = .ok (w', ws)) :
    -- dtypes (and digital signal counts) match
    (∀ o ∈ os, o.dtype = w.dtype ∧ (w.kind = .digital → o.ncols = w.ncols))
    -- the samples are appended in order
    ∧ w'.view = w.view ++ os.flatMap (·.view)
    -- NONE/REGULAR receivers keep their timing; the sources are NONE/REGULAR
    ∧ (w.hasTiming = true → w.timing.mode ≠ .irregular →
        w'.timing = w.timing ∧ ∀ o ∈ os, o.timing.mode ≠ .irregular)
    -- IRREGULAR receivers accept only IRREGULAR sources and concatenate the timestamps
    ∧ (w.hasTiming = true → w.timing.mode = .irregular →
        (∀ o ∈ os, o.timing.mode = .irregular) ∧ w'.timing.stamps = w.timing.stamps ++ os.flatMap (·.timing.stamps))
    -- warnings: a differing sample interval / scale mode only warns
    ∧ (w.hasTiming = true → w.timing.mode ≠ .irregular →
        ((Warning.timingMismatch ∈ ws) ↔ ∃ o ∈ os, o.timing.interval ≠ w.timing.interval))
    ∧ ((Warning.scalingMismatch ∈ ws) ↔ ((w.kind = .analog ∨ w.kind = .complex) ∧ ∃ o ∈ os, o.scale ≠ w.scale))
    -- properties: earlier sources win, existing values are never overwritten; the scale mode is kept
    ∧ w'.props = os.foldl (fun acc o => mergeProps acc o.props) w.props ∧ w'.scale = w.scale := by
  have hspec := appendWaveforms_spec w os w' ws hi hos h
  obtain ⟨nt, w1, hcs, hnt, hw1, hw', hws⟩ := appendWaveforms_unfold w os w' ws h
  have hc := checkSources_ok w os hcs
  obtain ⟨_, _, _, _, _, _, i7, i8, _, i10, _, _⟩ := increaseCapacity_spec w _ w1 hi hw1
  obtain ⟨c1, _, _⟩ := copyAll_timing os { w1 with timing := nt.1 }
  obtain ⟨p1, p2⟩ := copyAll_props os { w1 with timing := nt.1 }
  subst hw'
  have htw : ∀ x ∈ nt.2, x = Warning.timingMismatch := by
    by_cases hT : w.hasTiming = true
    · rw [if_pos hT] at hnt; exact foldTiming_warn_kind os w.timing nt hnt
    · rw [if_neg hT] at hnt; injection hnt with hnt; subst hnt; simp
  refine ⟨hc, hspec.2.1, ?_, ?_, ?_, ?_, by rw [p1]; simp only; rw [i8], by rw [p2]; exact i10⟩
  · intro hT hne
    rw [if_pos hT] at hnt
    obtain ⟨g1, g2, _⟩ := (foldTiming_rules os w.timing nt hnt).1 hne
    exact ⟨by rw [c1]; exact g1, g2⟩
  · intro hT hirr
    rw [if_pos hT] at hnt
    obtain ⟨g1, g2, _⟩ := (foldTiming_rules os w.timing nt hnt).2 hirr
    exact ⟨g1, by rw [c1]; exact g2⟩
  · intro hT hne
    rw [if_pos hT] at hnt
    obtain ⟨_, _, g3⟩ := (foldTiming_rules os w.timing nt hnt).1 hne
    rw [hws, List.mem_append, ← g3]
    constructor
    · rintro (hl | hr)
      · exfalso
        split at hl
        · simp only [List.mem_map] at hl; obtain ⟨_, _, hx⟩ := hl; cases hx
        · cases hl
      · exact hr
    · exact Or.inr
  · rw [hws, List.mem_append]
    constructor
    · rintro (hl | hr)
      · split at hl
        · rename_i hk
          simp only [List.mem_map, List.mem_filter, decide_eq_true_eq] at hl
          obtain ⟨o, ⟨ho, hs⟩, _⟩ := hl
          exact ⟨hk, o, ho, hs⟩
        · cases hl
      · exact absurd (htw _ hr) (by decide)
    · rintro ⟨hk, o, ho, hs⟩
      left
      rw [if_pos hk]
      simp only [List.mem_map, List.mem_filter, decide_eq_true_eq]
      exact ⟨o, ⟨ho, hs⟩, trivial⟩

/-- why an append is refused: the error class for each failing condition -/
theorem append_refusals (w : W) (os : List W) (e : PyErr) (h : appendWaveforms w os = .error e) :
    e = .DatatypeMismatchError ∨ e = .SignalCountMismatchError ∨ e = .SampleIntervalModeMismatchError
    ∨ e = .ValueError ∨ e = .CapacityTooSmallError ∨ e = .TypeError := by
  unfold appendWaveforms at h
  simp only [bind, Except.bind, pure, Except.pure] at h
  cases hc : checkSources w os with
  | error e1 =>
    rw [hc] at h; injection h with h; subst h
    induction os with
    | nil => simp [checkSources] at hc
    | cons o os ih =>
      unfold checkSources at hc
      split at hc
      · injection hc with hc; subst hc; simp
      · split at hc
        · injection hc with hc; subst hc; simp
        · exact ih hc
  | ok u =>
    rw [hc] at h; simp only at h
    cases ht : (if w.hasTiming = true then foldTiming w.timing os else Except.ok (w.timing, [])) with
    | error e1 =>
      rw [ht] at h; injection h with h; subst h
      split at ht
      · -- a timing error is a mode mismatch or a non-monotonic concatenation
        clear hc
        generalize w.timing = t at ht
        induction os generalizing t with
        | nil => simp [foldTiming] at ht
        | cons o os ih =>
          simp only [foldTiming, bind, Except.bind] at ht
          cases h1 : appendTiming t o.timing with
          | error e2 =>
            rw [h1] at ht; injection ht with ht; subst ht
            unfold appendTiming at h1
            repeat' (split at h1)
            all_goals (first | (cases h1; done) | (injection h1 with h1; subst h1; simp))
          | ok p =>
            rw [h1] at ht; simp only at ht
            cases h2 : foldTiming p.1 os with
            | error e2 => rw [h2] at ht; injection ht with ht; subst ht; exact ih p.1 h2
            | ok q => rw [h2] at ht; simp [pure, Except.pure] at ht
      · cases ht
    | ok nt =>
      rw [ht] at h; simp only at h
      cases hcap : increaseCapacity w (os.map (·.count)).sum with
      | error e1 =>
        rw [hcap] at h; injection h with h; subst h
        unfold increaseCapacity at hcap
        split at hcap
        · unfold setCapacity at hcap
          simp only [bind, argUint_bind] at hcap
          simp only [Except.bind, pure, Except.pure, throw, throwThe, MonadExceptOf.throw] at hcap
          repeat' (split at hcap)
          all_goals (first | (cases hcap; done) | (injection hcap with hcap; subst hcap; simp))
        · cases hcap
      | ok w1 => rw [hcap] at h; simp at h

/-- appending an array requires timestamps exactly when the receiver is IRREGULAR -/
theorem array_needs_timestamps_iff_irregular (t : WTiming) (ts : Option (List Int)) (ok : Bool) :
    (t.mode = .irregular → ts = none → appendTimestamps t ts ok = .error .TimingMismatchError)
    ∧ (t.mode ≠ .irregular → ts.isSome = true → appendTimestamps t ts ok = .error .ValueError)
    ∧ (t.mode ≠ .irregular → ts = none → appendTimestamps t ts ok = .ok t) := by
  unfold appendTimestamps
  refine ⟨fun hm hn => by subst hn; simp [hm], fun hm hs => ?_, fun hm hn => ?_⟩
  · cases h : t.mode <;> simp_all
  · subst hn; cases h : t.mode <;> simp_all

-- non-vacuity: an irregular receiver with two irregular sources
example :
    (foldTiming ⟨.irregular, none, [1, 2], 0⟩
      [⟨.analog, 0, 1, [], 0, 0, true, ⟨.irregular, none, [2, 5], 0⟩, 0, [], none⟩,
       ⟨.analog, 0, 1, [], 0, 0, true, ⟨.irregular, none, [], 0⟩, 0, [], none⟩]).map (·.1.stamps)
      = .ok [1, 2, 2, 5] := by rfl

/-! ### the same statements over the generated `ExtendedPropertyDictionary._merge` (tier T14) -/

/-- properties of a source are added only under keys the receiver lacks; existing values are never overwritten — stated over the
    method regenerated from `_extended_properties.py` -/
theorem gen_merge_lookup (p o : List (String × String)) (k : String) :
    lookup (Gen.ExtProps.merge p o).1 k = (lookup p k).orElse (fun _ => lookup o k) := by
  rw [Props.ExtProps.gen_merge_eq_model]; exact mergeProps_lookup o p k

/-- the receiver's own entries stay where they were, new ones follow -/
theorem gen_merge_prefix (p o : List (String × String)) : ∃ extra, (Gen.ExtProps.merge p o).1 = p ++ extra := by
  rw [Props.ExtProps.gen_merge_eq_model]; exact mergeProps_prefix o p

/-- a sequence of sources: earlier sources win (the fold of the generated method is the model's fold) -/
theorem gen_merge_fold (p : List (String × String)) (os : List (List (String × String))) :
    os.foldl (fun acc o => (Gen.ExtProps.merge acc o).1) p = os.foldl (fun acc o => Model.Wfm.mergeProps acc o) p := by
  induction os generalizing p with
  | nil => rfl
  | cons o os ih => simp only [List.foldl_cons, Props.ExtProps.gen_merge_eq_model]

/-! ### T18: the timing rules as regenerated from the three strategies and `Timing._append_timing` are the model's -/

/-- **the generated `_append_timing` (strategy table + the three `append_timing` methods) is the model's `appendTiming`** for every
    receiver whose irregular form carries no sample interval (what `Timing.__init__` guarantees, C20) -/
theorem gen_append_timing_eq_model (t o : WTiming) (h : t.mode = .irregular → t.interval = none) :
    Gen.AppendTiming.append_timing t o = appendTiming t o := by
  unfold Gen.AppendTiming.append_timing appendTiming
  cases hm : t.mode with
  | none =>
    simp only [Gen.AppendTiming.none_append_timing]
    cases ho : o.mode <;> simp [ho]
  | regular =>
    simp only [Gen.AppendTiming.regular_append_timing]
    cases ho : o.mode <;> simp [ho]
  | irregular =>
    have hi := h hm
    simp only [Gen.AppendTiming.irregular_append_timing, createIrregular]
    by_cases ho : o.mode = .irregular
    · simp only [ho, ne_eq, not_true_eq_false, if_false]
      by_cases h1 : t.stamps = []
      · simp [h1]
      · by_cases h2 : o.stamps = []
        · simp [h1, h2]
        · simp only [h1, h2, if_false]
          by_cases hmono : Model.Timing.areMonotonic (t.stamps ++ o.stamps) = true
          · simp only [hmono, if_true, Except.map]
            congr 2
            cases t; simp_all
          · simp [hmono, Except.map]
    · simp [ho]

/-- **the generated `_append_timestamps` is the model's `appendTimestamps`** -/
theorem gen_append_timestamps_eq_model (t : WTiming) (ts : Option (List Int)) (ok : Bool) (h : t.mode = .irregular → t.interval = none) :
    Gen.AppendTiming.append_timestamps t ts ok = appendTimestamps t ts ok := by
  unfold Gen.AppendTiming.append_timestamps appendTimestamps
  cases hm : t.mode with
  | none => simp only [Gen.AppendTiming.none_append_timestamps]
  | regular => simp only [Gen.AppendTiming.regular_append_timestamps]
  | irregular =>
    have hi := h hm
    simp only [Gen.AppendTiming.irregular_append_timestamps, createIrregular]
    cases ts with
    | none => rfl
    | some l =>
      simp only
      by_cases hok : ok = true
      · simp only [hok, not_true_eq_false, if_false]
        by_cases hl : l = []
        · simp [hl]
        · simp only [hl, if_false]
          by_cases hmono : Model.Timing.areMonotonic (t.stamps ++ l) = true
          · simp only [hmono, if_true]
            congr 1
            cases t; simp_all
          · simp [hmono]
      · simp [hok]

end Props.C10
