/-
  C17 — DateTimeArray and TimeDeltaArray behave exactly like a list of their elements.
  `Model.BtArray` is the algorithm of the array classes; `Py.ListSpec` is Python's list.
-/
import NiVerif.Model.BtArray

namespace Props.C17
open Py.Slice Model.BtArray

/-! ### step-1 slice bounds -/

theorem clamp_bounds (x n : Int) (hn : 0 ≤ n) : 0 ≤ clamp x n 1 ∧ clamp x n 1 ≤ n := by
  unfold clamp
  split <;> (try split) <;> (try split) <;> (try split) <;> omega

theorem indices_step1 (start stop : Option Int) (step : Option Int) (len : Nat) (s e : Int)
    (h : indices start stop step len = .ok (s, e, 1)) : 0 ≤ s ∧ s ≤ len ∧ 0 ≤ e ∧ e ≤ len := by
  unfold indices at h
  simp only at h
  split at h
  · cases h
  · injection h with h
    injection h with h1 h2
    injection h2 with h2 h3
    have hst : step.getD 1 = 1 := h3
    rw [hst] at h1 h2
    have hn : (0 : Int) ≤ (len : Int) := by omega
    constructor
    · rw [← h1]; cases start with
      | none => simp
      | some x => exact (clamp_bounds x len hn).1
    constructor
    · rw [← h1]; cases start with
      | none => simp only [show ¬ ((1:Int) < 0) from by decide, if_false]; omega
      | some x => exact (clamp_bounds x len hn).2
    constructor
    · rw [← h2]; cases stop with
      | none => simp only [show ¬ ((1:Int) < 0) from by decide, if_false]; omega
      | some x => exact (clamp_bounds x len hn).1
    · rw [← h2]; cases stop with
      | none => simp
      | some x => exact (clamp_bounds x len hn).2

theorem rangeLen_step1 (s e : Int) (h : s ≤ e) : rangeLen s e 1 = (e - s).toNat := by
  unfold rangeLen
  simp only [show (1 : Int) > 0 from by decide, if_true]
  split
  · simp
  · omega

/-! ### strided assignment over consecutive indices is a contiguous replacement -/

theorem scatter_consecutive : ∀ (vs : List Int) (a : Arr) (s : Nat), s + vs.length ≤ a.length →
    Py.ListSpec.scatter a ((List.range vs.length).map fun (k : Nat) => (s : Int) + (k : Int) * 1) vs
      = a.take s ++ vs ++ a.drop (s + vs.length) := by
  intro vs
  induction vs with
  | nil => intro a s _; simp [Py.ListSpec.scatter]
  | cons v vs ih =>
    intro a s h
    simp only [List.length_cons] at h ⊢
    rw [List.range_succ_eq_map, List.map_cons, List.map_map]
    simp only [Py.ListSpec.scatter]
    have hf : ((fun (k : Nat) => (s : Int) + (k : Int) * 1) ∘ Nat.succ)
        = fun (k : Nat) => ((s + 1 : Nat) : Int) + (k : Int) * 1 := by
      funext k; simp only [Function.comp]; omega
    have h0 : ((s : Int) + ((0 : Nat) : Int) * 1).toNat = s := by omega
    rw [hf, h0, ih (a.set s v) (s + 1) (by simp; omega)]
    have hs : s < a.length := by omega
    rw [List.take_succ_eq_append_getElem (by simp; omega), List.take_set_of_le (Nat.le_refl s),
      List.drop_set_of_lt (by omega)]
    simp only [List.getElem_set_self, List.append_assoc, List.singleton_append]
    congr 3
    omega

/-! ### the operations refine Python's list -/

/-- slice assignment — any start/stop/step, replacement shorter, equal or longer than the selection -/
theorem setSlice_refines (a : Arr) (start stop step : Option Int) (vs : Arr) :
    Model.BtArray.setSlice a start stop step vs = Py.ListSpec.setSlice a start stop step vs := by
  unfold Model.BtArray.setSlice Py.ListSpec.setSlice
  cases hidx : indices start stop step a.length with
  | error e => rfl
  | ok r =>
    obtain ⟨s, e, st⟩ := r
    simp only [Except.bind]
    by_cases hst : st = 1
    · subst hst
      obtain ⟨b1, b2, b3, b4⟩ := indices_step1 start stop step a.length s e hidx
      simp only [ne_eq, not_true_eq_false, false_and, if_false, true_and, if_true]
      generalize he' : (if e < s then s else e) = e'
      have hb : s ≤ e' ∧ e' ≤ a.length ∧ 0 ≤ e' := by
        rw [← he']; split <;> omega
      have hsel : rangeLen s e' 1 = (e' - s).toNat := rangeLen_step1 s e' hb.1
      -- the model computes the selection size before normalising `stop`; it is the same number
      have hsel0 : rangeLen s e 1 = (e' - s).toNat := by
        rw [← he']
        split
        · rename_i hlt
          unfold rangeLen
          simp only [show (1 : Int) > 0 from by decide, if_true]
          rw [if_neg (by omega)]; omega
        · exact rangeLen_step1 s e (by omega)
      rw [hsel0]
      have hA : (a.take s.toNat).length = s.toNat := by simp; omega
      by_cases h1 : vs.length < (e' - s).toNat
      · -- shrink: assign the first `new` selected positions, then delete the rest of the selection
        rw [if_pos h1]
        congr 1
        unfold deleteRange assignRange
        have hL : (a.take s.toNat ++ vs).length = s.toNat + vs.length := by simp [hA]
        rw [List.take_left' hL]
        have hk : e'.toNat = (a.take s.toNat ++ vs).length + (e'.toNat - (s.toNat + vs.length)) := by omega
        rw [hk, List.drop_append, List.drop_drop]
        have : s.toNat + vs.length + (e'.toNat - (s.toNat + vs.length)) = e'.toNat := by omega
        rw [hL]
        simp only [Nat.add_sub_cancel_left]
        have hd : List.drop (s.toNat + vs.length + (e'.toNat - (s.toNat + vs.length))) (a.take s.toNat ++ vs) = [] := by
          apply List.drop_eq_nil_of_le; rw [hL]; omega
        rw [hd, this]; simp
      · rw [if_neg h1]
        by_cases h2 : vs.length > (e' - s).toNat
        · -- grow: assign the selection, insert the remaining values at `stop`
          rw [if_pos h2]
          congr 1
          unfold insertAt assignRange
          have hl : (vs.take (e' - s).toNat).length = (e' - s).toNat := by simp; omega
          have hL : (a.take s.toNat ++ vs.take (e' - s).toNat).length = e'.toNat := by simp [hA, hl]; omega
          have hse : s.toNat + (vs.take (e' - s).toNat).length = e'.toNat := by rw [hl]; omega
          rw [hse, List.take_left' hL, List.drop_left' hL]
          have htd := List.take_append_drop (e' - s).toNat vs
          simp only [List.append_assoc]
          rw [← List.append_assoc (vs.take _), htd]
        · -- equal length: strided assignment over s, s+1, …, e'-1
          rw [if_neg h2]
          have hlen : vs.length = (e' - s).toNat := by omega
          congr 1
          unfold rangeList
          rw [hsel, ← hlen]
          have hs : ((s.toNat : Nat) : Int) = s := by omega
          have := scatter_consecutive vs a s.toNat (by omega)
          rw [hs] at this
          rw [this]
          congr 2
          omega
    · -- extended slice: both sides check the length and assign element-wise
      simp only [hst, ne_eq, not_false_eq_true, true_and, false_and, if_false]
      by_cases hl : vs.length = rangeLen s e st
      · simp [hl]
      · simp [hl]

theorem insert_refines (a : Arr) (i x : Int) : Model.BtArray.insert a i x = Py.ListSpec.insert a i x := by
  unfold Model.BtArray.insert Py.ListSpec.insert insertAt
  simp only
  congr 2
  · congr 1
    split <;> split <;> omega
  · congr 1
    split <;> split <;> omega

theorem append_refines (a : Arr) (x : Int) : Model.BtArray.append a x = a ++ [x] := by
  unfold Model.BtArray.append
  rw [insert_refines]
  unfold Py.ListSpec.insert
  simp only
  rw [if_neg (by omega), if_neg (by omega)]
  simp

theorem item_ops_refine (a : Arr) (i x : Int) :
    Model.BtArray.getItem a i = Py.ListSpec.getItem a i
    ∧ Model.BtArray.setItem a i x = Py.ListSpec.setItem a i x
    ∧ Model.BtArray.delItem a i = Py.ListSpec.delItem a i
    ∧ Model.BtArray.indexOf a x = Py.ListSpec.indexOf a x := ⟨rfl, rfl, rfl, rfl⟩

theorem slice_read_delete_refine (a : Arr) (s e st : Option Int) :
    Model.BtArray.getSlice a s e st = Py.ListSpec.getSlice a s e st
    ∧ Model.BtArray.delSlice a s e st = Py.ListSpec.delSlice a s e st := ⟨rfl, rfl⟩

/-- `pop` (getitem then delitem) and `remove` (del self[self.index(v)]) are the list operations, with the list's
    errors: IndexError for an out-of-range / empty pop, ValueError for a missing value -/
theorem pop_refines (a : Arr) (i : Int) : Model.BtArray.pop a i = Py.ListSpec.pop a i := by
  unfold Model.BtArray.pop Py.ListSpec.pop getItem delItem npIndex Py.ListSpec.normIndex
  simp only
  generalize (if i < 0 then i + (a.length : Int) else i) = j
  by_cases hj : j < 0 ∨ j ≥ a.length
  · simp [hj, Except.bind, Except.map]
  · simp [hj, Except.bind, Except.map]

theorem remove_refines (a : Arr) (x : Int) : Model.BtArray.remove a x = Py.ListSpec.remove a x := by
  unfold Model.BtArray.remove Py.ListSpec.remove Model.BtArray.indexOf Py.ListSpec.indexOf delItem npIndex
  simp only
  split
  · rename_i hlt
    simp only [Except.bind, Except.map]
    rw [if_neg (by omega), if_neg (by omega)]
    simp
  · rfl

theorem errors_as_list (a : Arr) (i : Int) (h : i < -(a.length : Int) ∨ i ≥ a.length) :
    Model.BtArray.getItem a i = .error .IndexError ∧ Model.BtArray.pop a i = .error .IndexError
    ∧ Model.BtArray.delItem a i = .error .IndexError ∧ Model.BtArray.setItem a i 0 = .error .IndexError := by
  unfold Model.BtArray.pop getItem delItem setItem npIndex
  simp only
  have : (if i < 0 then i + ↑a.length else i) < 0 ∨ (if i < 0 then i + ↑a.length else i) ≥ ↑a.length := by
    split <;> omega
  simp [this, Except.map, Except.bind]

theorem zero_step_ValueError (a : Arr) (s e : Option Int) (vs : Arr) :
    Model.BtArray.setSlice a s e (some 0) vs = .error .ValueError
    ∧ Model.BtArray.delSlice a s e (some 0) = .error .ValueError
    ∧ Model.BtArray.getSlice a s e (some 0) = .error .ValueError := by
  unfold Model.BtArray.setSlice Model.BtArray.delSlice Model.BtArray.getSlice indices
  simp [Except.bind, Except.map]

-- non-vacuity: the two cases the pinned tree got wrong
example : Model.BtArray.setSlice [0, 1, 2, 3, 4] (some 3) (some 1) none [9] = .ok [0, 1, 2, 9, 3, 4] := by rfl
example : Model.BtArray.setSlice [0, 1, 2, 3, 4] none none (some (-1)) [9] = .error .ValueError := by rfl

end Props.C17
