/-
  C17 — DateTimeArray and TimeDeltaArray behave exactly like a list of their elements.
  `Model.BtArray` is the algorithm of the array classes; `Py.ListSpec` is Python's list.
-/
import NiVerif.Model.BtArray
import NiVerif.Gen.BtArray

namespace Props.C17
open Py.Slice Model.BtArray

/-! ### step-1 slice bounds -/

theorem clamp_bounds (x n : Int) (hn : 0 ≤ n) : 0 ≤ clamp x n 1 ∧ clamp x n 1 ≤ n := by
  unfold clamp
  split <;> (try split) <;> (try split) <;> (try split) <;> omega

theorem indices_step1 (start stop : Option Int) (step : Option Int) (len : Nat) (s e : Int)
    (h : indices start stop step len = .ok (s, e, 1)) : 0 ≤ s ∧ s ≤ len ∧ 0 ≤ e ∧ e ≤ len := by
  unfold indices at h
  simp only at h
  split at h
  · cases h
  · injection h with h
    injection h with h1 h2
    injection h2 with h2 h3
    have hst : step.getD 1 = 1 := h3
    rw [hst] at h1 h2
    have hn : (0 : Int) ≤ (len : Int) := by omega
    constructor
    · rw [← h1]; cases start with
      | none => simp
      | some x => exact (clamp_bounds x len hn).1
    constructor
    · rw [← h1]; cases start with
      | none => simp only [show ¬ ((1:Int) < 0) from by decide, if_false]; omega
      | some x => exact (clamp_bounds x len hn).2
    constructor
    · rw [← h2]; cases stop with
      | none => simp only [show ¬ ((1:Int) < 0) from by decide, if_false]; omega
      | some x => exact (clamp_bounds x len hn).1
    · rw [← h2]; cases stop with
      | none => simp
      | some x => exact (clamp_bounds x len hn).2

theorem rangeLen_step1 (s e : Int) (h : s ≤ e) : rangeLen s e 1 = (e - s).toNat := by
  unfold rangeLen
  simp only [show (1 : Int) > 0 from by decide, if_true]
  split
  · simp
  · omega

/-! ### strided assignment over consecutive indices is a contiguous replacement -/

theorem scatter_consecutive : ∀ (vs : List Int) (a : Arr) (s : Nat), s + vs.length ≤ a.length →
    Py.ListSpec.scatter a ((List.range vs.length).map fun (k : Nat) => (s : Int) + (k : Int) * 1) vs
      = a.take s ++ vs ++ a.drop (s + vs.length) := by
  intro vs
  induction vs with
  | nil => intro a s _; simp [Py.ListSpec.scatter]
  | cons v vs ih =>
    intro a s h
    simp only [List.length_cons] at h ⊢
    rw [List.range_succ_eq_map, List.map_cons, List.map_map]
    simp only [Py.ListSpec.scatter]
    have hf : ((fun (k : Nat) => (s : Int) + (k : Int) * 1) ∘ Nat.succ)
        = fun (k : Nat) => ((s + 1 : Nat) : Int) + (k : Int) * 1 := by
      funext k; simp only [Function.comp]; omega
    have h0 : ((s : Int) + ((0 : Nat) : Int) * 1).toNat = s := by omega
    rw [hf, h0, ih (a.set s v) (s + 1) (by simp; omega)]
    have hs : s < a.length := by omega
    rw [List.take_succ_eq_append_getElem (by simp; omega), List.take_set_of_le (Nat.le_refl s),
      List.drop_set_of_lt (by omega)]
    simp only [List.getElem_set_self, List.append_assoc, List.singleton_append]
    congr 3
    omega

/-! ### the operations refine Python's list -/

/-- slice assignment — any start/stop/step, replacement shorter, equal or longer than the selection -/
theorem setSlice_refines (a : Arr) (start stop step : Option Int) (vs : Arr) :
    Model.BtArray.setSlice a start stop step vs = Py.ListSpec.setSlice a start stop step vs := by
  unfold Model.BtArray.setSlice Py.ListSpec.setSlice
  cases hidx : indices start stop step a.length with
  | error e => rfl
  | ok r =>
    obtain ⟨s, e, st⟩ := r
    simp only [Except.bind]
    by_cases hst : st = 1
    · subst hst
      obtain ⟨b1, b2, b3, b4⟩ := indices_step1 start stop step a.length s e hidx
      simp only [ne_eq, not_true_eq_false, false_and, if_false, true_and, if_true]
      generalize he' : (if e < s then s else e) = e'
      have hb : s ≤ e' ∧ e' ≤ a.length ∧ 0 ≤ e' := by
        rw [← he']; split <;> omega
      have hsel : rangeLen s e' 1 = (e' - s).toNat := rangeLen_step1 s e' hb.1
      -- the model computes the selection size before normalising `stop`; it is the same number
      have hsel0 : rangeLen s e 1 = (e' - s).toNat := by
        rw [← he']
        split
        · rename_i hlt
          unfold rangeLen
          simp only [show (1 : Int) > 0 from by decide, if_true]
          rw [if_neg (by omega)]; omega
        · exact rangeLen_step1 s e (by omega)
      rw [hsel0]
      have hA : (a.take s.toNat).length = s.toNat := by simp; omega
      by_cases h1 : vs.length < (e' - s).toNat
      · -- shrink: assign the first `new` selected positions, then delete the rest of the selection
        rw [if_pos h1]
        congr 1
        unfold deleteRange assignRange
        have hL : (a.take s.toNat ++ vs).length = s.toNat + vs.length := by simp [hA]
        rw [List.take_left' hL]
        have hk : e'.toNat = (a.take s.toNat ++ vs).length + (e'.toNat - (s.toNat + vs.length)) := by omega
        rw [hk, List.drop_append, List.drop_drop]
        have : s.toNat + vs.length + (e'.toNat - (s.toNat + vs.length)) = e'.toNat := by omega
        rw [hL]
        simp only [Nat.add_sub_cancel_left]
        have hd : List.drop (s.toNat + vs.length + (e'.toNat - (s.toNat + vs.length))) (a.take s.toNat ++ vs) = [] := by
          apply List.drop_eq_nil_of_le; rw [hL]; omega
        rw [hd, this]; simp
      · rw [if_neg h1]
        by_cases h2 : vs.length > (e' - s).toNat
        · -- grow: assign the selection, insert the remaining values at `stop`
          rw [if_pos h2]
          congr 1
          unfold insertAt assignRange
          have hl : (vs.take (e' - s).toNat).length = (e' - s).toNat := by simp; omega
          have hL : (a.take s.toNat ++ vs.take (e' - s).toNat).length = e'.toNat := by simp [hA, hl]; omega
          have hse : s.toNat + (vs.take (e' - s).toNat).length = e'.toNat := by rw [hl]; omega
          rw [hse, List.take_left' hL, List.drop_left' hL]
          have htd := List.take_append_drop (e' - s).toNat vs
          simp only [List.append_assoc]
          rw [← List.append_assoc (vs.take _), htd]
        · -- equal length: strided assignment over s, s+1, …, e'-1
          rw [if_neg h2]
          have hlen : vs.length = (e' - s).toNat := by omega
          congr 1
          unfold rangeList
          rw [hsel, ← hlen]
          have hs : ((s.toNat : Nat) : Int) = s := by omega
          have := scatter_consecutive vs a s.toNat (by omega)
          rw [hs] at this
          rw [this]
          congr 2
          omega
    · -- extended slice: both sides check the length and assign element-wise
      simp only [hst, ne_eq, not_false_eq_true, true_and, false_and, if_false]
      by_cases hl : vs.length = rangeLen s e st
      · simp [hl]
      · simp [hl]

theorem insert_refines (a : Arr) (i x : Int) : Model.BtArray.insert a i x = Py.ListSpec.insert a i x := by
  unfold Model.BtArray.insert Py.ListSpec.insert insertAt
  simp only
  congr 2
  · congr 1
    split <;> split <;> omega
  · congr 1
    split <;> split <;> omega

theorem append_refines (a : Arr) (x : Int) : Model.BtArray.append a x = a ++ [x] := by
  unfold Model.BtArray.append
  rw [insert_refines]
  unfold Py.ListSpec.insert
  simp only
  rw [if_neg (by omega), if_neg (by omega)]
  simp

theorem item_ops_refine (a : Arr) (i x : Int) :
    Model.BtArray.getItem a i = Py.ListSpec.getItem a i
    ∧ Model.BtArray.setItem a i x = Py.ListSpec.setItem a i x
    ∧ Model.BtArray.delItem a i = Py.ListSpec.delItem a i
    ∧ Model.BtArray.indexOf a x = Py.ListSpec.indexOf a x := ⟨rfl, rfl, rfl, rfl⟩

theorem slice_read_delete_refine (a : Arr) (s e st : Option Int) :
    Model.BtArray.getSlice a s e st = Py.ListSpec.getSlice a s e st
    ∧ Model.BtArray.delSlice a s e st = Py.ListSpec.delSlice a s e st := ⟨rfl, rfl⟩

/-- `pop` (getitem then delitem) and `remove` (del self[self.index(v)]) are the list operations, with the list's
    errors: IndexError for an out-of-range / empty pop, ValueError for a missing value -/
theorem pop_refines (a : Arr) (i : Int) : Model.BtArray.pop a i = Py.ListSpec.pop a i := by
  unfold Model.BtArray.pop Py.ListSpec.pop getItem delItem npIndex Py.ListSpec.normIndex
  simp only
  generalize (if i < 0 then i + (a.length : Int) else i) = j
  by_cases hj : j < 0 ∨ j ≥ a.length
  · simp [hj, Except.bind, Except.map]
  · simp [hj, Except.bind, Except.map]

theorem remove_refines (a : Arr) (x : Int) : Model.BtArray.remove a x = Py.ListSpec.remove a x := by
  unfold Model.BtArray.remove Py.ListSpec.remove Model.BtArray.indexOf Py.ListSpec.indexOf delItem npIndex
  simp only
  split
  · rename_i hlt
    simp only [Except.bind, Except.map]
    rw [if_neg (by omega), if_neg (by omega)]
    simp
  · rfl

theorem errors_as_list (a : Arr) (i : Int) (h : i < -(a.length : Int) ∨ i ≥ a.length) :
    Model.BtArray.getItem a i = .error .IndexError ∧ Model.BtArray.pop a i = .error .IndexError
    ∧ Model.BtArray.delItem a i = .error .IndexError ∧ Model.BtArray.setItem a i 0 = .error .IndexError := by
  unfold Model.BtArray.pop getItem delItem setItem npIndex
  simp only
  have : (if i < 0 then i + ↑a.length else i) < 0 ∨ (if i < 0 then i + ↑a.length else i) ≥ ↑a.length := by
    split <;> omega
  simp [this, Except.map, Except.bind]

theorem zero_step_ValueError (a : Arr) (s e : Option Int) (vs : Arr) :
    Model.BtArray.setSlice a s e (some 0) vs = .error .ValueError
    ∧ Model.BtArray.delSlice a s e (some 0) = .error .ValueError
    ∧ Model.BtArray.getSlice a s e (some 0) = .error .ValueError := by
  unfold Model.BtArray.setSlice Model.BtArray.delSlice Model.BtArray.getSlice indices
  simp [Except.bind, Except.map]

-- non-vacuity: the two cases the pinned tree got wrong
example : Model.BtArray.setSlice [0, 1, 2, 3, 4] (some 3) (some 1) none [9] = .ok [0, 1, 2, 9, 3, 4] := by rfl
example : Model.BtArray.setSlice [0, 1, 2, 3, 4] none none (some (-1)) [9] = .error .ValueError := by rfl

/-! ### T17: the methods regenerated from `_timedelta_array.py` / `_datetime_array.py` are the model's -/

theorem gen_delitem_int_eq_model (a : Arr) (i : Int) : Gen.BtArray.delitem_int a i = Model.BtArray.delItem a i := by
  unfold Gen.BtArray.delitem_int Model.Np1.deleteAt
  cases Model.BtArray.delItem a i <;> rfl

theorem gen_delitem_slice_eq_model (a : Arr) (s e st : Option Int) : Gen.BtArray.delitem_slice a s e st = Model.BtArray.delSlice a s e st := by
  unfold Gen.BtArray.delitem_slice Model.Np1.delete
  cases Model.BtArray.delSlice a s e st <;> rfl

theorem gen_insert_eq_model (a : Arr) (i x : Int) : Gen.BtArray.insert a i x = .ok (Model.BtArray.insert a i x) := by
  unfold Gen.BtArray.insert Model.Np1.insert Model.BtArray.insert
  simp only [Except.bind]
  have h : ¬ (min (max i (-(a.length : Int))) (a.length : Int) < -(a.length : Int) ∨ min (max i (-(a.length : Int))) (a.length : Int) > (a.length : Int)) := by omega
  simp only [h, if_false]

/-- which indices a step-1 range holds -/
theorem contains_range1 (x y i : Int) : (rangeList x y 1).contains i = decide (x ≤ i ∧ i < y) := by
  unfold rangeList rangeLen
  simp only [show (1 : Int) > 0 from by decide, if_true]
  apply Bool.eq_iff_iff.mpr
  simp only [List.contains_iff_mem, List.mem_map, List.mem_range, decide_eq_true_eq]
  constructor
  · rintro ⟨k, hk, rfl⟩
    split at hk <;> omega
  · intro h
    refine ⟨(i - x).toNat, ?_, by omega⟩
    split <;> omega

/-- keeping the positions outside [x, y) is take ++ drop -/
theorem filter_outside (x y : Nat) (hxy : x ≤ y) : ∀ (l : List Int) (k : Nat),
    (((l.zipIdx k).filter fun p => !(decide ((x : Int) ≤ (p.2 : Int) ∧ (p.2 : Int) < (y : Int)))).map (·.1))
      = l.take (x - k) ++ l.drop (y - k) := by
  intro l
  induction l with
  | nil => intro k; simp
  | cons v l ih =>
    intro k
    simp only [List.zipIdx_cons, List.filter_cons]
    by_cases h1 : k < x
    · have : decide ((x : Int) ≤ (k : Int) ∧ (k : Int) < (y : Int)) = false := by simp; omega
      simp only [this, Bool.not_false, if_true, List.map_cons, ih (k + 1)]
      have e1 : x - k = (x - (k + 1)) + 1 := by omega
      have e2 : y - k = (y - (k + 1)) + 1 := by omega
      rw [e1, e2, List.take_succ_cons, List.drop_succ_cons, List.cons_append]
    · by_cases h2 : k < y
      · have : decide ((x : Int) ≤ (k : Int) ∧ (k : Int) < (y : Int)) = true := by simp; omega
        simp only [this, Bool.not_true, Bool.false_eq_true, if_false, ih (k + 1)]
        have e1 : x - k = 0 := by omega
        have e1' : x - (k + 1) = 0 := by omega
        have e2 : y - k = (y - (k + 1)) + 1 := by omega
        rw [e1, e1', e2, List.drop_succ_cons]
        simp
      · have : decide ((x : Int) ≤ (k : Int) ∧ (k : Int) < (y : Int)) = false := by simp; omega
        simp only [this, Bool.not_false, if_true, List.map_cons, ih (k + 1)]
        have e1 : x - k = 0 := by omega
        have e1' : x - (k + 1) = 0 := by omega
        have e2 : y - k = 0 := by omega
        have e2' : y - (k + 1) = 0 := by omega
        rw [e1, e1', e2, e2']
        simp

/-- `slice(x, y).indices(len)` for 0 ≤ x ≤ len, 0 ≤ y ≤ len -/
theorem indices_some_some (x y : Int) (len : Nat) (hx0 : 0 ≤ x) (hx : x ≤ len) (hy0 : 0 ≤ y) (hy : y ≤ len) :
    indices (some x) (some y) none len = .ok (x, y, 1) := by
  unfold indices clamp
  simp only [Option.getD_none, show ¬ ((1 : Int) = 0) from by decide, if_false, show ¬ ((1:Int) < 0) from by decide]
  have h1 : ¬ x < 0 := by omega
  have h2 : ¬ y < 0 := by omega
  simp only [h1, h2, if_false]
  congr 1
  refine Prod.ext ?_ (Prod.ext ?_ rfl)
  · simp only; split <;> omega
  · simp only; split <;> omega

/-- `np.delete(a, slice(x, y))` for 0 ≤ x ≤ y ≤ len is `deleteRange` -/
theorem delSlice_contiguous (a : Arr) (x y : Int) (hx0 : 0 ≤ x) (hxy : x ≤ y) (hy : y ≤ a.length) :
    Model.BtArray.delSlice a (some x) (some y) none = .ok (deleteRange a x.toNat y.toNat) := by
  unfold Model.BtArray.delSlice
  rw [indices_some_some x y a.length hx0 (by omega) (by omega) hy]
  simp only [Except.map, deleteRange]
  congr 1
  have hfun : (fun (p : Int × Nat) => !(rangeList x y 1).contains (p.2 : Int))
      = fun (p : Int × Nat) => !(decide (((x.toNat : Nat) : Int) ≤ (p.2 : Int) ∧ (p.2 : Int) < ((y.toNat : Nat) : Int))) := by
    funext p
    rw [contains_range1]
    have e1 : ((x.toNat : Nat) : Int) = x := by omega
    have e2 : ((y.toNat : Nat) : Int) = y := by omega
    rw [e1, e2]
  rw [hfun]
  have := filter_outside x.toNat y.toNat (by omega) a 0
  simpa using this

/-- `a[x:x+n] = vs` with `len vs = n` inside the array is `assignRange` -/
theorem setSlice_contiguous (a : Arr) (x : Int) (vs : List Int) (hx0 : 0 ≤ x) (hfit : x + vs.length ≤ a.length) :
    Model.Np1.setSlice a (some x) (some (x + vs.length)) none vs = .ok (assignRange a x.toNat vs) := by
  unfold Model.Np1.setSlice
  rw [indices_some_some x (x + vs.length) a.length hx0 (by omega) (by omega) hfit]
  simp only [Except.bind]
  have hn : rangeLen x (x + vs.length) 1 = vs.length := by
    rw [rangeLen_step1 x (x + vs.length) (by omega)]; omega
  simp only [hn, if_true]
  unfold rangeList
  rw [hn]
  have hx : x = ((x.toNat : Nat) : Int) := by omega
  have := scatter_consecutive vs a x.toNat (by omega)
  rw [hx] at *
  simp only [Int.toNat_natCast] at this ⊢
  rw [this]
  rfl

theorem length_assignRange (a : Arr) (s : Nat) (vs : List Int) (h : s + vs.length ≤ a.length) : (assignRange a s vs).length = a.length := by
  unfold assignRange
  simp only [List.length_append, List.length_take, List.length_drop]
  omega

theorem rangeList_empty (s e : Int) (h : e ≤ s) : rangeList s e 1 = [] := by
  unfold rangeList rangeLen
  simp only [show (1 : Int) > 0 from by decide, if_true]
  have : ¬ s < e := by omega
  simp [this]

/-- **the generated slice assignment is the model's `setSlice`** (hence, by `setSlice_refines`, Python's list slice assignment):
    the length check of extended slices, `stop = start` for an empty step-1 selection, and the three branches - shrink (assign the
    first positions, delete the rest), grow (assign the selection, `np.insert` the rest at `stop`), equal (strided assignment) -/
theorem gen_setitem_slice_eq_model (a : Arr) (i0 i1 i2 : Option Int) (vs : List Int) :
    Gen.BtArray.setitem_slice a i0 i1 i2 vs = Model.BtArray.setSlice a i0 i1 i2 vs := by
  unfold Gen.BtArray.setitem_slice Model.BtArray.setSlice
  cases hidx : indices i0 i1 i2 a.length with
  | error err => rfl
  | ok r =>
    obtain ⟨s, e, st⟩ := r
    simp only [Except.bind]
    by_cases hlen : st ≠ 1 ∧ (vs.length : Int) ≠ ((rangeLen s e st : Nat) : Int)
    · have hlen' : st ≠ 1 ∧ vs.length ≠ rangeLen s e st := ⟨hlen.1, by omega⟩
      rw [if_pos hlen, if_pos hlen']
    · have hlen' : ¬ (st ≠ 1 ∧ vs.length ≠ rangeLen s e st) := by
        intro h; exact hlen ⟨h.1, by omega⟩
      rw [if_neg hlen, if_neg hlen']
      by_cases hsh : (vs.length : Int) < ((rangeLen s e st : Nat) : Int)
      · -- shrink: step 1, a non-empty selection
        have hst : st = 1 := by
          by_cases h : st = 1
          · exact h
          · exact absurd ⟨h, by omega⟩ hlen
        subst hst
        obtain ⟨hs0, hsl, he0, hel⟩ := indices_step1 i0 i1 i2 a.length s e hidx
        have hse : s < e := by
          by_cases h : s < e
          · exact h
          · have : rangeLen s e 1 = 0 := by unfold rangeLen; simp; omega
            omega
        have hrl : rangeLen s e 1 = (e - s).toNat := rangeLen_step1 s e (by omega)
        have hstop : (if (1 : Int) = 1 ∧ e < s then s else e) = e := by
          have : ¬ ((1 : Int) = 1 ∧ e < s) := by omega
          rw [if_neg this]
        have hsh' : vs.length < rangeLen s e 1 := by omega
        rw [hstop, if_pos hsh, if_pos hsh']
        rw [setSlice_contiguous a s vs hs0 (by omega)]
        simp only
        rw [gen_delitem_slice_eq_model, delSlice_contiguous _ (s + vs.length) e (by omega) (by omega)
          (by rw [length_assignRange a s.toNat vs (by omega)]; exact hel)]
        simp only
        congr 2
        omega
      · rw [if_neg hsh]
        have hsh' : ¬ vs.length < rangeLen s e st := by omega
        rw [if_neg hsh']
        by_cases hgr : (vs.length : Int) > ((rangeLen s e st : Nat) : Int)
        · -- grow: step 1
          have hst : st = 1 := by
            by_cases h : st = 1
            · exact h
            · exact absurd ⟨h, by omega⟩ hlen
          subst hst
          obtain ⟨hs0, hsl, he0, hel⟩ := indices_step1 i0 i1 i2 a.length s e hidx
          have hgr' : vs.length > rangeLen s e 1 := by omega
          rw [if_pos hgr, if_pos hgr']
          -- the adjusted stop
          generalize hstop : (if (1 : Int) = 1 ∧ e < s then s else e) = e'
          have he' : s ≤ e' ∧ e' ≤ a.length ∧ 0 ≤ e' := by
            subst hstop; split <;> omega
          have hsel : rangeLen s e 1 = (e' - s).toNat := by
            subst hstop
            split
            · rename_i h
              have : rangeLen s e 1 = 0 := by unfold rangeLen; simp; omega
              omega
            · rw [rangeLen_step1 s e (by omega)]
          have htake : (vs.take (rangeLen s e 1)).length = rangeLen s e 1 := by
            rw [List.length_take]; omega
          have hcast : ((rangeLen s e 1 : Nat) : Int).toNat = rangeLen s e 1 := by omega
          rw [hcast]
          have hstop2 : e' = s + ((vs.take (rangeLen s e 1)).length : Int) := by rw [htake, hsel]; omega
          have hfit : s + ((vs.take (rangeLen s e 1)).length : Int) ≤ (a.length : Int) := by rw [← hstop2]; exact he'.2.1
          have hA := setSlice_contiguous a s (vs.take (rangeLen s e 1)) hs0 hfit
          rw [← hstop2] at hA
          rw [hA]
          simp only
          unfold Model.Np1.insert
          rw [length_assignRange a s.toNat _ (by rw [htake, hsel]; omega)]
          have hok : ¬ (e' < -(a.length : Int) ∨ e' > (a.length : Int)) := by omega
          have hpos : ¬ (e' < 0) := by omega
          simp only [hok, hpos, if_false]
        · -- equal lengths: the original slice, strided
          have hgr' : ¬ vs.length > rangeLen s e st := by omega
          rw [if_neg hgr, if_neg hgr']
          unfold Model.Np1.setSlice
          rw [hidx]
          simp only [Except.bind]
          have heq : vs.length = rangeLen s e st := by omega
          rw [if_pos heq]
          -- the model reads the adjusted stop; for an empty step-1 selection both ranges are empty
          by_cases hadj : st = 1 ∧ e < s
          · rw [if_pos hadj]
            obtain ⟨h1, h2⟩ := hadj
            subst h1
            rw [rangeList_empty s e (by omega), rangeList_empty s s (by omega)]
          · rw [if_neg hadj]



/-! ### T27: integer indexing of the generated array classes -/

/-- `_validate_index` accepts exactly the indices of the array, for every integer whatever its size -/
theorem gen_validate_index_spec (a : Arr) (i : Int) :
    Gen.BtArray.validate_index a i = if -(a.length : Int) ≤ i ∧ i < (a.length : Int) then .ok i else .error .IndexError := by
  unfold Gen.BtArray.validate_index
  by_cases h : -(a.length : Int) ≤ i ∧ i < (a.length : Int) <;> simp [h]

theorem getItem_out_of_range (a : Arr) (i : Int) (h : ¬ (-(a.length : Int) ≤ i ∧ i < (a.length : Int))) :
    getItem a i = .error .IndexError ∧ ∀ x, setItem a i x = .error .IndexError := by
  unfold getItem setItem npIndex
  have : (if i < 0 then i + (a.length : Int) else i) < 0 ∨ (if i < 0 then i + (a.length : Int) else i) ≥ (a.length : Int) := by
    by_cases hi : i < 0 <;> simp only [hi, if_true, if_false] <;> omega
  simp only [this, if_true]
  exact ⟨rfl, fun _ => rfl⟩

theorem cIndex_in_range (a : Arr) (i : Int) (h : -(a.length : Int) ≤ i ∧ i < (a.length : Int)) (hl : (a.length : Int) ≤ 2 ^ 63) :
    Model.Np1.cIndex i = .ok i := by
  unfold Model.Np1.cIndex
  have : ¬ ((2 : Int) ^ 63 ≤ i ∧ i < (2 : Int) ^ 64) := by omega
  simp only [this, if_false]

/-- **Integer indexing is list indexing.**  For every array (of any length NumPy can hold) and every Python int - beyond the C integer
    ranges included, where NumPy's own index conversion raises OverflowError - `a[i]` is the list's element or IndexError … -/
theorem gen_getitem_int_eq_model (a : Arr) (i : Int) (hl : (a.length : Int) ≤ 2 ^ 63) :
    Gen.BtArray.getitem_int a i = getItem a i := by
  unfold Gen.BtArray.getitem_int
  rw [gen_validate_index_spec]
  by_cases h : -(a.length : Int) ≤ i ∧ i < (a.length : Int)
  · simp only [h, and_self, if_true, Except.bind, Model.Np1.getAt, cIndex_in_range a i h hl]
  · simp only [h, if_false, Except.bind, (getItem_out_of_range a i h).1]

/-- … and `a[i] = x` replaces that element or raises IndexError, leaving the array as it was -/
theorem gen_setitem_at_eq_model (a : Arr) (i x : Int) (hl : (a.length : Int) ≤ 2 ^ 63) :
    Gen.BtArray.setitem_int a i x = setItem a i x := by
  unfold Gen.BtArray.setitem_int
  rw [gen_validate_index_spec]
  by_cases h : -(a.length : Int) ≤ i ∧ i < (a.length : Int)
  · simp only [h, and_self, if_true, Except.bind, Model.Np1.setAt, cIndex_in_range a i h hl]
  · simp only [h, if_false, Except.bind, (getItem_out_of_range a i h).2 x]

/-- never an OverflowError: the window [2^63, 2^64) in which NumPy's conversion fails is answered by the range check first -/
theorem gen_int_index_never_overflows (a : Arr) (i x : Int) (hl : (a.length : Int) ≤ 2 ^ 63) :
    Gen.BtArray.getitem_int a i ≠ .error .OverflowError ∧ Gen.BtArray.setitem_int a i x ≠ .error .OverflowError := by
  rw [gen_getitem_int_eq_model a i hl, gen_setitem_at_eq_model a i x hl]
  have hnp : ∀ e, npIndex a i = .error e → e = .IndexError := by
    intro e he; unfold npIndex at he; simp only at he
    by_cases hc : (if i < 0 then i + (a.length : Int) else i) < 0 ∨ (if i < 0 then i + (a.length : Int) else i) ≥ (a.length : Int)
    · rw [if_pos hc] at he; injection he with he; exact he.symm
    · rw [if_neg hc] at he; cases he
  unfold getItem setItem
  constructor <;> (cases hn : npIndex a i with
    | ok v => simp [Except.map]
    | error e => simp [Except.map, hnp e hn])

/-- without the range check the raw NumPy indexing does fail there (non-vacuity of the statement above) -/
example : Model.Np1.getAt [1, 2, 3] (2 ^ 63) = .error .OverflowError := by decide
example : Gen.BtArray.getitem_int [1, 2, 3] (2 ^ 63) = .error .IndexError ∧ Gen.BtArray.getitem_int [1, 2, 3] (-1) = .ok 3 := by decide
end Props.C17
