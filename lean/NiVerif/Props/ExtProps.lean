/-
  `ExtendedPropertyDictionary` (translator tier T14): theorems over `Gen/ExtProps.lean`, which is regenerated from
  `nitypes/waveform/_extended_properties.py` on every run — the class is read as a whole (method inventory, canonical readers,
  `__init__`, `__reduce__`, `_notify_on_key_changed`; the writers `__setitem__`, `__delitem__`, `_merge` statement by statement
  as functions from the dictionary to the new dictionary and the keys notified, in order).

  Used by C10 (what an append merges), C15 (every write of NI_LineNames reaches the listeners, so the name cache of the hand
  model `Model/Names.lean` is dropped exactly when the source says so) and C13 (`__reduce__` pickles the dictionary only).
  Tie of `Py/Dict.lean` and of the generated writers to the real class: tools/props/extprops_harness.py.
-/
import NiVerif.Gen.ExtProps
import NiVerif.Model.Wfm

namespace Props.ExtProps
open Py.Dict

/-- one iteration of the generated `_merge` loop -/
def mergeStep (st : D × List String) (kv : String × String) : D × List String :=
  if ¬ (contains st.1 kv.1 = true) then (set st.1 kv.1 kv.2, st.2 ++ [kv.1]) else st

theorem merge_unfold (p o : D) : Gen.ExtProps.merge p o = o.foldl mergeStep (p, []) := by
  unfold Gen.ExtProps.merge
  rfl

theorem set_absent (d : D) (k v : String) (h : contains d k = false) : Py.Dict.set d k v = d ++ [(k, v)] := by
  simp [Py.Dict.set, h]

theorem contains_append (d : D) (kv : String × String) (k : String) :
    contains (d ++ [kv]) k = (contains d k || kv.1 == k) := by
  simp [contains, List.any_append]

theorem contains_cons (kv : String × String) (o : D) (k : String) :
    contains (kv :: o) k = (kv.1 == k || contains o k) := by
  simp [contains]

theorem contains_nil (k : String) : contains [] k = false := rfl

/-- **the generated `_merge` computes the model's `mergeProps`** (keys the receiver lacks, first writer wins, insertion order) -/
theorem gen_merge_eq_model (p o : D) : (Gen.ExtProps.merge p o).1 = Model.Wfm.mergeProps p o := by
  rw [merge_unfold]
  unfold Model.Wfm.mergeProps
  suffices h : ∀ (n : List String), (o.foldl mergeStep (p, n)).1
      = o.foldl (fun acc kv => if acc.any (fun x => x.1 == kv.1) then acc else acc ++ [kv]) p from h []
  induction o generalizing p with
  | nil => intro n; rfl
  | cons kv o ih =>
    intro n
    simp only [List.foldl_cons]
    by_cases hc : contains p kv.1 = true
    · have : mergeStep (p, n) kv = (p, n) := by simp [mergeStep, hc]
      rw [this, ih]
      have hc' : (p.any fun x => x.1 == kv.1) = true := hc
      simp [hc']
    · have hf : contains p kv.1 = false := by simpa using hc
      have : mergeStep (p, n) kv = (p ++ [kv], n ++ [kv.1]) := by simp [mergeStep, hf, set_absent]
      rw [this, ih]
      have hc' : (p.any fun x => x.1 == kv.1) = false := hf
      simp [hc']

/-- a key is notified by `_merge` exactly when a source has it and the receiver lacked it -/
theorem merge_notes_mem (o : D) : ∀ (d : D) (n : List String) (k : String),
    k ∈ (o.foldl mergeStep (d, n)).2 ↔ (k ∈ n ∨ (contains o k = true ∧ contains d k = false)) := by
  induction o with
  | nil => intro d n k; simp [contains_nil]
  | cons kv o ih =>
    intro d n k
    simp only [List.foldl_cons]
    by_cases hc : contains d kv.1 = true
    · have : mergeStep (d, n) kv = (d, n) := by simp [mergeStep, hc]
      rw [this, ih, contains_cons]
      by_cases hk : kv.1 = k
      · subst hk; simp [hc]
      · have hb : (kv.1 == k) = false := by simpa using hk
        simp [hb]
    · have hf : contains d kv.1 = false := by simpa using hc
      have : mergeStep (d, n) kv = (d ++ [kv], n ++ [kv.1]) := by simp [mergeStep, hf, set_absent]
      rw [this, ih, contains_append, contains_cons]
      by_cases hk : kv.1 = k
      · subst hk; simp [hf]
      · have hb : (kv.1 == k) = false := by simpa using hk
        have hne : ¬ k = kv.1 := fun h => hk h.symm
        simp [hb, hne]

/-- **which keys `_merge` notifies**: exactly those a source has and the receiver lacked — so the digital name cache is dropped
    by an append exactly when NI_LineNames is *added*, which is the condition `Model.Wfm.mergeInto` uses -/
theorem gen_merge_notifies_iff (p o : D) (k : String) :
    k ∈ (Gen.ExtProps.merge p o).2 ↔ (contains o k = true ∧ contains p k = false) := by
  rw [merge_unfold, merge_notes_mem]; simp

theorem gen_merge_line_names (p o : D) :
    decide (Model.Wfm.LINE_NAMES ∈ (Gen.ExtProps.merge p o).2)
      = (o.any (fun kv => kv.1 == Model.Wfm.LINE_NAMES) && !(p.any (fun kv => kv.1 == Model.Wfm.LINE_NAMES))) := by
  have h := gen_merge_notifies_iff p o Model.Wfm.LINE_NAMES
  unfold contains at h
  cases ho : o.any (fun kv => kv.1 == Model.Wfm.LINE_NAMES) <;> cases hp : p.any (fun kv => kv.1 == Model.Wfm.LINE_NAMES) <;>
    simp [ho, hp] at h ⊢ <;> exact h

/-- every write notifies exactly its key (the listeners drop what they cached for it) -/
theorem gen_setitem_notifies (p : D) (k v : String) : Gen.ExtProps.setitem p k v = (Py.Dict.set p k v, [k]) := rfl

theorem gen_delitem_notifies (p : D) (k : String) :
    Gen.ExtProps.delitem p k = (del p k).map (fun d => (d, [k])) := by
  cases h : del p k <;> simp [Gen.ExtProps.delitem, h, Except.bind, Except.map]

theorem init_fold (p : D) : ∀ (acc : D), (∀ kv ∈ p, contains acc kv.1 = false) → p.Pairwise (fun a b => a.1 ≠ b.1) →
    p.foldl (fun d kv => Py.Dict.set d kv.1 kv.2) acc = acc ++ p := by
  induction p with
  | nil => intro acc _ _; simp
  | cons kv p ih =>
    intro acc hacc hp
    simp only [List.foldl_cons]
    rw [set_absent acc kv.1 kv.2 (hacc kv (by simp))]
    rw [List.pairwise_cons] at hp
    rw [ih (acc ++ [(kv.1, kv.2)]) ?_ hp.2]
    · simp
    · intro x hx
      rw [contains_append]
      have h1 := hacc x (by simp [hx])
      have h2 : ((kv.1, kv.2).1 == x.1) = false := by
        have := hp.1 x hx
        simpa using this
      simp [h1, h2]

/-- **a new dictionary holds a copy of the mapping's entries, in order** (a Python mapping has pairwise distinct keys); C12's copy
    rule for extended properties starts here: the constructor never keeps the caller's dict -/
theorem gen_init_copies (p : D) (h : p.Pairwise (fun a b => a.1 ≠ b.1)) : Gen.ExtProps.init (some p) = p := by
  unfold Gen.ExtProps.init
  simpa using init_fold p [] (fun kv _ => rfl) h

theorem gen_init_empty : Gen.ExtProps.init none = [] := rfl

end Props.ExtProps
