/-
  C15 — Digital signal names always reflect the NI_LineNames property.
-/
import NiVerif.Model.Names
import NiVerif.Gen.Names

namespace Props.C15
open Model.Names

/-- the cache, when present, is exactly the parse of the current property value -/
def NInv (n : N) : Prop := n.cache = none ∨ n.cache = some (parse n.prop n.nsig)

theorem names_spec (n : N) (h : NInv n) : (names n).2 = parse n.prop n.nsig ∧ NInv (names n).1
    ∧ (names n).1.prop = n.prop ∧ (names n).1.nsig = n.nsig := by
  unfold names
  rcases h with h | h
  · rw [h]; exact ⟨rfl, Or.inr rfl, rfl, rfl⟩
  · rw [h]; exact ⟨rfl, Or.inr h, rfl, rfl⟩

/-- a name read returns the (signal_count-1-i)-th entry of the current NI_LineNames value ('' when there is none)
    and keeps the invariant -/
theorem read_reflects (n : N) (i : Nat) (h : NInv n) :
    (readName n i).2 = (parse n.prop n.nsig).getD (n.nsig - 1 - i) [] ∧ NInv (readName n i).1
    ∧ (readName n i).1.prop = n.prop ∧ (readName n i).1.nsig = n.nsig := by
  obtain ⟨h1, h2, h3, h4⟩ := names_spec n h
  unfold readName
  simp only
  rw [h1]
  exact ⟨rfl, h2, h3, h4⟩

theorem inv_init (k : Nat) (p : Option Str) : NInv ⟨k, p, none⟩ := Or.inl rfl
theorem inv_setProp (n : N) (v : Option Str) : NInv (setProp n v) := Or.inl rfl
theorem inv_writeName (n : N) (i : Nat) (v : Str) : NInv (writeName n i v) := Or.inl rfl
theorem inv_pickle (n : N) : NInv (pickle n) := Or.inl rfl
theorem inv_mergeProp (n : N) (v : Option Str) (h : NInv n) : NInv (mergeProp n v) := by
  unfold mergeProp
  split
  · exact Or.inl rfl
  · exact h
theorem inv_lookup (n : N) (x : Str) (h : NInv n) : NInv (lookup n x).1 := by
  obtain ⟨_, h2, _, _⟩ := names_spec n h
  unfold lookup
  simp only
  split <;> exact h2

/-- all the operations of a history (reads populate the cache; writes, dictionary writes/deletes and merges notify) -/
inductive Op where
  | read (i : Nat) | write (i : Nat) (v : Str) | setProp (v : Option Str) | merge (v : Option Str) | pickle
  | lookup (x : Str)

def step (n : N) : Op → N
  | .read i => (readName n i).1
  | .write i v => writeName n i v
  | .setProp v => Model.Names.setProp n v
  | .merge v => mergeProp n v
  | .pickle => Model.Names.pickle n
  | .lookup x => (Model.Names.lookup n x).1

theorem inv_step (n : N) (op : Op) (h : NInv n) : NInv (step n op) := by
  cases op with
  | read i => exact (read_reflects n i h).2.1
  | write i v => exact inv_writeName n i v
  | setProp v => exact inv_setProp n v
  | merge v => exact inv_mergeProp n v h
  | pickle => exact inv_pickle n
  | lookup x => exact inv_lookup n x h

/-- for every history (any interleaving of reads, writes, property writes/deletes, merges, pickling):
    signals[i].name is the (signal_count-1-i)-th trimmed entry of the *current* NI_LineNames value -/
theorem name_reflects_property (ops : List Op) (k : Nat) (p : Option Str) (i : Nat) :
    let n := ops.foldl step ⟨k, p, none⟩
    (readName n i).2 = (parse n.prop n.nsig).getD (n.nsig - 1 - i) [] := by
  have hinv : ∀ (ops : List Op) (n : N), NInv n → NInv (ops.foldl step n) := by
    intro ops
    induction ops with
    | nil => intro n h; exact h
    | cons op ops ih => intro n h; exact ih _ (inv_step n op h)
  exact (read_reflects _ i (hinv ops _ (inv_init k p))).1

/-! ### parse ∘ join -/

theorem splitComma_ne_nil (s : Str) : splitComma s ≠ [] := by
  induction s with
  | nil => simp [splitComma]
  | cons c cs ih =>
    unfold splitComma
    split
    · simp
    · split
      · simp
      · simp

/-- a name is clean: no comma, no leading or trailing whitespace -/
def Clean (s : Str) : Prop := ',' ∉ s ∧ strip s = s

theorem splitComma_cons (c : Char) (cs : Str) (hc : c ≠ ',') :
    splitComma (c :: cs) = (c :: (splitComma cs).headD []) :: (splitComma cs).tail := by
  have h : splitComma (c :: cs) = (if c = ',' then [] :: splitComma cs
      else match splitComma cs with | [] => [[c]] | h :: t => (c :: h) :: t) := rfl
  rw [h, if_neg hc]
  cases hs : splitComma cs with
  | nil => exact absurd hs (splitComma_ne_nil cs)
  | cons a b => rfl

theorem splitComma_comma (cs : Str) : splitComma (',' :: cs) = [] :: splitComma cs := rfl

theorem splitComma_nocomma (s : Str) (h : ',' ∉ s) : splitComma s = [s] := by
  induction s with
  | nil => rfl
  | cons c cs ih =>
    have hc : c ≠ ',' := fun e => h (by simp [e])
    have hcs : ',' ∉ cs := fun e => h (by simp [e])
    rw [splitComma_cons c cs hc, ih hcs]; rfl

theorem splitComma_append (a b : Str) (h : ',' ∉ a) : splitComma (a ++ ',' :: b) = a :: splitComma b := by
  induction a with
  | nil => exact splitComma_comma b
  | cons c cs ih =>
    have hc : c ≠ ',' := fun e => h (by simp [e])
    have hcs : ',' ∉ cs := fun e => h (by simp [e])
    rw [List.cons_append, splitComma_cons c _ hc, ih hcs]; rfl

theorem strip_space (s : Str) : strip (' ' :: s) = strip s := by
  unfold strip
  simp [List.dropWhile, isWs]

theorem map_strip_ne_nil (l : List Str) (h : l ≠ []) :
    l.map strip = strip (l.headD []) :: l.tail.map strip := by
  cases l with
  | nil => exact absurd rfl h
  | cons a b => rfl

/-- `parse(", ".join(names)) == names` for clean names -/
theorem split_join : ∀ (l : List Str), l ≠ [] → (∀ x ∈ l, Clean x) → (splitComma (joinNames l)).map strip = l := by
  intro l
  induction l with
  | nil => intro h; exact absurd rfl h
  | cons x xs ih =>
    intro _ hc
    have hx := hc x (by simp)
    cases xs with
    | nil => simp [joinNames, splitComma_nocomma x hx.1, hx.2]
    | cons y ys =>
      have ih' := ih (by simp) (fun z hz => hc z (by simp [hz]))
      have hj : joinNames (x :: y :: ys) = x ++ ',' :: ' ' :: joinNames (y :: ys) := rfl
      rw [hj, splitComma_append x _ hx.1, splitComma_cons ' ' _ (by decide)]
      simp only [List.map_cons]
      rw [strip_space, hx.2]
      rw [map_strip_ne_nil _ (splitComma_ne_nil _)] at ih'
      rw [ih']

theorem parse_join (l : List Str) (k : Nat) (hne : l ≠ []) (hc : ∀ x ∈ l, Clean x) (hk : k ≤ l.length) :
    parse (some (joinNames l)) k = l := by
  unfold parse
  simp only [Option.getD_some]
  rw [split_join l hne hc]
  have : k - l.length = 0 := by omega
  rw [this]; simp

theorem parse_length (p : Option Str) (k : Nat) : k ≤ (parse p k).length ∧ 1 ≤ (parse p k).length := by
  unfold parse
  have hne := splitComma_ne_nil (p.getD [])
  have hl : 1 ≤ ((splitComma (p.getD [])).map strip).length := by
    cases hs : splitComma (p.getD []) with
    | nil => exact absurd hs hne
    | cons h t => simp
  simp only [List.length_append, List.length_replicate]
  omega

/-- assigning a clean name changes that signal's name only, and is reflected in NI_LineNames -/
theorem set_name_local (n : N) (i : Nat) (v : Str) (h : NInv n) (hi : i < n.nsig) (hv : Clean v)
    (hold : ∀ x ∈ parse n.prop n.nsig, Clean x) :
    (readName (writeName n i v) i).2 = v
    ∧ (∀ j, j < n.nsig → j ≠ i → (readName (writeName n i v) j).2 = (readName n j).2)
    ∧ (writeName n i v).prop = some (joinNames ((parse n.prop n.nsig).set (n.nsig - 1 - i) v)) := by
  obtain ⟨h1, _, _, h4⟩ := names_spec n h
  have hlen := parse_length n.prop n.nsig
  have hwp : (writeName n i v).prop = some (joinNames ((parse n.prop n.nsig).set (n.nsig - 1 - i) v)) := by
    unfold writeName; simp only; rw [h1]
  have hwn : (writeName n i v).nsig = n.nsig := by
    unfold writeName; simp only; exact h4
  have hcl : ∀ x ∈ (parse n.prop n.nsig).set (n.nsig - 1 - i) v, Clean x := by
    intro x hx
    rcases List.mem_or_eq_of_mem_set hx with hx | hx
    · exact hold x hx
    · rw [hx]; exact hv
  have hne : (parse n.prop n.nsig).set (n.nsig - 1 - i) v ≠ [] := by
    intro e
    have : ((parse n.prop n.nsig).set (n.nsig - 1 - i) v).length = 0 := by rw [e]; rfl
    rw [List.length_set] at this; omega
  have hp : parse (writeName n i v).prop (writeName n i v).nsig = (parse n.prop n.nsig).set (n.nsig - 1 - i) v := by
    rw [hwp, hwn]
    exact parse_join _ _ hne hcl (by rw [List.length_set]; omega)
  have hinv' : NInv (writeName n i v) := inv_writeName n i v
  refine ⟨?_, ?_, hwp⟩
  · rw [(read_reflects _ i hinv').1, hp, hwn]
    rw [List.getD_eq_getElem?_getD, List.getElem?_set_self (by omega)]
    rfl
  · intro j hj hne'
    rw [(read_reflects _ j hinv').1, (read_reflects n j h).1, hp, hwn]
    rw [List.getD_eq_getElem?_getD, List.getD_eq_getElem?_getD, List.getElem?_set_ne (by omega)]

theorem indexOf_some : ∀ (l : List Str) (x : Str) (i : Nat), indexOf l x = some i → i < l.length ∧ l[i]? = some x := by
  intro l
  induction l with
  | nil => intro x i h; cases h
  | cons y ys ih =>
    intro x i h
    unfold indexOf at h
    split at h
    · injection h with h; subst h; rename_i e; subst e; simp
    · cases hr : indexOf ys x with
      | none => rw [hr] at h; cases h
      | some k =>
        rw [hr] at h; simp only [Option.map_some] at h
        injection h with h; subst h
        obtain ⟨a, b⟩ := ih x k hr
        exact ⟨by simp; omega, by simpa using b⟩

theorem indexOf_none : ∀ (l : List Str) (x : Str), indexOf l x = none → x ∉ l := by
  intro l
  induction l with
  | nil => intro x _; simp
  | cons y ys ih =>
    intro x h
    unfold indexOf at h
    split at h
    · cases h
    · rename_i hne
      cases hr : indexOf ys x with
      | none =>
        intro hm
        rcases List.mem_cons.1 hm with e | hm'
        · exact hne e.symm
        · exact ih x hr hm'
      | some k => rw [hr] at h; cases h

/-- signals[name] returns a signal carrying that name, or raises IndexError -/
theorem lookup_by_name (n : N) (x : Str) (h : NInv n) :
    (∀ s, (lookup n x).2 = .ok s → s < n.nsig ∧ (readName n s).2 = x)
    ∧ (∀ e, (lookup n x).2 = .error e → e = .IndexError ∧ x ∉ (parse n.prop n.nsig).take n.nsig) := by
  obtain ⟨h1, _, _, _⟩ := names_spec n h
  unfold lookup
  simp only
  rw [h1]
  have hlen := parse_length n.prop n.nsig
  cases hidx : indexOf ((parse n.prop n.nsig).take n.nsig) x with
  | none =>
    simp only
    refine ⟨fun s hs => (by cases hs), fun e he => ?_⟩
    injection he with he
    exact ⟨he.symm, indexOf_none _ _ hidx⟩
  | some col =>
    simp only
    refine ⟨fun s hs => ?_, fun e he => (by cases he)⟩
    injection hs with hs
    obtain ⟨hlt, hget⟩ := indexOf_some _ _ _ hidx
    simp only [List.length_take] at hlt
    have hcol : col < n.nsig := by omega
    refine ⟨by omega, ?_⟩
    rw [(read_reflects n s h).1, ← hs]
    have : n.nsig - 1 - (n.nsig - 1 - col) = col := by omega
    rw [this, List.getD_eq_getElem?_getD]
    rw [List.getElem?_take] at hget
    simp only [hcol, if_true] at hget
    rw [hget]; rfl

-- non-vacuity
example : (readName ⟨2, some "a, b".toList, none⟩ 0).2 = "b".toList := by decide
example : Clean "line 7".toList := by unfold Clean; decide

/-! ### T16: the name cache as regenerated from `_digital/_waveform.py` is the model's -/

/-- **the generated `_get_line_names` is the model's `names`**: a filled cache is returned as it is; otherwise the entry is split on
    commas, every part stripped, the list padded with empty names up to the signal count, cached and returned -/
theorem gen_get_line_names_eq_model (n : N) :
    Gen.Names.get_line_names n.nsig n.prop n.cache = ((names n).1.cache, (names n).2) := by
  unfold Gen.Names.get_line_names names
  cases h : n.cache with
  | some c => simp [h]
  | none =>
    simp only [parse]
    generalize (splitComma (n.prop.getD [])).map strip = l
    by_cases hl : l.length < n.nsig
    · simp [hl]
    · have h0 : n.nsig - l.length = 0 := by omega
      simp [hl, h0]

/-- **the generated `_set_line_name` is the model's `writeName`**: the cached (or freshly parsed) names with the one entry replaced
    are joined with ", " into NI_LineNames, and the write's notification drops the cache -/
theorem gen_set_line_name_eq_model (n : N) (i : Nat) (v : Str) :
    Gen.Names.set_line_name n.nsig n.prop n.cache (n.nsig - 1 - i) v = ((writeName n i v).prop, (writeName n i v).cache) := by
  unfold Gen.Names.set_line_name writeName
  rw [gen_get_line_names_eq_model]
  simp [Gen.Names.on_extended_property_changed]

/-- a notification for NI_LineNames drops the cache, any other key leaves it (what `Model.Names.setProp` / `mergeProp` assume) -/
theorem gen_on_changed (c : Option (List Str)) :
    Gen.Names.on_extended_property_changed true c = none ∧ Gen.Names.on_extended_property_changed false c = c := by
  simp [Gen.Names.on_extended_property_changed]

end Props.C15
