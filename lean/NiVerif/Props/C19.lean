/-
  C19 — units mirror the extended properties; Scalar ordering and XYData pairing hold.
-/
import NiVerif.Model.Units
import NiVerif.Gen.Scalar
import NiVerif.Gen.Units

namespace Props.C19
open Model.Units

/-! ### the dictionary -/

theorem beq_str (a b : Str) : (a == b) = decide (a = b) := by
  by_cases h : a = b <;> simp [h]

theorem get_set_same : ∀ (d : Dict) (k : Str) (v : PVal), (d.set k v).get k = some v
  | [], k, v => by simp [Dict.set, Dict.get]
  | (k', v') :: r, k, v => by
    unfold Dict.set
    by_cases h : k' = k
    · simp [h, Dict.get]
    · simp [h, Dict.get, get_set_same r k v]

theorem get_set_other : ∀ (d : Dict) (k k' : Str) (v : PVal), k' ≠ k → (d.set k' v).get k = d.get k
  | [], k, k', v, h => by simp [Dict.set, Dict.get, h]
  | (k2, v2) :: r, k, k', v, h => by
    unfold Dict.set
    by_cases h1 : k2 = k'
    · subst h1; simp [Dict.get, h]
    · by_cases h2 : k2 = k
      · subst h2; simp [h1, Dict.get]
      · simp [h1, h2, Dict.get, get_set_other r k k' v h]

theorem get_erase_same : ∀ (d : Dict) (k : Str), (d.erase k).get k = none
  | [], k => rfl
  | (k', v') :: r, k => by
    unfold Dict.erase
    by_cases h : k' = k
    · simp [h, get_erase_same r k]
    · simp [h, Dict.get, get_erase_same r k]

theorem get_erase_other : ∀ (d : Dict) (k k' : Str), k' ≠ k → (d.erase k').get k = d.get k
  | [], k, k', h => rfl
  | (k2, v2) :: r, k, k', h => by
    unfold Dict.erase
    by_cases h1 : k2 = k'
    · subst h1; simp [Dict.get, h, get_erase_other r k k2 h]
    · by_cases h2 : k2 = k
      · subst h2; simp [h1, Dict.get]
      · simp [h1, h2, Dict.get, get_erase_other r k k' h]

theorem get_del_same (d d' : Dict) (k : Str) (h : d.del k = .ok d') : d'.get k = none := by
  unfold Dict.del at h
  split at h
  · injection h with h; subst h; exact get_erase_same d k
  · cases h

theorem get_del_other (d d' : Dict) (k k' : Str) (hk : k' ≠ k) (h : d.del k' = .ok d') : d'.get k = d.get k := by
  unfold Dict.del at h
  split at h
  · injection h with h; subst h; exact get_erase_other d k k' hk
  · cases h

/-- **Two views of one value.**  After any sequence of writes through the attribute setter, the dictionary or
    deletions, the entry under every key is the one the last accepted write to that key left. -/
theorem run_lastWrite (k : Str) : ∀ (ops : List Op) (d : Dict), (run d ops).get k = lastWrite k (d.get k) ops := by
  intro ops
  induction ops with
  | nil => intro d; rfl
  | cons o rest ih =>
    intro d
    unfold run at ih ⊢
    simp only [List.foldl_cons]
    rw [ih]
    cases o with
    | attrSet k' v =>
      simp only [step, attrSet, lastWrite]
      cases v with
      | str s =>
        simp only
        by_cases h : k' = k
        · subst h; simp [get_set_same]
        · simp [h, get_set_other _ _ _ _ h]
      | other t => simp
    | dictSet k' v =>
      simp only [step, lastWrite]
      by_cases h : k' = k
      · subst h; simp [get_set_same]
      · simp [h, get_set_other _ _ _ _ h]
    | dictDel k' =>
      simp only [step, lastWrite]
      cases hd : d.del k' with
      | ok d' =>
        simp only
        by_cases h : k' = k
        · subst h; simp [get_del_same _ _ _ hd]
        · simp [h, get_del_other _ _ _ _ h hd]
      | error e =>
        -- deleting an absent key raises KeyError; the entry was absent and stays absent
        simp only
        by_cases h : k' = k
        · subst h
          simp only [if_true]
          unfold Dict.del at hd
          split at hd
          · cases hd
          · rename_i hany
            cases hg : d.get k' with
            | none => rfl
            | some x => simp [hg] at hany
        · simp [h]

/-- the attribute is that entry: the str stored there, `""` when the key is absent -/
theorem units_two_views (k : Str) (ops : List Op) (d : Dict) :
    attrGet (run d ops) k = attrOf (lastWrite k (d.get k) ops) := by
  unfold attrGet
  rw [run_lastWrite]

/-- with str writes only (the property's domain) the attribute never fails and is the last value written through
    either view, `""` after a deletion -/
theorem attrOf_spec : attrOf none = .ok [] ∧ (∀ s, attrOf (some (.str s)) = .ok s) := ⟨rfl, fun _ => rfl⟩

/-- a write through the attribute is read back through the dictionary, and conversely -/
theorem attr_write_visible_in_dict (d : Dict) (k s : Str) :
    ∃ d', attrSet d k (.str s) = .ok d' ∧ d'.get k = some (.str s) ∧ attrGet d' k = .ok s := by
  refine ⟨d.set k (.str s), rfl, get_set_same _ _ _, ?_⟩
  unfold attrGet; rw [get_set_same]; rfl

theorem dict_write_visible_in_attr (d : Dict) (k s : Str) :
    attrGet ((step d (.dictSet k (.str s))).1) k = .ok s := by
  unfold attrGet step; simp only; rw [get_set_same]; rfl

theorem dict_delete_gives_empty (d d' : Dict) (k : Str) (h : d.del k = .ok d') : attrGet d' k = .ok [] := by
  unfold attrGet; rw [get_del_same _ _ _ h]; rfl

/-- a refused attribute write (non-str) is a TypeError and changes nothing -/
theorem nonstr_setter_TypeError (d : Dict) (k : Str) (t : Nat) :
    step d (.attrSet k (.other t)) = (d, some .TypeError) := rfl

/-! ### constructors -/

theorem nonstr_units_TypeError (d : Dict) (k : Str) (t : Nat) : ctorUnits true d k (.other t) = .error .TypeError := rfl

theorem ctor_absent (chk : Bool) (d : Dict) (k s : Str) (h : d.get k = none) :
    ∃ d', ctorUnits chk d k (.str s) = .ok d' ∧ attrGet d' k = .ok s := by
  refine ⟨d.set k (.str s), ?_, ?_⟩
  · unfold ctorUnits; simp [h, PVal.isStr]
  · unfold attrGet; rw [get_set_same]; rfl

/-- with an entry present: refused iff the argument is non-empty and differs from the entry -/
theorem ctor_conflict_iff (chk : Bool) (d : Dict) (k s c : Str) (h : d.get k = some (.str c)) :
    (ctorUnits chk d k (.str s) = .error .ValueError ↔ s ≠ [] ∧ s ≠ c)
    ∧ (ctorUnits chk d k (.str s) = .ok d ↔ ¬ (s ≠ [] ∧ s ≠ c)) := by
  unfold ctorUnits
  simp only [h, PVal.isStr, PVal.truthy, Bool.not_true, Bool.and_false, Bool.false_eq_true, if_false]
  by_cases h1 : s = [] <;> by_cases h2 : s = c <;> simp [h1, h2, eq_comm]

theorem ctor_ok_units (chk : Bool) (d d' : Dict) (k s c : Str) (h : d.get k = some (.str c))
    (hok : ctorUnits chk d k (.str s) = .ok d') : attrGet d' k = .ok c := by
  unfold ctorUnits at hok
  simp only [h, PVal.isStr, Bool.not_true, Bool.and_false, Bool.false_eq_true, if_false] at hok
  split at hok
  · cases hok
  · injection hok with hok; subst hok; unfold attrGet; rw [h]; rfl

theorem ctor_errors (chk : Bool) (d : Dict) (k : Str) (u : PVal) (e : PyErr)
    (h : ctorUnits chk d k u = .error e) : e = .TypeError ∨ e = .ValueError := by
  unfold ctorUnits at h
  split at h
  · injection h with h; exact Or.inl h.symm
  · cases hg : d.get k with
    | none => rw [hg] at h; cases h
    | some cur =>
      rw [hg] at h
      simp only at h
      split at h
      · injection h with h; exact Or.inr h.symm
      · cases h

/-! ### Scalar ordering -/

def isNum : Val → Bool | .num _ _ => true | .str _ => false

/-- different units: ValueError, whatever the values and the operator (the units check comes first) -/
theorem order_units_differ (op : Cmp) (a b : Scalar) (h : a.units ≠ b.units) :
    Scalar.order op a b = .error .ValueError := by
  unfold Scalar.order; simp [h]

/-- identical units: numeric vs str is a TypeError; otherwise the values are compared -/
theorem order_same_units (op : Cmp) (u : Str) (f g : Bool) (x y : Num) (s t : Str) :
    Scalar.order op ⟨.num f x, u⟩ ⟨.num g y, u⟩ = .ok (cmpNum op x y)
    ∧ Scalar.order op ⟨.str s, u⟩ ⟨.str t, u⟩ = .ok (cmpStr op s t)
    ∧ Scalar.order op ⟨.num f x, u⟩ ⟨.str t, u⟩ = .error .TypeError
    ∧ Scalar.order op ⟨.str s, u⟩ ⟨.num g y, u⟩ = .error .TypeError := by
  simp [Scalar.order]

/-- a result is produced exactly when the units are identical and both values are numeric or both str -/
theorem order_ok_iff (op : Cmp) (a b : Scalar) :
    (∃ r, Scalar.order op a b = .ok r) ↔ (a.units = b.units ∧ isNum a.value = isNum b.value) := by
  unfold Scalar.order
  by_cases h : a.units = b.units
  · cases ha : a.value <;> cases hb : b.value <;> simp [h, isNum]
  · simp [h]

theorem order_error_class (op : Cmp) (a b : Scalar) (e : PyErr) (h : Scalar.order op a b = .error e) :
    (e = .ValueError ∧ a.units ≠ b.units) ∨ (e = .TypeError ∧ isNum a.value ≠ isNum b.value) := by
  unfold Scalar.order at h
  by_cases hu : a.units = b.units
  · cases ha : a.value <;> cases hb : b.value <;> simp [hu, ha, hb, isNum] at h ⊢ <;> exact h.symm
  · simp [hu] at h; exact Or.inl ⟨h.symm, hu⟩

/-- `a < b` is `b > a`, `a <= b` is `b >= a` — errors included -/
theorem order_swap (a b : Scalar) :
    Scalar.order .lt a b = Scalar.order .gt b a ∧ Scalar.order .le a b = Scalar.order .ge b a := by
  unfold Scalar.order
  by_cases hu : a.units = b.units
  · have hu' : b.units = a.units := hu.symm
    cases ha : a.value <;> cases hb : b.value <;> simp [hu, cmpNum, cmpStr]
    · rename_i x _ y; cases x <;> cases y <;> simp [Num.eq]
      rename_i p q r s
      have : (r * (q : Int) == p * (s : Int)) = (p * (s : Int) == r * (q : Int)) := BEq.comm
      rw [this]
    · rename_i x y
      have : (y == x) = (x == y) := BEq.comm
      rw [this]
  · have hu' : ¬ b.units = a.units := fun h => hu h.symm
    simp [hu, hu']

theorem strLt_irrefl : ∀ a : Str, strLt a a = false
  | [] => rfl
  | x :: xs => by simp [strLt, strLt_irrefl xs]

theorem strLt_trichotomy : ∀ a b : Str, (strLt a b = true ∧ a ≠ b ∧ strLt b a = false)
    ∨ (strLt a b = false ∧ a = b ∧ strLt b a = false) ∨ (strLt a b = false ∧ a ≠ b ∧ strLt b a = true)
  | [], [] => by simp [strLt]
  | [], _ :: _ => by simp [strLt]
  | _ :: _, [] => by simp [strLt]
  | x :: xs, y :: ys => by
    have ih := strLt_trichotomy xs ys
    simp only [strLt]
    by_cases h1 : x < y
    · have : ¬ y < x := by omega
      have : x ≠ y := by omega
      simp [h1, *]
    · by_cases h2 : y < x
      · have : x ≠ y := by omega
        simp [h1, h2, *]
      · have : x = y := by omega
        subst this
        simp only [h1, if_false, List.cons.injEq, true_and, ne_eq]
        exact ih

theorem strLt_trans : ∀ a b c : Str, strLt a b = true → strLt b c = true → strLt a c = true
  | [], [], _ => by simp [strLt]
  | [], _ :: _, [] => by simp [strLt]
  | [], _ :: _, _ :: _ => by simp [strLt]
  | _ :: _, [], _ => by simp [strLt]
  | _ :: _, _ :: _, [] => by simp [strLt]
  | x :: xs, y :: ys, z :: zs => by
    have ih := strLt_trans xs ys zs
    simp only [strLt]
    intro h1 h2
    by_cases a1 : x < y
    · by_cases a2 : y < z
      · have : x < z := by omega
        simp [this]
      · by_cases a3 : z < y
        · simp [a2, a3] at h2
        · have : y = z := by omega
          subst this; simp [a1]
    · by_cases a1' : y < x
      · simp [a1, a1'] at h1
      · have : x = y := by omega
        subst this
        simp only [a1, if_false] at h1
        by_cases a2 : x < z
        · simp [a2]
        · by_cases a3 : z < x
          · simp [a2, a3] at h2
          · simp only [a2, a3, if_false] at h2 ⊢
            exact ih h1 h2

/-- numeric comparison (bool/int/float, any mixture) is exact rational comparison: for values that are not NaN
    exactly one of `<`, `==`, `>` holds -/
theorem num_trichotomy (a b : Num) (ha : a ≠ .nan) (hb : b ≠ .nan) :
    (a.lt b = true ∧ a.eq b = false ∧ b.lt a = false) ∨ (a.lt b = false ∧ a.eq b = true ∧ b.lt a = false)
    ∨ (a.lt b = false ∧ a.eq b = false ∧ b.lt a = true) := by
  cases a <;> cases b <;> simp [Num.lt, Num.eq] at ha hb ⊢
  rename_i a b c d
  generalize a * (d : Int) = p
  generalize c * (b : Int) = q
  omega

theorem nan_compares_false (op : Cmp) (x : Num) : cmpNum op .nan x = false ∧ cmpNum op x .nan = false := by
  cases op <;> cases x <;> simp [cmpNum, Num.lt, Num.eq]

/-! ### Scalar equality -/

theorem scalar_eq_spec (a b : Scalar) : Scalar.eq a b = true ↔ (a.value.eq b.value = true ∧ a.units = b.units) := by
  unfold Scalar.eq; simp

theorem scalar_eq_kinds (x : Num) (f : Bool) (s u v : Str) : Scalar.eq ⟨.num f x, u⟩ ⟨.str s, v⟩ = false
    ∧ Scalar.eq ⟨.str s, u⟩ ⟨.num f x, v⟩ = false := by
  simp [Scalar.eq, Val.eq]

theorem scalar_eq_units (a b : Scalar) (h : a.units ≠ b.units) : Scalar.eq a b = false := by
  unfold Scalar.eq; simp [h]

theorem scalar_eq_str (s t u : Str) : Scalar.eq ⟨.str s, u⟩ ⟨.str t, u⟩ = true ↔ s = t := by
  simp [Scalar.eq, Val.eq]

/-- `==` never raises and agrees with the ordering operators: for same-kind, same-unit, non-NaN scalars
    `a <= b` iff `a < b or a == b` -/
theorem le_iff_lt_or_eq (a b : Scalar) (h : a.units = b.units) (r1 r2 : Bool)
    (h1 : Scalar.order .le a b = .ok r1) (h2 : Scalar.order .lt a b = .ok r2) :
    r1 = (r2 || Scalar.eq a b) := by
  unfold Scalar.order at h1 h2
  unfold Scalar.eq
  cases ha : a.value <;> cases hb : b.value <;> simp [h, ha, hb, cmpNum, cmpStr, Val.eq] at h1 h2 ⊢
  · rw [← h1, ← h2]
  · rw [← h1, ← h2]

/-! ### XYData -/

/-- accepted exactly when both are one-dimensional ndarrays of equal length and identical supported dtype -/
theorem xy_accepts_iff (x y : Arg) :
    xyInit x y = .ok () ↔ (x.kind = .ndarray ∧ y.kind = .ndarray ∧ x.ndim = 1 ∧ y.ndim = 1 ∧ x.len = y.len
      ∧ x.dtype = y.dtype ∧ supported x.dtype = true) := by
  unfold xyInit
  constructor
  · intro h
    split at h; · cases h
    split at h; · cases h
    split at h; · cases h
    split at h; · cases h
    split at h; · cases h
    split at h; · cases h
    split at h; · cases h
    simp_all
  · intro ⟨h1, h2, h3, h4, h5, h6, h7⟩
    simp [h1, h2, h3, h4, h5, h6, h7]
    rw [← h6]; exact h7

/-- arrays (of whatever shape, length, dtype) are refused with ValueError or TypeError only -/
theorem xy_refusal_class (x y : Arg) (e : PyErr) (hx : x.kind = .ndarray) (hy : y.kind = .ndarray)
    (h : xyInit x y = .error e) : e = .TypeError ∨ e = .ValueError := by
  unfold xyInit at h
  simp only [hx, hy] at h
  split at h; · simp_all
  split at h; · injection h with h; exact Or.inl h.symm
  split at h; · injection h with h; exact Or.inl h.symm
  split at h; · injection h with h; exact Or.inr h.symm
  split at h; · injection h with h; exact Or.inr h.symm
  split at h; · injection h with h; exact Or.inr h.symm
  split at h; · injection h with h; exact Or.inl h.symm
  cases h

theorem xy_refusal_table (x y : Arg) (hx : x.kind = .ndarray) (hy : y.kind = .ndarray) :
    (x.dtype ≠ y.dtype → xyInit x y = .error .TypeError)
    ∧ (x.dtype = y.dtype → (x.ndim ≠ 1 ∨ y.ndim ≠ 1) → xyInit x y = .error .ValueError)
    ∧ (x.dtype = y.dtype → x.ndim = 1 → y.ndim = 1 → x.len ≠ y.len → xyInit x y = .error .ValueError)
    ∧ (x.dtype = y.dtype → x.ndim = 1 → y.ndim = 1 → x.len = y.len → supported x.dtype = false →
        xyInit x y = .error .TypeError) := by
  unfold xyInit
  simp only [hx, hy]
  refine ⟨?_, ?_, ?_, ?_⟩
  · intro h; simp [h]
  · intro h h'
    rcases h' with h' | h'
    · simp [h, h']
    · by_cases h2 : x.ndim = 1 <;> simp [h, h', h2]
  · intro h a b c; simp [h, a, b, c]
  · intro h a b c d; simp [h, a, b, c, d]; rw [← h]; simp [d]

/-- `from_arrays_1d`: accepted exactly when each argument is a 1-D array, or a sequence with a dtype given, and the
    converted pair is acceptable to the constructor -/
theorem from1d_accepts_iff (x y : Src) (dt : Option Nat) :
    from1d x y dt = .ok () ↔ (checkSrc x dt = .ok () ∧ checkSrc y dt = .ok ()
      ∧ x.ndim = 1 ∧ y.ndim = 1 ∧ x.len = y.len ∧ dt.getD x.dtype = dt.getD y.dtype
      ∧ supported (dt.getD x.dtype) = true) := by
  unfold from1d
  cases hx : checkSrc x dt with
  | error e => simp
  | ok u =>
    cases hy : checkSrc y dt with
    | error e => simp
    | ok v =>
      simp only [xy_accepts_iff, converted, true_and]

theorem checkSrc_class (s : Src) (dt : Option Nat) (e : PyErr) (h : checkSrc s dt = .error e) :
    e = .TypeError ∨ e = .ValueError := by
  unfold checkSrc at h
  split at h
  · split at h
    · injection h with h; exact Or.inr h.symm
    · cases h
  · split at h
    · injection h with h; exact Or.inr h.symm
    · cases h
  · injection h with h; exact Or.inl h.symm

theorem from1d_refusal_class (x y : Src) (dt : Option Nat) (e : PyErr) (h : from1d x y dt = .error e) :
    e = .TypeError ∨ e = .ValueError := by
  unfold from1d at h
  cases hx : checkSrc x dt with
  | error e' =>
    rw [hx] at h; injection h with h; subst h
    exact checkSrc_class _ _ _ hx
  | ok u =>
    rw [hx] at h
    cases hy : checkSrc y dt with
    | error e' =>
      rw [hy] at h; injection h with h; subst h
      exact checkSrc_class _ _ _ hy
    | ok v =>
      rw [hy] at h
      exact xy_refusal_class _ _ e rfl rfl h

theorem arrEq_iff : ∀ a b : List Num, arrEq a b = true ↔
    (a.length = b.length ∧ ∀ i (h1 : i < a.length) (h2 : i < b.length), (a[i]).eq (b[i]) = true)
  | [], [] => by simp [arrEq]
  | [], _ :: _ => by simp [arrEq]
  | _ :: _, [] => by simp [arrEq]
  | x :: xs, y :: ys => by
    simp only [arrEq, Bool.and_eq_true, List.length_cons, Nat.add_right_cancel_iff]
    rw [arrEq_iff xs ys]
    constructor
    · intro ⟨h0, hl, hi⟩
      refine ⟨hl, ?_⟩
      intro i h1 h2
      cases i with
      | zero => exact h0
      | succ j => exact hi j (by omega) (by omega)
    · intro ⟨hl, hi⟩
      refine ⟨hi 0 (by omega) (by omega), hl, ?_⟩
      intro i h1 h2
      exact hi (i + 1) (by omega) (by omega)

theorem xy_eq_spec (a b : XY) :
    XY.eq a b = true ↔ (arrEq a.x b.x = true ∧ arrEq a.y b.y = true ∧ a.xu = b.xu ∧ a.yu = b.yu) := by
  unfold XY.eq; simp [and_assoc]

-- non-vacuity
example : Scalar.order .lt ⟨.num false (.ratio 1 1), [86]⟩ ⟨.str [53], [109, 86]⟩ = .error .ValueError := by decide
example : Scalar.order .lt ⟨.num false (.ratio 1 1), [86]⟩ ⟨.num true (.ratio 3 2), [86]⟩ = .ok true := by decide
example : xyInit ⟨.ndarray, 1, 3, 1⟩ ⟨.ndarray, 1, 3, 1⟩ = .ok () := by decide
example : run [] [.attrSet [1] (.str [65]), .dictSet [1] (.str [66]), .attrSet [1] (.other 5)] = [([1], .str [66])] := by decide

/-! ### the tie by proof for Scalar's comparisons: `Gen/Scalar.lean` (translator tier T11) -/

/-- the four ordering operators regenerated from the source are the model's `Scalar.order`: units check first (ValueError), then
    numbers with numbers, strings with strings, anything else TypeError - with the operator of that very method -/
theorem gen_scalar_order_eq_model (a b : Model.Units.Scalar) :
    Gen.Scalar.lt a b = Model.Units.Scalar.order .lt a b ∧ Gen.Scalar.le a b = Model.Units.Scalar.order .le a b ∧
    Gen.Scalar.gt a b = Model.Units.Scalar.order .gt a b ∧ Gen.Scalar.ge a b = Model.Units.Scalar.order .ge a b := by
  unfold Gen.Scalar.lt Gen.Scalar.le Gen.Scalar.gt Gen.Scalar.ge Gen.Scalar.check_units Model.Units.Scalar.order
  by_cases hu : a.units = b.units
  · simp only [hu, ne_eq, not_true_eq_false, if_false, Except.bind]
    cases ha : a.value <;> cases hb : b.value <;>
      simp [Model.Units.Val.isNum, Model.Units.Val.isStr, Model.Units.cmpVal]
  · simp [hu, Except.bind]

theorem gen_scalar_eq_eq_model (a b : Model.Units.Scalar) : Gen.Scalar.eq a b = Model.Units.Scalar.eq a b := rfl

/-! ### T15: the attributes and the constructors' units rule as regenerated from the sources are the model's -/

theorem view_get_eq (d : Dict) (k : Str) :
    (let value : PVal := (d.get k).getD (PVal.str [])
     if ¬ (value.isStr = true) then Except.error PyErr.AssertionError else Except.ok value)
      = (attrGet d k).map PVal.str := by
  unfold attrGet
  cases d.get k with
  | none => rfl
  | some v => cases v <;> rfl

theorem view_set_eq (d : Dict) (k : Str) (v : PVal) :
    (if ¬ (v.isStr = true) then Except.error PyErr.TypeError else Except.ok (d.set k v)) = attrSet d k v := by
  cases v <;> rfl

theorem ctor_rule_eq (d : Dict) (k : Str) (u : PVal) :
    (if ¬ ((d.get k).isSome = true) then Except.ok (d.set k u)
     else if ((u.truthy = true) ∧ (¬ (some u = d.get k))) then Except.error PyErr.ValueError else Except.ok d)
      = ctorUnits false d k u := by
  unfold ctorUnits
  cases h : d.get k with
  | none => simp
  | some cur =>
    simp only [Option.isSome_some, not_true_eq_false, if_false, Bool.false_and, Bool.false_eq_true]
    by_cases ht : u.truthy = true <;> by_cases he : cur = u <;> simp [ht, he, eq_comm] <;> exact fun h => he h.symm

theorem ctor_rule_checked_eq (d : Dict) (k : Str) (u : PVal) :
    (if ¬ (u.isStr = true) then Except.error PyErr.TypeError else
     if ¬ ((d.get k).isSome = true) then Except.ok (d.set k u)
     else if ((u.truthy = true) ∧ (¬ (some u = d.get k))) then Except.error PyErr.ValueError else Except.ok d)
      = ctorUnits true d k u := by
  cases hs : u.isStr
  · simp [ctorUnits, hs]
  · have := ctor_rule_eq d k u
    simp only [hs, not_true_eq_false, if_false] 
    rw [this]; simp [ctorUnits, hs]


/-- `Scalar.units` (getter): `get(KEY, "")`, must be a str -/
theorem gen_Scalar_units_get (d : Dict) : Gen.Units.Scalar_units_get d = (attrGet d Gen.Units.key_UNIT_DESCRIPTION).map PVal.str :=
  view_get_eq d _

/-- `Scalar.units` (setter): non-str refused with TypeError, otherwise the entry is written -/
theorem gen_Scalar_units_set (d : Dict) (v : PVal) : Gen.Units.Scalar_units_set d v = attrSet d Gen.Units.key_UNIT_DESCRIPTION v :=
  view_set_eq d _ v

/-- `Vector.units` (getter): `get(KEY, "")`, must be a str -/
theorem gen_Vector_units_get (d : Dict) : Gen.Units.Vector_units_get d = (attrGet d Gen.Units.key_UNIT_DESCRIPTION).map PVal.str :=
  view_get_eq d _

/-- `Vector.units` (setter): non-str refused with TypeError, otherwise the entry is written -/
theorem gen_Vector_units_set (d : Dict) (v : PVal) : Gen.Units.Vector_units_set d v = attrSet d Gen.Units.key_UNIT_DESCRIPTION v :=
  view_set_eq d _ v

/-- `XYData.x_units` (getter): `get(KEY, "")`, must be a str -/
theorem gen_XYData_x_units_get (d : Dict) : Gen.Units.XYData_x_units_get d = (attrGet d Gen.Units.key_UNIT_DESCRIPTION_X).map PVal.str :=
  view_get_eq d _

/-- `XYData.x_units` (setter): non-str refused with TypeError, otherwise the entry is written -/
theorem gen_XYData_x_units_set (d : Dict) (v : PVal) : Gen.Units.XYData_x_units_set d v = attrSet d Gen.Units.key_UNIT_DESCRIPTION_X v :=
  view_set_eq d _ v

/-- `XYData.y_units` (getter): `get(KEY, "")`, must be a str -/
theorem gen_XYData_y_units_get (d : Dict) : Gen.Units.XYData_y_units_get d = (attrGet d Gen.Units.key_UNIT_DESCRIPTION_Y).map PVal.str :=
  view_get_eq d _

/-- `XYData.y_units` (setter): non-str refused with TypeError, otherwise the entry is written -/
theorem gen_XYData_y_units_set (d : Dict) (v : PVal) : Gen.Units.XYData_y_units_set d v = attrSet d Gen.Units.key_UNIT_DESCRIPTION_Y v :=
  view_set_eq d _ v

/-- `NumericWaveform.units` (getter): `get(KEY, "")`, must be a str -/
theorem gen_NumericWaveform_units_get (d : Dict) : Gen.Units.NumericWaveform_units_get d = (attrGet d Gen.Units.key_UNIT_DESCRIPTION).map PVal.str :=
  view_get_eq d _

/-- `NumericWaveform.units` (setter): non-str refused with TypeError, otherwise the entry is written -/
theorem gen_NumericWaveform_units_set (d : Dict) (v : PVal) : Gen.Units.NumericWaveform_units_set d v = attrSet d Gen.Units.key_UNIT_DESCRIPTION v :=
  view_set_eq d _ v

/-- `NumericWaveform.channel_name` (getter): `get(KEY, "")`, must be a str -/
theorem gen_NumericWaveform_channel_name_get (d : Dict) : Gen.Units.NumericWaveform_channel_name_get d = (attrGet d Gen.Units.key_CHANNEL_NAME).map PVal.str :=
  view_get_eq d _

/-- `NumericWaveform.channel_name` (setter): non-str refused with TypeError, otherwise the entry is written -/
theorem gen_NumericWaveform_channel_name_set (d : Dict) (v : PVal) : Gen.Units.NumericWaveform_channel_name_set d v = attrSet d Gen.Units.key_CHANNEL_NAME v :=
  view_set_eq d _ v

/-- `Spectrum.units` (getter): `get(KEY, "")`, must be a str -/
theorem gen_Spectrum_units_get (d : Dict) : Gen.Units.Spectrum_units_get d = (attrGet d Gen.Units.key_UNIT_DESCRIPTION).map PVal.str :=
  view_get_eq d _

/-- `Spectrum.units` (setter): non-str refused with TypeError, otherwise the entry is written -/
theorem gen_Spectrum_units_set (d : Dict) (v : PVal) : Gen.Units.Spectrum_units_set d v = attrSet d Gen.Units.key_UNIT_DESCRIPTION v :=
  view_set_eq d _ v

/-- `Spectrum.channel_name` (getter): `get(KEY, "")`, must be a str -/
theorem gen_Spectrum_channel_name_get (d : Dict) : Gen.Units.Spectrum_channel_name_get d = (attrGet d Gen.Units.key_CHANNEL_NAME).map PVal.str :=
  view_get_eq d _

/-- `Spectrum.channel_name` (setter): non-str refused with TypeError, otherwise the entry is written -/
theorem gen_Spectrum_channel_name_set (d : Dict) (v : PVal) : Gen.Units.Spectrum_channel_name_set d v = attrSet d Gen.Units.key_CHANNEL_NAME v :=
  view_set_eq d _ v

/-- `DigitalWaveform.channel_name` (getter): `get(KEY, "")`, must be a str -/
theorem gen_DigitalWaveform_channel_name_get (d : Dict) : Gen.Units.DigitalWaveform_channel_name_get d = (attrGet d Gen.Units.key_CHANNEL_NAME).map PVal.str :=
  view_get_eq d _

/-- `DigitalWaveform.channel_name` (setter): non-str refused with TypeError, otherwise the entry is written -/
theorem gen_DigitalWaveform_channel_name_set (d : Dict) (v : PVal) : Gen.Units.DigitalWaveform_channel_name_set d v = attrSet d Gen.Units.key_CHANNEL_NAME v :=
  view_set_eq d _ v

/-- `Scalar(units=…)`: TypeError for a non-str, then stored when the entry is absent, refused with ValueError when non-empty and different -/
theorem gen_Scalar_ctor_units (d : Dict) (u : PVal) : Gen.Units.Scalar_ctor_units d u = ctorUnits true d Gen.Units.key_UNIT_DESCRIPTION u :=
  ctor_rule_checked_eq d _ u

/-- `Vector(units=…)`: TypeError for a non-str, then stored when the entry is absent, refused with ValueError when non-empty and different -/
theorem gen_Vector_ctor_units (d : Dict) (u : PVal) : Gen.Units.Vector_ctor_units d u = ctorUnits true d Gen.Units.key_UNIT_DESCRIPTION u :=
  ctor_rule_checked_eq d _ u

/-- `XYData(x_units=…)`: stored when the entry is absent, refused with ValueError when non-empty and different -/
theorem gen_XYData_ctor_x_units (d : Dict) (u : PVal) : Gen.Units.XYData_ctor_x_units d u = ctorUnits false d Gen.Units.key_UNIT_DESCRIPTION_X u :=
  ctor_rule_eq d _ u

/-- `XYData(y_units=…)`: stored when the entry is absent, refused with ValueError when non-empty and different -/
theorem gen_XYData_ctor_y_units (d : Dict) (u : PVal) : Gen.Units.XYData_ctor_y_units d u = ctorUnits false d Gen.Units.key_UNIT_DESCRIPTION_Y u :=
  ctor_rule_eq d _ u

/-- the keys are the documented ones -/
theorem gen_keys : Gen.Units.key_UNIT_DESCRIPTION = "NI_UnitDescription".toList.map Char.toNat
    ∧ Gen.Units.key_UNIT_DESCRIPTION_X = "NI_UnitDescription_X".toList.map Char.toNat
    ∧ Gen.Units.key_UNIT_DESCRIPTION_Y = "NI_UnitDescription_Y".toList.map Char.toNat
    ∧ Gen.Units.key_CHANNEL_NAME = "NI_ChannelName".toList.map Char.toNat := by decide

/-! ### T22: pickle / copy round trip of the extended properties of Scalar, Vector, XYData (`__reduce__` + `_unpickle` + the constructors' units rule) -/

theorem erase_set_absent : ∀ (d : Dict) (k : Str) (v : PVal), d.get k = none → (d.set k v).erase k = d
  | [], k, v, _ => by simp [Dict.set, Dict.erase]
  | (k', v') :: r, k, v, h => by
    unfold Dict.get at h
    by_cases hk : k' = k
    · simp [hk] at h
    · simp only [hk, if_false] at h
      unfold Dict.set
      simp only [hk, if_false]
      unfold Dict.erase
      simp only [hk, if_false]
      rw [erase_set_absent r k v h]

theorem del_set_absent (d : Dict) (k : Str) (v : PVal) (h : d.get k = none) : (d.set k v).del k = .ok d := by
  unfold Dict.del
  rw [get_set_same]
  simp [erase_set_absent d k v h]

/-- the units rule with the default `""`: an absent entry is added (empty), a present one is left alone -/
theorem ctorUnits_default (chk : Bool) (d : Dict) (k : Str) :
    ctorUnits chk d k (.str []) = .ok (match d.get k with | none => d.set k (.str []) | some _ => d) := by
  unfold ctorUnits
  cases h : d.get k <;> simp [PVal.isStr, PVal.truthy]

/-- **pickle / copy round trip of a Scalar: the rebuilt object's extended properties are exactly the pickled ones** (whether or not
    they held a units entry) and the rebuild never raises -/
theorem gen_Scalar_pickle_props (d : Dict) : Gen.Units.Scalar_unpickle_props d = .ok d := by
  unfold Gen.Units.Scalar_unpickle_props
  rw [gen_Scalar_ctor_units, ctorUnits_default]
  cases h : d.get Gen.Units.key_UNIT_DESCRIPTION with
  | none => simp [Except.bind, del_set_absent d _ _ h]
  | some v => simp [Except.bind]

theorem gen_Vector_pickle_props (d : Dict) : Gen.Units.Vector_unpickle_props d = .ok d := by
  unfold Gen.Units.Vector_unpickle_props
  rw [gen_Vector_ctor_units, ctorUnits_default]
  cases h : d.get Gen.Units.key_UNIT_DESCRIPTION with
  | none => simp [Except.bind, del_set_absent d _ _ h]
  | some v => simp [Except.bind]

theorem erase_set_comm : ∀ (d : Dict) (k k' : Str) (v : PVal), k' ≠ k → (d.set k' v).erase k = (d.erase k).set k' v
  | [], k, k', v, h => by simp [Dict.set, Dict.erase, h]
  | (k2, v2) :: r, k, k', v, h => by
    have ih := erase_set_comm r k k' v h
    by_cases h1 : k2 = k'
    · subst h1
      simp [Dict.set, Dict.erase, h]
    · by_cases h2 : k2 = k
      · subst h2
        simp [Dict.set, Dict.erase, h1, ih]
      · simp [Dict.set, Dict.erase, h1, h2, ih]

theorem keys_xy_distinct : Gen.Units.key_UNIT_DESCRIPTION_X ≠ Gen.Units.key_UNIT_DESCRIPTION_Y := by decide

/-- the same for XYData and its two units entries -/
theorem gen_XYData_pickle_props (d : Dict) : Gen.Units.XYData_unpickle_props d = .ok d := by
  unfold Gen.Units.XYData_unpickle_props
  rw [gen_XYData_ctor_x_units, ctorUnits_default]
  simp only [Except.bind]
  rw [gen_XYData_ctor_y_units, ctorUnits_default]
  simp only
  have hne := keys_xy_distinct
  cases hx : d.get Gen.Units.key_UNIT_DESCRIPTION_X with
  | none =>
    cases hy : d.get Gen.Units.key_UNIT_DESCRIPTION_Y with
    | none =>
      have hy' : (d.set Gen.Units.key_UNIT_DESCRIPTION_X (.str [])).get Gen.Units.key_UNIT_DESCRIPTION_Y = none := by
        rw [get_set_other _ _ _ _ hne]; exact hy
      simp only [hy', List.filter, hx, hy, Option.isNone_none, List.foldlM, bind, Except.bind]
      have hgx : ((d.set Gen.Units.key_UNIT_DESCRIPTION_X (.str [])).set Gen.Units.key_UNIT_DESCRIPTION_Y (.str [])).get Gen.Units.key_UNIT_DESCRIPTION_X = some (.str []) := by
        rw [get_set_other _ _ _ _ (Ne.symm hne), get_set_same]
      have hdx : Dict.del ((d.set Gen.Units.key_UNIT_DESCRIPTION_X (.str [])).set Gen.Units.key_UNIT_DESCRIPTION_Y (.str [])) Gen.Units.key_UNIT_DESCRIPTION_X
          = .ok (d.set Gen.Units.key_UNIT_DESCRIPTION_Y (.str [])) := by
        unfold Dict.del
        rw [hgx]
        simp only [Option.isSome_some, if_true]
        rw [erase_set_comm _ _ _ _ (Ne.symm hne), erase_set_absent d _ _ hx]
      rw [hdx]
      simp only
      rw [del_set_absent d _ _ hy]
      rfl
    | some vy =>
      have hy' : (d.set Gen.Units.key_UNIT_DESCRIPTION_X (.str [])).get Gen.Units.key_UNIT_DESCRIPTION_Y = some vy := by
        rw [get_set_other _ _ _ _ hne]; exact hy
      simp only [hy', List.filter, hx, hy, Option.isNone_none, Option.isNone_some, List.foldlM, bind, Except.bind]
      rw [del_set_absent d _ _ hx]
      rfl
  | some vx =>
    cases hy : d.get Gen.Units.key_UNIT_DESCRIPTION_Y with
    | none =>
      simp only [hy, List.filter, hx, Option.isNone_none, Option.isNone_some, List.foldlM, bind, Except.bind]
      rw [del_set_absent d _ _ hy]
      rfl
    | some vy =>
      simp only [hy, List.filter, hx, Option.isNone_some, List.foldlM, bind, Except.bind]
      rfl

end Props.C19
