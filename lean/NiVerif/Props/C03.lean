/-
  C03 — Binary-time arithmetic and ordering are exact 128-bit fixed-point operations.
  Integer core: theorems over the operator definitions regenerated from /repo on every run.
-/
import NiVerif.Gen.TimeDelta
import NiVerif.Gen.DateTime
import NiVerif.Proofs.Bits
import NiVerif.Proofs.ConvLemmas
import NiVerif.Model.Mixed

namespace Props.C03
open Gen.TimeDelta

abbrev InI128 (t : Int) : Prop := -(2:Int)^127 ≤ t ∧ t < (2:Int)^127

/-- the range-checked result every TimeDelta-valued operator must produce -/
def checked (r : Int) : Except PyErr Int := if InI128 r then .ok r else .error .OverflowError

theorem from_ticks_checked (t : Int) : from_ticks t = checked t := by
  unfold checked InI128; py_norm; py_cases

theorem add_exact (a b : Int) : add_TD a b = checked (a + b) := by
  simp only [add_TD, from_ticks_checked]; cases checked (a + b) <;> rfl
theorem sub_exact (a b : Int) : sub_TD a b = checked (a - b) := by
  simp only [sub_TD, from_ticks_checked]; cases checked (a - b) <;> rfl
theorem rsub_exact (a b : Int) : rsub_TD a b = checked (b - a) := by
  simp only [rsub_TD, from_ticks_checked]; cases checked (b - a) <;> rfl
theorem neg_exact (a : Int) : neg a = checked (-a) := by
  simp only [neg, from_ticks_checked]; cases checked (-a) <;> rfl
theorem abs_exact (a : Int) (h : InI128 a) : Gen.TimeDelta.abs a = checked (if a < 0 then -a else a) := by
  unfold checked InI128 at *; py_norm; py_cases
/-- the only value whose negation/abs overflows is -2^127 -/
theorem abs_overflow_iff (a : Int) (h : InI128 a) :
    Gen.TimeDelta.abs a = .error .OverflowError ↔ a = -(2:Int)^127 := by
  rw [abs_exact a h]; unfold checked InI128 at *
  by_cases hn : a < 0
  · simp only [hn, if_true]
    by_cases hr : (-(2:Int)^127 ≤ -a ∧ -a < (2:Int)^127)
    · simp only [hr, if_true]
      exact ⟨fun h' => (by cases h'), fun e => (by omega)⟩
    · simp only [hr, if_false]
      exact ⟨fun _ => (by omega), fun _ => trivial⟩
  · simp only [hn, if_false, h, if_true]
    exact ⟨fun h' => (by cases h'), fun e => (by omega)⟩
theorem mul_int_exact (a k : Int) : mul_int a k = checked (a * k) := by
  simp only [mul_int, from_ticks_checked]; cases checked (a * k) <;> rfl

/-- `a // int`: floor division, ZeroDivisionError for 0, range-checked. -/
theorem floordiv_int_exact (a k : Int) :
    floordiv_int a k = if k = 0 then .error .ZeroDivisionError else checked (Int.fdiv a k) := by
  simp only [floordiv_int, Py.floorDivE, from_ticks_checked]
  split
  · rfl
  · simp only [Proofs.bind_ok]; cases checked (Int.fdiv a k) <;> rfl

/-- `a // b` for two TimeDeltas is the (unbounded) integer floor quotient. -/
theorem floordiv_TD_exact (a b : Int) :
    floordiv_TD a b = if b = 0 then .error .ZeroDivisionError else .ok (Int.fdiv a b) := by
  simp only [floordiv_TD, Py.floorDivE]; split <;> rfl

theorem mod_TD_exact (a b : Int) :
    mod_TD a b = if b = 0 then .error .ZeroDivisionError else checked (Int.fmod a b) := by
  simp only [mod_TD, Py.modE, from_ticks_checked]
  split
  · rfl
  · simp only [Proofs.bind_ok]; cases checked (Int.fmod a b) <;> rfl

/-- the remainder of in-range operands is always in range (it is bounded by the divisor) -/
theorem fmod_in_range (a b : Int) (hb : InI128 b) (h0 : b ≠ 0) : InI128 (Int.fmod a b) := by
  unfold InI128 at *
  rcases Int.lt_or_gt_of_ne h0 with hneg | hpos
  · have := Py.fmod_neg_bounds a hneg
    omega
  · have h1 := Int.fmod_nonneg_of_pos a hpos
    have h2 := Int.fmod_lt_of_pos a hpos
    omega

theorem divmod_exact (a b : Int) (hb : InI128 b) :
    divmod_TD a b = if b = 0 then .error .ZeroDivisionError else .ok (Int.fdiv a b, Int.fmod a b) := by
  simp only [divmod_TD, floordiv_TD_exact, mod_TD_exact]
  split
  · rfl
  · rename_i h0
    have := fmod_in_range a b hb h0
    simp only [Proofs.bind_ok, checked, if_pos this]

/-- a == (a//b)*b + a%b, exactly, and the remainder has the sign of the divisor. -/
theorem divmod_identity (a b q r : Int) (hb : InI128 b) (h : divmod_TD a b = .ok (q, r)) :
    a = q * b + r ∧ ((0 < b → 0 ≤ r ∧ r < b) ∧ (b < 0 → b < r ∧ r ≤ 0)) := by
  rw [divmod_exact a b hb] at h
  split at h
  · cases h
  · rename_i h0
    injection h with h; injection h with hq hr
    subst hq; subst hr
    refine ⟨?_, ?_, ?_⟩
    · have := Int.mul_fdiv_add_fmod a b
      rw [Int.mul_comm] at this; omega
    · intro hp; exact ⟨Int.fmod_nonneg_of_pos a hp, Int.fmod_lt_of_pos a hp⟩
    · intro hn; exact Py.fmod_neg_bounds a hn

theorem zero_divisor (a : Int) :
    floordiv_TD a 0 = .error .ZeroDivisionError ∧ floordiv_int a 0 = .error .ZeroDivisionError
    ∧ mod_TD a 0 = .error .ZeroDivisionError ∧ divmod_TD a 0 = .error .ZeroDivisionError := by
  refine ⟨by rw [floordiv_TD_exact]; rfl, by rw [floordiv_int_exact]; rfl, by rw [mod_TD_exact]; rfl, ?_⟩
  simp only [divmod_TD, floordiv_TD_exact]; rfl

/-! ### ordering, hash, bool -/
theorem cmp_agrees (a b : Int) :
    lt_TD a b = decide (a < b) ∧ le_TD a b = decide (a ≤ b) ∧ eq_TD a b = decide (a = b)
    ∧ gt_TD a b = decide (b < a) ∧ ge_TD a b = decide (b ≤ a) := by
  simp only [pygen, GT.gt, GE.ge, and_self]
theorem hash_congr (a b : Int) (h : eq_TD a b = true) : Gen.TimeDelta.hash a = Gen.TimeDelta.hash b := by
  simp only [pygen, decide_eq_true_eq] at h; subst h; rfl
theorem bool_spec (a : Int) : Gen.TimeDelta.bool a = decide (a ≠ 0) := by simp only [pygen]

/-! ### DateTime ± TimeDelta, DateTime − DateTime -/
theorem dt_add_exact (t d : Int) : Gen.DateTime.add_TD t d = checked (t + d) := by
  simp only [Gen.DateTime.add_TD, Gen.DateTime.from_offset, add_exact]; cases checked (t + d) <;> rfl
theorem dt_sub_td_exact (t d : Int) : Gen.DateTime.sub_TD t d = checked (t - d) := by
  simp only [Gen.DateTime.sub_TD, Gen.DateTime.from_offset, sub_exact]; cases checked (t - d) <;> rfl
theorem dt_sub_dt_exact (t u : Int) : Gen.DateTime.sub_DT t u = checked (t - u) := by
  simp only [Gen.DateTime.sub_DT, sub_exact]; cases checked (t - u) <;> rfl
theorem dt_rsub_dt_exact (t u : Int) : Gen.DateTime.rsub_DT t u = checked (u - t) := by
  simp only [Gen.DateTime.rsub_DT, sub_exact]; cases checked (u - t) <;> rfl

/-- (t + d) − t == d exactly, whenever t + d is representable. -/
theorem add_sub_cancel (t d s : Int) (hd : InI128 d) (h : Gen.DateTime.add_TD t d = .ok s) :
    Gen.DateTime.sub_DT s t = .ok d := by
  rw [dt_add_exact] at h; rw [dt_sub_dt_exact]
  unfold checked at *
  split at h
  · injection h with h; subst h
    have : t + d - t = d := by omega
    rw [this, if_pos hd]
  · cases h

theorem dt_cmp_agrees (a b : Int) :
    Gen.DateTime.lt_DT a b = decide (a < b) ∧ Gen.DateTime.le_DT a b = decide (a ≤ b)
    ∧ Gen.DateTime.eq_DT a b = decide (a = b) ∧ Gen.DateTime.gt_DT a b = decide (b < a)
    ∧ Gen.DateTime.ge_DT a b = decide (b ≤ a) := by
  simp only [pygen, GT.gt, GE.ge, decide_eq_true_eq, and_self]

/-- reflected operators are the same functions (`__radd__ = __add__`, `__rmul__ = __mul__`) -/
theorem reflected_aliases :
    ("__radd__", "__add__") ∈ Gen.TimeDelta.aliases ∧ ("__rmul__", "__mul__") ∈ Gen.TimeDelta.aliases
    ∧ ("__radd__", "__add__") ∈ Gen.DateTime.aliases := by decide

/-! ### mixed operands (datetime / hightime), both operand orders — Model/Mixed.lean -/
section Mixed
open Model.Mixed Model.Conv Proofs.Conv

theorem map_ok {α β} (f : α → β) (r : Except PyErr α) (v : β) (h : r.map f = .ok v) : ∃ x, r = .ok x ∧ v = f x := by
  cases r with
  | error e => cases h
  | ok x => exact ⟨x, rfl, by injection h with h; exact h.symm⟩

theorem bind_ok' {α β} (r : Except PyErr α) (f : α → Except PyErr β) (v : β) (h : r.bind f = .ok v) :
    ∃ x, r = .ok x ∧ f x = .ok v := by
  cases r with
  | error e => cases h
  | ok x => exact ⟨x, rfl, h⟩

/-- documented result types: timedelta ± timedelta → bintime.TimeDelta; bintime.TimeDelta + datetime →
    that datetime type; DateTime ± timedelta → DateTime; DateTime − datetime → TimeDelta (both orders). -/
theorem mixed_result_kind (a n : Int) (v : V) :
    (binop .add (.btTd a) (.dtTd n) = .ok v → ∃ t, v = .btTd t) ∧
    (binop .add (.dtTd n) (.btTd a) = .ok v → ∃ t, v = .btTd t) ∧
    (binop .add (.btTd a) (.htTd n) = .ok v → ∃ t, v = .btTd t) ∧
    (binop .sub (.htTd n) (.btTd a) = .ok v → ∃ t, v = .btTd t) ∧
    (binop .add (.btTd a) (.dtDt n) = .ok v → ∃ p, v = .dtDt p) ∧
    (binop .sub (.dtDt n) (.btTd a) = .ok v → ∃ p, v = .dtDt p) ∧
    (binop .add (.htDt n) (.btTd a) = .ok v → ∃ q, v = .htDt q) ∧
    (binop .add (.btDt a) (.dtTd n) = .ok v → ∃ t, v = .btDt t) ∧
    (binop .sub (.btDt a) (.htTd n) = .ok v → ∃ t, v = .btDt t) ∧
    (binop .sub (.btDt a) (.dtDt n) = .ok v → ∃ t, v = .btTd t) ∧
    (binop .sub (.htDt n) (.btDt a) = .ok v → ∃ t, v = .btTd t) := by
  refine ⟨?_, ?_, ?_, ?_, ?_, ?_, ?_, ?_, ?_, ?_, ?_⟩ <;> intro h <;>
    simp only [binop, tdOp, tdROp, dtOp, dtROp] at h <;>
    obtain ⟨x, _, h⟩ := bind_ok' _ _ _ h
  all_goals first
    | (simp only [bt, btD] at h; obtain ⟨y, _, hy⟩ := map_ok _ _ _ h; exact ⟨y, hy⟩)
    | (simp only [dtAbs, htAbs] at h; split at h <;> first | (injection h with h; exact ⟨_, h.symm⟩) | cases h)

/-- exactly one of three booleans -/
def exactlyOne (x y z : Bool) : Bool := (x && !y && !z) || (!x && y && !z) || (!x && !y && z)

/-- on two integers `<`, `==`, `>` always answer, and exactly one of them with True -/
theorem cmpInt_trichotomy (a b : Int) :
    ∃ x y z, cmpInt .lt a b = .ok (.bool x) ∧ cmpInt .eq a b = .ok (.bool y) ∧ cmpInt .gt a b = .ok (.bool z)
      ∧ exactlyOne x y z = true := by
  refine ⟨decide (a < b), decide (a = b), decide (b < a), rfl, rfl, rfl, ?_⟩
  unfold exactlyOne
  rcases Int.lt_trichotomy a b with h | h | h <;> simp [h] <;> omega

/-- the hightime comparison (`_compare_hightime_*`) is an integer comparison of some pair, whether or not the bintime value fits
    hightime's range -/
theorem cmpHt_is_cmpInt (p : Except PyErr Int) (t o : Int) : ∃ u v, ∀ op, cmpHt op p t o = cmpInt op u v := by
  cases p with
  | ok q => exact ⟨q, o, fun _ => rfl⟩
  | error e => exact ⟨if t < 0 then -1 else 1, 0, fun _ => rfl⟩

/-- comparisons of a bintime value with a hightime value ALWAYS answer - for every 128-bit tick count, also one far outside
    hightime's range - and exactly one of <, ==, > holds (timedeltas and datetimes) -/
theorem mixed_cmp_ht_total (a n : Int) :
    (∃ x y z, binop .lt (.btTd a) (.htTd n) = .ok (.bool x) ∧ binop .eq (.btTd a) (.htTd n) = .ok (.bool y) ∧
        binop .gt (.btTd a) (.htTd n) = .ok (.bool z) ∧ exactlyOne x y z = true) ∧
    (∃ x y z, binop .lt (.btDt a) (.htDt n) = .ok (.bool x) ∧ binop .eq (.btDt a) (.htDt n) = .ok (.bool y) ∧
        binop .gt (.btDt a) (.htDt n) = .ok (.bool z) ∧ exactlyOne x y z = true) := by
  constructor
  · obtain ⟨u, v, h⟩ := cmpHt_is_cmpInt (htOfBt a) a n
    obtain ⟨x, y, z, h1, h2, h3, h4⟩ := cmpInt_trichotomy u v
    refine ⟨x, y, z, ?_, ?_, ?_, h4⟩ <;> simp only [binop, tdOp, isCmp, if_true, h] <;> assumption
  · obtain ⟨u, v, h⟩ := cmpHt_is_cmpInt (htOfBtDt a) a n
    obtain ⟨x, y, z, h1, h2, h3, h4⟩ := cmpInt_trichotomy u v
    refine ⟨x, y, z, ?_, ?_, ?_, h4⟩ <;> simp only [binop, dtOp, isCmp, if_true, h] <;> assumption

/-- a bintime value beyond hightime's range is beyond every hightime value: positive ⇒ greater, negative ⇒ less, never equal -/
theorem mixed_cmp_ht_out_of_range (a n : Int) (e : PyErr) (h : htOfBt a = .error e) :
    binop .eq (.btTd a) (.htTd n) = .ok (.bool false) ∧
    binop .lt (.btTd a) (.htTd n) = .ok (.bool (decide (a < 0))) ∧
    binop .gt (.btTd a) (.htTd n) = .ok (.bool (decide (¬ a < 0))) := by
  simp only [binop, tdOp, isCmp, if_true, cmpHt, h, cmpInt, cmpBool]
  by_cases ha : a < 0 <;> simp [ha]

/-- comparisons with a datetime.timedelta / datetime (promoted to bintime): whenever the promotion succeeds (it does for every
    value of those types), exactly one of <, ==, > holds; and for hightime operands the same statement, now implied by
    `mixed_cmp_ht_total` -/
theorem mixed_cmp_trichotomy (a n : Int) (x y z : Bool) :
    (binop .lt (.btTd a) (.dtTd n) = .ok (.bool x) → binop .eq (.btTd a) (.dtTd n) = .ok (.bool y) →
      binop .gt (.btTd a) (.dtTd n) = .ok (.bool z) → exactlyOne x y z = true) ∧
    (binop .lt (.btTd a) (.htTd n) = .ok (.bool x) → binop .eq (.btTd a) (.htTd n) = .ok (.bool y) →
      binop .gt (.btTd a) (.htTd n) = .ok (.bool z) → exactlyOne x y z = true) ∧
    (binop .lt (.btDt a) (.dtDt n) = .ok (.bool x) → binop .eq (.btDt a) (.dtDt n) = .ok (.bool y) →
      binop .gt (.btDt a) (.dtDt n) = .ok (.bool z) → exactlyOne x y z = true) ∧
    (binop .lt (.btDt a) (.htDt n) = .ok (.bool x) → binop .eq (.btDt a) (.htDt n) = .ok (.bool y) →
      binop .gt (.btDt a) (.htDt n) = .ok (.bool z) → exactlyOne x y z = true) := by
  have hdt : ∀ (r : Except PyErr Int) (x y z : Bool),
      (r.bind fun b => cmpInt .lt a b) = .ok (.bool x) → (r.bind fun b => cmpInt .eq a b) = .ok (.bool y) →
      (r.bind fun b => cmpInt .gt a b) = .ok (.bool z) → exactlyOne x y z = true := by
    intro r x y z h1 h2 h3
    obtain ⟨b1, e1, h1⟩ := bind_ok' _ _ _ h1
    obtain ⟨b2, e2, h2⟩ := bind_ok' _ _ _ h2
    obtain ⟨b3, e3, h3⟩ := bind_ok' _ _ _ h3
    rw [e1] at e2 e3; injection e2 with e2; injection e3 with e3; subst e2; subst e3
    obtain ⟨x', y', z', g1, g2, g3, g4⟩ := cmpInt_trichotomy a b1
    rw [g1] at h1; rw [g2] at h2; rw [g3] at h3
    injection h1 with h1; injection h2 with h2; injection h3 with h3
    injection h1 with h1; injection h2 with h2; injection h3 with h3
    subst h1; subst h2; subst h3; exact g4
  have hht : ∀ (p : Except PyErr Int) (x y z : Bool),
      cmpHt .lt p a n = .ok (.bool x) → cmpHt .eq p a n = .ok (.bool y) → cmpHt .gt p a n = .ok (.bool z) →
      exactlyOne x y z = true := by
    intro p x y z h1 h2 h3
    obtain ⟨u, v, h⟩ := cmpHt_is_cmpInt p a n
    obtain ⟨x', y', z', g1, g2, g3, g4⟩ := cmpInt_trichotomy u v
    rw [h, g1] at h1; rw [h, g2] at h2; rw [h, g3] at h3
    injection h1 with h1; injection h2 with h2; injection h3 with h3
    injection h1 with h1; injection h2 with h2; injection h3 with h3
    subst h1; subst h2; subst h3; exact g4
  refine ⟨?_, ?_, ?_, ?_⟩ <;> intro h1 h2 h3 <;> simp only [binop, tdOp, dtOp, isCmp, if_true] at h1 h2 h3
  · exact hdt _ x y z h1 h2 h3
  · exact hht _ x y z h1 h2 h3
  · exact hdt _ x y z h1 h2 h3
  · exact hht _ x y z h1 h2 h3

/-- the same answer with the operands swapped: `x < bt` is answered by bintime's reflected `>` -/
theorem mixed_cmp_swap (a n : Int) :
    binop .lt (.btTd a) (.dtTd n) = binop .gt (.dtTd n) (.btTd a) ∧
    binop .gt (.btTd a) (.dtTd n) = binop .lt (.dtTd n) (.btTd a) ∧
    binop .eq (.btTd a) (.dtTd n) = binop .eq (.dtTd n) (.btTd a) ∧
    binop .le (.btTd a) (.htTd n) = binop .ge (.htTd n) (.btTd a) ∧
    binop .lt (.btTd a) (.htTd n) = binop .gt (.htTd n) (.btTd a) ∧
    binop .eq (.btTd a) (.htTd n) = binop .eq (.htTd n) (.btTd a) ∧
    binop .lt (.btDt a) (.dtDt n) = binop .gt (.dtDt n) (.btDt a) ∧
    binop .eq (.btDt a) (.htDt n) = binop .eq (.htDt n) (.btDt a) ∧
    binop .ge (.btDt a) (.htDt n) = binop .le (.htDt n) (.btDt a) := by
  refine ⟨rfl, rfl, rfl, rfl, rfl, rfl, rfl, rfl, rfl⟩

/-- bintime + datetime.timedelta: the result is the exact sum rounded down by less than one tick -/
theorem mixed_add_dt_error (a u t : Int) (hu : Py.dtTdInRange u)
    (h : binop .add (.btTd a) (.dtTd u) = .ok (.btTd t)) :
    0 ≤ (a * M + u * T) - t * M ∧ (a * M + u * T) - t * M < M := by
  simp only [binop, tdOp] at h
  rw [dt_to_bt u hu] at h
  simp only [Proofs.bind_ok, bt, add_exact, checked] at h
  split at h
  · simp only [Except.map] at h; injection h with h; injection h with h; subst h
    unfold T M; omega
  · cases h

/-- bintime + hightime.timedelta: the result is the nearest tick to the exact sum (error ≤ 1/2 tick) -/
theorem mixed_add_ht_error (a y t : Int) (hy : Py.htTdInRange y)
    (h : binop .add (.btTd a) (.htTd y) = .ok (.btTd t)) :
    2 * (t * Y - (a * Y + y * T)) ≤ Y ∧ -Y ≤ 2 * (t * Y - (a * Y + y * T)) := by
  simp only [binop, tdOp] at h
  rw [ht_to_bt_in_range y hy] at h
  simp only [Proofs.bind_ok, bt, add_exact, checked] at h
  have hb := ht_to_bt_nearest y
  split at h
  · simp only [Except.map] at h; injection h with h; injection h with h; subst h
    unfold T Y at *
    generalize btTicksOfHt y = b at *
    omega
  · cases h

/-- bintime.TimeDelta + datetime.datetime → datetime.datetime, rounded down by less than 1 µs -/
theorem mixed_td_plus_dtabs_error (a p r : Int) (h : binop .add (.btTd a) (.dtDt p) = .ok (.dtDt r)) :
    0 ≤ (p * T + a * M) - r * T ∧ (p * T + a * M) - r * T < T := by
  simp only [binop, tdOp] at h
  obtain ⟨u, hu, h⟩ := bind_ok' _ _ _ h
  have hf := bt_to_dt_floor a u hu
  simp only [dtAbs] at h
  split at h
  · injection h with h; injection h with h; subst h; unfold T M at *; omega
  · cases h

/-- bintime.TimeDelta + hightime.datetime → hightime.datetime, rounded down by less than one tick -/
theorem mixed_td_plus_htabs_error (a q r : Int) (h : binop .add (.btTd a) (.htDt q) = .ok (.htDt r)) :
    0 ≤ (q * T + a * Y) - r * T ∧ (q * T + a * Y) - r * T < T := by
  simp only [binop, tdOp] at h
  obtain ⟨y, hy, h⟩ := bind_ok' _ _ _ h
  have hf := bt_to_ht_floor a y hy
  simp only [htAbs] at h
  split at h
  · injection h with h; injection h with h; subst h; unfold T Y at *; omega
  · cases h

end Mixed

-- non-vacuity
example : InI128 (-(2:Int)^127) ∧ divmod_TD (-7) 2 = .ok (-4, 1) ∧ add_TD ((2:Int)^127 - 1) 1 = .error .OverflowError := by
  refine ⟨by unfold InI128; omega, ?_, ?_⟩
  · rw [divmod_exact _ _ (by unfold InI128; omega)]; rfl
  · rw [add_exact]; rfl

/-! ### Mixed divmod: one divisor for quotient and remainder -/

open Model.Mixed Model.Conv

theorem init_check_checked (t : Int) : init_check t = checked t := by
  unfold checked InI128; py_norm; py_cases

theorem conv_divmod_identity (conv : Except PyErr Int) (a q r : Int)
    (h : (conv.bind fun b => (divmod_TD a b).map fun p => V.pair p.1 p.2) = .ok (.pair q r))
    (hc : ∀ b, conv = .ok b → InI128 b) :
    ∃ b, conv = .ok b ∧ a = q * b + r ∧ ((0 < b → 0 ≤ r ∧ r < b) ∧ (b < 0 → b < r ∧ r ≤ 0)) := by
  cases hb : conv with
  | error e => simp [hb, Except.bind] at h
  | ok b =>
    simp only [hb, Except.bind] at h
    cases hd : divmod_TD a b with
    | error e => simp [hd, Except.map] at h
    | ok p =>
      obtain ⟨p1, p2⟩ := p
      simp only [hd, Except.map, Except.ok.injEq, V.pair.injEq] at h
      obtain ⟨h1, h2⟩ := h
      subst h1 h2
      exact ⟨b, rfl, divmod_identity a b _ _ (hc b hb) hd⟩

/-- **Mixed divmod**: with a hightime or datetime divisor, quotient and remainder belong to one and the same divisor — the
    divisor's conversion to ticks: dividend = quotient·b + remainder exactly, remainder of b's sign and smaller than b. -/
theorem mixed_divmod_identity_ht (a y q r : Int) (h : tdOp .divmod a (.htTd y) = some (.ok (.pair q r))) :
    ∃ b, btOfHt y = .ok b ∧ a = q * b + r ∧ ((0 < b → 0 ≤ r ∧ r < b) ∧ (b < 0 → b < r ∧ r ≤ 0)) := by
  simp only [tdOp, Option.some.injEq] at h
  refine conv_divmod_identity _ a q r h (fun b hb => ?_)
  simp only [btOfHt, init_check_checked, checked] at hb
  split at hb
  · cases hb; assumption
  · cases hb

theorem mixed_divmod_identity_dt (a u q r : Int) (h : tdOp .divmod a (.dtTd u) = some (.ok (.pair q r))) :
    ∃ b, btOfDt u = .ok b ∧ a = q * b + r ∧ ((0 < b → 0 ≤ r ∧ r < b) ∧ (b < 0 → b < r ∧ r ≤ 0)) := by
  simp only [tdOp, Option.some.injEq] at h
  refine conv_divmod_identity _ a q r h (fun b hb => ?_)
  simp only [btOfDt, init_check_checked, checked] at hb
  split at hb
  · cases hb; assumption
  · cases hb

end Props.C03
