/-
  C18 — Vector is a homogeneous typed list: list semantics, one item type, nothing lost.
-/
import NiVerif.Model.Vector
import NiVerif.Gen.Vector

namespace Props.C18
open Model.Vector

/-- every element is an instance of the vector's value type -/
def TInv (v : V) : Prop := ∀ x ∈ v.values, instOf x v.vtype = true

/-- a Vector built from any iterable contains exactly the iterable's items, in order; its value type is the type
    of the first item (or `value_type` when empty); an item that is not an instance of it raises TypeError -/
theorem ctor_items (items : List (Option Val)) (u : String) (vt : Option VT) (v : V) (h : ctor items u vt = .ok v) :
    items = v.values.map some ∧ TInv v ∧ v.units = u
    ∧ (∀ f rest, items = some f :: rest → v.vtype = f.ty) ∧ (items = [] → vt = some v.vtype) := by
  unfold ctor at h
  cases items with
  | nil =>
    cases vt with
    | none => simp at h
    | some t =>
      simp only at h; injection h with h; subst h
      exact ⟨rfl, fun x hx => (by cases hx), rfl, fun f rest hh => (by cases hh), fun _ => rfl⟩
  | cons first rest =>
    cases first with
    | none => simp at h
    | some f =>
      simp only at h
      split at h
      · rename_i hall
        injection h with h; subst h
        rw [List.all_eq_true] at hall
        refine ⟨?_, ?_, rfl, fun f' r hh => (by injection hh with h1 h2; injection h1 with h1; rw [h1]), fun hh => (by cases hh)⟩
        · -- all items are `some`: filterMap id ∘ map some = id
          have : ∀ l : List (Option Val), (∀ x ∈ l, ∃ y, x = some y) → l = (l.filterMap id).map some := by
            intro l
            induction l with
            | nil => intro _; rfl
            | cons a as ih =>
              intro hl
              obtain ⟨y, hy⟩ := hl a (by simp)
              subst hy
              simp only [List.filterMap_cons, id, List.map_cons]
              rw [← ih (fun x hx => hl x (by simp [hx]))]
          apply this
          intro x hx
          have := hall x hx
          cases x with
          | none => simp at this
          | some y => exact ⟨y, rfl⟩
        · intro x hx
          simp only [List.mem_filterMap, id] at hx
          obtain ⟨o, ho, he⟩ := hx
          subst he
          exact hall (some x) ho
      · cases h

theorem ctor_rejects_mixed (f : Val) (rest : List (Option Val)) (u : String) (vt : Option VT)
    (h : ∃ x ∈ rest, (match x with | some y => instOf y f.ty | none => false) = false) :
    ctor (some f :: rest) u vt = .error .TypeError := by
  unfold ctor
  simp only
  rw [if_neg]
  intro hall
  rw [List.all_eq_true] at hall
  obtain ⟨x, hx, hb⟩ := h
  have := hall x (by simp [hx])
  exact absurd (this.symm.trans hb) (by decide)

/-! ### the type invariant under every operation; accepted operations are the list operations -/

theorem mem_set_of (l : List Val) (j : Nat) (x y : Val) (h : y ∈ l.set j x) : y ∈ l ∨ y = x :=
  List.mem_or_eq_of_mem_set h

theorem setItem_spec (v : V) (i : Int) (x : Val) (hi : TInv v) :
    (instOf x v.vtype = false → setItem v i x = .error .TypeError)
    ∧ (∀ v', setItem v i x = .ok v' → TInv v' ∧ v'.vtype = v.vtype
        ∧ Py.ListSpec.setItem v.values i x = .ok v'.values) := by
  unfold setItem
  constructor
  · intro h; simp [h]
  · intro v' h
    split at h
    · cases h
    · rename_i hx
      cases hl : Py.ListSpec.setItem v.values i x with
      | error e => rw [hl] at h; cases h
      | ok l =>
        rw [hl] at h; simp only [Except.map] at h; injection h with h; subst h
        refine ⟨?_, rfl, rfl⟩
        intro y hy
        unfold Py.ListSpec.setItem at hl
        cases hn : Py.ListSpec.normIndex i v.values.length with
        | error e => rw [hn] at hl; cases hl
        | ok j =>
          rw [hn] at hl; simp only [Except.map] at hl; injection hl with hl; subst hl
          rcases mem_set_of _ _ _ _ hy with h1 | h1
          · exact hi y h1
          · rw [h1]; simpa using hx

theorem insert_spec (v : V) (i : Int) (x : Val) (hi : TInv v) :
    (instOf x v.vtype = false → insert v i x = .error .TypeError)
    ∧ (∀ v', insert v i x = .ok v' → TInv v' ∧ v'.vtype = v.vtype ∧ v'.values = Py.ListSpec.insert v.values i x) := by
  unfold Model.Vector.insert
  constructor
  · intro h; simp [h]
  · intro v' h
    split at h
    · cases h
    · rename_i hx
      injection h with h; subst h
      refine ⟨?_, rfl, rfl⟩
      intro y hy
      unfold Py.ListSpec.insert at hy
      simp only [List.mem_append, List.mem_singleton] at hy
      rcases hy with (h1 | h1) | h1
      · exact hi y (List.mem_of_mem_take h1)
      · rw [h1]; simpa using hx
      · exact hi y (List.mem_of_mem_drop h1)

theorem mem_scatter : ∀ (idx : List Int) (xs l : List Val) (y : Val),
    y ∈ Py.ListSpec.scatter l idx xs → y ∈ l ∨ y ∈ xs := by
  intro idx
  induction idx with
  | nil => intro xs l y h; simp [Py.ListSpec.scatter] at h; exact Or.inl h
  | cons i is ih =>
    intro xs l y h
    cases xs with
    | nil => simp [Py.ListSpec.scatter] at h; exact Or.inl h
    | cons x xs =>
      simp only [Py.ListSpec.scatter] at h
      rcases ih xs _ y h with h1 | h1
      · rcases mem_set_of _ _ _ _ h1 with h2 | h2
        · exact Or.inl h2
        · exact Or.inr (by simp [h2])
      · exact Or.inr (by simp [h1])

/-- slice assignment from any iterable inserts exactly its items, or raises TypeError and stores nothing -/
theorem setSlice_spec (v : V) (s e st : Option Int) (xs : List Val) (hi : TInv v) :
    ((∃ x ∈ xs, instOf x v.vtype = false) → setSlice v s e st xs = .error .TypeError)
    ∧ (∀ v', setSlice v s e st xs = .ok v' → TInv v' ∧ v'.vtype = v.vtype
        ∧ Py.ListSpec.setSlice v.values s e st xs = .ok v'.values) := by
  unfold setSlice
  constructor
  · rintro ⟨x, hx, hb⟩
    rw [if_pos]
    intro hall
    rw [List.all_eq_true] at hall
    have := hall x hx; rw [hb] at this; cases this
  · intro v' h
    split at h
    · cases h
    · rename_i hall
      have hall' : ∀ x ∈ xs, instOf x v.vtype = true := by
        simpa [List.all_eq_true] using hall
      cases hl : Py.ListSpec.setSlice v.values s e st xs with
      | error e => rw [hl] at h; cases h
      | ok l =>
        rw [hl] at h; simp only [Except.map] at h; injection h with h; subst h
        refine ⟨?_, rfl, rfl⟩
        intro y hy
        unfold Py.ListSpec.setSlice at hl
        cases hidx : Py.Slice.indices s e st v.values.length with
        | error e => rw [hidx] at hl; cases hl
        | ok r =>
          obtain ⟨a, b, c⟩ := r
          rw [hidx] at hl; simp only [Except.bind] at hl
          split at hl
          · injection hl with hl; subst hl
            simp only [List.mem_append] at hy
            rcases hy with (h1 | h1) | h1
            · exact hi y (List.mem_of_mem_take h1)
            · exact hall' y h1
            · exact hi y (List.mem_of_mem_drop h1)
          · split at hl
            · cases hl
            · injection hl with hl; subst hl
              rcases mem_scatter _ _ _ _ hy with h1 | h1
              · exact hi y h1
              · exact hall' y h1

theorem delete_keeps (v : V) (hi : TInv v) :
    (∀ i v', delItem v i = .ok v' → TInv v' ∧ v'.vtype = v.vtype ∧ Py.ListSpec.delItem v.values i = .ok v'.values)
    ∧ (∀ s e st v', delSlice v s e st = .ok v' → TInv v' ∧ v'.vtype = v.vtype)
    ∧ (∀ i x v', pop v i = .ok (x, v') → TInv v' ∧ v'.vtype = v.vtype)
    ∧ TInv (reverse v) ∧ TInv (clear v) := by
  refine ⟨?_, ?_, ?_, ?_, ?_⟩
  · intro i v' h
    unfold delItem at h
    cases hl : Py.ListSpec.delItem v.values i with
    | error e => rw [hl] at h; cases h
    | ok l =>
      rw [hl] at h; simp only [Except.map] at h; injection h with h; subst h
      refine ⟨?_, rfl, rfl⟩
      intro y hy
      unfold Py.ListSpec.delItem at hl
      cases hn : Py.ListSpec.normIndex i v.values.length with
      | error e => rw [hn] at hl; cases hl
      | ok j =>
        rw [hn] at hl; simp only [Except.map] at hl; injection hl with hl; subst hl
        exact hi y (List.mem_of_mem_eraseIdx hy)
  · intro s e st v' h
    unfold delSlice Py.ListSpec.delSlice at h
    cases hidx : Py.Slice.indices s e st v.values.length with
    | error e => rw [hidx] at h; cases h
    | ok r =>
      rw [hidx] at h; simp only [Except.map] at h; injection h with h; subst h
      refine ⟨?_, rfl⟩
      intro y hy
      simp only [List.mem_map, List.mem_filter] at hy
      obtain ⟨p, ⟨hp, _⟩, hpe⟩ := hy
      subst hpe
      have := (List.mem_zipIdx hp).2.2
      rw [this]
      exact hi _ (List.getElem_mem _)
  · intro i x v' h
    unfold pop Py.ListSpec.pop at h
    cases hn : Py.ListSpec.normIndex i v.values.length with
    | error e => rw [hn] at h; cases h
    | ok j =>
      rw [hn] at h; simp only [Except.map] at h; injection h with h; injection h with h1 h2; subst h2
      refine ⟨?_, rfl⟩
      intro y hy
      exact hi y (List.mem_of_mem_eraseIdx hy)
  · intro y hy; exact hi y (by simpa [reverse] using hy)
  · intro y hy; cases hy

/-- extending stores exactly the prefix before the first offending item (all of the source when there is none);
    the offending and all later items are never stored -/
theorem extend_spec : ∀ (xs : List Val) (v : V), TInv v →
    TInv (extend v xs).1 ∧ (extend v xs).1.vtype = v.vtype
    ∧ ∃ k, (extend v xs).1.values = v.values ++ xs.take k ∧ (∀ x ∈ xs.take k, instOf x v.vtype = true)
        ∧ ((extend v xs).2 = none → k = xs.length)
        ∧ ((extend v xs).2 ≠ none → ∃ b, xs[k]? = some b ∧ instOf b v.vtype = false) := by
  intro xs
  induction xs with
  | nil => intro v hi; exact ⟨hi, rfl, 0, by simp [extend], by simp, by simp [extend], by simp [extend]⟩
  | cons x xs ih =>
    intro v hi
    unfold extend
    cases ha : append v x with
    | error e =>
      simp only
      refine ⟨hi, trivial, 0, by simp, by simp, by simp, fun _ => ⟨x, by simp, ?_⟩⟩
      unfold append Model.Vector.insert at ha
      split at ha
      · rename_i hb; simpa using hb
      · cases ha
    | ok v' =>
      simp only
      obtain ⟨a1, a2, a3⟩ := (insert_spec v v.values.length x hi).2 v' ha
      have hx : instOf x v.vtype = true := by
        unfold append Model.Vector.insert at ha
        split at ha
        · cases ha
        · rename_i hb; simpa using hb
      have hv' : v'.values = v.values ++ [x] := by
        rw [a3]; unfold Py.ListSpec.insert
        simp only
        rw [if_neg (by omega), if_neg (by omega)]
        simp
      obtain ⟨b1, b2, k, b3, b4, b5, b6⟩ := ih v' a1
      refine ⟨b1, by rw [b2, a2], k + 1, ?_, ?_, ?_, ?_⟩
      · rw [b3, hv']; simp
      · intro y hy
        simp only [List.take_succ_cons, List.mem_cons] at hy
        rcases hy with h | h
        · rw [h]; exact hx
        · rw [← a2]; exact b4 y h
      · intro h; simp [b5 h]
      · intro h
        obtain ⟨b, hb1, hb2⟩ := b6 h
        exact ⟨b, by simpa using hb1, by rw [← a2]; exact hb2⟩

/-- all the single-call operations of a history -/
inductive Op where
  | setItem (i : Int) (x : Val) | setSlice (s e st : Option Int) (xs : List Val) | delItem (i : Int)
  | delSlice (s e st : Option Int) | insert (i : Int) (x : Val) | append (x : Val) | extend (xs : List Val)
  | pop (i : Int) | remove (x : Val) | reverse | clear

def step (v : V) : Op → V
  | .setItem i x => match setItem v i x with | .ok v' => v' | .error _ => v
  | .setSlice s e st xs => match setSlice v s e st xs with | .ok v' => v' | .error _ => v
  | .delItem i => match delItem v i with | .ok v' => v' | .error _ => v
  | .delSlice s e st => match delSlice v s e st with | .ok v' => v' | .error _ => v
  | .insert i x => match insert v i x with | .ok v' => v' | .error _ => v
  | .append x => match append v x with | .ok v' => v' | .error _ => v
  | .extend xs => (extend v xs).1
  | .pop i => match pop v i with | .ok (_, v') => v' | .error _ => v
  | .remove x => match remove v x with | .ok v' => v' | .error _ => v
  | .reverse => reverse v
  | .clear => clear v

theorem remove_keeps (v : V) (x : Val) (v' : V) (hi : TInv v) (h : remove v x = .ok v') : TInv v' ∧ v'.vtype = v.vtype := by
  unfold remove at h
  simp only at h
  split at h
  · injection h with h; subst h
    exact ⟨fun y hy => hi y (List.mem_of_mem_eraseIdx hy), rfl⟩
  · cases h

/-- after ANY history every element is an instance of the vector's value type, which never changes -/
theorem type_inv_step (v : V) (op : Op) (hi : TInv v) : TInv (step v op) ∧ (step v op).vtype = v.vtype := by
  obtain ⟨d1, d2, d3, d4, d5⟩ := delete_keeps v hi
  cases op with
  | setItem i x =>
    simp only [step]; cases h : setItem v i x with
    | error e => exact ⟨hi, rfl⟩
    | ok v' => exact ⟨((setItem_spec v i x hi).2 v' h).1, ((setItem_spec v i x hi).2 v' h).2.1⟩
  | setSlice s e st xs =>
    simp only [step]; cases h : setSlice v s e st xs with
    | error e => exact ⟨hi, rfl⟩
    | ok v' => exact ⟨((setSlice_spec v s e st xs hi).2 v' h).1, ((setSlice_spec v s e st xs hi).2 v' h).2.1⟩
  | delItem i =>
    simp only [step]; cases h : delItem v i with
    | error e => exact ⟨hi, rfl⟩
    | ok v' => exact ⟨(d1 i v' h).1, (d1 i v' h).2.1⟩
  | delSlice s e st =>
    simp only [step]; cases h : delSlice v s e st with
    | error e => exact ⟨hi, rfl⟩
    | ok v' => exact d2 s e st v' h
  | insert i x =>
    simp only [step]; cases h : insert v i x with
    | error e => exact ⟨hi, rfl⟩
    | ok v' => exact ⟨((insert_spec v i x hi).2 v' h).1, ((insert_spec v i x hi).2 v' h).2.1⟩
  | append x =>
    simp only [step]; cases h : append v x with
    | error e => exact ⟨hi, rfl⟩
    | ok v' => exact ⟨((insert_spec v _ x hi).2 v' h).1, ((insert_spec v _ x hi).2 v' h).2.1⟩
  | extend xs => simp only [step]; exact ⟨(extend_spec xs v hi).1, (extend_spec xs v hi).2.1⟩
  | pop i =>
    simp only [step]; cases h : pop v i with
    | error e => exact ⟨hi, rfl⟩
    | ok p => obtain ⟨x, v'⟩ := p; exact d3 i x v' h
  | remove x =>
    simp only [step]; cases h : remove v x with
    | error e => exact ⟨hi, rfl⟩
    | ok v' => exact remove_keeps v x v' hi h
  | reverse => exact ⟨d4, rfl⟩
  | clear => exact ⟨d5, rfl⟩

theorem type_inv (ops : List Op) (v : V) (hi : TInv v) : TInv (ops.foldl step v) ∧ (ops.foldl step v).vtype = v.vtype := by
  induction ops generalizing v with
  | nil => exact ⟨hi, rfl⟩
  | cons op ops ih =>
    obtain ⟨a, b⟩ := type_inv_step v op hi
    obtain ⟨c, d⟩ := ih (step v op) a
    simp only [List.foldl_cons]
    exact ⟨c, by rw [d, b]⟩

/-- `==` compares element lists and units -/
theorem eq_spec (a b : V) : eq a b = true ↔ (a.values.length = b.values.length
    ∧ (∀ p ∈ a.values.zip b.values, pyEq p.1 p.2 = true) ∧ a.units = b.units) := by
  unfold eq
  simp [List.all_eq_true, and_assoc]

-- non-vacuity
example : ctor [some ⟨.int, 1⟩, some ⟨.bool, 1⟩] "" none = .ok ⟨.int, [⟨.int, 1⟩, ⟨.bool, 1⟩], ""⟩ := by rfl
example : ctor [some ⟨.bool, 1⟩, some ⟨.int, 1⟩] "" none = .error .TypeError := by rfl

/-! ### list operations commute with `map some` (the generated methods work on `Item`s) -/

theorem scatter_map {α β : Type} (f : α → β) (l : List α) (is : List Int) (vs : List α) :
    Py.ListSpec.scatter (l.map f) is (vs.map f) = (Py.ListSpec.scatter l is vs).map f := by
  induction is generalizing l vs with
  | nil => cases vs <;> simp [Py.ListSpec.scatter]
  | cons i is ih =>
    cases vs with
    | nil => simp [Py.ListSpec.scatter]
    | cons v vs =>
      simp only [List.map_cons, Py.ListSpec.scatter]
      rw [← ih]; congr 1; simp [List.map_set]

theorem setItem_map {α β : Type} (f : α → β) (l : List α) (i : Int) (x : α) :
    Py.ListSpec.setItem (l.map f) i (f x) = (Py.ListSpec.setItem l i x).map (List.map f) := by
  unfold Py.ListSpec.setItem
  simp only [List.length_map]
  cases Py.ListSpec.normIndex i l.length <;> simp [Except.map, List.map_set]

theorem setSlice_map {α β : Type} (f : α → β) (l : List α) (s e st : Option Int) (xs : List α) :
    Py.ListSpec.setSlice (l.map f) s e st (xs.map f) = (Py.ListSpec.setSlice l s e st xs).map (List.map f) := by
  unfold Py.ListSpec.setSlice
  simp only [List.length_map]
  cases Py.Slice.indices s e st l.length with
  | error err => rfl
  | ok r =>
    obtain ⟨a, b, c⟩ := r
    simp only [Except.bind, Except.map]
    split
    · simp [List.map_append, List.map_take, List.map_drop]
    · split
      · rfl
      · simp [scatter_map]

theorem eraseIdx_map' {α β : Type} (f : α → β) (l : List α) (j : Nat) :
    (l.map f).eraseIdx j = (l.eraseIdx j).map f := by
  rw [List.eraseIdx_eq_take_drop_succ, List.eraseIdx_eq_take_drop_succ]
  simp [List.map_append, List.map_take, List.map_drop]

theorem delItem_map {α β : Type} (f : α → β) (l : List α) (i : Int) :
    Py.ListSpec.delItem (l.map f) i = (Py.ListSpec.delItem l i).map (List.map f) := by
  unfold Py.ListSpec.delItem
  simp only [List.length_map]
  cases Py.ListSpec.normIndex i l.length <;> simp [Except.map, eraseIdx_map']

theorem filterIdx_map {α β : Type} (f : α → β) (p : Nat → Bool) (l : List α) (k : Nat) :
    (((l.map f).zipIdx k).filter fun q => p q.2).map (·.1) = (((l.zipIdx k).filter fun q => p q.2).map (·.1)).map f := by
  induction l generalizing k with
  | nil => rfl
  | cons a as ih =>
    simp only [List.map_cons, List.zipIdx_cons, List.filter_cons]
    cases p k <;> simp [ih]

theorem delSlice_map {α β : Type} (f : α → β) (l : List α) (s e st : Option Int) :
    Py.ListSpec.delSlice (l.map f) s e st = (Py.ListSpec.delSlice l s e st).map (List.map f) := by
  unfold Py.ListSpec.delSlice
  simp only [List.length_map]
  cases Py.Slice.indices s e st l.length with
  | error err => rfl
  | ok r =>
    obtain ⟨a, b, c⟩ := r
    simp only [Except.map]
    congr 1
    exact filterIdx_map f (fun n => !(Py.Slice.rangeList a b c).contains (n : Int)) l 0

theorem insert_map {α β : Type} (f : α → β) (l : List α) (i : Int) (x : α) :
    Py.ListSpec.insert (l.map f) i (f x) = (Py.ListSpec.insert l i x).map f := by
  unfold Py.ListSpec.insert
  simp [List.map_append, List.map_take, List.map_drop]

/-! ### T13: the generated methods of `Vector` are the model's -/

/-- the stored elements of a model vector as the generated methods see them -/
def itemsOf (v : V) : List Item := v.values.map some
def outOf (r : Except PyErr V) : Except PyErr (List Item) := r.map itemsOf

@[simp] theorem itemInstOf_some (y : Val) (t : VT) : itemInstOf (some y) t = instOf y t := rfl

theorem any_not_instOf (ys : List Val) (t : VT) :
    ((ys.map some).any fun x => decide (¬ (itemInstOf x t = true))) = !(ys.all fun x => instOf x t) := by
  induction ys with
  | nil => rfl
  | cons y ys ih =>
    simp only [List.map_cons, List.any_cons, List.all_cons, itemInstOf_some]
    rw [ih]; rcases Bool.eq_false_or_eq_true (instOf y t) with h | h <;> simp [h]

theorem map_error {α β : Type} (f : α → β) (e : PyErr) : Except.map f (Except.error e : Except PyErr α) = .error e := rfl
theorem map_ok {α β : Type} (f : α → β) (a : α) : Except.map f (Except.ok a : Except PyErr α) = .ok (f a) := rfl

/-- the int branch of the generated `__setitem__`: two refusals, then the list's item assignment -/
theorem setitem_int_core (t : VT) (l : List Item) (i : Int) (a : Arg) :
    Gen.Vector.setitem t l (.int i) a =
      if a.isIterable = true ∧ ¬ (a.isStr = true) then .error .TypeError
      else if ¬ (a.instOf t = true) then .error .TypeError
      else Py.ListSpec.setItem l i a.asItem := by
  unfold Gen.Vector.setitem
  simp only [Index.isSlice, store, Except.bind]
  by_cases h1 : a.isIterable = true ∧ ¬ (a.isStr = true)
  · simp [h1]
  · by_cases h2 : a.instOf t = true <;> simp [h1, h2]

/-- **`v[i] = x`**: the source's `__setitem__` with an int index is the model's `setItem` for a scalar and TypeError for
    everything else (an Iterable that is not a str, None, …) -/
theorem gen_setitem_int_eq_model (v : V) (i : Int) (a : Arg) :
    Gen.Vector.setitem v.vtype (itemsOf v) (.int i) a =
      match a with
      | .scalar x _ => outOf (setItem v i x)
      | _ => .error .TypeError := by
  rw [setitem_int_core]
  cases a with
  | other => simp [Arg.isIterable, Arg.instOf]
  | iterable xs => simp [Arg.isIterable, Arg.isStr]
  | scalar x chars =>
    simp only [Arg.isIterable, Arg.isStr, Arg.instOf, Arg.asItem, setItem, outOf, itemsOf]
    by_cases hi : instOf x v.vtype = true
    · rw [setItem_map some v.values i x]
      cases Py.ListSpec.setItem v.values i x <;> simp [hi, map_error, map_ok, itemsOf]
    · simp [hi, map_error]

/-- the slice branch of the generated `__setitem__` for an iterable: every item checked, then the list's slice assignment -/
theorem setitem_slice_core (t : VT) (l : List Item) (s e st : Option Int) (xs : List Item) :
    Gen.Vector.setitem t l (.slice s e st) (.iterable xs) =
      if (xs.any fun x => decide (¬ (itemInstOf x t = true))) = true then .error .TypeError
      else Py.ListSpec.setSlice l s e st xs := by
  unfold Gen.Vector.setitem
  simp only [Index.isSlice, Arg.isIterable, Arg.isStr, Arg.toList, Arg.items, forAllItems, Except.bind, Except.map, store]
  generalize (xs.any fun x => decide (¬ (itemInstOf x t = true))) = b
  cases b <;> simp

/-- **`v[s:e:st] = iterable of scalars`**: the model's `setSlice` -/
theorem gen_setitem_slice_eq_model (v : V) (s e st : Option Int) (ys : List Val) :
    Gen.Vector.setitem v.vtype (itemsOf v) (.slice s e st) (.iterable (ys.map some)) = outOf (setSlice v s e st ys) := by
  rw [setitem_slice_core, any_not_instOf]
  simp only [setSlice, outOf, itemsOf]
  by_cases hall : (ys.all fun x => instOf x v.vtype) = true
  · simp only [hall, setSlice_map]
    cases Py.ListSpec.setSlice v.values s e st ys <;> simp [map_error, map_ok, itemsOf]
  · simp [hall, map_error]

/-- an iterable with an item that is no scalar at all is refused -/
theorem gen_setitem_slice_nonscalar (v : V) (s e st : Option Int) (xs : List Item) (h : none ∈ xs) :
    Gen.Vector.setitem v.vtype (itemsOf v) (.slice s e st) (.iterable xs) = .error .TypeError := by
  have : (xs.any fun x => decide (¬ (itemInstOf x v.vtype = true))) = true := by
    rw [List.any_eq_true]; exact ⟨none, h, by simp [itemInstOf]⟩
  rw [setitem_slice_core, if_pos this]

/-- a str, a scalar or any other non-Iterable assigned to a slice is refused -/
theorem gen_setitem_slice_refuses (v : V) (s e st : Option Int) (a : Arg) (h : ∀ xs, a ≠ .iterable xs) :
    Gen.Vector.setitem v.vtype (itemsOf v) (.slice s e st) a = .error .TypeError := by
  unfold Gen.Vector.setitem
  cases a with
  | iterable xs => exact absurd rfl (h xs)
  | other => simp [Index.isSlice, Arg.isIterable]
  | scalar x chars => by_cases hs : x.ty = .str <;> simp [Index.isSlice, Arg.isIterable, Arg.isStr, hs, Except.bind]

/-- **`v.insert(i, x)`** -/
theorem gen_insert_eq_model (v : V) (i : Int) (a : Arg) :
    Gen.Vector.insert v.vtype (itemsOf v) i a =
      match a with
      | .scalar x _ => outOf (Model.Vector.insert v i x)
      | _ => .error .TypeError := by
  unfold Gen.Vector.insert
  cases a with
  | other => simp [Arg.instOf]
  | iterable xs => simp [Arg.instOf]
  | scalar x chars =>
    simp only [Arg.instOf, Model.Vector.insert, outOf, itemsOf]
    by_cases hi : instOf x v.vtype = true <;> simp [hi, Except.bind, map_error, map_ok, itemsOf, Arg.asItem, insert_map]

/-- **`del v[i]`, `del v[s:e:st]`** -/
theorem gen_delitem_eq_model (v : V) (i : Int) :
    Gen.Vector.delitem v.vtype (itemsOf v) (.int i) = outOf (delItem v i) := by
  simp only [Gen.Vector.delitem, delIndex, delItem, outOf, itemsOf, delItem_map]
  cases Py.ListSpec.delItem v.values i <;> simp [map_error, map_ok, itemsOf]

theorem gen_delslice_eq_model (v : V) (s e st : Option Int) :
    Gen.Vector.delitem v.vtype (itemsOf v) (.slice s e st) = outOf (delSlice v s e st) := by
  simp only [Gen.Vector.delitem, delIndex, delSlice, outOf, itemsOf, delSlice_map]
  cases Py.ListSpec.delSlice v.values s e st <;> simp [map_error, map_ok, itemsOf]


/-! ### T13b: the validation part of the generated constructor is the model's `ctor` -/

theorem instOf_self (x : Val) : instOf x x.ty = true := by simp [instOf]

theorem filterMap_id_map_some : ∀ (l : List Item), (∀ x ∈ l, ∃ y, x = some y) → (l.filterMap id).map some = l := by
  intro l
  induction l with
  | nil => intro _; rfl
  | cons a as ih =>
    intro hl
    obtain ⟨y, hy⟩ := hl a (by simp)
    subst hy
    simp only [List.filterMap_cons, id, List.map_cons]
    rw [ih (fun x hx => hl x (by simp [hx]))]

/-- `isinstance(x, T)` for an item, as the model's constructor spells it -/
def okItem (t : VT) (x : Item) : Bool := match x with | some y => instOf y t | none => false

/-- the model's constructor with the item test named -/
theorem ctor_unfold (xs : List Item) (u : String) (vt : Option VT) :
    ctor xs u vt = (match xs with
      | [] => (match vt with | none => .error .TypeError | some t => .ok ⟨t, [], u⟩)
      | first :: _ => (match first with
        | none => .error .TypeError
        | some f => if xs.all (okItem f.ty) then .ok ⟨f.ty, xs.filterMap id, u⟩ else .error .TypeError)) := by
  unfold ctor
  cases xs with
  | nil => rfl
  | cons first rest =>
    cases first with
    | none => rfl
    | some f =>
      have hiff : ∀ (l : List Item) (p q : Item → Bool), (∀ x, p x = q x) → l.all p = l.all q := by
        intro l p q hpq; congr 1; funext x; exact hpq x
      simp only
      rw [hiff (some f :: rest) _ (okItem f.ty) (fun x => by cases x <;> rfl)]

/-- the body of the generated check loop -/
def ctorBody (index : Nat) (value : Item) (vt : ItemType) : Except PyErr ItemType :=
  let vt : ItemType := if index = 0 then typeOf value else vt
  if ¬ (isScalar value = true) then Except.error PyErr.TypeError else
  if ¬ (itemInstOfType value vt = true) then Except.error PyErr.TypeError else
  Except.ok vt

/-- the check loop after its first iteration: the value type is fixed, every further item must be a scalar instance of it -/
theorem forEnum_tail (t : VT) : ∀ (rest : List Item) (k : Nat),
    forEnum rest (k + 1) (ItemType.scalar t) ctorBody
      = if rest.all (okItem t) then .ok (ItemType.scalar t) else .error .TypeError := by
  intro rest
  induction rest with
  | nil => intro k; rfl
  | cons x rest ih =>
    intro k
    simp only [forEnum, List.all_cons]
    cases x with
    | none => simp [ctorBody, isScalar, Except.bind, okItem]
    | some y =>
      by_cases hy : instOf y t = true
      · simp [ctorBody, isScalar, itemInstOfType, itemInstOf, hy, Except.bind, ih, okItem]
      · simp [ctorBody, isScalar, itemInstOfType, itemInstOf, hy, Except.bind, okItem]

/-- **the validation part of the generated constructor is the model's `ctor`**: an empty iterable needs a supported `value_type`;
    otherwise the first item fixes the value type and every item must be a scalar instance of it; the items are stored as they came -/
theorem gen_ctor_eq_model (xs : List Item) (vt : Option VT) (u : String) :
    Gen.Vector.ctor_validate (.iterable xs) (VTArg.ofOption vt)
      = (ctor xs u vt).map (fun v => (ItemType.scalar v.vtype, v.values.map some)) := by
  rw [ctor_unfold]
  unfold Gen.Vector.ctor_validate
  simp only [Arg.items, Except.bind]
  cases xs with
  | nil =>
    cases vt <;> simp [VTArg.ofOption, VTArg.falsy, VTArg.isSupported, VTArg.asItemType, Except.map]
  | cons first rest =>
    simp only [List.isEmpty_cons, Bool.false_eq_true, if_false]
    show (Except.bind (forEnum (first :: rest) 0 ItemType.other ctorBody) fun vt => Except.ok (vt, first :: rest)) = _
    cases first with
    | none => simp [forEnum, ctorBody, isScalar, Except.bind, Except.map]
    | some f =>
      have h0 : ctorBody 0 (some f) ItemType.other = .ok (ItemType.scalar f.ty) := by
        simp [ctorBody, typeOf, isScalar, itemInstOfType, itemInstOf, instOf_self]
      simp only [forEnum, h0, Except.bind, Nat.zero_add]
      rw [forEnum_tail f.ty rest 0]
      have hfirst : okItem f.ty (some f) = true := by simp [okItem, instOf_self]
      simp only [List.all_cons, hfirst, Bool.true_and]
      by_cases hall : rest.all (okItem f.ty) = true
      · simp only [hall, if_true, Except.map]
        have hsome : ∀ x ∈ (some f :: rest), ∃ y, x = some y := by
          intro x hx
          cases hx with
          | head => exact ⟨f, rfl⟩
          | tail _ hx =>
            rw [List.all_eq_true] at hall
            have := hall x hx
            cases x with
            | none => simp [okItem] at this
            | some y => exact ⟨y, rfl⟩
        rw [filterMap_id_map_some _ hsome]
      · simp [hall, Except.map]

/-- an unsupported `value_type` (any object that is not one of the four types) is refused for an empty iterable -/
theorem gen_ctor_refuses_other_value_type : Gen.Vector.ctor_validate (.iterable []) VTArg.other = .error .TypeError := by
  simp [Gen.Vector.ctor_validate, Arg.items, Except.bind, VTArg.falsy, VTArg.isSupported]

/-- a non-iterable `values` argument is refused -/
theorem gen_ctor_refuses_non_iterable (vt : VTArg) : Gen.Vector.ctor_validate .other vt = .error .TypeError := by
  simp [Gen.Vector.ctor_validate, Arg.items, Except.bind]

-- non-vacuity of the generated methods
example : Gen.Vector.setitem .int [some ⟨.int, 1⟩] (.int 0) (.scalar ⟨.bool, 1⟩ []) = .ok [some ⟨.bool, 1⟩] := by rfl
example : Gen.Vector.setitem .int [some ⟨.int, 1⟩] (.int 0) (.scalar ⟨.str, 1⟩ []) = .error .TypeError := by rfl
example : Gen.Vector.setitem .int [some ⟨.int, 1⟩, some ⟨.int, 2⟩] (.slice none none (some 2)) (.iterable []) = .error .ValueError := by rfl
example : Gen.Vector.insert .str [] 5 (.scalar ⟨.str, 1⟩ []) = .ok [some ⟨.str, 1⟩] := by rfl

end Props.C18
