/-
  C12 — copy=True isolates, copy=False shares: no hidden aliasing and no hidden copies.
-/
import NiVerif.Model.Heap
import NiVerif.Gen.AsarrayShim

namespace Props.C12
open Model.Heap

/-! ### cells -/

theorem cellOf_set (h : Heap) (c c' : Nat) (x : Cell) :
    cellOf (h.set c x) c' = if c' = c ∧ c < h.length then x else cellOf h c' := by
  unfold cellOf
  rw [List.getElem?_set]
  by_cases hc : c = c'
  · subst hc
    by_cases hl : c < h.length
    · simp [hl]
    · simp [hl]
  · have : ¬ c' = c := fun e => hc e.symm
    simp [hc, this]

theorem readAt_writeAt (h : Heap) (c p c' p' : Nat) (v : Int) :
    readAt (writeAt h c p v) c' p' =
      if c' = c ∧ p' = p ∧ c < h.length ∧ p < (cellOf h c).length then v else readAt h c' p' := by
  unfold readAt writeAt
  rw [cellOf_set]
  by_cases hc : c' = c ∧ c < h.length
  · obtain ⟨h1, h2⟩ := hc
    subst h1
    simp only [h2, and_self, if_true, true_and, List.getElem?_set]
    by_cases hp : p = p'
    · subst hp
      by_cases hq : p < (cellOf h c').length
      · simp [hq]
      · simp only [hq, if_false, and_false]
        rw [List.getElem?_eq_none (by omega)]
        simp
    · have : ¬ p' = p := fun e => hp e.symm
      simp [hp, this]
  · rw [if_neg hc]
    have : ¬ (c' = c ∧ p' = p ∧ c < h.length ∧ p < (cellOf h c).length) := fun ⟨a, _, b, _⟩ => hc ⟨a, b⟩
    rw [if_neg this]

theorem read_write_other_cell (h : Heap) (r r' : Ref) (k : Nat) (v : Int) (hne : r'.cell ≠ r.cell) :
    rd (wr h r' k v) r = rd h r := by
  unfold wr
  split
  · unfold rd
    apply List.map_congr_left
    intro p _
    rw [readAt_writeAt]
    have : ¬ r.cell = r'.cell := fun e => hne e.symm
    simp [this]
  · rfl

/-- **Frame.**  Writes through references into other cells — any number, in any order — are invisible. -/
theorem writes_frame (r : Ref) : ∀ (ws : List W) (h : Heap), (∀ w ∈ ws, w.ref.cell ≠ r.cell) →
    rd (writes h ws) r = rd h r := by
  intro ws
  induction ws with
  | nil => intro h _; rfl
  | cons w rest ih =>
    intro h hw
    unfold writes
    simp only [List.foldl_cons]
    have := ih (wr h w.ref w.k w.v) (fun x hx => hw x (List.mem_cons_of_mem _ hx))
    unfold writes at this
    rw [this]
    exact read_write_other_cell h r w.ref w.k w.v (hw w (List.mem_cons_self ..))

theorem readAt_append_old (h : Heap) (x : Cell) (c p : Nat) (hc : c < h.length) : readAt (h ++ [x]) c p = readAt h c p := by
  unfold readAt cellOf
  rw [List.getElem?_append_left hc]

theorem readAt_append_new (h : Heap) (x : Cell) (p : Nat) : readAt (h ++ [x]) h.length p = x[p]?.getD 0 := by
  unfold readAt cellOf
  simp

/-- allocation does not disturb what existing references rd -/
theorem read_alloc_old (h : Heap) (vals : List Int) (dt : Nat) (r : Ref) (hr : r.cell < h.length) :
    rd (alloc h vals dt).1 r = rd h r := by
  unfold rd alloc
  apply List.map_congr_left
  intro p _
  exact readAt_append_old h vals r.cell p hr

theorem read_alloc_new (h : Heap) (vals : List Int) (dt : Nat) : rd (alloc h vals dt).1 (alloc h vals dt).2 = vals := by
  unfold rd alloc
  simp only
  apply List.ext_getElem?
  intro i
  simp only [List.getElem?_map, List.getElem?_range]
  by_cases hi : i < vals.length
  · simp [hi, readAt_append_new]
  · simp [hi]

theorem alloc_fresh (h : Heap) (vals : List Int) (dt : Nat) (r : Ref) (hr : r.cell < h.length) :
    (alloc h vals dt).2.cell ≠ r.cell := by
  unfold alloc; simp only; omega

/-! ### copy=True isolates -/

/-- the values a source holds -/
def srcVals (h : Heap) : Src → List Int
  | .arr r => rd h r
  | .seq v => v

/-- `asarray(…, copy=True)` always succeeds, its result lives in a cell no existing reference can name, holds the
    source's values, and leaves every existing reference's contents unchanged -/
theorem copy_true_fresh (h h' : Heap) (s : Src) (dt : Option Nat) (r' : Ref)
    (hok : asarray h s dt true = .ok (h', r')) :
    r'.cell = h.length
    ∧ rd h' r' = srcVals h s
    ∧ ∀ r : Ref, r.cell < h.length → (r'.cell ≠ r.cell ∧ rd h' r = rd h r) := by
  unfold asarray at hok
  cases s with
  | arr r0 =>
    simp only [if_true] at hok
    injection hok with hok
    have h1 : h' = (alloc h (rd h r0) (dt.getD r0.dtype)).1 := by rw [hok]
    have h2 : r' = (alloc h (rd h r0) (dt.getD r0.dtype)).2 := by rw [hok]
    refine ⟨by rw [h2]; rfl, ?_, ?_⟩
    · rw [h1, h2]; exact read_alloc_new ..
    · intro r hr
      exact ⟨by rw [h2]; exact alloc_fresh _ _ _ _ hr, by rw [h1]; exact read_alloc_old _ _ _ _ hr⟩
  | seq v =>
    simp only [if_true] at hok
    injection hok with hok
    have h1 : h' = (alloc h v (dt.getD 0)).1 := by rw [hok]
    have h2 : r' = (alloc h v (dt.getD 0)).2 := by rw [hok]
    refine ⟨by rw [h2]; rfl, ?_, ?_⟩
    · rw [h1, h2]; exact read_alloc_new ..
    · intro r hr
      exact ⟨by rw [h2]; exact alloc_fresh _ _ _ _ hr, by rw [h1]; exact read_alloc_old _ _ _ _ hr⟩

theorem copy_true_succeeds (h : Heap) (s : Src) (dt : Option Nat) : ∃ x, asarray h s dt true = .ok x := by
  unfold asarray; cases s <;> simp

/-- **copy=True isolates.**  After a copying construction, any later writes made through the source side (any
    reference that existed before, or any view derived from one) are invisible to the object, and any later writes
    made through the object (its buffer or any view of it) are invisible to every such reference. -/
theorem copy_true_isolates (h h' : Heap) (s : Src) (dt : Option Nat) (r' : Ref)
    (hok : asarray h s dt true = .ok (h', r')) :
    (∀ ws : List W, (∀ w ∈ ws, w.ref.cell < h.length) → rd (writes h' ws) r' = rd h' r')
    ∧ (∀ (ws : List W) (r : Ref), r.cell < h.length → (∀ w ∈ ws, w.ref.cell = r'.cell) →
        rd (writes h' ws) r = rd h' r) := by
  obtain ⟨hc, _, _⟩ := copy_true_fresh h h' s dt r' hok
  constructor
  · intro ws hws
    apply writes_frame
    intro w hw
    have := hws w hw
    omega
  · intro ws r hr hws
    apply writes_frame
    intro w hw
    rw [hws w hw]; omega

/-! ### copy=False shares, or refuses -/

/-- `asarray(…, copy=False)` never copies: it returns the very same reference on the unchanged heap, or raises -/
theorem copy_false_shares (h h' : Heap) (s : Src) (dt : Option Nat) (r' : Ref)
    (hok : asarray h s dt false = .ok (h', r')) : h' = h ∧ s = .arr r' ∧ dt.getD r'.dtype = r'.dtype := by
  unfold asarray at hok
  cases s with
  | arr r0 =>
    simp only [Bool.false_eq_true, if_false] at hok
    split at hok
    · cases hok
    · rename_i hd
      injection hok with hok
      injection hok with h1 h2
      subst h1; subst h2
      exact ⟨rfl, rfl, by simpa using hd⟩
  | seq v => simp at hok

/-- **No silent copy.**  A request that could only be met by copying (dtype cast, non-array input) raises ValueError. -/
theorem no_silent_copy (h : Heap) (s : Src) (dt : Option Nat) :
    asarray h s dt false = .error .ValueError ↔
      (match s with | .arr r => dt.getD r.dtype ≠ r.dtype | .seq _ => True) := by
  unfold asarray
  cases s with
  | arr r0 => by_cases hd : dt.getD r0.dtype = r0.dtype <;> simp [hd]
  | seq v => simp

theorem copy_false_outcomes (h : Heap) (s : Src) (dt : Option Nat) :
    asarray h s dt false = .error .ValueError ∨ ∃ r, s = .arr r ∧ asarray h s dt false = .ok (h, r) := by
  unfold asarray
  cases s with
  | arr r0 => by_cases hd : dt.getD r0.dtype = r0.dtype <;> simp [hd]
  | seq v => simp

/-! ### views are live -/

theorem slice_getElem? (l : List Nat) (s n k : Nat) : ((l.drop s).take n)[k]? = if k < n then l[s + k]? else none := by
  rw [List.getElem?_take]
  split
  · rw [List.getElem?_drop]
  · rfl

/-- writing through a slice is writing through the parent at the shifted position -/
theorem write_slice (h : Heap) (r : Ref) (s n k : Nat) (v : Int) (hk : k < n) :
    wr h (r.slice s n) k v = wr h r (s + k) v := by
  unfold wr Ref.slice
  simp only [slice_getElem?, hk, if_true]

/-- reading a slice is slicing the parent's values: a view always shows the buffer's current contents -/
theorem read_slice (h : Heap) (r : Ref) (s n : Nat) : rd h (r.slice s n) = ((rd h r).drop s).take n := by
  unfold rd Ref.slice
  simp [List.map_take, List.map_drop]

/-- `raw_data` / `get_raw_data(s, n)`: writes through them land in the object's buffer, at start+s+k -/
theorem window_write_lands_in_buffer (h : Heap) (o : Obj) (s n k : Nat) (v : Int) (hk : k < n * o.ncols)
    (hin : s * o.ncols + k < o.count * o.ncols) :
    wr h (o.window s n) k v = wr h o.buf (o.start * o.ncols + (s * o.ncols + k)) v := by
  unfold Obj.window Obj.view
  rw [write_slice _ _ _ _ _ _ hk, write_slice _ _ _ _ _ _ hin]

theorem window_read_is_buffer (h : Heap) (o : Obj) (s n : Nat) :
    rd h (o.window s n) = ((((rd h o.buf).drop (o.start * o.ncols)).take (o.count * o.ncols)).drop (s * o.ncols)).take (n * o.ncols) := by
  unfold Obj.window Obj.view
  rw [read_slice, read_slice]

theorem pick_getElem? (r : Ref) (ks : List Nat) (hks : ∀ k ∈ ks, k < r.idx.length) (j : Nat) :
    (r.pick ks).idx[j]? = (ks[j]?).bind fun k => r.idx[k]? := by
  unfold Ref.pick
  simp only
  induction ks generalizing j with
  | nil => simp
  | cons k rest ih =>
    have hk : k < r.idx.length := hks k (List.mem_cons_self ..)
    have : r.idx[k]? = some r.idx[k] := List.getElem?_eq_getElem hk
    simp only [List.filterMap_cons, this]
    cases j with
    | zero => simp [this]
    | succ j' =>
      simp only [List.getElem?_cons_succ]
      exact ih (fun k hk => hks k (List.mem_cons_of_mem _ hk)) j'

/-- `signals[c].data[j] = v` writes row j, column c of the waveform's data -/
theorem column_write_lands_in_data (h : Heap) (o : Obj) (c j : Nat) (v : Int) (hj : j < o.count) (hc : c < o.ncols)
    (hlen : o.view.idx.length = o.count * o.ncols) :
    wr h (o.column c) j v = wr h o.view (j * o.ncols + c) v := by
  unfold wr Obj.column
  have hks : ∀ k ∈ (List.range o.count).map (fun j => j * o.ncols + c), k < o.view.idx.length := by
    intro k hk
    simp only [List.mem_map, List.mem_range] at hk
    obtain ⟨a, ha, rfl⟩ := hk
    rw [hlen]
    calc a * o.ncols + c < a * o.ncols + o.ncols := by omega
      _ = (a + 1) * o.ncols := by rw [Nat.add_mul]; simp
      _ ≤ o.count * o.ncols := Nat.mul_le_mul_right _ (by omega)
  rw [pick_getElem? _ _ hks]
  simp only [List.getElem?_map, List.getElem?_range, hj, if_true, Option.map_some, Option.bind_some]
  rfl

/-! ### the element written is the element rd -/

theorem read_write_same (h : Heap) (r : Ref) (k p : Nat) (v : Int) (hk : r.idx[k]? = some p) (hc : r.cell < h.length)
    (hp : p < (cellOf h r.cell).length) : (rd (wr h r k v) r)[k]? = some v := by
  unfold rd wr
  simp only [hk, List.getElem?_map, Option.map_some]
  rw [readAt_writeAt, if_pos ⟨rfl, rfl, hc, hp⟩]

/-- **copy=False shares.**  Two references into the same cell see each other's writes at common positions: what is
    written through one at position p is what the other reads at p. -/
theorem shared_write_visible (h : Heap) (r1 r2 : Ref) (k j p : Nat) (v : Int) (hcell : r1.cell = r2.cell)
    (h1 : r1.idx[k]? = some p) (h2 : r2.idx[j]? = some p) (hc : r1.cell < h.length)
    (hp : p < (cellOf h r1.cell).length) : (rd (wr h r1 k v) r2)[j]? = some v := by
  unfold rd wr
  simp only [h1, h2, List.getElem?_map, Option.map_some]
  rw [readAt_writeAt, if_pos ⟨hcell.symm, rfl, hc, hp⟩]

/-! ### append within capacity lands in the caller's memory -/

theorem writeMany_cell (r : Ref) : ∀ (vals : List Int) (h : Heap) (k : Nat) (r2 : Ref), r2.cell ≠ r.cell →
    rd (writeMany h r k vals) r2 = rd h r2 := by
  intro vals
  induction vals with
  | nil => intro h k r2 _; rfl
  | cons v vs ih =>
    intro h k r2 hne
    unfold writeMany
    rw [ih _ _ _ hne]
    exact read_write_other_cell h r2 r k v (fun e => hne e.symm)

theorem readAt_write_other_pos (h : Heap) (r : Ref) (k p q : Nat) (v : Int) (hk : r.idx[k]? = some p) (hq : q ≠ p) :
    readAt (wr h r k v) r.cell q = readAt h r.cell q := by
  unfold wr
  simp only [hk]
  rw [readAt_writeAt]
  simp [hq]

theorem writeMany_read (r : Ref) (hinj : r.inj) : ∀ (vals : List Int) (h : Heap) (k : Nat),
    r.cell < h.length → (∀ p ∈ r.idx, p < (cellOf h r.cell).length) → k + vals.length ≤ r.idx.length →
    ∀ i, i < vals.length → (rd (writeMany h r k vals) r)[k + i]? = vals[i]? := by
  intro vals
  induction vals with
  | nil => intro h k _ _ _ i hi; simp at hi
  | cons v vs ih =>
    intro h k hc hp hlen i hi
    unfold writeMany
    simp only [List.length_cons] at hlen hi
    have hk : k < r.idx.length := by omega
    have hkp : r.idx[k]? = some r.idx[k] := List.getElem?_eq_getElem hk
    have hc' : r.cell < (wr h r k v).length := by
      unfold wr; simp only [hkp]; unfold writeAt; simp [hc]
    have hp' : ∀ p ∈ r.idx, p < (cellOf (wr h r k v) r.cell).length := by
      intro p hpm
      unfold wr; simp only [hkp]; unfold writeAt
      rw [cellOf_set, if_pos ⟨rfl, hc⟩, List.length_set]
      exact hp p hpm
    cases i with
    | zero =>
      -- the first value stays where it was written: later writes go to other positions
      simp only [Nat.add_zero, List.getElem?_cons_zero]
      have hrest : ∀ (vs : List Int) (h2 : Heap) (k2 : Nat), k < k2 →
          (rd (writeMany h2 r k2 vs) r)[k]? = (rd h2 r)[k]? := by
        intro vs
        induction vs with
        | nil => intro h2 k2 _; rfl
        | cons w ws ih2 =>
          intro h2 k2 hlt
          unfold writeMany
          rw [ih2 _ _ (by omega)]
          unfold rd
          simp only [List.getElem?_map, hkp, Option.map_some]
          congr 1
          cases hk2 : r.idx[k2]? with
          | none => unfold wr; simp [hk2]
          | some q =>
            apply readAt_write_other_pos _ _ _ _ _ _ hk2
            intro e
            have := hinj k k2 q (by rw [hkp, e]) hk2
            omega
      rw [hrest vs _ (k + 1) (by omega)]
      exact read_write_same h r k _ v hkp hc (hp _ (List.getElem_mem hk))
    | succ i' =>
      have := ih (wr h r k v) (k + 1) hc' hp' (by omega) i' (by omega)
      simp only [List.getElem?_cons_succ]
      rw [← this]
      congr 1
      omega

/-- **Appends within capacity land in the caller's memory.**  An object that adopted the caller's array (copy=False)
    stores appended samples in that same array, right behind its window; the caller reads them there. -/
theorem append_lands_in_caller_memory (h h' : Heap) (o o' : Obj) (vals : List Int)
    (hok : appendWithin h o vals = .ok (h', o')) (hinj : o.buf.inj) (hc : o.buf.cell < h.length)
    (hp : ∀ p ∈ o.buf.idx, p < (cellOf h o.buf.cell).length)
    (hfit : (o.start + o.count) * o.ncols + vals.length ≤ o.buf.idx.length) :
    o'.buf = o.buf ∧ ∀ i, i < vals.length → (rd h' o.buf)[(o.start + o.count) * o.ncols + i]? = vals[i]? := by
  unfold appendWithin at hok
  simp only at hok
  split at hok
  · cases hok
  · injection hok with hok
    injection hok with h1 h2
    subst h1; subst h2
    exact ⟨rfl, writeMany_read o.buf hinj vals h _ hc hp hfit⟩

/-- and they disturb no other cell -/
theorem append_frame (h h' : Heap) (o o' : Obj) (vals : List Int) (r : Ref)
    (hok : appendWithin h o vals = .ok (h', o')) (hne : r.cell ≠ o.buf.cell) : rd h' r = rd h r := by
  unfold appendWithin at hok
  simp only at hok
  split at hok
  · cases hok
  · injection hok with hok
    injection hok with h1 h2
    subst h1
    exact writeMany_cell o.buf vals h _ r hne

/-! ### load_data -/

/-- `load_data(copy=False)`: the object now is the caller's array (same reference), window as requested -/
theorem loadAdopt_shares (o : Obj) (src : Ref) (s n : Nat) :
    (loadAdopt o src s n).buf = src ∧ (loadAdopt o src s n).view = src.slice (s * o.ncols) (n * o.ncols) := ⟨rfl, rfl⟩

/-- `load_data(copy=True)`: the object keeps its own cell (grown in place if needed); the source keeps its contents
    when it lives in another cell -/
theorem loadCopy_keeps_own_cell (h h' : Heap) (o o' : Obj) (src : Ref) (s n : Nat)
    (hok : loadCopy h o src s n = .ok (h', o')) : o'.buf.cell = o.buf.cell := by
  unfold loadCopy at hok
  simp only at hok
  cases hg : grow h o n with
  | error e => rw [hg] at hok; cases hok
  | ok x =>
    obtain ⟨h1, o1⟩ := x
    rw [hg] at hok
    injection hok with hok
    injection hok with _ h2
    subst h2
    unfold grow at hg
    split at hg
    · injection hg with hg; injection hg with _ hg; subst hg; rfl
    · split at hg
      · cases hg
      · injection hg with hg; injection hg with _ hg; subst hg; rfl

theorem grow_same_cell (h h' : Heap) (o o' : Obj) (n : Nat) (hok : grow h o n = .ok (h', o')) :
    o'.buf.cell = o.buf.cell ∧ o'.start = o.start ∧ o'.count = o.count ∧ o'.ncols = o.ncols := by
  unfold grow at hok
  split at hok
  · injection hok with hok; injection hok with _ hok; subst hok; exact ⟨rfl, rfl, rfl, rfl⟩
  · split at hok
    · cases hok
    · injection hok with hok; injection hok with _ hok; subst hok; exact ⟨rfl, rfl, rfl, rfl⟩

/-- growth never moves the object to other memory: after an append that had to grow an adopted array, the object still
    is that array (the caller's array object, resized in place); a borrowed view cannot grow and the append is refused -/
theorem appendGrow_same_cell (h h' : Heap) (o o' : Obj) (vals : List Int) (hok : appendGrow h o vals = .ok (h', o')) :
    o'.buf.cell = o.buf.cell := by
  unfold appendGrow at hok
  simp only at hok
  cases hg : grow h o (o.start + o.count + rowsOf o.ncols vals.length) with
  | error e => rw [hg] at hok; cases hok
  | ok x =>
    obtain ⟨h1, o1⟩ := x
    rw [hg] at hok
    simp only at hok
    have := (grow_same_cell _ _ _ _ _ hg).1
    unfold appendWithin at hok
    simp only at hok
    split at hok
    · cases hok
    · injection hok with hok; injection hok with _ hok; subst hok; exact this

theorem view_cannot_grow (h : Heap) (o : Obj) (n : Nat) (hn : o.rows < n) (hv : ownsCell h o.buf = false) :
    grow h o n = .error .ValueError := by
  unfold grow
  rw [if_neg (by omega)]
  simp [hv]

/-! ### extended properties / timestamps -/

/-- shared exactly when sharing was requested (`copy…=False`) and the argument is shareable
    (an ExtendedPropertyDictionary; a list of timestamps); otherwise a fresh, equal copy -/
theorem share_iff (h : Heap) (r : Ref) (shareable copyFlag : Bool) (hr : r.cell < h.length) :
    ((shareOrCopy h r shareable copyFlag).2 = r ↔ (copyFlag = false ∧ shareable = true))
    ∧ rd (shareOrCopy h r shareable copyFlag).1 (shareOrCopy h r shareable copyFlag).2 = rd h r := by
  unfold shareOrCopy
  cases copyFlag <;> cases shareable <;> simp
  all_goals first
    | (refine ⟨?_, read_alloc_new ..⟩
       intro e
       have := alloc_fresh h (rd h r) r.dtype r hr
       rw [e] at this
       exact this rfl)

-- non-vacuity: a copy=False construction followed by writes from both sides
example : (asarray [[1, 2, 3, 4]] (.arr ⟨0, [0, 1, 2, 3], 7⟩) none false) = .ok ([[1, 2, 3, 4]], ⟨0, [0, 1, 2, 3], 7⟩) := by decide
example : (asarray [[1, 2, 3, 4]] (.arr ⟨0, [3, 1], 7⟩) (some 7) true) = .ok ([[1, 2, 3, 4], [4, 2]], ⟨1, [0, 1], 7⟩) := by decide
example : asarray [[1, 2]] (.arr ⟨0, [0, 1], 7⟩) (some 8) false = .error .ValueError := by decide


/-! ### T26: the NumPy 1.x shim (Gen/AsarrayShim.lean) implements the NumPy 2 copy rule -/

/-- **The shim is the rule.**  For every heap, source (array of any dtype, ndarray-subclass instance or not, owning its data or
    not, or a non-array sequence), requested dtype and explicit copy flag, the generated `_numpy1x.asarray` returns exactly what
    `Model.Heap.asarray` (NumPy 2's `asarray(a, dtype, copy=flag)`) returns: the same heap and reference, or ValueError. -/
theorem gen_shim_eq_model (h : Heap) (a : Src) (sub owns : Bool) (dt : Option Nat) (c : Bool) :
    Gen.AsarrayShim.asarray h a sub owns dt (some c) = asarray h a dt c := by
  unfold Gen.AsarrayShim.asarray asarray npAsarrayLegacy npCopy
  cases a with
  | seq vals => cases c <;> simp
  | arr r =>
    by_cases hd : dt.getD r.dtype = r.dtype
    · cases c <;> cases sub <;> cases owns <;> simp [hd, alloc]
    · cases c <;> simp [hd, alloc]

/-- without a copy argument (`copy=None`) the shim never fails and copies only when it must -/
theorem gen_shim_default (h : Heap) (a : Src) (sub owns : Bool) (dt : Option Nat) :
    Gen.AsarrayShim.asarray h a sub owns dt none =
      .ok ((npAsarrayLegacy h a sub owns dt).heap, (npAsarrayLegacy h a sub owns dt).ref) := by
  unfold Gen.AsarrayShim.asarray
  simp

/-- hence the three statements of the rule hold for the shim: `copy=True` always succeeds with a fresh array … -/
theorem gen_shim_copy_true_fresh (h h' : Heap) (a : Src) (sub owns : Bool) (dt : Option Nat) (r' : Ref)
    (hok : Gen.AsarrayShim.asarray h a sub owns dt (some true) = .ok (h', r')) : r'.cell = h.length := by
  rw [gen_shim_eq_model] at hok
  exact (copy_true_fresh h h' a dt r' hok).1

/-- … and `copy=False` either hands back the very array or raises ValueError, never a silent copy -/
theorem gen_shim_no_silent_copy (h : Heap) (a : Src) (sub owns : Bool) (dt : Option Nat) :
    Gen.AsarrayShim.asarray h a sub owns dt (some false) = .error .ValueError ∨
    ∃ r, a = .arr r ∧ Gen.AsarrayShim.asarray h a sub owns dt (some false) = .ok (h, r) := by
  rw [gen_shim_eq_model]
  exact copy_false_outcomes h a dt

/-- **Call sites.**  Every factory that takes a `copy` argument hands exactly that argument and its `dtype` argument to the
    package's `asarray`; `from_port(s)` convert without a copy flag (their data is then unpacked into a new array). -/
theorem gen_sites_pass_flag :
    ∀ s ∈ Gen.AsarrayShim.asarray_sites,
      (s.2.1 = "from_port" ∨ s.2.1 = "from_ports") ∧ s.2.2.2.1 = "port_dtype" ∧ s.2.2.2.2 = "-" ∨
      (s.2.1 ≠ "from_port" ∧ s.2.1 ≠ "from_ports") ∧ s.2.2.2.1 = "dtype" ∧ s.2.2.2.2 = "copy" := by
  decide

theorem gen_sites_cover :
    (Gen.AsarrayShim.asarray_sites.map fun s => (s.1, s.2.1)).eraseDups =
      [("DigitalWaveform", "from_lines"), ("DigitalWaveform", "from_port"), ("DigitalWaveform", "from_ports"),
       ("NumericWaveform", "from_array_1d"), ("NumericWaveform", "from_array_2d"), ("Spectrum", "from_array_1d"),
       ("Spectrum", "from_array_2d"), ("XYData", "from_arrays_1d")] := by decide

theorem gen_switch : Gen.AsarrayShim.asarray_switch = ("numpy_version_info >= (2, 0, 0)", "numpy.asarray", "nitypes._numpy1x.asarray") := by
  decide

example : Gen.AsarrayShim.asarray [[1, 2, 3]] (.arr ⟨0, [0, 1, 2], 4⟩) false true (some 8) (some false) = .error .ValueError := by decide
example : Gen.AsarrayShim.asarray [[1, 2, 3]] (.arr ⟨0, [2, 0], 4⟩) true false none (some true) = .ok ([[1, 2, 3], [3, 1]], ⟨1, [0, 1], 4⟩) := by decide
end Props.C12
