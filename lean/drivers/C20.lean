import NiVerif.DriverCore
import NiVerif.Model.Timing
def main : IO Unit := Driver.run [Model.Timing.dispatch]
