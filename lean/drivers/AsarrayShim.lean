import NiVerif.DriverCore
import NiVerif.Model.Heap
import NiVerif.Gen.AsarrayShim
open Model.Heap
/-- `gshim <arr|seq> <source dtype> <requested dtype or -> <copy: 1|0|-> <sub> <owns>`: the generated `_numpy1x.asarray`
    (Gen/AsarrayShim.lean, T26) on a one-cell heap; answers whether the result is the source's memory (`shares`), a new array
    (`fresh`) or an error -/
def shimHandler : List String → Option String
  | ["gshim", kind, sdt, req, copy, sub, owns] =>
    match sdt.toNat?, optNat req with
    | some sd, some rq =>
      let h : Heap := [[1, 2, 3]]
      let src : Src := if kind = "arr" then .arr ⟨0, [2, 0], sd⟩ else .seq [4, 5]
      let c : Option Bool := if copy = "-" then none else some (copy == "1")
      match Gen.AsarrayShim.asarray h src (sub == "1") (owns == "1") rq c with
      | .ok (_, r) => some (if r.cell = 0 then "shares" else "fresh")
      | .error e => some ("err " ++ e.name)
    | _, _ => none
  | _ => none
def main : IO Unit := Driver.run [shimHandler]
