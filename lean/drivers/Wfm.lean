import NiVerif.DriverCore
import NiVerif.Model.WfmProto
def main : IO Unit := Driver.runS Model.WfmProto.step ([] : Model.WfmProto.Table)
