import NiVerif.DriverCore
import NiVerif.Model.VectorArgs
def main : IO Unit := Driver.runS Model.Vector.stepArgs (⟨.int, [], ""⟩ : Model.Vector.V)
