import NiVerif.DriverCore
import NiVerif.Model.Vector
def main : IO Unit := Driver.runS Model.Vector.step (⟨.int, [], ""⟩ : Model.Vector.V)
