import NiVerif.DriverCore
import NiVerif.Model.Np1

/-! `np1 set|del|delat|ins …`: the 1-D NumPy primitives of Model/Np1.lean on integer lists -/
namespace Np1Driver
open Model.BtArray

def res (r : Except PyErr Arr) : String :=
  match r with | .ok a => "ok " ++ Py.render a | .error e => "err " ++ e.base.name

def handler : Driver.Handler
  | ["np1", "set", l, s, e, st, vs] => match parseList l, optInt s, optInt e, optInt st, parseList vs with
      | some a, some s', some e', some st', some v => some (res (Model.Np1.setSlice a s' e' st' v))
      | _, _, _, _, _ => none
  | ["np1", "del", l, s, e, st] => match parseList l, optInt s, optInt e, optInt st with
      | some a, some s', some e', some st' => some (res (Model.Np1.delete a s' e' st'))
      | _, _, _, _ => none
  | ["np1", "delat", l, i] => match parseList l, i.toInt? with
      | some a, some j => some (res (Model.Np1.deleteAt a j))
      | _, _ => none
  | ["np1", "ins", l, p, vs] => match parseList l, p.toInt?, parseList vs with
      | some a, some j, some v => some (res (Model.Np1.insert a j v))
      | _, _, _ => none
  | ["np1", "get", l, i] => match parseList l, i.toInt? with
      | some a, some j => some (match Model.Np1.getAt a j with | .ok v => s!"ok {v}" | .error e => "err " ++ e.base.name)
      | _, _ => none
  | ["np1", "setat", l, i, x] => match parseList l, i.toInt?, x.toInt? with
      | some a, some j, some v => some (res (Model.Np1.setAt a j v))
      | _, _, _ => none
  | _ => none
end Np1Driver

def main : IO Unit := Driver.run [Np1Driver.handler]
