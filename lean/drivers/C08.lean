import NiVerif.DriverCore
import NiVerif.Model.Timing
import NiVerif.Gen.Irregular
def main : IO Unit := Driver.run [Model.Timing.dispatch, Driver.genHandler Gen.Irregular.dispatch]
