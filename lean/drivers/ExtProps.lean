import NiVerif.DriverCore
import NiVerif.Gen.ExtProps

/-! stateful protocol over the generated `ExtendedPropertyDictionary` writers: `einit`, `eset`, `edel`, `emerge`; every answer is
    `<notified keys> | <entries in order>` -/
namespace ExtPropsDriver
open Py.Dict

def parseEntries (s : String) : Option D :=
  if s = "-" then some [] else
    (s.splitOn ",").mapM fun e => match e.splitOn ":" with
      | [k, v] => some (k, v)
      | _ => none

def render (d : D) (notes : List String) : String :=
  "[" ++ ",".intercalate notes ++ "] | " ++ ",".intercalate (d.map fun kv => kv.1 ++ ":" ++ kv.2)

def step (d : D) : List String → Option (D × String)
  | ["einit", es] => (parseEntries es).map fun p => let d' := Gen.ExtProps.init (some p); (d', "ok " ++ render d' [])
  | ["einit"] => some (Gen.ExtProps.init none, "ok " ++ render (Gen.ExtProps.init none) [])
  | ["eset", k, v] => let r := Gen.ExtProps.setitem d k v; some (r.1, "ok " ++ render r.1 r.2)
  | ["edel", k] => match Gen.ExtProps.delitem d k with
      | .ok r => some (r.1, "ok " ++ render r.1 r.2)
      | .error e => some (d, "err " ++ e.base.name)
  | ["emerge", es] => (parseEntries es).map fun o => let r := Gen.ExtProps.merge d o; (r.1, "ok " ++ render r.1 r.2)
  | _ => none
end ExtPropsDriver

def main : IO Unit := Driver.runS ExtPropsDriver.step ([] : Py.Dict.D)
