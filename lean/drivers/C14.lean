import NiVerif.DriverCore
import NiVerif.Gen.TimeDelta
import NiVerif.Gen.DateTime
import NiVerif.Model.DtFields
import NiVerif.Model.TdText
def main : IO Unit := Driver.run [
  Driver.genHandler Gen.TimeDelta.dispatch, Driver.genHandler Gen.DateTime.dispatch,
  Model.Calendar.dispatch, Model.DtFields.dispatch, Model.TdText.dispatch, Model.Mixed.dispatch]
