import NiVerif.DriverCore
import NiVerif.Model.Port
def main : IO Unit := Driver.run [Driver.genHandler Gen.Port.dispatch, Model.Port.dispatch]
