import NiVerif.DriverCore
import NiVerif.Gen.TimeDelta
import NiVerif.Gen.TimeDeltaFloat
import NiVerif.Model.Mixed
def main : IO Unit := Driver.run [
  Driver.genHandler Gen.TimeDelta.dispatch, Driver.genHandler Gen.TimeDeltaFloat.dispatch, Model.Conv.dispatch, Model.Mixed.dispatch]
