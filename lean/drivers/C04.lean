import NiVerif.DriverCore
import NiVerif.Gen.TimeDelta
import NiVerif.Model.Mixed
def main : IO Unit := Driver.run [
  Driver.genHandler Gen.TimeDelta.dispatch, Model.Conv.dispatch, Model.Mixed.dispatch]
