import NiVerif.DriverCore
import NiVerif.Model.Heap
def main : IO Unit := Driver.runS Model.Heap.step ({} : Model.Heap.St)
