import NiVerif.DriverCore
import NiVerif.Model.Scaling
def main : IO Unit := Driver.run [Model.Scaling.handler]
