import NiVerif.DriverCore
import NiVerif.Gen.TimeDelta
import NiVerif.Gen.DateTime
import NiVerif.Model.Record
import NiVerif.Model.BtElem
def main : IO Unit := Driver.run [
  Driver.genHandler Gen.TimeValueTuple.dispatch, Driver.genHandler Gen.TimeDelta.dispatch,
  Driver.genHandler Gen.DateTime.dispatch, Model.Record.dispatch, Model.BtElem.dispatch]
