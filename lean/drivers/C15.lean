import NiVerif.DriverCore
import NiVerif.Model.Names
def main : IO Unit := Driver.runS Model.Names.step (⟨1, none, none⟩ : Model.Names.N)
