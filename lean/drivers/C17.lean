import NiVerif.DriverCore
import NiVerif.Model.BtArray
def main : IO Unit := Driver.runS (Model.BtArray.step "impl") ([] : Model.BtArray.Arr)
