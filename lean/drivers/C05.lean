import NiVerif.DriverCore
import NiVerif.Model.Complex
def main : IO Unit := Driver.run [Model.Complex.handler]
