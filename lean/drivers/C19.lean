import NiVerif.DriverCore
import NiVerif.Model.Units
def main : IO Unit := Driver.runS Model.Units.stepLine ([] : Model.Units.Dict)
