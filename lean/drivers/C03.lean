import NiVerif.DriverCore
import NiVerif.Gen.TimeDelta
import NiVerif.Gen.DateTime
import NiVerif.Model.Mixed
def main : IO Unit := Driver.run [
  Driver.genHandler Gen.TimeDelta.dispatch, Driver.genHandler Gen.DateTime.dispatch,
  Model.Conv.dispatch, Model.Mixed.dispatch]
