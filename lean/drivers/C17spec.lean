import NiVerif.DriverCore
import NiVerif.Model.BtArray
def main : IO Unit := Driver.runS (Model.BtArray.step "spec") ([] : Model.BtArray.Arr)
