import NiVerif.DriverCore
import NiVerif.Gen.Args

/-! `intarg <op> <kind> <n> <default|->`: the prelude's semantics of integer-like objects and the generated converters -/
namespace ArgsDriver
open Py

def parseArg (kind : String) (n : Int) : Option IntArg :=
  match kind with
  | "none" => some .none | "int" => some (.int n) | "bool" => some (.bool (n != 0)) | "sub" => some (.sub n)
  | "np" => some (.np n) | "idx" => some (.idx n) | "conv" => some (.conv n) | "other" => some .other
  | _ => Option.none

def renderArg : IntArg → String
  | .none => "none" | .int n => s!"int {n}" | .bool b => s!"bool {if b then 1 else 0}" | .sub n => s!"sub {n}"
  | .np n => s!"np {n}" | .idx n => s!"idx {n}" | .conv n => s!"conv {n}" | .other => "other"

def renderRes (r : Except PyErr IntArg) : String :=
  match r with | .ok v => "ok " ++ renderArg v | .error e => "err " ++ e.base.name

def handler : Driver.Handler
  | ["intarg", op, kind, n, d] =>
    match n.toInt?, (if d = "-" then some Option.none else d.toInt?.map some) with
    | some n', some d' =>
      (parseArg kind n').bind fun a =>
        match op with
        | "index" => some (renderRes a.index)
        | "int" => some (renderRes a.toInt)
        | "lt0" => some (match a.ltInt 0 with | .ok b => s!"ok {b}" | .error e => "err " ++ e.base.name)
        | "arg_to_int" => some (renderRes (Gen.Args.arg_to_int a d'))
        | "arg_to_uint" => some (renderRes (Gen.Args.arg_to_uint a d'))
        | _ => Option.none
    | _, _ => Option.none
  | _ => Option.none
end ArgsDriver

def main : IO Unit := Driver.run [ArgsDriver.handler]
