import NiVerif.DriverCore
import NiVerif.Model.Complex
import NiVerif.Gen.ComplexConvert
/-- `gconv`: a conversion request through the generated `convert_complex` (Gen/ComplexConvert.lean, T25) -/
def genHandler : List String → Option String
  | ["gconv", req, src, shape, elems] => Model.Complex.runConv Gen.ComplexConvert.convert_complex req src shape elems
  | _ => none
def main : IO Unit := Driver.run [genHandler]
