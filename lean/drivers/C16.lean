import NiVerif.DriverCore
import NiVerif.Model.DigitalTest
def main : IO Unit := Driver.run [Driver.genHandler Gen.DigitalState.dispatch, Model.DigitalTest.dispatch]
