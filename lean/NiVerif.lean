import NiVerif.DriverCore
import NiVerif.Props.C02
import NiVerif.Props.C03
import NiVerif.Props.C04
import NiVerif.Props.C14
import NiVerif.Props.C08
import NiVerif.Props.C20
import NiVerif.Props.C16
