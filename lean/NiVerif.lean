import NiVerif.DriverCore
import NiVerif.Props.C02
