"""Regenerate NiVerif/Gen/*.lean from the current working tree of the repository.

Usage: gen.py <repo_root> <lean_gen_dir>   (prints a JSON report on stdout)

A file is rewritten only when its text changes, so `lake build` stays incremental.  A
translation failure for one module is reported (broken tie, DESIGN.md §3) and a stub that does
not compile is written for it, so that every theorem depending on it becomes a broken obligation
instead of silently using a stale model.
"""
from __future__ import annotations

import hashlib
import json
import os
import sys
import traceback

sys.path.insert(0, os.path.dirname(os.path.abspath(__file__)))
import translate as T  # noqa: E402

TD = ("rec", "TimeDelta")
TVT = ("rec", "TimeValueTuple")
DTTD = ("rec", "dt.timedelta")


def gen_time_value_tuple(repo):
    m = T.Module(f"{repo}/src/nitypes/bintime/_time_value_tuple.py", "Gen.TimeValueTuple")
    fn = m.find_func("TimeValueTuple", "from_cvi")
    m.translate_function("TimeValueTuple.from_cvi", fn, "from_cvi", [("lsb", "int"), ("msb", "int")])
    m.translate_method("TimeValueTuple", "to_cvi")
    return m


def gen_timedelta(repo, tvt):
    m = T.Module(f"{repo}/src/nitypes/bintime/_timedelta.py", "Gen.TimeDelta", imports=[tvt])
    m.translate_int_constants()
    C = "TimeDelta"
    m.translate_init_tail(C, "init_check", "ticks")
    m.translate_method(C, "from_ticks")
    m.translate_method(C, "from_tuple", param_types={"value": TVT})
    m.translate_method(C, "_to_ticks", "to_ticks_int", register="SupportsIndex")
    m.translate_method(C, "_to_ticks", "to_ticks_dt", register="dt.timedelta", param_types={"seconds": DTTD})
    m.translate_method(C, "_to_ticks", "to_ticks_none", register="type(None)")
    m.translate_method(C, "_to_datetime_timedelta", "to_datetime_timedelta")
    m.translate_method(C, "_to_hightime_timedelta", "to_hightime_timedelta")
    for p in ["days", "seconds", "microseconds", "femtoseconds", "yoctoseconds", "ticks", "to_tuple"]:
        m.translate_method(C, p)
    m.translate_method(C, "__neg__", "neg")
    m.translate_method(C, "__pos__", "pos")
    m.translate_method(C, "__abs__", "abs")
    m.translate_dispatch_branch(C, "__add__", C, TD, "add_TD")
    m.translate_dispatch_branch(C, "__sub__", C, TD, "sub_TD")
    m.translate_dispatch_branch(C, "__rsub__", C, TD, "rsub_TD")
    m.translate_dispatch_branch(C, "__mul__", "int", "int", "mul_int")
    m.translate_dispatch_branch(C, "__floordiv__", C, TD, "floordiv_TD")
    m.translate_dispatch_branch(C, "__floordiv__", "int", "int", "floordiv_int")
    m.translate_dispatch_branch(C, "__mod__", C, TD, "mod_TD")
    m.translate_dispatch_branch(C, "__divmod__", C, TD, "divmod_TD")
    for op in ["lt", "le", "eq", "gt", "ge"]:
        m.translate_dispatch_branch(C, f"__{op}__", C, TD, f"{op}_TD")
    m.translate_method(C, "__bool__", "bool")
    m.translate_method(C, "__hash__", "hash")
    m.translate_method(C, "__str__", "str")
    # aliases that must stay aliases (`__radd__ = __add__`, `__rmul__ = __mul__`)
    aliases = {}
    for n in m.find_class(C).body:
        import ast
        if isinstance(n, ast.Assign) and isinstance(n.value, ast.Name) and isinstance(n.targets[0], ast.Name):
            aliases[n.targets[0].id] = n.value.id
    m.out.append("/-- class-level aliases found in the source (`__radd__ = __add__` …) -/")
    m.out.append("def aliases : List (String × String) := [" +
                 ", ".join(f'("{k}", "{v}")' for k, v in sorted(aliases.items())) + "]")
    m.out.append("")
    return m


def gen_datetime(repo, tvt, td):
    m = T.Module(f"{repo}/src/nitypes/bintime/_datetime.py", "Gen.DateTime", imports=[td, tvt])
    C = "DateTime"
    DT = ("rec", "DateTime")
    m.translate_method(C, "from_ticks")
    m.translate_method(C, "from_tuple", param_types={"value": TVT})
    m.translate_method(C, "from_offset", param_types={"offset": TD})
    for p in ["hour", "minute", "second", "microsecond", "femtosecond", "yoctosecond", "ticks", "to_tuple"]:
        m.translate_method(C, p)
    m.translate_dispatch_branch(C, "__add__", "TimeDelta", TD, "add_TD")
    m.translate_dispatch_branch(C, "__sub__", C, DT, "sub_DT")
    m.translate_dispatch_branch(C, "__sub__", "TimeDelta", TD, "sub_TD")
    m.translate_dispatch_branch(C, "__rsub__", C, DT, "rsub_DT")
    for op in ["lt", "le", "eq", "gt", "ge"]:
        m.translate_dispatch_branch(C, f"__{op}__", C, DT, f"{op}_DT")
    m.translate_method(C, "__hash__", "hash")
    import ast
    aliases = {}
    for n in m.find_class(C).body:
        if isinstance(n, ast.Assign) and isinstance(n.value, ast.Name) and isinstance(n.targets[0], ast.Name):
            aliases[n.targets[0].id] = n.value.id
    m.out.append("def aliases : List (String × String) := [" +
                 ", ".join(f'("{k}", "{v}")' for k, v in sorted(aliases.items())) + "]")
    m.out.append("")
    return m


def gen_bt_dtypes(repo):
    m = T.Module(f"{repo}/src/nitypes/bintime/_dtypes.py", "Gen.BtDtypes")
    m.translate_dtype_fields("CVIAbsoluteTimeDType")
    m.translate_dtype_fields("CVITimeIntervalDType")
    return m


def gen_timedelta_float(repo):
    m = T.Module(f"{repo}/src/nitypes/bintime/_timedelta.py", "Gen.TimeDeltaFloat")
    m.translate_int_constants()
    m.translate_float_to_int("TimeDelta", "_to_ticks", "float", "to_ticks_float", "seconds")
    m.extra_dispatch = ['  | "TimeDeltaFloat.to_ticks_float", [n, e] => some (Py.render (to_ticks_float ⟨n, e.toNat⟩))']
    return m


def gen_complex_dtypes(repo):
    m = T.Module(f"{repo}/src/nitypes/complex/_dtypes.py", "Gen.ComplexDtypes")
    m.translate_dtype_fields("ComplexInt32DType")
    m2 = T.Module(f"{repo}/src/nitypes/complex/_conversion.py", "Gen.ComplexDtypes")
    m2.translate_expr_table("_COMPLEX_DTYPES")
    m2.translate_expr_table("_FIELD_DTYPE")
    m.out += m2.out
    return m


def gen_scaling(repo):
    m = T.Module(f"{repo}/src/nitypes/waveform/_scaling/_linear.py", "Gen.Scaling")
    m.translate_kind_assignments("LinearScaleMode", "__init__", ["_gain", "_offset"])
    m.translate_float_expr_method("LinearScaleMode", "_transform_data", "LinearScaleMode.transform", ["data", "gain", "offset"])
    m2 = T.Module(f"{repo}/src/nitypes/waveform/_scaling/_none.py", "Gen.Scaling")
    m2.translate_float_expr_method("NoneScaleMode", "_transform_data", "NoneScaleMode.transform", ["data"])
    m.out += m2.out
    return m


def gen_irregular(repo):
    m = T.Module(f"{repo}/src/nitypes/waveform/_timing/_sample_interval/_irregular.py", "Gen.Irregular")
    m.translate_int_enum("_Direction")
    # _get_direction(left, right): two `if a < b: return Enum.X` and a final return, over integers
    fn = m.find_func(None, "_get_direction")
    enum = dict(m.enums["_Direction"])
    body = [st for st in fn.body if not (isinstance(st, T.ast.Expr) and isinstance(st.value, T.ast.Constant))]
    args = [a.arg for a in fn.args.args]
    if len(args) != 2:
        raise T.Untranslatable("_get_direction: two parameters expected", fn, m.path)

    def val(e):
        if isinstance(e, T.ast.Attribute) and isinstance(e.value, T.ast.Name) and e.value.id == "_Direction" and e.attr in enum:
            return T.lit(enum[e.attr])
        raise T.Untranslatable(f"_get_direction: returns {T.ast.unparse(e)}", e, m.path)
    CMP = {T.ast.Lt: "<", T.ast.Gt: ">", T.ast.LtE: "≤", T.ast.GtE: "≥", T.ast.Eq: "=", T.ast.NotEq: "≠"}
    code = ""
    for st in body:
        if isinstance(st, T.ast.If) and not st.orelse and len(st.body) == 1 and isinstance(st.body[0], T.ast.Return) \
                and isinstance(st.test, T.ast.Compare) and len(st.test.ops) == 1 and type(st.test.ops[0]) in CMP \
                and isinstance(st.test.left, T.ast.Name) and isinstance(st.test.comparators[0], T.ast.Name) \
                and {st.test.left.id, st.test.comparators[0].id} <= set(args):
            code += f"if {st.test.left.id} {CMP[type(st.test.ops[0])]} {st.test.comparators[0].id} then {val(st.body[0].value)} else "
        elif isinstance(st, T.ast.Return):
            code += val(st.value)
            break
        else:
            raise T.Untranslatable(f"_get_direction: unsupported statement {T.ast.unparse(st)[:60]}", st, m.path)
    m.out.append("/-- generated from `_get_direction` -/")
    m.out.append(f"@[pygen] def _get_direction ({' '.join(args)} : Int) : Int := {code}")
    m.out.append("")
    m.translate_scan_function("_are_timestamps_monotonic", "_are_timestamps_monotonic", "timestamps", enum_cls="_Direction",
                              helpers={"_get_direction": "_get_direction"})
    m.extra_dispatch = ['  | "Irregular._get_direction", [a, b] => some (Py.render (_get_direction a b))',
                        '  | "Irregular._are_timestamps_monotonic", xs => some (Py.render (_are_timestamps_monotonic xs))']
    return m


def gen_atomic(repo):
    m = T.Module(f"{repo}/src/nitypes/waveform/_numeric.py", "Gen.Atomic")
    for meth in ("_append_array", "_append_waveforms", "_load_array", "_increase_capacity"):
        m.translate_effect_traces("NumericWaveform", meth, "numeric" + meth)
    m2 = T.Module(f"{repo}/src/nitypes/waveform/_digital/_waveform.py", "Gen.Atomic")
    for meth in ("_append_array", "_append_waveforms", "_load_array", "_increase_capacity"):
        m2.translate_effect_traces("DigitalWaveform", meth, "digital" + meth)
    m3 = T.Module(f"{repo}/src/nitypes/waveform/_spectrum.py", "Gen.Atomic")
    for meth in ("_append_array", "_append_spectrums", "_load_array", "_increase_capacity"):
        m3.translate_effect_traces("Spectrum", meth, "spectrum" + meth)
    m.out += m2.out + m3.out
    return m


def gen_digital_state(repo):
    m = T.Module(f"{repo}/src/nitypes/waveform/_digital/_state.py", "Gen.DigitalState")
    m.translate_table_constants(["_CHAR_TABLE", "_STATE_TEST_TABLE"])
    m.translate_int_enum("DigitalState")
    fn = m.find_func("DigitalState", "test")
    m.translate_function("DigitalState.test", fn, "test", [("state1", "int"), ("state2", "int")])
    return m


def gen_port(repo):
    m = T.Module(f"{repo}/src/nitypes/waveform/_digital/_port.py", "Gen.Port")
    m.translate_function("bit_mask", m.find_func(None, "bit_mask"), "bit_mask", [("n", "int")])
    m.translate_function("_get_port_dtype", m.find_func(None, "_get_port_dtype"), "_get_port_dtype", [("mask", "int")])
    # T8: the `while mask != 0` loop that turns a mask into column indices
    m.translate_function("_mask_to_column_indices", m.find_func(None, "_mask_to_column_indices"), "_mask_to_column_indices",
                         [("mask", "int"), ("port_size", "int"), ("bitorder", "str")], protocol=False)
    m.extra_dispatch = ['  | "Port._mask_to_column_indices", [m, w, big] => some (Py.render (_mask_to_column_indices m w (if big = 1 then "big" else "little")))']
    return m


def gen_geometry(repo):
    """T5: the argument checks of the three buffer classes (constructors, windows, setters) as functions of integers"""
    OPT = "optint"
    out = None
    for path, cls, tag, datakw in (("waveform/_numeric.py", "NumericWaveform", "numeric", "raw_data"), ("waveform/_spectrum.py", "Spectrum", "spectrum", "data"),
                                   ("waveform/_digital/_waveform.py", "DigitalWaveform", "digital", "data")):
        m = T.Module(f"{repo}/src/nitypes/{path}", "Gen.Geometry")
        geom = {"self._start_index": ("self_start", "int"), "self._sample_count": ("self_count", "int"), "self.sample_count": ("self_count", "int"),
                "self.capacity": ("self_capacity", "int"), "len(self._data)": ("self_capacity", "int"), "len(data)": ("data_len", "int"),
                "self._timing._timestamps is not None": ("has_stamps", "bool"), "len(self._timing._timestamps)": ("n_stamps", "int")}
        SELF = [("self_start", "int"), ("self_count", "int"), ("self_capacity", "int")]
        if tag != "digital":
            m.translate_geometry(cls, "_init_with_new_array", f"{tag}_new_geometry", [("sample_count", OPT), ("start_index", OPT), ("capacity", OPT)],
                                 ["start_index", "sample_count", "capacity"])
            m.translate_geometry(cls, "_init_with_provided_array", f"{tag}_provided_geometry", [("data_len", "int"), ("start_index", OPT), ("sample_count", OPT), ("capacity", OPT)],
                                 ["start_index", "sample_count", "capacity"], attr_map=geom)
        getter = "get_raw_data" if tag == "numeric" else "get_data"
        m.translate_geometry(cls, getter, f"{tag}_{getter}_window", [("start_index", OPT), ("sample_count", OPT)], ["start_index", "sample_count"],
                             attr_map=geom, extra_params=[("self_count", "int")])
        if tag != "spectrum":
            m.translate_geometry(cls, "sample_count", f"{tag}_set_sample_count", [("value", OPT)], ["value"], attr_map=geom, setter=True,
                                 extra_params=SELF[:1] + SELF[2:] + [("has_stamps", "bool"), ("n_stamps", "int")])
        m.translate_geometry(cls, "capacity", f"{tag}_set_capacity", [("value", OPT)], ["value"], attr_map=geom, setter=True, extra_params=SELF)
        if tag == "digital":
            tgeom = {"self.sample_count": ("self_count", "int"), "self.signal_count": ("self_signals", "int"),
                     "expected_waveform.signal_count": ("exp_signals", "int"), "expected_waveform.sample_count": ("exp_count", "int")}
            m.translate_geometry(cls, "test", "digital_test_window", [("start_sample", OPT), ("expected_start_sample", OPT), ("sample_count", OPT)],
                                 ["start_sample", "expected_start_sample", "sample_count"], attr_map=tgeom,
                                 extra_params=[("self_count", "int"), ("self_signals", "int"), ("exp_count", "int"), ("exp_signals", "int")])
        if out is None:
            out = m
        else:
            out.out += m.out
    return out


def gen_timing_args(repo, irregular):
    """T9: what a Timing accepts - `validate_unsupported_arg`, the three `validate_init_args`, the strategy table"""
    ast = T.ast
    # the two tuples of time classes the isinstance tests use must be exactly the three supported families
    tm = T.Module(f"{repo}/src/nitypes/time/_types.py", "Gen.TimingArgs")
    want = {"ANY_DATETIME_TUPLE": {"bt.DateTime", "dt.datetime", "ht.datetime"}, "ANY_TIMEDELTA_TUPLE": {"bt.TimeDelta", "dt.timedelta", "ht.timedelta"}}
    seen = {}
    for n in tm.tree.body:
        if isinstance(n, ast.Assign) and isinstance(n.targets[0], ast.Name) and n.targets[0].id in want and isinstance(n.value, ast.Tuple):
            seen[n.targets[0].id] = {ast.unparse(x) for x in n.value.elts}
    for k, v in want.items():
        if seen.get(k) != v:
            raise T.Untranslatable(f"{k} is {sorted(seen.get(k, []))}, expected the three time families {sorted(v)}", where=tm.path)
    kinds = {"ANY_DATETIME_TUPLE": "isDatetime", "ANY_TIMEDELTA_TUPLE": "isTimedelta", "type(None)": "isNone", "Sequence": "isSeq"}
    m = T.Module(f"{repo}/src/nitypes/_arguments.py", "Gen.TimingArgs", imports=[irregular])
    m.extra_imports = ["NiVerif.Model.Timing"]
    m.out.append("/-- members of `ANY_DATETIME_TUPLE` / `ANY_TIMEDELTA_TUPLE` (nitypes/time/_types.py), checked by the translator -/")
    m.out.append("@[pygen] def time_families : List (String × List String) := [" + ", ".join(
        f'("{k}", [' + ", ".join(f'"{x}"' for x in sorted(v)) + "])" for k, v in sorted(seen.items())) + "]")
    m.out.append("")
    m.translate_arg_validator(None, "validate_unsupported_arg", "validate_unsupported_arg", ["value"], kinds)
    m.validators["validate_unsupported_arg"] = "validate_unsupported_arg"
    P = ["timestamp", "time_offset", "sample_interval", "timestamps"]
    for fname, cls, tag in (("_none.py", "NoneSampleIntervalStrategy", "none"), ("_regular.py", "RegularSampleIntervalStrategy", "regular"),
                            ("_irregular.py", "IrregularSampleIntervalStrategy", "irregular")):
        m2 = T.Module(f"{repo}/src/nitypes/waveform/_timing/_sample_interval/{fname}", "Gen.TimingArgs")
        m2.validators = dict(m.validators)
        m2.translate_arg_validator(cls, "validate_init_args", f"{tag}_validate_init_args", P, kinds,
                                   helpers={"_are_timestamps_monotonic": "Gen.Irregular._are_timestamps_monotonic"})
        m.out += m2.out
    # the strategy table: which class validates which mode; anything else is an unknown mode
    m3 = T.Module(f"{repo}/src/nitypes/waveform/_timing/_sample_interval/__init__.py", "Gen.TimingArgs")
    table = None
    for n in m3.tree.body:
        tgt = n.target if isinstance(n, ast.AnnAssign) else (n.targets[0] if isinstance(n, ast.Assign) else None)
        if isinstance(tgt, ast.Name) and tgt.id == "_SAMPLE_INTERVAL_STRATEGY_TYPE_FOR_MODE" and isinstance(n.value, ast.Dict):
            table = [(ast.unparse(k), ast.unparse(v)) for k, v in zip(n.value.keys, n.value.values)]
    if table is None:
        raise T.Untranslatable("_SAMPLE_INTERVAL_STRATEGY_TYPE_FOR_MODE: literal dict not found", where=m3.path)
    fn = m3.find_func(None, "create_sample_interval_strategy")
    src = ast.unparse(fn)
    if "_SAMPLE_INTERVAL_STRATEGY_TYPE_FOR_MODE.get(sample_interval_mode)" not in src or "if strategy_type is None" not in src:
        raise T.Untranslatable("create_sample_interval_strategy: expected a dict.get lookup with a None check", fn, m3.path)
    m4 = T.Module(f"{repo}/src/nitypes/waveform/_timing/_timing.py", "Gen.TimingArgs")
    m4.translate_member_accessors("Timing", {"_timestamp": "timestamp", "_time_offset": "offset", "_sample_interval": "interval"},
                                  ["has_timestamp", "has_start_time", "has_time_offset", "has_sample_interval"],
                                  ["timestamp", "time_offset", "sample_interval"])
    m.out += m4.out
    # T9c: the named constructors (which arguments they hand to the general constructor), what `__eq__` compares, what `__reduce__` passes on
    init = m4.find_func("Timing", "__init__")
    init_params = [a.arg for a in init.args.args][1:]
    if init_params != ["sample_interval_mode", "timestamp", "time_offset", "sample_interval", "timestamps"]:
        raise T.Untranslatable(f"Timing.__init__ parameters {init_params}", init, m4.path)
    MODE = {"SampleIntervalMode.NONE": "Model.Timing.Mode.none", "SampleIntervalMode.REGULAR": "Model.Timing.Mode.regular", "SampleIntervalMode.IRREGULAR": "Model.Timing.Mode.irregular"}
    for name in ("create_with_no_interval", "create_with_regular_interval", "create_with_irregular_interval"):
        fn = m4.find_func("Timing", name)
        params = [a.arg for a in fn.args.args][1:]
        body = [st for st in fn.body if not (isinstance(st, ast.Expr) and isinstance(st.value, ast.Constant))]
        if not (len(body) == 1 and isinstance(body[0], ast.Return) and isinstance(body[0].value, ast.Call) and ast.unparse(body[0].value.func) in ("Timing", "cls")):
            raise T.Untranslatable(f"Timing.{name}: expected a single `return Timing(...)`", fn, m4.path)
        call = body[0].value
        slots = dict.fromkeys(init_params)
        for i, a in enumerate(call.args):
            slots[init_params[i]] = a
        for kw in call.keywords:
            if kw.arg not in slots or slots[kw.arg] is not None:
                raise T.Untranslatable(f"Timing.{name}: keyword {kw.arg}", fn, m4.path)
            slots[kw.arg] = kw.value
        terms = []
        for p in init_params:
            a = slots[p]
            if p == "sample_interval_mode":
                if a is None or ast.unparse(a) not in MODE:
                    raise T.Untranslatable(f"Timing.{name}: mode argument {ast.unparse(a) if a else None}", fn, m4.path)
                terms.append(MODE[ast.unparse(a)])
            elif a is None:
                terms.append("Model.Timing.Arg.absent")
            elif isinstance(a, ast.Name) and a.id in params:
                terms.append(a.id)
            else:
                raise T.Untranslatable(f"Timing.{name}: argument {ast.unparse(a)} for {p}", fn, m4.path)
        m.out.append(f"/-- generated from `Timing.{name}`: the arguments it hands to the general constructor (mode, timestamp, time_offset, sample_interval, timestamps) -/")
        m.out.append(f"@[pygen] def {name} " + " ".join(f"({p} : Model.Timing.Arg)" for p in params) + " : Model.Timing.Mode × Model.Timing.Arg × Model.Timing.Arg × Model.Timing.Arg × Model.Timing.Arg :=")
        m.out.append("  (" + ", ".join(terms) + ")")
        m.out.append("")
    eqf = m4.find_func("Timing", "__eq__")
    eb = [st for st in eqf.body if not (isinstance(st, ast.Expr) and isinstance(st.value, ast.Constant))]
    if not (len(eb) == 2 and ast.unparse(eb[0]) == "if not isinstance(value, self.__class__):\n    return NotImplemented" and isinstance(eb[1], ast.Return)
            and isinstance(eb[1].value, ast.BoolOp) and isinstance(eb[1].value.op, ast.And)):
        raise T.Untranslatable("Timing.__eq__: expected the class test and one conjunction of member comparisons", eqf, m4.path)
    members = []
    for c in eb[1].value.values:
        if not (isinstance(c, ast.Compare) and len(c.ops) == 1 and isinstance(c.ops[0], ast.Eq) and isinstance(c.left, ast.Attribute) and ast.unparse(c.left.value) == "self"
                and ast.unparse(c.comparators[0]) == "value." + c.left.attr):
            raise T.Untranslatable(f"Timing.__eq__: unsupported conjunct {ast.unparse(c)}", c, m4.path)
        members.append(c.left.attr)
    m.out.append("/-- generated from `Timing.__eq__`: the members compared with `==` (all of them must be equal) -/")
    m.out.append("@[pygen] def eq_members : List String := [" + ", ".join(f'"{x}"' for x in members) + "]")
    m.out.append("")
    rf = m4.find_func("Timing", "__reduce__")
    rsrc = "\n".join(ast.unparse(st) for st in rf.body if not (isinstance(st, ast.Expr) and isinstance(st.value, ast.Constant)))
    want = ("ctor_args = (self._sample_interval_mode, self._timestamp, self._time_offset, self._sample_interval, self._timestamps)\nctor_kwargs: dict[str, Any] = {}\n"
            "if self._timestamps is not None:\n    ctor_kwargs['copy_timestamps'] = False\nreturn (self.__class__._unpickle, (ctor_args, ctor_kwargs))")
    if rsrc != want:
        raise T.Untranslatable("Timing.__reduce__ is not the expected statement list:\n" + rsrc, rf, m4.path)
    m.out.append("/-- generated from `Timing.__reduce__`: the constructor arguments a pickle carries, in the constructor's parameter order -/")
    m.out.append('@[pygen] def reduce_args : List String := ["_sample_interval_mode", "_timestamp", "_time_offset", "_sample_interval", "_timestamps"]')
    m.out.append("")
    m.out.append("/-- generated from `_SAMPLE_INTERVAL_STRATEGY_TYPE_FOR_MODE` (a `dict.get` lookup; a miss raises ValueError) -/")
    m.out.append("@[pygen] def strategy_for_mode : List (String × String) := [" + ", ".join(f'("{k}", "{v}")' for k, v in table) + "]")
    m.out.append("")
    return m


def gen_regular(repo):
    """T10: the regular-interval timestamp generator"""
    m = T.Module(f"{repo}/src/nitypes/waveform/_timing/_sample_interval/_regular.py", "Gen.Regular")
    m.extra_imports = ["NiVerif.Model.Timing"]
    m.translate_timestamp_generator("RegularSampleIntervalStrategy", "_generate_regular_timestamps", "generate_regular_timestamps",
                                    {"timing.sample_interval": ("sample_interval", "rel"), "timing.start_time": ("start_time", "abs")},
                                    ["start_index", "count"])
    return m


def gen_scalar(repo):
    """T11: Scalar's rich comparisons"""
    m = T.Module(f"{repo}/src/nitypes/scalar.py", "Gen.Scalar")
    m.extra_imports = ["NiVerif.Model.Units"]
    m.translate_scalar_compare("Scalar", {"_NUMERIC": "isNum", "str": "isStr"})
    return m


def gen_args(repo):
    """T12: the integer-argument converters of nitypes/_arguments.py over the kinds of object a caller can pass (`Py.IntArg`)"""
    m = T.Module(f"{repo}/src/nitypes/_arguments.py", "Gen.Args")
    m.extra_imports = ["NiVerif.Py.Args"]
    m.translate_int_arg_function("arg_to_int", "arg_to_int")
    m.translate_int_arg_function("arg_to_uint", "arg_to_uint")
    return m


def gen_vector(repo):
    """T13: the mutating methods of nitypes.vector.Vector over argument objects"""
    m = T.Module(f"{repo}/src/nitypes/vector.py", "Gen.Vector")
    m.extra_imports = ["NiVerif.Model.VectorArgs"]
    m.translate_list_method("Vector", "__setitem__", "setitem")
    m.translate_list_method("Vector", "insert", "insert", index_is_int=True)
    m.translate_list_method("Vector", "__delitem__", "delitem")
    m.translate_vector_ctor("Vector", "ctor_validate")
    return m


def gen_ext_props(repo):
    """T14: ExtendedPropertyDictionary as a whole class"""
    m = T.Module(f"{repo}/src/nitypes/waveform/_extended_properties.py", "Gen.ExtProps")
    m.extra_imports = ["NiVerif.Py.Dict"]
    m.translate_dict_class("ExtendedPropertyDictionary")
    return m


def gen_units(repo):
    """T15: units / x_units / y_units / channel_name as views of the extended properties, and the constructors' units rule"""
    ast = T.ast
    keys = {}
    for path in ("waveform/_extended_properties.py", "xy_data.py"):
        tree = ast.parse(open(f"{repo}/src/nitypes/{path}").read())
        for n in tree.body:
            if isinstance(n, ast.Assign) and len(n.targets) == 1 and isinstance(n.targets[0], ast.Name) and isinstance(n.value, ast.Constant) \
                    and isinstance(n.value.value, str) and n.value.value.startswith("NI_"):
                keys[n.targets[0].id] = n.value.value
    m = T.Module(f"{repo}/src/nitypes/scalar.py", "Gen.Units")
    m.extra_imports = ["NiVerif.Model.Units"]
    m.out.append("/-- the property keys (module constants of _extended_properties.py and xy_data.py) -/")
    for k, v in sorted(keys.items()):
        m.out.append(f"@[pygen] def key_{k.strip('_')} : Model.Units.Str := [" + ", ".join(str(ord(c)) for c in v) + f"]   -- {v!r}")
    m.out.append("")
    plan = [("scalar.py", "Scalar", ["units"], ["units"]), ("vector.py", "Vector", ["units"], ["units"]),
            ("xy_data.py", "XYData", ["x_units", "y_units"], ["x_units", "y_units"]),
            ("waveform/_numeric.py", "NumericWaveform", ["units", "channel_name"], []),
            ("waveform/_spectrum.py", "Spectrum", ["units", "channel_name"], []),
            ("waveform/_digital/_waveform.py", "DigitalWaveform", ["channel_name"], [])]
    for path, cls, attrs, ctor_args in plan:
        m2 = T.Module(f"{repo}/src/nitypes/{path}", "Gen.Units")
        for a in attrs:
            m2.translate_property_view(cls, a, f"{cls}_{a}", keys)
        for a in ctor_args:
            m2.translate_units_ctor_rule(cls, a, f"{cls}_ctor_{a}", keys)
        m.out += m2.out
    # T22: what a pickle / copy round trip does to the extended properties of Scalar, Vector, XYData: `__reduce__` hands the dictionary over
    # with copy_extended_properties=False, `_unpickle` remembers which units entries were there, calls the constructor (units arguments
    # at their default "") and removes the entries the constructor added
    def stmts(path, cls, name):
        m_ = T.Module(f"{repo}/src/nitypes/{path}", "Gen.Units")
        fn = m_.find_func(cls, name)
        return [ast.unparse(st) for st in fn.body if not (isinstance(st, ast.Expr) and isinstance(st.value, ast.Constant))], fn, m_

    def expect(path, cls, name, want):
        got, fn, m_ = stmts(path, cls, name)
        if got != want:
            raise T.Untranslatable(f"{cls}.{name} is not the expected statement list:\n" + "\n".join(got), fn, m_.path)
    RET = "return (self.__class__._unpickle, (ctor_args, ctor_kwargs))"
    KW = "ctor_kwargs: dict[str, Any] = {'extended_properties': self._extended_properties, 'copy_extended_properties': False}"
    expect("scalar.py", "Scalar", "__reduce__", ["ctor_args = (self.value,)", KW, RET])
    expect("scalar.py", "Scalar", "_unpickle", ["had_units = UNIT_DESCRIPTION in kwargs['extended_properties']", "scalar = cls(*args, **kwargs)",
                                                "if not had_units:\n    del scalar._extended_properties[UNIT_DESCRIPTION]", "return scalar"])
    expect("vector.py", "Vector", "__reduce__", ["ctor_args = (self._values,)",
           "ctor_kwargs: dict[str, Any] = {'value_type': self._value_type, 'extended_properties': self._extended_properties, 'copy_extended_properties': False}", RET])
    expect("vector.py", "Vector", "_unpickle", ["had_units = UNIT_DESCRIPTION in kwargs['extended_properties']", "value_type = kwargs.get('value_type')",
           "if value_type is None:\n    vector = cls(*args, **kwargs)\nelse:\n    values, = args\n    vector = cls([], **kwargs)\n    vector._values = list(values)",
           "if not had_units:\n    del vector._extended_properties[UNIT_DESCRIPTION]", "return vector"])
    expect("xy_data.py", "XYData", "__reduce__", ["ctor_args = (self._x_data, self._y_data)", KW, RET])
    expect("xy_data.py", "XYData", "_unpickle", ["unit_keys = (_UNIT_DESCRIPTION_X, _UNIT_DESCRIPTION_Y)", "missing = [key for key in unit_keys if key not in kwargs['extended_properties']]",
           "xy_data = cls(*args, **kwargs)", "for key in missing:\n    del xy_data._extended_properties[key]", "return xy_data"])
    # with copy_extended_properties=False and a dictionary object the constructor takes the dictionary as it is
    TAKE = "if copy_extended_properties or not isinstance(extended_properties, ExtendedPropertyDictionary):\n    extended_properties = ExtendedPropertyDictionary(extended_properties)"
    for path, cls in (("scalar.py", "Scalar"), ("vector.py", "Vector"), ("xy_data.py", "XYData")):
        got, fn, m_ = stmts(path, cls, "__init__")
        if TAKE not in got or "self._extended_properties = extended_properties" not in got or got.index("self._extended_properties = extended_properties") != got.index(TAKE) + 1:
            raise T.Untranslatable(f"{cls}.__init__ does not take over the dictionary in the expected way", fn, m_.path)
        allargs = fn.args.args + fn.args.kwonlyargs
        alldefs = [None] * (len(fn.args.args) - len(fn.args.defaults)) + list(fn.args.defaults) + list(fn.args.kw_defaults)
        defaults = {a.arg: d for a, d in zip(allargs, alldefs)}
        for u in (("units",) if cls != "XYData" else ("x_units", "y_units")):
            d = defaults.get(u)
            if not (isinstance(d, ast.Constant) and d.value == ""):
                raise T.Untranslatable(f"{cls}.__init__: the default of {u} is not the empty string", fn, m_.path)
    E = "(Model.Units.PVal.str [])"
    for cls in ("Scalar", "Vector"):
        m.out += [f"/-- generated from `{cls}.__reduce__` / `_unpickle`: the extended properties of the rebuilt object, given the pickled ones -/",
                  f"@[pygen] def {cls}_unpickle_props (props : Model.Units.Dict) : Except PyErr Model.Units.Dict :=",
                  "  let had_units : Bool := (props.get key_UNIT_DESCRIPTION).isSome",
                  f"  Except.bind ({cls}_ctor_units props {E}) (fun props1 =>",
                  "    if ¬ (had_units = true) then Model.Units.Dict.del props1 key_UNIT_DESCRIPTION else Except.ok props1)", ""]
    m.out += ["/-- generated from `XYData.__reduce__` / `_unpickle` -/",
              "@[pygen] def XYData_unpickle_props (props : Model.Units.Dict) : Except PyErr Model.Units.Dict :=",
              "  let missing : List Model.Units.Str := [key_UNIT_DESCRIPTION_X, key_UNIT_DESCRIPTION_Y].filter (fun key => (props.get key).isNone)",
              f"  Except.bind (XYData_ctor_x_units props {E}) (fun props1 =>",
              f"  Except.bind (XYData_ctor_y_units props1 {E}) (fun props2 =>",
              "    missing.foldlM (fun d key => Model.Units.Dict.del d key) props2))", ""]
    return m


def gen_names(repo):
    """T16: the line-name cache of DigitalWaveform"""
    m = T.Module(f"{repo}/src/nitypes/waveform/_digital/_waveform.py", "Gen.Names")
    m.extra_imports = ["NiVerif.Model.Names"]
    m.translate_line_names("DigitalWaveform", {"LINE_NAMES": "NI_LineNames"})
    return m


def gen_bt_array(repo):
    """T17: the slice / insert / delete algorithm of the two bintime array classes (they must be the same text modulo the class names)"""
    import re
    ast = T.ast

    def methods(path, a, b, dty, cls):
        t = open(path).read().replace(a, "ITEM").replace(b, "item").replace(dty, "DTYPE")
        tree = ast.parse(t)
        c = next(n for n in tree.body if isinstance(n, ast.ClassDef) and n.name == cls.replace(a, "ITEM"))
        out = {}
        for n in c.body:
            if isinstance(n, ast.FunctionDef) and not any("overload" in ast.unparse(d) for d in n.decorator_list):
                for x in ast.walk(n):                      # messages may differ, code may not
                    if isinstance(x, ast.Constant) and isinstance(x.value, str):
                        x.value = ""
                out[n.name] = ast.dump(n)
        return out
    p_td = f"{repo}/src/nitypes/bintime/_timedelta_array.py"
    p_dt = f"{repo}/src/nitypes/bintime/_datetime_array.py"
    m_td, m_dt = methods(p_td, "TimeDelta", "timedelta", "CVITimeIntervalDType", "TimeDeltaArray"), methods(p_dt, "DateTime", "datetime", "CVIAbsoluteTimeDType", "DateTimeArray")
    if m_td != m_dt:
        diff = sorted(k for k in set(m_td) | set(m_dt) if m_td.get(k) != m_dt.get(k))
        raise T.Untranslatable(f"DateTimeArray and TimeDeltaArray are no longer the same code modulo the class names (methods {diff}); one translation cannot stand for both", where=p_dt)
    m = T.Module(p_td, "Gen.BtArray")
    m.extra_imports = ["NiVerif.Model.Np1"]
    m.translate_bt_array("TimeDeltaArray", "TimeDelta")
    return m


def gen_append_timing(repo):
    """T18: append_timing / append_timestamps of the three strategies, and the dispatch in Timing"""
    ast = T.ast
    base = f"{repo}/src/nitypes/waveform/_timing"
    m = T.Module(f"{base}/_sample_interval/_none.py", "Gen.AppendTiming")
    m.extra_imports = ["NiVerif.Model.Wfm"]
    for fname, cls, tag in (("_none.py", "NoneSampleIntervalStrategy", "none"), ("_regular.py", "RegularSampleIntervalStrategy", "regular"),
                            ("_irregular.py", "IrregularSampleIntervalStrategy", "irregular")):
        m2 = T.Module(f"{base}/_sample_interval/{fname}", "Gen.AppendTiming")
        m2.translate_append_timing(cls, tag)
        m.out += m2.out
    # Timing._append_timing / _append_timestamps hand the call to the strategy of the receiver's mode
    mt = T.Module(f"{base}/_timing.py", "Gen.AppendTiming")
    want = {"_append_timing": "if not isinstance(other, self.__class__):\n    raise TypeError('The input waveform(s) must have the same waveform timing type as the current waveform.')\n"
                              "new_timing = self._sample_interval_strategy.append_timing(self, other)\nassert isinstance(new_timing, self.__class__)\nreturn new_timing",
            "_append_timestamps": "new_timing = self._sample_interval_strategy.append_timestamps(self, timestamps)\nassert isinstance(new_timing, self.__class__)\nreturn new_timing"}
    for name, w in want.items():
        fn = mt.find_func("Timing", name)
        got = "\n".join(ast.unparse(st) for st in fn.body if not (isinstance(st, ast.Expr) and isinstance(st.value, ast.Constant)))
        if got != w:
            raise T.Untranslatable(f"Timing.{name} is not the plain hand-over to the strategy:\n{got}", fn, mt.path)
    ms = T.Module(f"{base}/_sample_interval/__init__.py", "Gen.AppendTiming")
    table = None
    for n in ms.tree.body:
        tgt = n.target if isinstance(n, ast.AnnAssign) else (n.targets[0] if isinstance(n, ast.Assign) else None)
        if isinstance(tgt, ast.Name) and tgt.id == "_SAMPLE_INTERVAL_STRATEGY_TYPE_FOR_MODE" and isinstance(n.value, ast.Dict):
            table = {ast.unparse(k): ast.unparse(v) for k, v in zip(n.value.keys, n.value.values)}
    exp = {"SampleIntervalMode.NONE": "NoneSampleIntervalStrategy", "SampleIntervalMode.REGULAR": "RegularSampleIntervalStrategy", "SampleIntervalMode.IRREGULAR": "IrregularSampleIntervalStrategy"}
    if table != exp:
        raise T.Untranslatable(f"strategy table {table}, expected {exp}", where=ms.path)
    m.out.append("/-- generated from `Timing._append_timing` and the strategy table: the strategy of the RECEIVER's mode decides -/")
    m.out.append("@[pygen] def append_timing (timing other : Model.Wfm.WTiming) : Except PyErr (Model.Wfm.WTiming × List Model.Wfm.Warning) :=")
    m.out.append("  match timing.mode with\n  | .none => none_append_timing timing other\n  | .regular => regular_append_timing timing other\n  | .irregular => irregular_append_timing timing other")
    m.out.append("")
    m.out.append("/-- generated from `Timing._append_timestamps` and the strategy table -/")
    m.out.append("@[pygen] def append_timestamps (timing : Model.Wfm.WTiming) (timestamps : Option (List Int)) (types_ok : Bool) : Except PyErr Model.Wfm.WTiming :=")
    m.out.append("  match timing.mode with\n  | .none => none_append_timestamps timing timestamps types_ok\n  | .regular => regular_append_timestamps timing timestamps types_ok\n  | .irregular => irregular_append_timestamps timing timestamps types_ok")
    m.out.append("")
    return m


def gen_test_loops(repo, digital_state):
    """T19: the comparison loops of DigitalWaveform.test"""
    m = T.Module(f"{repo}/src/nitypes/waveform/_digital/_waveform.py", "Gen.TestLoops", imports=[digital_state])
    m.extra_imports = ["NiVerif.Model.DigitalTest"]
    m.translate_test_loops("DigitalWaveform", "test_loops")
    return m


def gen_port_line(repo, port):
    """T20: port_to_line_data over the sample values"""
    m = T.Module(f"{repo}/src/nitypes/waveform/_digital/_port.py", "Gen.PortLine", imports=[port])
    m.extra_imports = ["NiVerif.Model.Port"]
    m.translate_port_to_line("port_to_line_data")
    return m


def gen_get_timestamps(repo, regular):
    """T21: Timing.get_timestamps end to end: the conversions and sign checks, the hand-over to the strategy of the mode, the three
    strategies' get_timestamps (NONE refuses, REGULAR needs a timestamp and runs the generator of tier T10 from start_time, IRREGULAR
    checks the window and slices), and the start_time property."""
    ast = T.ast
    base = f"{repo}/src/nitypes/waveform/_timing"

    def body_text(path, cls, name, prop=False):
        m_ = T.Module(path, "Gen.GetTimestamps")
        c = m_.find_class(cls)
        fn = next(n for n in c.body if isinstance(n, ast.FunctionDef) and n.name == name and (not prop or any(ast.unparse(d) == "property" for d in n.decorator_list)))
        return [ast.unparse(st) for st in fn.body if not (isinstance(st, ast.Expr) and isinstance(st.value, ast.Constant)) and not isinstance(st, ast.Assert)], fn, m_.path
    checks = [
        (f"{base}/_timing.py", "Timing", "get_timestamps", False,
         ["start_index = operator.index(start_index)", "count = operator.index(count)",
          "if start_index < 0:\n    raise ValueError('The sample index must be a non-negative integer.')",
          "if count < 0:\n    raise ValueError('The count must be a non-negative integer.')",
          "return self._sample_interval_strategy.get_timestamps(self, start_index, count)"]),
        (f"{base}/_timing.py", "Timing", "start_time", True,
         ["value = self.timestamp", "if self.has_time_offset:\n    value += self.time_offset", "return value"]),
        (f"{base}/_sample_interval/_none.py", "NoneSampleIntervalStrategy", "get_timestamps", False, ["raise create_no_timestamp_information_error()"]),
        (f"{base}/_sample_interval/_regular.py", "RegularSampleIntervalStrategy", "get_timestamps", False,
         ["if timing.has_timestamp:\n    return self._generate_regular_timestamps(timing, start_index, count)", "raise create_no_timestamp_information_error()"]),
        (f"{base}/_sample_interval/_irregular.py", "IrregularSampleIntervalStrategy", "get_timestamps", False,
         ["if start_index + count > len(timing._timestamps):\n    raise ValueError('The start index plus the count must be less than or equal to the number of timestamps.')",
          "return timing._timestamps[start_index:start_index + count]"]),
    ]
    for path, cls, name, prop, want in checks:
        got, fn, p = body_text(path, cls, name, prop)
        if got != want:
            raise T.Untranslatable(f"{cls}.{name} is not the expected statement list:\n" + "\n".join(got), fn, p)
    m = T.Module(f"{base}/_timing.py", "Gen.GetTimestamps", imports=[regular])
    m.extra_imports = ["NiVerif.Model.Timing"]
    m.out += [
        "/-- generated from `Timing.start_time`: the timestamp (RuntimeError when absent, by the accessor of tier T9b) plus the offset when there is one -/",
        "@[pygen] def start_time (F : Model.Timing.Fam) (timestamp offset : Option Int) : Except PyErr Int :=",
        "  match timestamp with\n  | none => Except.error PyErr.RuntimeError\n  | some value => (match offset with\n    | none => Except.ok value\n    | some off => F.abs (value + off))",
        "",
        "/-- generated from `NoneSampleIntervalStrategy.get_timestamps` -/",
        "@[pygen] def none_get_timestamps : Except PyErr (List Int) := Except.error PyErr.NoTimestampInformationError",
        "",
        "/-- generated from `RegularSampleIntervalStrategy.get_timestamps` (the generator is tier T10's; it reads `timing.sample_interval`, then `timing.start_time`) -/",
        "@[pygen] def regular_get_timestamps (F : Model.Timing.Fam) (timestamp offset interval : Option Int) (start_index count : Int) : Except PyErr (List Int) :=",
        "  if timestamp.isSome = true then\n    (match interval with\n     | none => Except.error PyErr.RuntimeError\n     | some sample_interval =>\n"
        "       Except.bind (start_time F timestamp offset) (fun st => Gen.Regular.generate_regular_timestamps F sample_interval st start_index count))\n"
        "  else Except.error PyErr.NoTimestampInformationError",
        "",
        "/-- generated from `IrregularSampleIntervalStrategy.get_timestamps` -/",
        "@[pygen] def irregular_get_timestamps (stamps : List Int) (start_index count : Int) : Except PyErr (List Int) :=",
        "  if start_index + count > (stamps.length : Int) then Except.error PyErr.ValueError\n  else Except.ok ((stamps.drop start_index.toNat).take ((start_index + count).toNat - start_index.toNat))",
        "",
        "/-- generated from `Timing.get_timestamps` and the strategy table -/",
        "@[pygen] def get_timestamps (F : Model.Timing.Fam) (mode : Model.Timing.Mode) (timestamp offset interval : Option Int) (stamps : List Int) (start_index count : Int) : Except PyErr (List Int) :=",
        "  if start_index < 0 then Except.error PyErr.ValueError else\n  if count < 0 then Except.error PyErr.ValueError else\n  match mode with\n  | .irregular => irregular_get_timestamps stamps start_index count\n"
        "  | .regular => regular_get_timestamps F timestamp offset interval start_index count\n  | _ => none_get_timestamps",
        ""]
    return m


def gen_scaled_data(repo, scaling):
    """T23: get_scaled_data end to end: the default and supported scaled dtypes of the two numeric classes, and the order of the steps
    (default, validate_dtype, get_raw_data window, _convert_data, scale_mode._transform_data); scaled_data = get_scaled_data()"""
    ast = T.ast
    NAMES = {"np.single": "f32", "np.float32": "f32", "np.double": "f64", "np.float64": "f64", "np.csingle": "c64", "np.complex64": "c64", "np.cdouble": "c128", "np.complex128": "c128"}
    m = T.Module(f"{repo}/src/nitypes/waveform/_numeric.py", "Gen.ScaledData", imports=[scaling])
    m.extra_imports = ["NiVerif.Model.Scaling"]
    fn = m.find_func("NumericWaveform", "get_scaled_data")
    got = [ast.unparse(st) for st in fn.body if not (isinstance(st, ast.Expr) and isinstance(st.value, ast.Constant))]
    want = ["if dtype is None:\n    dtype = self.__class__._get_default_scaled_dtype()", "validate_dtype(dtype, self.__class__._get_supported_scaled_dtypes())",
            "raw_data = self.get_raw_data(start_index, sample_count)", "converted_data: npt.NDArray[Any] = self._convert_data(dtype, raw_data)",
            "return self._scale_mode._transform_data(converted_data)"]
    if got != want:
        raise T.Untranslatable("NumericWaveform.get_scaled_data is not the expected statement list:\n" + "\n".join(got), fn, m.path)
    c = m.find_class("NumericWaveform")
    prop = next(n for n in c.body if isinstance(n, ast.FunctionDef) and n.name == "scaled_data")
    pb = [ast.unparse(st) for st in prop.body if not (isinstance(st, ast.Expr) and isinstance(st.value, ast.Constant))]
    if pb != ["return self.get_scaled_data()"] or [ast.unparse(d) for d in prop.decorator_list] != ["property"]:
        raise T.Untranslatable("NumericWaveform.scaled_data is not `return self.get_scaled_data()`", prop, m.path)
    tables = {}
    for path, cls, kind, conv in (("_analog.py", "AnalogWaveform", "analog", "return raw_data.astype(dtype)"), ("_complex.py", "ComplexWaveform", "complex", "return convert_complex(dtype, raw_data)")):
        mk = T.Module(f"{repo}/src/nitypes/waveform/{path}", "Gen.ScaledData")
        tup = None
        for n in mk.tree.body:
            if isinstance(n, ast.Assign) and len(n.targets) == 1 and ast.unparse(n.targets[0]) == "_SCALED_DTYPES" and isinstance(n.value, ast.Tuple):
                tup = [ast.unparse(x) for x in n.value.elts]
        if tup is None or any(x not in NAMES for x in tup):
            raise T.Untranslatable(f"{cls}: _SCALED_DTYPES {tup}", where=mk.path)
        d = mk.find_func(cls, "_get_default_scaled_dtype")
        db = [ast.unparse(st) for st in d.body if not (isinstance(st, ast.Expr) and isinstance(st.value, ast.Constant))]
        sp = mk.find_func(cls, "_get_supported_scaled_dtypes")
        sb = [ast.unparse(st) for st in sp.body if not (isinstance(st, ast.Expr) and isinstance(st.value, ast.Constant))]
        cv = mk.find_func(cls, "_convert_data")
        cb = [ast.unparse(st) for st in cv.body if not (isinstance(st, ast.Expr) and isinstance(st.value, ast.Constant))]
        if len(db) != 1 or not db[0].startswith("return ") or db[0][7:] not in NAMES or sb != ["return _SCALED_DTYPES"] or cb != [conv]:
            raise T.Untranslatable(f"{cls}: default / supported scaled dtypes or _convert_data are not in the expected form: {db} {sb} {cb}", d, mk.path)
        tables[kind] = (NAMES[db[0][7:]], [NAMES[x] for x in tup])
    m.out.append("/-- generated from `_get_default_scaled_dtype` of AnalogWaveform / ComplexWaveform -/")
    m.out.append("@[pygen] def default_scaled_dtype : Model.Scaling.WKind → Model.Scaling.SDt\n  | .analog => Model.Scaling.SDt." + tables["analog"][0] + "\n  | .complex => Model.Scaling.SDt." + tables["complex"][0])
    m.out.append("")
    m.out.append("/-- generated from `_SCALED_DTYPES` of the two modules (what `_get_supported_scaled_dtypes` returns) -/")
    m.out.append("@[pygen] def supported_scaled_dtypes : Model.Scaling.WKind → List Model.Scaling.SDt\n  | .analog => [" + ", ".join("Model.Scaling.SDt." + x for x in tables["analog"][1])
                 + "]\n  | .complex => [" + ", ".join("Model.Scaling.SDt." + x for x in tables["complex"][1]) + "]")
    m.out.append("")
    m.out.append("/-- generated from `NumericWaveform.get_scaled_data`: default dtype, `validate_dtype`, the raw window, `_convert_data`, the scale mode - in this order -/")
    m.out.append("@[pygen] def get_scaled_data (w : Model.Scaling.Wf) (dtype : Option Model.Scaling.SDt) (start_index sample_count : Option Int) : Except PyErr (Model.Scaling.SDt × List Model.Complex.Elem) :=")
    m.out.append("  let dtype : Model.Scaling.SDt := match dtype with | none => default_scaled_dtype w.kind | some d => d\n"
                 "  if ¬ ((supported_scaled_dtypes w.kind).contains dtype = true) then Except.error PyErr.TypeError else\n"
                 "  Except.bind (Model.Scaling.window w.data.length start_index sample_count) (fun sc =>\n"
                 "  Except.bind (Model.Scaling.convertData w dtype ((w.data.drop sc.1).take sc.2)) (fun converted_data =>\n"
                 "  Except.bind (Model.Scaling.resultDtype dtype w.mode) (fun rdt =>\n"
                 "    Except.ok (rdt, converted_data.map (Model.Scaling.scaleElem dtype.bits w.kind w.mode)))))")
    m.out.append("")
    m.out.append("/-- generated from the `scaled_data` property -/")
    m.out.append("@[pygen] def scaled_data (w : Model.Scaling.Wf) : Except PyErr (Model.Scaling.SDt × List Model.Complex.Elem) := get_scaled_data w none (some 0) none")
    m.out.append("")
    return m


def gen_conversion(repo, timedelta):
    """T24: nitypes.time.convert_timedelta: the destination table, the three single-dispatch functions and what each registered
    overload does, as routes over the conversion legs of Model/Conv.lean (whose bintime kernels are themselves generated)"""
    ast = T.ast
    m = T.Module(f"{repo}/src/nitypes/time/_conversion.py", "Gen.Conversion", imports=[timedelta])
    m.extra_imports = ["NiVerif.Model.Conv"]
    FAM = {"bt.TimeDelta": "bt", "dt.timedelta": "dt", "ht.timedelta": "ht"}
    table = None
    for n in m.tree.body:
        tgt = n.target if isinstance(n, ast.AnnAssign) else (n.targets[0] if isinstance(n, ast.Assign) else None)
        if isinstance(tgt, ast.Name) and tgt.id == "_CONVERT_TIMEDELTA_FOR_TYPE" and isinstance(n.value, ast.Dict):
            table = {ast.unparse(k): ast.unparse(v) for k, v in zip(n.value.keys, n.value.values)}
    if table is None or set(table) != set(FAM):
        raise T.Untranslatable(f"_CONVERT_TIMEDELTA_FOR_TYPE: {table}", where=m.path)
    top = m.find_func(None, "convert_timedelta")
    tb = [ast.unparse(st) for st in top.body if not (isinstance(st, ast.Expr) and isinstance(st.value, ast.Constant))]
    if tb != ["convert_func = _CONVERT_TIMEDELTA_FOR_TYPE.get(requested_type)", "if convert_func is None:\n    raise invalid_requested_type('timedelta', requested_type)",
              "return cast(TTimeDelta, convert_func(value))"]:
        raise T.Untranslatable("convert_timedelta is not the expected statement list:\n" + "\n".join(tb), top, m.path)
    # the registered overloads of each single-dispatch function, by the annotation of `value`
    regs = {}
    for n in m.tree.body:
        if isinstance(n, ast.FunctionDef) and n.name == "_" and n.decorator_list:
            d = ast.unparse(n.decorator_list[0])
            if d.endswith(".register"):
                ann = ast.unparse(n.args.posonlyargs[0].annotation) if n.args.posonlyargs else ast.unparse(n.args.args[0].annotation)
                body = [ast.unparse(st) for st in n.body if not (isinstance(st, ast.Expr) and isinstance(st.value, ast.Constant))]
                regs.setdefault(d[:-len(".register")], {})[ann] = (body, n)
    ROUTE = {("bt", "return value"): "id", ("dt", "return value"): "id", ("ht", "return value"): "id",
             "return bt.TimeDelta(value)": "bt_ctor", "return value._to_datetime_timedelta()": "to_dt", "return value._to_hightime_timedelta()": "to_ht",
             "return dt.timedelta(value.days, value.seconds, value.microseconds)": "dt_fields", "return ht.timedelta(value.days, value.seconds, value.microseconds)": "ht_fields"}
    LEG = {("bt", "dt", "bt_ctor"): "Model.Conv.btOfDt x", ("bt", "ht", "bt_ctor"): "Model.Conv.btOfHt x", ("dt", "bt", "to_dt"): "Model.Conv.dtOfBt x",
           ("ht", "bt", "to_ht"): "Model.Conv.htOfBt x", ("dt", "ht", "dt_fields"): "Model.Conv.dtOfHt x", ("ht", "dt", "ht_fields"): "Model.Conv.htOfDt x"}
    lines = []
    for dest_py, func in table.items():
        dest = FAM[dest_py]
        r = regs.get(func, {})
        if set(r) != set(FAM):
            raise T.Untranslatable(f"{func}: registered for {sorted(r)}, expected the three timedelta families", where=m.path)
        base = m.find_func(None, func)
        bb = [ast.unparse(st) for st in base.body if not (isinstance(st, ast.Expr) and isinstance(st.value, ast.Constant))]
        if bb != ["raise invalid_arg_type('value', 'timedelta', value)"]:
            raise T.Untranslatable(f"{func}: the fallback is not the TypeError", base, m.path)
        for src_py, (body, node) in r.items():
            src = FAM[src_py]
            if len(body) != 1:
                raise T.Untranslatable(f"{func}({src_py}): {body}", node, m.path)
            route = ROUTE.get(body[0]) if dest != src else ROUTE.get((dest, body[0]))
            if route == "id" and dest == src:
                term = "Except.ok x"
            else:
                term = LEG.get((dest, src, route))
            if term is None:
                raise T.Untranslatable(f"{func}({src_py}): unsupported conversion `{body[0]}`", node, m.path)
            lines.append(f"  | .{dest}, .{src}, x => {term}")
    # the datetime side: same shape; the field copies keep tzinfo and fold
    FAMD = {"bt.DateTime": "bt", "dt.datetime": "dt", "ht.datetime": "ht"}
    tabled = None
    for n in m.tree.body:
        tgt = n.target if isinstance(n, ast.AnnAssign) else (n.targets[0] if isinstance(n, ast.Assign) else None)
        if isinstance(tgt, ast.Name) and tgt.id == "_CONVERT_DATETIME_FOR_TYPE" and isinstance(n.value, ast.Dict):
            tabled = {ast.unparse(k): ast.unparse(v) for k, v in zip(n.value.keys, n.value.values)}
    if tabled is None or set(tabled) != set(FAMD):
        raise T.Untranslatable(f"_CONVERT_DATETIME_FOR_TYPE: {tabled}", where=m.path)
    topd = m.find_func(None, "convert_datetime")
    tbd = [ast.unparse(st) for st in topd.body if not (isinstance(st, ast.Expr) and isinstance(st.value, ast.Constant))]
    if tbd != ["convert_func = _CONVERT_DATETIME_FOR_TYPE.get(requested_type)", "if convert_func is None:\n    raise invalid_requested_type('datetime', requested_type)",
               "return cast(TDateTime, convert_func(value))"]:
        raise T.Untranslatable("convert_datetime is not the expected statement list:\n" + "\n".join(tbd), topd, m.path)
    FIELDS = "value.year, value.month, value.day, value.hour, value.minute, value.second, value.microsecond"
    ROUTED = {"return bt.DateTime(value)": "bt_ctor", "return value._to_datetime_datetime()": "to_dt", "return value._to_hightime_datetime()": "to_ht",
              f"return dt.datetime({FIELDS}, value.tzinfo, fold=value.fold)": "dt_fields", f"return ht.datetime({FIELDS}, tzinfo=value.tzinfo, fold=value.fold)": "ht_fields"}
    LEGD = {("bt", "dt", "bt_ctor"): "Model.Mixed.btDtOfDt x", ("bt", "ht", "bt_ctor"): "Model.Mixed.btDtOfHt x", ("dt", "bt", "to_dt"): "Model.Mixed.dtOfBtDt x",
            ("ht", "bt", "to_ht"): "Model.Mixed.htOfBtDt x", ("dt", "ht", "dt_fields"): "Except.ok (Model.Mixed.dtAbsOfHt x)", ("ht", "dt", "ht_fields"): "Except.ok (Model.Mixed.htAbsOfDt x)"}
    linesd = []
    for dest_py, func in tabled.items():
        dest = FAMD[dest_py]
        r = regs.get(func, {})
        if set(r) != set(FAMD):
            raise T.Untranslatable(f"{func}: registered for {sorted(r)}, expected the three datetime families", where=m.path)
        base = m.find_func(None, func)
        bb = [ast.unparse(st) for st in base.body if not (isinstance(st, ast.Expr) and isinstance(st.value, ast.Constant))]
        if bb != ["raise invalid_arg_type('value', 'datetime', value)"]:
            raise T.Untranslatable(f"{func}: the fallback is not the TypeError", base, m.path)
        for src_py, (body, node) in r.items():
            src = FAMD[src_py]
            if len(body) != 1:
                raise T.Untranslatable(f"{func}({src_py}): {body}", node, m.path)
            if dest == src:
                term = "Except.ok x" if body[0] == "return value" else None
            else:
                term = LEGD.get((dest, src, ROUTED.get(body[0])))
            if term is None:
                raise T.Untranslatable(f"{func}({src_py}): unsupported conversion `{body[0]}`", node, m.path)
            linesd.append(f"  | .{dest}, .{src}, x => {term}")
    m.extra_imports = ["NiVerif.Model.Conv", "NiVerif.Model.Mixed"]
    m.out.append("/-- the three timedelta families -/")
    m.out.append("inductive Fam3 where | bt | dt | ht\n  deriving DecidableEq, Repr")
    m.out.append("")
    m.out.append("/-- generated from `convert_timedelta`, `_CONVERT_TIMEDELTA_FOR_TYPE` and the registered overloads of the three `_convert_to_*_timedelta`: (destination, source, value) -/")
    m.out.append("@[pygen] def convert_timedelta : Fam3 → Fam3 → Int → Except PyErr Int")
    m.out += lines
    m.out.append("")
    m.out.append("/-- generated from `convert_datetime`, `_CONVERT_DATETIME_FOR_TYPE` and the registered overloads of the three converters; values are instants (UTC): (destination, source, value) -/")
    m.out.append("@[pygen] def convert_datetime : Fam3 → Fam3 → Int → Except PyErr Int")
    m.out += linesd
    m.out.append("")
    return m


def gen_complex_convert(repo, dtypes):
    """T25: nitypes.complex.convert_complex and _convert_complexint32_array: the validation, the identity route, the ComplexInt32 route
    with its 0-d detour (reshape(1) ... [0]) and the plain astype route, as an if-chain over a small vocabulary of conditions and
    array expressions whose NumPy meaning is in Model/Complex.lean (reshape1, index0, viewFields, FArr.astype, viewAs, astypeArr)"""
    ast = T.ast
    m = T.Module(f"{repo}/src/nitypes/complex/_conversion.py", "Gen.ComplexConvert", imports=[dtypes])
    m.extra_imports = ["NiVerif.Model.Complex"]

    def strip(body):
        return [st for st in body if not (isinstance(st, ast.Expr) and isinstance(st.value, ast.Constant))]

    def impl(name):
        fs = [n for n in m.tree.body if isinstance(n, ast.FunctionDef) and n.name == name
              and not any(ast.unparse(d) == "overload" for d in n.decorator_list)]
        if len(fs) != 1:
            raise T.Untranslatable(f"{name}: expected exactly one implementation, found {len(fs)}", where=m.path)
        return fs[0]

    ATOM = {"requested_dtype == value.dtype": "req = value.dtype", "value.dtype == requested_dtype": "req = value.dtype",
            "requested_dtype == ComplexInt32DType": "req = Model.Complex.DT.ci32", "ComplexInt32DType == requested_dtype": "req = Model.Complex.DT.ci32",
            "value.dtype == ComplexInt32DType": "value.dtype = Model.Complex.DT.ci32", "ComplexInt32DType == value.dtype": "value.dtype = Model.Complex.DT.ci32",
            "value.shape == ()": "value.shape = []", "value.ndim == 0": "value.shape = []"}

    def cond(e):
        if isinstance(e, ast.BoolOp):
            op = " ∨ " if isinstance(e.op, ast.Or) else " ∧ "
            return "(" + op.join(cond(v) for v in e.values) + ")"
        if isinstance(e, ast.UnaryOp) and isinstance(e.op, ast.Not):
            return "¬ " + cond(e.operand)
        s = ast.unparse(e)
        if s in ATOM:
            return "(" + ATOM[s] + ")"
        raise T.Untranslatable(f"convert_complex: condition `{s}` is outside the vocabulary", e, m.path)

    def arr(e):
        """an array-valued expression -> a Lean term of type Except PyErr Arr"""
        if isinstance(e, ast.Call) and ast.unparse(e.func) == "cast" and len(e.args) == 2:
            return arr(e.args[1])                                 # typing.cast is the identity
        if isinstance(e, ast.Name) and e.id == "value":
            return "Except.ok value"
        if isinstance(e, ast.Call) and ast.unparse(e.func) == "_convert_complexint32_array" and len(e.args) == 2 and not e.keywords \
                and ast.unparse(e.args[0]) == "requested_dtype":
            return f"Except.bind ({arr(e.args[1])}) (fun v => _convert_complexint32_array req v)"
        if isinstance(e, ast.Call) and isinstance(e.func, ast.Attribute) and e.func.attr == "reshape" and [ast.unparse(a) for a in e.args] == ["1"] and not e.keywords:
            return f"Except.bind ({arr(e.func.value)}) Model.Complex.reshape1"
        if isinstance(e, ast.Subscript) and ast.unparse(e.slice) == "0":
            return f"Except.bind ({arr(e.value)}) Model.Complex.index0"
        if isinstance(e, ast.Call) and isinstance(e.func, ast.Attribute) and e.func.attr == "astype" and [ast.unparse(a) for a in e.args] == ["requested_dtype"] and not e.keywords:
            return f"Except.bind ({arr(e.func.value)}) (Model.Complex.astypeArr req)"
        raise T.Untranslatable(f"convert_complex: expression `{ast.unparse(e)}` is outside the vocabulary", e, m.path)

    def block(body, ind):
        body = strip(body)
        if len(body) != 1:
            raise T.Untranslatable("convert_complex: a branch is not a single return / if:\n" + "\n".join(ast.unparse(s) for s in body), body[0] if body else None, m.path)
        st = body[0]
        if isinstance(st, ast.Return) and st.value is not None:
            return ind + arr(st.value)
        if isinstance(st, ast.If) and st.orelse:
            return f"{ind}if {cond(st.test)} then\n{block(st.body, ind + '  ')}\n{ind}else\n{block(st.orelse, ind + '  ')}"
        raise T.Untranslatable(f"convert_complex: statement `{ast.unparse(st)}` is outside the vocabulary", st, m.path)

    # ---- _convert_complexint32_array
    inner = impl("_convert_complexint32_array")
    if [a.arg for a in inner.args.args] != ["requested_dtype", "value"]:
        raise T.Untranslatable("_convert_complexint32_array: parameters", inner, m.path)
    ib = [ast.unparse(st) for st in strip(inner.body)]
    NORM = "if not isinstance(requested_dtype, np.dtype):\n    requested_dtype = np.dtype(requested_dtype)"
    CONTIG = "if not value.flags.c_contiguous:\n    value = np.ascontiguousarray(value)"
    want = [NORM, "requested_field_dtype = _FIELD_DTYPE.get(requested_dtype)",
            "if requested_field_dtype is None:\n    raise unsupported_dtype('requested data type', requested_dtype, _COMPLEX_DTYPES)",
            "value_field_dtype = _FIELD_DTYPE.get(value.dtype)",
            "if value_field_dtype is None:\n    raise unsupported_dtype('array data type', value.dtype, _COMPLEX_DTYPES)",
            CONTIG]
    if ib[:-1] != want or not ib[-1].startswith("return "):
        raise T.Untranslatable("_convert_complexint32_array is not the expected statement list:\n" + "\n".join(ib), inner, m.path)
    # the returned chain: value.view(F1).astype(F2).view(D) - each link is translated on its own
    chain = []
    e = strip(inner.body)[-1].value
    while isinstance(e, ast.Call) and isinstance(e.func, ast.Attribute) and len(e.args) == 1 and not e.keywords:
        chain.append((e.func.attr, ast.unparse(e.args[0])))
        e = e.func.value
    chain.reverse()
    if not (isinstance(e, ast.Name) and e.id == "value"):
        raise T.Untranslatable(f"_convert_complexint32_array: the returned chain does not start at `value`: {ast.unparse(e)}", inner, m.path)
    term, ty = "value", "arr"
    for meth, arg in chain:
        if ty == "arr" and meth == "view" and arg in ("value_field_dtype", "requested_field_dtype"):
            term, ty = f"Model.Complex.viewFields {arg} ({term})", "farr"
        elif ty == "farr" and meth == "astype" and arg in ("value_field_dtype", "requested_field_dtype"):
            term = f"Model.Complex.FArr.astype {arg} ({term})"
        elif ty == "farr" and meth == "view" and arg == "requested_dtype":
            term, ty = f"Model.Complex.viewAs req ({term})", "arr"
        else:
            raise T.Untranslatable(f"_convert_complexint32_array: `.{meth}({arg})` on a {'field' if ty == 'farr' else 'complex'} array is outside the vocabulary", inner, m.path)
    if ty != "arr":
        raise T.Untranslatable("_convert_complexint32_array: the returned chain ends in a field array", inner, m.path)
    m.out.append("/-- generated from `_convert_complexint32_array` (the dtype normalisation and the C-contiguous copy do not change the logical elements) -/")
    m.out.append("@[pygen] def _convert_complexint32_array (req : Model.Complex.DT) (value : Model.Complex.Arr) : Except PyErr Model.Complex.Arr :=\n"
                 "  match Model.Complex.fieldOf req with\n  | none => Except.error PyErr.TypeError\n  | some requested_field_dtype =>\n"
                 "  match Model.Complex.fieldOf value.dtype with\n  | none => Except.error PyErr.TypeError\n  | some value_field_dtype =>\n"
                 f"  Except.ok ({term})")
    m.out.append("")
    # ---- convert_complex
    top = impl("convert_complex")
    if [a.arg for a in top.args.args] != ["requested_dtype", "value"]:
        raise T.Untranslatable("convert_complex: parameters", top, m.path)
    tb = strip(top.body)
    if not tb or ast.unparse(tb[0]) != "validate_dtype(requested_dtype, _COMPLEX_DTYPES)":
        raise T.Untranslatable("convert_complex does not start with validate_dtype(requested_dtype, _COMPLEX_DTYPES)", top, m.path)
    m.out.append("/-- generated from `convert_complex` -/")
    m.out.append("@[pygen] def convert_complex (req : Model.Complex.DT) (value : Model.Complex.Arr) : Except PyErr Model.Complex.Arr :=\n"
                 "  if ¬ (Model.Complex.supported req = true) then Except.error PyErr.TypeError else\n" + block(tb[1:], "  "))
    m.out.append("")
    return m


def gen_asarray_shim(repo):
    """T26: the NumPy 1.x compatibility shim `_numpy1x.asarray` statement by statement over the NumPy 1.x primitives of Model/Heap.lean
    (np.asarray without a copy argument, np.copy, `is`, `.base is None`), and the table of the call sites of `_np_asarray` in the
    factories: which expressions are handed over as the array, the dtype and the copy flag"""
    ast = T.ast
    m = T.Module(f"{repo}/src/nitypes/_numpy1x.py", "Gen.AsarrayShim")
    m.extra_imports = ["NiVerif.Model.Heap"]
    fn = m.find_func(None, "asarray")
    a = fn.args
    if [x.arg for x in a.args] != ["a", "dtype"] or [x.arg for x in a.kwonlyargs] != ["copy"] or [ast.unparse(d) for d in a.defaults] != ["None"] \
            or [ast.unparse(d) for d in a.kw_defaults] != ["None"] or a.vararg or a.kwarg or a.posonlyargs:
        raise T.Untranslatable("_numpy1x.asarray: signature is not (a, dtype=None, *, copy=None)", fn, m.path)
    ATOM = {"b is a": "(b.isA = true)", "b is not a": "(b.isA = false)", "b.base is None": "(b.baseNone = true)", "b.base is not None": "(b.baseNone = false)",
            "copy is True": "(copy = some true)", "copy is False": "(copy = some false)", "copy is None": "(copy = none)",
            "copy is not None": "(copy ≠ none)"}
    bools = set()

    def cond(e):
        if isinstance(e, ast.BoolOp):
            return "(" + (" ∧ " if isinstance(e.op, ast.And) else " ∨ ").join(cond(v) for v in e.values) + ")"
        if isinstance(e, ast.UnaryOp) and isinstance(e.op, ast.Not):
            return "(¬ " + cond(e.operand) + ")"
        if isinstance(e, ast.Name) and e.id in bools:
            return f"({e.id} = true)"
        s = ast.unparse(e)
        if s in ATOM:
            return ATOM[s]
        raise T.Untranslatable(f"_numpy1x.asarray: condition `{s}` is outside the vocabulary", e, m.path)

    def arrexpr(e):
        s = ast.unparse(e)
        if s == "np.asarray(a, dtype)":
            return "Model.Heap.npAsarrayLegacy h a sub owns dtype"
        if s == "np.copy(b)":
            return "Model.Heap.npCopy b"
        if s == "b":
            return "b"
        raise T.Untranslatable(f"_numpy1x.asarray: expression `{s}` is outside the vocabulary", e, m.path)

    body = [st for st in fn.body if not (isinstance(st, ast.Expr) and isinstance(st.value, ast.Constant))]
    lines = []
    have_b = False
    for k, st in enumerate(body):
        if isinstance(st, ast.Assign) and len(st.targets) == 1 and isinstance(st.targets[0], ast.Name):
            t = st.targets[0].id
            if t == "b":
                lines.append(f"  let b : Model.Heap.AsRes := {arrexpr(st.value)}")
                have_b = True
            elif have_b and t not in ("a", "dtype", "copy", "h", "sub", "owns"):
                lines.append(f"  let {t} : Bool := decide {cond(st.value)}")
                bools.add(t)
            else:
                raise T.Untranslatable(f"_numpy1x.asarray: assignment to `{t}`", st, m.path)
        elif isinstance(st, ast.If) and not st.orelse and len(st.body) == 1:
            inner = st.body[0]
            if isinstance(inner, ast.Assign) and ast.unparse(inner.targets[0]) == "b" and have_b:
                lines.append(f"  let b : Model.Heap.AsRes := if {cond(st.test)} then {arrexpr(inner.value)} else b")
            elif isinstance(inner, ast.Raise) and isinstance(inner.exc, ast.Call) and ast.unparse(inner.exc.func) in ("ValueError", "TypeError"):
                lines.append(f"  if {cond(st.test)} then Except.error PyErr.{ast.unparse(inner.exc.func)} else")
            else:
                raise T.Untranslatable(f"_numpy1x.asarray: statement `{ast.unparse(st)}` is outside the vocabulary", st, m.path)
        elif isinstance(st, ast.Return) and k == len(body) - 1 and ast.unparse(st.value) == "b" and have_b:
            lines.append("  Except.ok (b.heap, b.ref)")
        else:
            raise T.Untranslatable(f"_numpy1x.asarray: statement `{ast.unparse(st)}` is outside the vocabulary", st, m.path)
    if not lines or not lines[-1].startswith("  Except.ok"):
        raise T.Untranslatable("_numpy1x.asarray does not end in `return b`", fn, m.path)
    m.out.append("/-- generated from `_numpy1x.asarray` (`sub`: `a` is an instance of an ndarray subclass; `owns`: `a.base is None`) -/")
    m.out.append("@[pygen] def asarray (h : Model.Heap.Heap) (a : Model.Heap.Src) (sub owns : Bool) (dtype : Option Nat) (copy : Option Bool) : Except PyErr (Model.Heap.Heap × Model.Heap.Ref) :=\n" + "\n".join(lines))
    m.out.append("")
    # which implementation the package uses: NumPy 2's own asarray, or the shim below 2.0
    sel = T.Module(f"{repo}/src/nitypes/_numpy.py", "Gen.AsarrayShim")
    sws = [n for n in sel.tree.body if isinstance(n, ast.If)]
    if len(sws) != 1 or not sws[0].orelse:
        raise T.Untranslatable("_numpy.py: the version switch is not a single if / else", where=sel.path)
    sw = sws[0]
    def imported(block, name):
        for n in block:
            if isinstance(n, ast.ImportFrom):
                for al in n.names:
                    if (al.asname or al.name) == name:
                        return f"{n.module}.{al.name}"
        return None
    first, second = imported(sw.body, "asarray"), imported(sw.orelse, "asarray")
    if {first, second} != {"numpy.asarray", "nitypes._numpy1x.asarray"}:
        raise T.Untranslatable(f"_numpy.py: `asarray` comes from {first} / {second}", sw, sel.path)
    m.out.append("/-- generated from `_numpy.py`: the test of the version switch and where `asarray` comes from in its two branches -/")
    m.out.append(f"@[pygen] def asarray_switch : String × String × String := ({json.dumps(ast.unparse(sw.test))}, {json.dumps(first)}, {json.dumps(second)})")
    m.out.append("")
    # the call sites
    sites = []
    for path, cls in (("waveform/_numeric.py", "NumericWaveform"), ("waveform/_digital/_waveform.py", "DigitalWaveform"), ("waveform/_spectrum.py", "Spectrum"), ("xy_data.py", "XYData")):
        mk = T.Module(f"{repo}/src/nitypes/{path}", "Gen.AsarrayShim")
        c = mk.find_class(cls)
        for f in c.body:
            if not isinstance(f, ast.FunctionDef):
                continue
            for n in ast.walk(f):
                if isinstance(n, ast.Call) and ast.unparse(n.func) in ("_np_asarray", "np.asarray", "np.array", "np.asanyarray", "np.ascontiguousarray") \
                        and (ast.unparse(n.func) == "_np_asarray" or f.name.startswith("from_")):
                    args = [ast.unparse(x) for x in n.args]
                    kw = {k.arg: ast.unparse(k.value) for k in n.keywords}
                    if ast.unparse(n.func) != "_np_asarray":
                        raise T.Untranslatable(f"{cls}.{f.name}: an array is made with `{ast.unparse(n)}` and not with the package's asarray", n, mk.path)
                    if len(args) > 2 or set(kw) - {"copy", "dtype"}:
                        raise T.Untranslatable(f"{cls}.{f.name}: `{ast.unparse(n)}`", n, mk.path)
                    dt = args[1] if len(args) > 1 else kw.get("dtype", "-")
                    sites.append((cls, f.name, args[0], dt, kw.get("copy", "-")))
    sites.sort()
    m.out.append("/-- generated from the factories: every call of the package's `asarray` - (class, method, array expression, dtype expression, copy expression; `-` = not passed) -/")
    m.out.append("@[pygen] def asarray_sites : List (String × String × String × String × String) := [\n  "
                 + ",\n  ".join("(" + ", ".join(json.dumps(x) for x in s) + ")" for s in sites) + "]")
    m.out.append("")
    return m


def gen_src_reads(repo):
    """T28: the order in which the copying paths bind, guard, resize and read their sources (Py/SrcReads.lean): `_append_array`,
    `_append_waveforms` / `_append_spectrums` and the copy branch of `_load_array` of the three buffer classes"""
    ast = T.ast
    m = T.Module(f"{repo}/src/nitypes/waveform/_numeric.py", "Gen.SrcReads")
    m.extra_imports = ["NiVerif.Py.SrcReads"]
    GUARD_IF = "if np.may_share_memory({n}, self._data):\n    {n} = {n}.copy()"

    def events(mod, cls, name, params):
        fn = mod.find_func(cls, name)
        evs = [f".bind {json.dumps(p_)}" for p_ in params]
        alias = {}                       # loop variable -> the list it iterates

        def names_read(e):
            base = e
            while isinstance(base, (ast.Subscript, ast.Attribute)):
                base = base.value
            return base.id if isinstance(base, ast.Name) else None

        def walk(ss, in_loop):
            for st in ss:
                src = ast.unparse(st)
                if isinstance(st, ast.If):
                    body1 = [x for x in st.body if not (isinstance(x, ast.Expr) and isinstance(x.value, ast.Constant))]
                    if isinstance(st.test, ast.Call) and ast.unparse(st.test.func) == "np.may_share_memory" and not st.orelse and len(body1) == 1:
                        n_ = ast.unparse(st.test.args[0])
                        if src == GUARD_IF.format(n=n_) and ast.unparse(st.test.args[1]) == "self._data":
                            evs.append(f".guard {json.dumps(n_)}")
                            continue
                    if "may_share_memory" in ast.unparse(st.test):
                        # the aliasing test with further conditions attached, or another body
                        tgt = [ast.unparse(x.targets[0]) for x in ast.walk(st) if isinstance(x, ast.Assign) and ".copy()" in ast.unparse(x.value)]
                        for n_ in tgt:
                            evs.append(f".guardWeak {json.dumps(n_)}")
                        continue
                    evs.append(".condBegin"); walk(st.body, in_loop); evs.append(".condEnd")
                    if st.orelse:
                        evs.append(".condBegin"); walk(st.orelse, in_loop); evs.append(".condEnd")
                    continue
                if isinstance(st, ast.For):
                    it = st.iter
                    srcs = [ast.unparse(a) for a in it.args] if isinstance(it, ast.Call) and ast.unparse(it.func) in ("zip", "enumerate") else [ast.unparse(it)]
                    tv = [x.id for x in ast.walk(st.target) if isinstance(x, ast.Name)]
                    if isinstance(it, ast.Call) and ast.unparse(it.func) == "zip" and isinstance(st.target, ast.Tuple) and len(st.target.elts) == len(it.args):
                        for t_, a_ in zip(st.target.elts, it.args):
                            if isinstance(t_, ast.Name):
                                alias[t_.id] = ast.unparse(a_)
                    else:
                        for v_ in tv:
                            alias[v_] = srcs[0]
                    walk(st.body, True)
                    continue
                if isinstance(st, ast.Assign) and len(st.targets) == 1:
                    tgt = st.targets[0]
                    if isinstance(tgt, ast.Subscript) and ast.unparse(tgt.value) == "self._data":
                        n_ = names_read(st.value)
                        if n_ is None:
                            raise T.Untranslatable(f"{cls}.{name}: the buffer is written from `{ast.unparse(st.value)[:60]}`", st, mod.path)
                        n_ = alias.get(n_, n_)
                        evs.append(f".write {json.dumps(n_)} {'true' if in_loop else 'false'}")
                        continue
                    if ast.unparse(tgt) == "self.capacity":
                        evs.append(".resize")
                        continue
                    if isinstance(tgt, ast.Name):
                        v = st.value
                        if isinstance(v, ast.ListComp) and isinstance(v.elt, ast.IfExp) and "may_share_memory" in ast.unparse(v.elt.test):
                            t_ = v.elt.test
                            strong = (isinstance(t_, ast.Call) and ast.unparse(t_.func) == "np.may_share_memory" and ast.unparse(t_.args[1]) == "self._data"
                                      and ast.unparse(v.elt.body) == ast.unparse(v.elt.orelse) + ".copy()" and not v.generators[0].ifs)
                            evs.append(f".bind {json.dumps(tgt.id)}")
                            evs.append(f"{'.guard' if strong else '.guardWeak'} {json.dumps(tgt.id)}")
                            continue
                        reads_source = any(isinstance(x, ast.Name) and (x.id in params or x.id in alias or x.id in bound) for x in ast.walk(v)) and \
                            any(k in ast.unparse(v) for k in ("raw_data", ".data", "[")) and not ast.unparse(v).startswith(("len(", "sum(", "arg_to_"))
                        if reads_source and tgt.id not in ("offset", "new_timing", "sample_count", "start_index", "sample_counts"):
                            evs.append(f".bind {json.dumps(tgt.id)}")
                            bound.add(tgt.id)
                        continue
                if isinstance(st, ast.Expr) and isinstance(st.value, ast.Call) and ast.unparse(st.value.func) == "self._increase_capacity":
                    evs.append(".resize")
                    continue
                if isinstance(st, (ast.With, ast.Try)):
                    raise T.Untranslatable(f"{cls}.{name}: unsupported statement {type(st).__name__}", st, mod.path)
        bound = set(params)
        walk(fn.body, False)
        k = 0
        while k + 1 < len(evs):                       # conditional blocks without events say nothing
            if evs[k] == ".condBegin" and evs[k + 1] == ".condEnd":
                del evs[k:k + 2]
                k = max(k - 1, 0)
            else:
                k += 1
        return evs
    out = []
    for path, cls, many in (("_numeric.py", "NumericWaveform", "_append_waveforms"), ("_spectrum.py", "Spectrum", "_append_spectrums"), ("_digital/_waveform.py", "DigitalWaveform", "_append_waveforms")):
        mod = T.Module(f"{repo}/src/nitypes/waveform/{path}", "Gen.SrcReads")
        tag = {"NumericWaveform": "numeric", "Spectrum": "spectrum", "DigitalWaveform": "digital"}[cls]
        for fname, params in (("_append_array", ["array"]), (many, []), ("_load_array", ["array"])):
            evs = events(mod, cls, fname, params)
            lean = f"{tag}_{fname.strip('_')}"
            m.out.append(f"/-- generated from `{cls}.{fname}`: source bindings, aliasing guards, resizes and buffer writes in program order -/")
            m.out.append(f"@[pygen] def {lean} : List Py.SrcReads.Ev := [" + ", ".join(evs) + "]")
            m.out.append("")
            out.append(lean)
    m.out.append("/-- all nine event lists -/")
    m.out.append("@[pygen] def all_paths : List (String × List Py.SrcReads.Ev) := [" + ", ".join(f"({json.dumps(x)}, {x})" for x in out) + "]")
    m.out.append("")
    return m


def gen_bt_elem_sites(repo):
    """T29: every place where DateTimeArray / TimeDeltaArray turn an element into a record or a record into an element: the chain of
    method calls on the element (`x.to_tuple().to_cvi()`) at each store site — constructor, `a[i] = x`, the branches of slice
    assignment, `insert` —, the decoding chain of `__getitem__` (`.item()`, `TimeValueTuple.from_cvi(*entry)`, `Cls.from_tuple(...)`),
    and the record dtype handed to NumPy.  Interpreted by Model/BtElem.lean over the generated TimeDelta / DateTime / TimeValueTuple
    functions; any other way of filling `self._array` is untranslatable."""
    ast = T.ast
    m = T.Module(f"{repo}/src/nitypes/bintime/_timedelta_array.py", "Gen.BtElemSites")
    stores, loads, dtypes, pickles = [], [], [], []

    def chain_of(e, where, mod):
        """`x.m1().m2()` -> (x, [m1, m2])"""
        ch = []
        while isinstance(e, ast.Call) and isinstance(e.func, ast.Attribute) and not e.args and not e.keywords:
            ch.append(e.func.attr)
            e = e.func.value
        if not isinstance(e, ast.Name) or not ch:
            raise T.Untranslatable(f"{where}: `{ast.unparse(e)}` is not a chain of argument-less method calls on one element", e, mod.path)
        return e.id, list(reversed(ch))

    def encoding(e, where, mod, local):
        """the element chain of an expression that yields record(s)"""
        if isinstance(e, ast.Name) and e.id in local:
            return local[e.id]
        if isinstance(e, (ast.ListComp, ast.GeneratorExp)):
            if len(e.generators) != 1 or e.generators[0].ifs or not isinstance(e.generators[0].target, ast.Name):
                raise T.Untranslatable(f"{where}: comprehension `{ast.unparse(e)}`", e, mod.path)
            var, ch = chain_of(e.elt, where, mod)
            if var != e.generators[0].target.id:
                raise T.Untranslatable(f"{where}: `{ast.unparse(e)}` does not encode its own loop variable", e, mod.path)
            return ch
        return chain_of(e, where, mod)[1]

    for path, cls, elem, dt in (("_timedelta_array.py", "TimeDeltaArray", "TimeDelta", "CVITimeIntervalDType"),
                                ("_datetime_array.py", "DateTimeArray", "DateTime", "CVIAbsoluteTimeDType")):
        mod = T.Module(f"{repo}/src/nitypes/bintime/{path}", "Gen.BtElemSites")
        c = mod.find_class(cls)
        for f in c.body:
            if not isinstance(f, ast.FunctionDef):
                continue
            where = f"{cls}.{f.name}"
            local = {}
            body_nodes = list(ast.walk(f))
            # statements in program order
            stmts = [n for n in body_nodes if isinstance(n, ast.stmt)]
            stmts.sort(key=lambda n: (n.lineno, n.col_offset))
            for st in stmts:
                if isinstance(st, ast.Assign) and len(st.targets) == 1:
                    tgt, val = st.targets[0], st.value
                    ts = ast.unparse(tgt)
                    if isinstance(tgt, ast.Name) and any(isinstance(x, ast.Attribute) and x.attr in ("to_cvi", "to_tuple") for x in ast.walk(val)):
                        local[tgt.id] = encoding(val, where, mod, local)
                        continue
                    if isinstance(tgt, ast.Subscript) and ast.unparse(tgt.value) == "self._array":
                        stores.append((cls, f.name, "setitem", encoding(val, where, mod, local)))
                        continue
                    if ts == "self._array":
                        if not isinstance(val, ast.Call):
                            raise T.Untranslatable(f"{where}: `{ast.unparse(st)}`", st, mod.path)
                        fn = ast.unparse(val.func)
                        if fn == "np.fromiter":
                            kw = {k.arg: ast.unparse(k.value) for k in val.keywords}
                            if len(val.args) != 1 or kw.get("dtype") != dt or set(kw) - {"dtype", "count"}:
                                raise T.Untranslatable(f"{where}: `{ast.unparse(val)}` (expected one generator and dtype={dt})", val, mod.path)
                            dtypes.append((cls, f.name, kw["dtype"]))
                            stores.append((cls, f.name, "fromiter", encoding(val.args[0], where, mod, local)))
                        elif fn == "np.insert":
                            if len(val.args) != 3 or val.keywords or ast.unparse(val.args[0]) != "self._array":
                                raise T.Untranslatable(f"{where}: `{ast.unparse(val)}`", val, mod.path)
                            stores.append((cls, f.name, "insert", encoding(val.args[2], where, mod, local)))
                        elif fn == "np.delete":
                            if len(val.args) != 2 or val.keywords or ast.unparse(val.args[0]) != "self._array":
                                raise T.Untranslatable(f"{where}: `{ast.unparse(val)}`", val, mod.path)
                        elif fn == "np.append":
                            a = [ast.unparse(x) for x in val.args]
                            if len(a) != 2 or val.keywords or a[0] != "self._array" or not a[1].endswith("._array"):
                                raise T.Untranslatable(f"{where}: `{ast.unparse(val)}` (only records of another array of the class may be appended)", val, mod.path)
                        else:
                            raise T.Untranslatable(f"{where}: `self._array` is built by `{ast.unparse(val)}`", val, mod.path)
                        continue
                elif isinstance(st, (ast.AugAssign, ast.AnnAssign)) and "self._array" in ast.unparse(st.target):
                    raise T.Untranslatable(f"{where}: `{ast.unparse(st)}`", st, mod.path)
            # decoding: every `.item()` on a record of the array
            for i, st in enumerate(stmts):
                if any(isinstance(x, ast.Call) and isinstance(x.func, ast.Attribute) and x.func.attr in ("item", "tolist")
                       and "self._array" in ast.unparse(x.func.value) for x in ast.walk(st) if not isinstance(x, ast.stmt) or x is st) \
                        and isinstance(st, ast.Assign):
                    got = [ast.unparse(x) for x in stmts[i:i + 3]]
                    idx = ast.unparse(st.value.func.value.slice) if isinstance(st.value, ast.Call) and isinstance(st.value.func, ast.Attribute) \
                        and isinstance(st.value.func.value, ast.Subscript) else None
                    want = [f"entry = self._array[{idx}].item()", "as_tuple = TimeValueTuple.from_cvi(*entry)", f"return {elem}.from_tuple(as_tuple)"]
                    if got != want:
                        raise T.Untranslatable(f"{where}: decoding is {got}, expected {want}", st, mod.path)
                    loads.append((cls, f.name, ["item", "from_cvi", "from_tuple"]))
        # pickling and equality: `__reduce__` re-enters the constructor with the decoded elements (iteration is the MutableSequence
        # mixin over `__getitem__`: the class must not define `__iter__`), `__eq__` compares the records
        own = {f.name for f in c.body if isinstance(f, ast.FunctionDef)}
        if "__iter__" in own or [ast.unparse(b) for b in c.bases] != [f"MutableSequence[{elem}]"]:
            raise T.Untranslatable(f"{cls}: iteration is no longer the MutableSequence mixin over __getitem__", c, mod.path)

        def stmts_of(name):
            fs = [f for f in c.body if isinstance(f, ast.FunctionDef) and f.name == name and not any(ast.unparse(d) == "overload" for d in f.decorator_list)]
            if len(fs) != 1:
                raise T.Untranslatable(f"{cls}.{name}: expected exactly one definition", c, mod.path)
            return fs[0], [ast.unparse(x) for x in fs[0].body if not (isinstance(x, ast.Expr) and isinstance(x.value, ast.Constant))]
        fr, rb = stmts_of("__reduce__")
        if rb != ["return (self.__class__, (list(iter(self)),))"]:
            raise T.Untranslatable(f"{cls}.__reduce__: {rb}", fr, mod.path)
        fe, eb = stmts_of("__eq__")
        if eb != [f"if not isinstance(other, {cls}):\n    return NotImplemented", "return np.array_equal(self._array, other._array)"]:
            raise T.Untranslatable(f"{cls}.__eq__: {eb}", fe, mod.path)
        fl, lb = stmts_of("__len__")
        if lb != ["return len(self._array)"]:
            raise T.Untranslatable(f"{cls}.__len__: {lb}", fl, mod.path)
        pickles.append((cls, "ctor(list(iter(self)))", "records"))
        # nothing else may produce elements of the class from records
        for n in ast.walk(c):
            if isinstance(n, ast.Call) and ast.unparse(n.func) in (f"{elem}.from_tuple", f"{elem}.from_ticks", f"{elem}", "TimeValueTuple", "TimeValueTuple.from_cvi"):
                fnm = next(f.name for f in c.body if isinstance(f, ast.FunctionDef) and any(x is n for x in ast.walk(f)))
                if not any(l[0] == cls and l[1] == fnm for l in loads):
                    raise T.Untranslatable(f"{cls}.{fnm}: `{ast.unparse(n)}` builds an element outside a recognised decoding site", n, mod.path)

    def lst(xs):
        return "[" + ", ".join(json.dumps(x) for x in xs) + "]"
    m.out.append("/-- generated from DateTimeArray / TimeDeltaArray: every statement that writes records into `self._array` - (class, method, "
                 "kind of store, the chain of method calls that turns one element into the stored value) -/")
    m.out.append("@[pygen] def store_sites : List (String × String × String × List String) := [\n  "
                 + ",\n  ".join(f"({json.dumps(a)}, {json.dumps(b)}, {json.dumps(k)}, {lst(ch)})" for a, b, k, ch in stores) + "]")
    m.out.append("")
    m.out.append("/-- generated: every place that turns a record back into an element - (class, method, decoding chain) -/")
    m.out.append("@[pygen] def load_sites : List (String × String × List String) := [\n  "
                 + ",\n  ".join(f"({json.dumps(a)}, {json.dumps(b)}, {lst(ch)})" for a, b, ch in loads) + "]")
    m.out.append("")
    m.out.append("/-- generated: (class, what `__reduce__` rebuilds the array from, what `__eq__` compares) -/")
    m.out.append("@[pygen] def pickle_eq : List (String × String × String) := ["
                 + ", ".join(f"({json.dumps(a)}, {json.dumps(b)}, {json.dumps(d)})" for a, b, d in pickles) + "]")
    m.out.append("")
    m.out.append("/-- generated: the record dtype each constructor hands to NumPy -/")
    m.out.append("@[pygen] def record_dtypes : List (String × String × String) := ["
                 + ", ".join(f"({json.dumps(a)}, {json.dumps(b)}, {json.dumps(d)})" for a, b, d in dtypes) + "]")
    m.out.append("")
    return m


def gen_wfm_reduce(repo):
    """T30: what `__reduce__` of the three buffer classes hands to the constructor - each positional and keyword argument as the
    observable member it reads (`self.raw_data` / `self.data` are words for the visible window only after their property bodies
    have been checked to return `self._data[start : start + count]`; `self._data` is the whole buffer, a different word) -, the
    constructor's own parameter list, and `_unpickle` compared with its statement list.  Interpreted by Model.Wfm.pickleVia."""
    ast = T.ast
    m = T.Module(f"{repo}/src/nitypes/waveform/_numeric.py", "Gen.WfmReduce")
    WINDOW = "return self._data[self._start_index:self._start_index + self._sample_count]"
    args_tbl, kw_tbl, params_tbl, eq_tbl = [], [], [], []
    for path, cls, data_kw in (("waveform/_numeric.py", "NumericWaveform", "raw_data"), ("waveform/_digital/_waveform.py", "DigitalWaveform", "data"),
                               ("waveform/_spectrum.py", "Spectrum", "data")):
        mod = T.Module(f"{repo}/src/nitypes/{path}", "Gen.WfmReduce")
        c = mod.find_class(cls)
        funcs = {}
        for f in c.body:
            if isinstance(f, ast.FunctionDef):
                funcs.setdefault(f.name, []).append(f)

        def body_of(name):
            fs = [f for f in funcs.get(name, []) if not any(ast.unparse(d) == "overload" for d in f.decorator_list)]
            getters = [f for f in fs if any(ast.unparse(d) == "property" for d in f.decorator_list)]
            if getters:
                fs = getters[:1] if len(getters) == 1 else []
            if len(fs) != 1:
                raise T.Untranslatable(f"{cls}.{name}: expected exactly one definition", c, mod.path)
            f = fs[0]
            b = [st for st in f.body if not (isinstance(st, ast.Expr) and isinstance(st.value, ast.Constant) and isinstance(st.value.value, str))]
            return f, b
        words = {"self._sample_count": "count", "self._extended_properties": "props", "self._timing": "timing", "self._scale_mode": "scale",
                 "self._start_frequency": "start_frequency", "self._frequency_increment": "frequency_increment", "self._data": "buffer",
                 "self._start_index": "start", "False": "False", "True": "True", "None": "None"}
        for prop, word, want in (("raw_data", "view", [WINDOW]), ("data", "view", [WINDOW]), ("dtype", "dtype", ["return self._data.dtype"]),
                                 ("signal_count", "ncols", ["shape: tuple[int, ...] = self._data.shape", "return shape[1]"]),
                                 ("sample_count", "count", ["return self._sample_count"]), ("timing", "timing", ["return self._timing"]),
                                 ("scale_mode", "scale", ["return self._scale_mode"]), ("extended_properties", "props", ["return self._extended_properties"]),
                                 ("capacity", "capacity", ["return len(self._data)"])):
            if prop in funcs:
                _, b = body_of(prop)
                got = [ast.unparse(x) for x in b if not isinstance(x, ast.Expr)]
                got = [g for g in got]
                if got == want:
                    words[f"self.{prop}"] = word
        fr, rb = body_of("__reduce__")
        want_shape = ["ctor_args", "ctor_kwargs", "return (self.__class__._unpickle, (ctor_args, ctor_kwargs))"]
        if len(rb) != 3 or not isinstance(rb[0], ast.Assign) or not isinstance(rb[1], (ast.AnnAssign, ast.Assign)) \
                or ast.unparse(rb[0].targets[0]) != "ctor_args" or ast.unparse(rb[1].target if isinstance(rb[1], ast.AnnAssign) else rb[1].targets[0]) != "ctor_kwargs" \
                or ast.unparse(rb[2]) != want_shape[2] or not isinstance(rb[0].value, ast.Tuple) or not isinstance(rb[1].value, ast.Dict):
            raise T.Untranslatable(f"{cls}.__reduce__: not `ctor_args = (...)`, `ctor_kwargs = {{...}}`, `{want_shape[2]}`", fr, mod.path)

        def word(e):
            t = ast.unparse(e)
            if t not in words:
                raise T.Untranslatable(f"{cls}.__reduce__: `{t}` is not a known member of the object", e, mod.path)
            return words[t]
        args_tbl.append((cls, [word(e) for e in rb[0].value.elts]))
        kws = []
        for k, v in zip(rb[1].value.keys, rb[1].value.values):
            if not (isinstance(k, ast.Constant) and isinstance(k.value, str)):
                raise T.Untranslatable(f"{cls}.__reduce__: keyword `{ast.unparse(k) if k else '**'}`", rb[1], mod.path)
            kws.append((k.value, word(v)))
        kw_tbl.append((cls, kws))
        # __eq__: the class guard, then one conjunction of member comparisons
        fe, eb = body_of("__eq__")
        if len(eb) != 2 or ast.unparse(eb[0]) != "if not isinstance(value, self.__class__):\n    return NotImplemented" \
                or not isinstance(eb[1], ast.Return) or not isinstance(eb[1].value, ast.BoolOp) or not isinstance(eb[1].value.op, ast.And):
            raise T.Untranslatable(f"{cls}.__eq__: not the class guard followed by one `return a and b and ...`", fe, mod.path)
        for extra in ("start_frequency", "frequency_increment"):
            if extra in funcs:
                _, b = body_of(extra)
                if [ast.unparse(x) for x in b] == [f"return self._{extra}"]:
                    words[f"self.{extra}"] = extra
        members = []
        for cj in eb[1].value.values:
            if isinstance(cj, ast.Compare) and len(cj.ops) == 1 and isinstance(cj.ops[0], ast.Eq):
                l, r = cj.left, cj.comparators[0]
            elif isinstance(cj, ast.Call) and ast.unparse(cj.func) == "np.array_equal" and len(cj.args) == 2 and not cj.keywords:
                l, r = cj.args
            else:
                raise T.Untranslatable(f"{cls}.__eq__: conjunct `{ast.unparse(cj)}`", cj, mod.path)
            ls, rs = ast.unparse(l), ast.unparse(r)
            if not ls.startswith("self.") or rs != "value." + ls[5:]:
                raise T.Untranslatable(f"{cls}.__eq__: `{ast.unparse(cj)}` does not compare one member of both objects", cj, mod.path)
            members.append(word(l))
        eq_tbl.append((cls, members))
        fi, _ = body_of("__init__")
        if fi.args.vararg or fi.args.kwarg or fi.args.posonlyargs:
            raise T.Untranslatable(f"{cls}.__init__: *args / **kwargs", fi, mod.path)
        params_tbl.append((cls, [a.arg for a in fi.args.args[1:]], [a.arg for a in fi.args.kwonlyargs]))
        fu, ub = body_of("_unpickle")
        want = [f"data = kwargs.get('{data_kw}')",
                "if isinstance(data, np.ndarray):\n    owner = data\n    while isinstance(owner.base, np.ndarray):\n        owner = owner.base\n"
                f"    if not owner.flags.owndata:\n        kwargs = {{**kwargs, '{data_kw}': data.copy()}}",
                "return cls(*args, **kwargs)"]
        got = [ast.unparse(x) for x in ub]
        if got != want or [a.arg for a in fu.args.args] != ["cls", "args", "kwargs"]:
            raise T.Untranslatable(f"{cls}._unpickle: statements are {got}, expected {want}", fu, mod.path)

    def lst(xs):
        return "[" + ", ".join(json.dumps(x) for x in xs) + "]"
    m.out.append("/-- generated from `__reduce__`: the positional constructor arguments, as the members of the object they read -/")
    m.out.append("@[pygen] def reduce_args : List (String × List String) := [" + ", ".join(f"({json.dumps(c)}, {lst(a)})" for c, a in args_tbl) + "]")
    m.out.append("")
    m.out.append("/-- generated from `__reduce__`: the keyword arguments (parameter, member read) -/")
    m.out.append("@[pygen] def reduce_kwargs : List (String × List (String × String)) := [\n  "
                 + ",\n  ".join(f"({json.dumps(c)}, [" + ", ".join(f"({json.dumps(k)}, {json.dumps(v)})" for k, v in kws) + "])" for c, kws in kw_tbl) + "]")
    m.out.append("")
    m.out.append("/-- generated from `__init__`: positional and keyword-only parameters -/")
    m.out.append("@[pygen] def ctor_params : List (String × List String × List String) := [\n  "
                 + ",\n  ".join(f"({json.dumps(c)}, {lst(a)}, {lst(k)})" for c, a, k in params_tbl) + "]")
    m.out.append("")
    m.out.append("/-- generated from `__eq__` (after the class guard): the members compared, in the source's order -/")
    m.out.append("@[pygen] def eq_members : List (String × List String) := [" + ", ".join(f"({json.dumps(c)}, {lst(a)})" for c, a in eq_tbl) + "]")
    m.out.append("")
    m.out.append("/-- generated: `_unpickle` of each class is `cls(*args, **kwargs)` after copying a data array that does not own its memory -/")
    m.out.append("@[pygen] def unpickle_is_ctor_call : List String := " + lst([c for c, _ in args_tbl]))
    m.out.append("")
    return m


MODULES = [
    # (output file, builder, dependencies by output name)
    ("TimeValueTuple", lambda repo, deps: gen_time_value_tuple(repo), []),
    ("TimeDelta", lambda repo, deps: gen_timedelta(repo, deps["TimeValueTuple"]), ["TimeValueTuple"]),
    ("DateTime", lambda repo, deps: gen_datetime(repo, deps["TimeValueTuple"], deps["TimeDelta"]),
     ["TimeValueTuple", "TimeDelta"]),
    ("BtDtypes", lambda repo, deps: gen_bt_dtypes(repo), []),
    ("TimeDeltaFloat", lambda repo, deps: gen_timedelta_float(repo), []),
    ("ComplexDtypes", lambda repo, deps: gen_complex_dtypes(repo), []),
    ("Scaling", lambda repo, deps: gen_scaling(repo), []),
    ("Irregular", lambda repo, deps: gen_irregular(repo), []),
    ("Atomic", lambda repo, deps: gen_atomic(repo), []),
    ("DigitalState", lambda repo, deps: gen_digital_state(repo), []),
    ("Port", lambda repo, deps: gen_port(repo), []),
    ("Geometry", lambda repo, deps: gen_geometry(repo), []),
    ("TimingArgs", lambda repo, deps: gen_timing_args(repo, deps["Irregular"]), ["Irregular"]),
    ("Regular", lambda repo, deps: gen_regular(repo), []),
    ("Scalar", lambda repo, deps: gen_scalar(repo), []),
    ("Args", lambda repo, deps: gen_args(repo), []),
    ("Vector", lambda repo, deps: gen_vector(repo), []),
    ("ExtProps", lambda repo, deps: gen_ext_props(repo), []),
    ("Units", lambda repo, deps: gen_units(repo), []),
    ("Names", lambda repo, deps: gen_names(repo), []),
    ("BtArray", lambda repo, deps: gen_bt_array(repo), []),
    ("AppendTiming", lambda repo, deps: gen_append_timing(repo), []),
    ("TestLoops", lambda repo, deps: gen_test_loops(repo, deps["DigitalState"]), ["DigitalState"]),
    ("PortLine", lambda repo, deps: gen_port_line(repo, deps["Port"]), ["Port"]),
    ("GetTimestamps", lambda repo, deps: gen_get_timestamps(repo, deps["Regular"]), ["Regular"]),
    ("ScaledData", lambda repo, deps: gen_scaled_data(repo, deps["Scaling"]), ["Scaling"]),
    ("Conversion", lambda repo, deps: gen_conversion(repo, deps["TimeDelta"]), ["TimeDelta"]),
    ("ComplexConvert", lambda repo, deps: gen_complex_convert(repo, deps["ComplexDtypes"]), ["ComplexDtypes"]),
    ("AsarrayShim", lambda repo, deps: gen_asarray_shim(repo), []),
    ("SrcReads", lambda repo, deps: gen_src_reads(repo), []),
    ("BtElemSites", lambda repo, deps: gen_bt_elem_sites(repo), []),
    ("WfmReduce", lambda repo, deps: gen_wfm_reduce(repo), []),
]


def write_if_changed(path: str, text: str) -> bool:
    old = open(path).read() if os.path.exists(path) else None
    if old == text:
        return False
    with open(path, "w") as f:
        f.write(text)
    return True


def dispatch_fn(m) -> str:
    """Line-protocol entry points of one generated module (all-int signatures)."""
    lines = ["", "/-- line-protocol entry points (translation validation) -/",
             "def dispatch (name : String) (args : List Int) : Option String :=",
             "  match name, args with"]
    for entry, info in m.entries:
        if not all(T.lean_type(t) == "Int" for t in info.param_types):
            continue
        vs = [f"a{i}" for i in range(len(info.param_types))]
        call = " ".join([info.lean_name] + vs)
        lines.append(f'  | "{entry}", [{", ".join(vs)}] => some (Py.render ({call}))')
    lines += getattr(m, "extra_dispatch", [])
    lines += ["  | _, _ => none", ""]
    return "\n".join(lines)


def main(repo: str, outdir: str) -> dict:
    os.makedirs(outdir, exist_ok=True)
    report = {"modules": {}, "errors": []}
    built: dict[str, T.Module] = {}
    for name, builder, deps in MODULES:
        path = os.path.join(outdir, f"{name}.lean")
        try:
            if any(d not in built for d in deps):
                raise T.Untranslatable(f"dependency of {name} failed to translate")
            m = builder(repo, built)
            m.out.append(dispatch_fn(m))
            text = m.render([f"NiVerif.Gen.{d}" for d in deps] + list(getattr(m, "extra_imports", [])))
            built[name] = m
            entry = {"ok": True, "source": os.path.relpath(m.path, repo), "defs": len(m.funcs),
                     "consts": len(m.consts)}
        except (T.Untranslatable, SyntaxError, OSError) as e:
            text = (f"-- GENERATED: translation FAILED\n-- " + str(e).replace("\n", "\n-- ") + "\n"
                    f"#eval (translation_failed_{name} : Nat)  -- deliberately ill-formed\n")
            entry = {"ok": False, "error": str(e)}
            report["errors"].append({"module": name, "error": str(e)})
        except Exception as e:  # translator bug: also a broken tie, but say so
            text = (f"-- GENERATED: translator crashed\n-- {type(e).__name__}: " + str(e).replace("\n", "\n-- ") + "\n"
                    f"#eval (translation_failed_{name} : Nat)\n")
            entry = {"ok": False, "error": f"translator crash: {type(e).__name__}: {e}",
                     "trace": traceback.format_exc()}
            report["errors"].append({"module": name, "error": entry["error"]})
        entry["changed"] = write_if_changed(path, text)
        entry["sha256"] = hashlib.sha256(text.encode()).hexdigest()[:16]
        report["modules"][name] = entry
    report["entries"] = {name: [e for e, _ in m.entries] for name, m in built.items()}
    return report


if __name__ == "__main__":
    rep = main(sys.argv[1], sys.argv[2])
    json.dump(rep, sys.stdout, indent=1)
    print()
