"""Python-AST -> Lean 4 translator for the closed integer subset described in DESIGN.md §2.1.

The subset is deliberately small and *closed*: anything outside it raises `Untranslatable`,
which the check treats as a broken tie (never silently skipped).

Objects of a *record class* (e.g. TimeDelta) are represented by their integer fields: an
expression of record type translates to a tuple of Lean terms, one per field (TimeDelta =
`_ticks`, TimeValueTuple = (`whole_seconds`, `fractional_seconds`)).
"""
from __future__ import annotations

import ast
import dataclasses
from typing import Any


class Untranslatable(Exception):
    def __init__(self, msg: str, node: ast.AST | None = None, where: str = ""):
        line = getattr(node, "lineno", None)
        super().__init__(f"{where}:{line}: {msg}" if line else f"{where}: {msg}")
        self.line = line


# ------------------------------------------------------------------------------------------
# types of translated expressions
#   'int' | 'bool' | 'str' | ('rec', ClassName) | ('tuple', [types]) | ('list', type)
# ------------------------------------------------------------------------------------------

def lean_type(t) -> str:
    if t == "int":
        return "Int"
    if t == "bool":
        return "Bool"
    if t == "str":
        return "String"
    if t == "optint":
        return "(Option Int)"
    if isinstance(t, tuple) and t[0] == "rec":
        return RECORDS[t[1]].lean_type()
    if isinstance(t, tuple) and t[0] == "tuple":
        return "(" + " × ".join(lean_type(x) for x in t[1]) + ")"
    if isinstance(t, tuple) and t[0] == "list":
        return f"(List {lean_type(t[1])})"
    raise Untranslatable(f"no Lean type for {t!r}")


@dataclasses.dataclass
class Record:
    name: str
    fields: list[str]           # python attribute names, in Lean tuple order
    field_types: list[Any]

    def lean_type(self) -> str:
        ts = [lean_type(t) for t in self.field_types]
        return ts[0] if len(ts) == 1 else "(" + " × ".join(ts) + ")"


RECORDS: dict[str, Record] = {
    "TimeDelta": Record("TimeDelta", ["_ticks"], ["int"]),
    "TimeValueTuple": Record("TimeValueTuple", ["whole_seconds", "fractional_seconds"], ["int", "int"]),
    # datetime.timedelta as its three normalised fields (what the code reads)
    "dt.timedelta": Record("dt.timedelta", ["days", "seconds", "microseconds"], ["int", "int", "int"]),
    "DateTime": Record("DateTime", ["_offset"], [("rec", "TimeDelta")]),
}

# fields that are caches / bookkeeping and carry no value of the model (assignments are skipped)
IGNORED_FIELDS = {"DateTime": {"_hightime_cache"}}

ERROR_FACTORIES = {
    "int_out_of_range": "OverflowError",
    "invalid_arg_type": "TypeError",
    "invalid_arg_value": "ValueError",
    "invalid_array_ndim": "ValueError",
    "unsupported_arg": "ValueError",
    "unsupported_dtype": "TypeError",
    "OverflowError": "OverflowError",
    "ValueError": "ValueError",
    "TypeError": "TypeError",
    "IndexError": "IndexError",
    "RuntimeError": "RuntimeError",
    "ZeroDivisionError": "ZeroDivisionError",
    "create_capacity_mismatch_error": "CapacityMismatchError",
    "create_capacity_too_small_error": "CapacityTooSmallError",
    "create_datatype_mismatch_error": "DatatypeMismatchError",
    "create_irregular_timestamp_count_mismatch_error": "IrregularTimestampCountMismatchError",
    "create_start_index_too_large_error": "StartIndexTooLargeError",
    "create_start_index_or_sample_count_too_large_error": "StartIndexOrSampleCountTooLargeError",
    "create_no_timestamp_information_error": "NoTimestampInformationError",
    "create_sample_interval_mode_mismatch_error": "SampleIntervalModeMismatchError",
    "create_signal_count_mismatch_error": "SignalCountMismatchError",
}

BINOPS_PURE = {
    ast.Add: "({} + {})", ast.Sub: "({} - {})", ast.Mult: "({} * {})",
    ast.LShift: "(Py.shl {} {})", ast.RShift: "(Py.shr {} {})",
    ast.BitAnd: "(Py.and {} {})", ast.BitOr: "(Py.or {} {})", ast.BitXor: "(Py.xor {} {})",
    ast.Pow: "(Py.pow {} {})",
}
CMPOPS = {ast.Lt: "<", ast.LtE: "≤", ast.Gt: ">", ast.GtE: "≥", ast.Eq: "=", ast.NotEq: "≠"}
DUNDER = {ast.Add: "add", ast.Sub: "sub", ast.Mult: "mul", ast.FloorDiv: "floordiv",
          ast.Mod: "mod", ast.Lt: "lt", ast.LtE: "le", ast.Gt: "gt", ast.GtE: "ge",
          ast.Eq: "eq", ast.NotEq: "ne"}


def const_eval(node: ast.AST, env: dict[str, int]) -> int:
    """Evaluate a constant integer expression (module constants)."""
    if isinstance(node, ast.Constant) and isinstance(node.value, int) and not isinstance(node.value, bool):
        return node.value
    if isinstance(node, ast.Name) and node.id in env:
        return env[node.id]
    if isinstance(node, ast.UnaryOp) and isinstance(node.op, ast.USub):
        return -const_eval(node.operand, env)
    if isinstance(node, ast.UnaryOp) and isinstance(node.op, ast.Invert):
        return ~const_eval(node.operand, env)
    if isinstance(node, ast.BinOp):
        a, b = const_eval(node.left, env), const_eval(node.right, env)
        op = type(node.op)
        if op is ast.Add: return a + b
        if op is ast.Sub: return a - b
        if op is ast.Mult: return a * b
        if op is ast.FloorDiv: return a // b
        if op is ast.Mod: return a % b
        if op is ast.LShift: return a << b
        if op is ast.RShift: return a >> b
        if op is ast.BitAnd: return a & b
        if op is ast.BitOr: return a | b
        if op is ast.BitXor: return a ^ b
        if op is ast.Pow and b >= 0: return a ** b
    raise Untranslatable("not a constant int expression", node)


@dataclasses.dataclass
class FuncInfo:
    lean_name: str            # fully qualified
    param_types: list[Any]
    ret_type: Any
    raises: bool


class Module:
    """One python source file and the Lean namespace it is translated into."""

    def __init__(self, path: str, ns: str, src: str | None = None, imports: list["Module"] | None = None):
        self.path, self.ns = path, ns
        self.src = src if src is not None else open(path).read()
        self.tree = ast.parse(self.src)
        self.consts: dict[str, int] = {}
        self.const_defs: list[str] = []
        self.str_consts: dict[str, str] = {}
        self.funcs: dict[str, FuncInfo] = {}      # key -> info (key = "Class.method/kind" or name)
        self.out: list[str] = []
        self.imports = imports or []
        self.entries: list[tuple[str, FuncInfo]] = []   # for the dispatch table
        self.int_arg_funcs: dict[str, str] = {}
        self.validators: dict[str, str] = {}            # T9: python name of a translated validator -> Lean name
        for m in self.imports:
            self.consts.update({})   # imported constants are looked up lazily

    # -- lookup ---------------------------------------------------------------------------
    def find_const(self, name: str):
        if name in self.consts:
            return f"{self.ns}.{name}", self.consts[name]
        for m in self.imports:
            r = m.find_const(name)
            if r:
                return r
        return None

    def find_class(self, name: str) -> ast.ClassDef:
        for n in self.tree.body:
            if isinstance(n, ast.ClassDef) and n.name == name:
                return n
        raise Untranslatable(f"class {name} not found", where=self.path)

    def find_func(self, cls: str | None, name: str, register: str | None = None) -> ast.FunctionDef:
        body = self.find_class(cls).body if cls else self.tree.body
        cands = []
        for n in body:
            if isinstance(n, ast.FunctionDef) and n.name == name:
                if any(isinstance(d, ast.Name) and d.id == "overload" for d in n.decorator_list):
                    continue
                cands.append(n)
            elif isinstance(n, ast.FunctionDef) and register is not None and n.name == "_":
                for d in n.decorator_list:
                    if (isinstance(d, ast.Call) and isinstance(d.func, ast.Attribute)
                            and d.func.attr == "register" and isinstance(d.func.value, ast.Name)
                            and d.func.value.id == name and ast.unparse(d.args[0]) == register):
                        return n
        if register is not None:
            raise Untranslatable(f"{cls}.{name}.register({register}) not found", where=self.path)
        if len(cands) != 1:
            raise Untranslatable(f"{cls}.{name}: expected exactly one definition, found {len(cands)}", where=self.path)
        return cands[0]

    # -- constants --------------------------------------------------------------------------
    def translate_int_constants(self) -> None:
        """T1: every module-level `NAME = <constant int expr>`."""
        for n in self.tree.body:
            if isinstance(n, ast.Assign) and len(n.targets) == 1 and isinstance(n.targets[0], ast.Name):
                name = n.targets[0].id
                try:
                    v = const_eval(n.value, self.consts)
                except Untranslatable:
                    continue
                if isinstance(n.value, ast.Constant) and isinstance(n.value.value, bool):
                    continue
                ctx = Ctx(self, {}, None, name)
                term, _ = ctx.expr(n.value)
                self.consts[name] = v
                self.out.append(f"@[pygen] def {name} : Int := {term}")
                self.out.append(f"theorem {name}_val : {name} = {lit(v)} := by decide")
                self.out.append("")

    def translate_table_constants(self, names: list[str]) -> None:
        """T1: module-level nested lists/tuples of int literals and string literals."""
        self.tables = getattr(self, "tables", {})
        found = set()
        for n in self.tree.body:
            if isinstance(n, ast.Assign) and len(n.targets) == 1 and isinstance(n.targets[0], ast.Name) \
                    and n.targets[0].id in names:
                name = n.targets[0].id
                v = n.value
                if isinstance(v, ast.Constant) and isinstance(v.value, str):
                    self.out.append(f"@[pygen] def {name} : String := {lean_str(v.value)}")
                    self.tables[name] = ("str", v.value)
                elif isinstance(v, (ast.List, ast.Tuple)):
                    def lit_of(x, depth=0):
                        if isinstance(x, (ast.List, ast.Tuple)):
                            return "[" + ", ".join(lit_of(e, depth + 1) for e in x.elts) + "]"
                        return str(const_eval(x, self.consts))
                    def depth_of(x):
                        return 1 + depth_of(x.elts[0]) if isinstance(x, (ast.List, ast.Tuple)) and x.elts else (
                            1 if isinstance(x, (ast.List, ast.Tuple)) else 0)
                    d = depth_of(v)
                    ty = "Int"
                    t = "int"
                    for _ in range(d):
                        ty = f"(List {ty})"
                        t = ("list", t)
                    self.out.append(f"@[pygen] def {name} : {ty} := {lit_of(v)}")
                    self.tables[name] = t
                else:
                    raise Untranslatable(f"{name}: not a literal table", n, self.path)
                self.out.append("")
                found.add(name)
        missing = set(names) - found
        if missing:
            raise Untranslatable(f"table constants not found: {sorted(missing)}", where=self.path)

    def translate_int_enum(self, cls: str) -> None:
        """T1: the (name, value) members of an IntEnum / Enum with int values."""
        members = []
        for n in self.find_class(cls).body:
            if isinstance(n, ast.Assign) and len(n.targets) == 1 and isinstance(n.targets[0], ast.Name) \
                    and not n.targets[0].id.startswith("_"):
                members.append((n.targets[0].id, const_eval(n.value, self.consts)))
        if not members:
            raise Untranslatable(f"{cls}: no enum members", where=self.path)
        self.enums = getattr(self, "enums", {})
        self.enums[cls] = members
        body = ", ".join(f'("{k}", {v})' for k, v in members)
        self.out.append(f"/-- members of `{cls}` -/")
        self.out.append(f"@[pygen] def {cls}_members : List (String × Int) := [{body}]")
        self.out.append(f"@[pygen] def {cls}_values : List Int := [{', '.join(str(v) for _, v in members)}]")
        self.out.append("")

    # -- functions --------------------------------------------------------------------------
    def translate_function(self, key: str, fn: ast.FunctionDef, lean_name: str, params: list[tuple[str, Any]],
                           self_type=None, body: list[ast.stmt] | None = None, ret_hint=None,
                           protocol: bool = True, extra_env=None) -> FuncInfo:
        """Translate `fn` (or the given sub-body of it) with the given typed parameters."""
        env: dict[str, tuple[list[str], Any]] = {}
        lean_params: list[str] = []
        ptypes = []
        for pname, ptype in params:
            if isinstance(ptype, tuple) and ptype[0] == "rec":
                rec = RECORDS[ptype[1]]
                terms = [f"{pname}_{f.lstrip('_')}" for f in rec.fields]
                for t, ft in zip(terms, rec.field_types):
                    lean_params.append(f"({t} : {lean_type(ft)})")
                    ptypes.append(ft)
                env[pname] = (terms, ptype)
            else:
                lean_params.append(f"({pname} : {lean_type(ptype)})")
                ptypes.append(ptype)
                env[pname] = ([pname], ptype)
        env.update(extra_env or {})
        ctx = Ctx(self, env, self_type, f"{self.path}:{key}")
        ctx.attr_map = getattr(self, "_pending_attr_map", None)
        stmts = body if body is not None else fn.body
        code, rtype, raises = ctx.block(stmts)
        code = finalize(code, raises)
        if rtype is None:
            raise Untranslatable("no return value", fn, self.path)
        rt = lean_type(rtype)
        full_rt = f"Except PyErr {rt}" if raises else rt
        self.out.append(f"/-- generated from `{key}` ({self.path.split('/src/')[-1]}) -/")
        self.out.append(f"@[pygen] def {lean_name} {' '.join(lean_params)} : {full_rt} :=")
        self.out.append(indent(code, 1))
        self.out.append("")
        info = FuncInfo(f"{self.ns}.{lean_name}", ptypes, rtype, raises)
        self.funcs[key] = info
        if protocol:
            self.entries.append((f"{self.ns.split('.', 1)[1]}.{lean_name}", info))
        return info

    def translate_method(self, cls: str, name: str, lean_name: str | None = None, extra_params=None,
                         register: str | None = None, self_is_cls: bool = False, key: str | None = None,
                         param_types: dict[str, Any] | None = None) -> FuncInfo:
        fn = self.find_func(cls, name, register)
        args = [a.arg for a in fn.args.posonlyargs + fn.args.args]
        params: list[tuple[str, Any]] = []
        self_type = ("rec", cls) if cls in RECORDS else None
        for i, a in enumerate(args):
            if i == 0 and a in ("self", "cls"):
                if a == "self" and self_type:
                    params.append(("self", self_type))
                continue
            t = (param_types or {}).get(a, "int")
            params.append((a, t))
        k = key or (f"{cls}.{name}" + (f"[{register}]" if register else ""))
        return self.translate_function(k, fn, lean_name or name, params, self_type=self_type)

    def translate_init_tail(self, cls: str, lean_name: str, first_var: str, skip: int = 1) -> FuncInfo:
        """`__init__` minus its first `skip` statements (which compute `first_var` by type dispatch):
        the range check and field assignment.  `self` starts with unset fields; reaching the end of
        the body returns the constructed object."""
        fn = self.find_func(cls, "__init__")
        body = [s for s in fn.body if not (isinstance(s, ast.Expr) and isinstance(s.value, ast.Constant))]
        head = body[:skip]
        for h in head:
            if not (isinstance(h, ast.Assign) and isinstance(h.targets[0], ast.Name) and h.targets[0].id == first_var):
                raise Untranslatable(f"{cls}.__init__: expected `{first_var} = ...` first", h, self.path)
        tail = body[skip:] + [ast.Return(value=ast.Name(id="self", ctx=ast.Load()), lineno=fn.end_lineno)]
        self_type = ("rec", cls)
        env_self = ([None] * len(RECORDS[cls].fields), self_type)
        info = self.translate_function(f"{cls}.__init__/tail", fn, lean_name, [(first_var, "int")],
                                       self_type=self_type, body=tail, extra_env={"self": env_self})
        return info

    def translate_dtype_fields(self, name: str) -> None:
        """T1: `NAME = np.dtype((Base, [("f", np.T), ...]))` or `np.dtype([("f", np.T), ...])` -> field table."""
        for n in self.tree.body:
            if isinstance(n, ast.Assign) and isinstance(n.targets[0], ast.Name) and n.targets[0].id == name:
                v = n.value
                if not (isinstance(v, ast.Call) and ast.unparse(v.func) == "np.dtype" and len(v.args) == 1):
                    raise Untranslatable(f"{name}: not an np.dtype(...) call", n, self.path)
                a = v.args[0]
                if isinstance(a, ast.Tuple) and len(a.elts) == 2:
                    a = a.elts[1]
                if not isinstance(a, ast.List):
                    raise Untranslatable(f"{name}: no field list", n, self.path)
                fields = []
                for el in a.elts:
                    if not (isinstance(el, ast.Tuple) and len(el.elts) == 2 and isinstance(el.elts[0], ast.Constant)):
                        raise Untranslatable(f"{name}: field entry", el, self.path)
                    ty = ast.unparse(el.elts[1])
                    if not ty.startswith("np."):
                        raise Untranslatable(f"{name}: field type {ty}", el, self.path)
                    fields.append((el.elts[0].value, ty[3:]))
                body = ", ".join(f'("{f}", "{t}")' for f, t in fields)
                self.out.append(f"/-- generated from `{name}` -/")
                self.out.append(f"@[pygen] def {name}_fields : List (String × String) := [{body}]")
                self.out.append("")
                self.tables = getattr(self, "tables", {})
                self.tables[name] = fields
                return
        raise Untranslatable(f"{name} not found", where=self.path)

    def translate_expr_table(self, name: str) -> None:
        """T1: a module-level tuple/list/dict of dtype expressions -> table of their source text.

        `np.dtype(np.X)` and `np.X` are both rendered as `X`; other names are kept as written."""
        def txt(e: ast.expr) -> str:
            t = ast.unparse(e)
            if t.startswith("np.dtype(") and t.endswith(")"):
                t = t[len("np.dtype("):-1]
            if t.startswith("np."):
                t = t[3:]
            if not all(c.isalnum() or c == "_" for c in t):
                raise Untranslatable(f"{name}: entry {t!r}", e, self.path)
            return t
        for n in self.tree.body:
            if isinstance(n, ast.Assign) and isinstance(n.targets[0], ast.Name) and n.targets[0].id == name:
                v = n.value
                self.out.append(f"/-- generated from `{name}` -/")
                if isinstance(v, (ast.Tuple, ast.List)):
                    body = ", ".join(f'"{txt(e)}"' for e in v.elts)
                    self.out.append(f"@[pygen] def {name.lstrip('_')}_table : List String := [{body}]")
                elif isinstance(v, ast.Dict):
                    body = ", ".join(f'("{txt(k)}", "{txt(e)}")' for k, e in zip(v.keys, v.values))
                    self.out.append(f"@[pygen] def {name.lstrip('_')}_table : List (String × String) := [{body}]")
                else:
                    raise Untranslatable(f"{name}: not a tuple/list/dict literal", n, self.path)
                self.out.append("")
                return
        raise Untranslatable(f"{name} not found", where=self.path)

    def translate_float_expr_method(self, cls: str, name: str, lean_name: str, params: list[str]) -> None:
        """T6: a method whose body is `return <expr>` with +, -, * over its array parameter and `self._x` float
        attributes -> a Lean term over an abstract record of rounding operations (`Py.FloatOps`)."""
        fn = self.find_func(cls, name)
        stmts = [st for st in fn.body if not (isinstance(st, ast.Expr) and isinstance(st.value, ast.Constant))]
        if len(stmts) != 1 or not isinstance(stmts[0], ast.Return) or stmts[0].value is None:
            raise Untranslatable(f"{cls}.{name}: body is not a single return", fn, self.path)
        ops = {ast.Add: "add", ast.Sub: "sub", ast.Mult: "mul"}

        def tr(e: ast.expr) -> str:
            if isinstance(e, ast.BinOp) and type(e.op) in ops:
                return f"(ops.{ops[type(e.op)]} {tr(e.left)} {tr(e.right)})"
            if isinstance(e, ast.Name) and e.id in params:
                return e.id
            if isinstance(e, ast.Attribute) and isinstance(e.value, ast.Name) and e.value.id == "self" and e.attr.lstrip("_") in params:
                return e.attr.lstrip("_")
            raise Untranslatable(f"{cls}.{name}: unsupported float expression {ast.unparse(e)}", e, self.path)
        body = tr(stmts[0].value)
        binders = " ".join(params)
        self.out.append(f"/-- generated from `{cls}.{name}`: `{ast.unparse(stmts[0].value)}` -/")
        self.out.append(f"@[pygen] def {lean_name} {{α : Type}} (ops : Py.FloatOps α) ({binders} : α) : α := {body}")
        self.out.append("")

    def translate_kind_assignments(self, cls: str, name: str, attrs: list[str]) -> None:
        """T6: `self._x = float(arg_to_float("…", x))`-style assignments of an `__init__` -> what kind of object is
        stored, as a composition of the prelude's `Py.Kind` functions (`float(e)`, `arg_to_float(_, e)`, a parameter)."""
        fn = self.find_func(cls, name)
        found = {}
        for st in ast.walk(fn):
            if isinstance(st, ast.Assign) and len(st.targets) == 1 and isinstance(st.targets[0], ast.Attribute) \
                    and isinstance(st.targets[0].value, ast.Name) and st.targets[0].value.id == "self":
                found[st.targets[0].attr] = st.value
        pnames = [a.arg for a in fn.args.args[1:]]

        def tr(e: ast.expr) -> str:
            if isinstance(e, ast.Name) and e.id in pnames:
                return f"(pure {e.id})"
            if isinstance(e, ast.Call) and isinstance(e.func, ast.Name) and not e.keywords:
                if e.func.id == "float" and len(e.args) == 1:
                    return f"({tr(e.args[0])} >>= Py.Kind.floatCall)"
                if e.func.id == "arg_to_float" and len(e.args) == 2:
                    return f"({tr(e.args[1])} >>= Py.Kind.argToFloat)"
            raise Untranslatable(f"{cls}.{name}: unsupported stored-value expression {ast.unparse(e)}", e, self.path)
        for a in attrs:
            if a not in found:
                raise Untranslatable(f"{cls}.{name}: no assignment to self.{a}", fn, self.path)
            self.out.append(f"/-- generated from `{cls}.{name}`: `self.{a} = {ast.unparse(found[a])}` -/")
            binders = " ".join(pnames)
            self.out.append(f"@[pygen] def {cls}.{a.lstrip('_')}_stored ({binders} : Py.Kind) : Except PyErr Py.Kind := {tr(found[a])}")
            self.out.append("")

    # -- T6b: straight-line float -> int code over exact dyadic values ------------------------------------------
    def translate_float_to_int(self, cls: str, name: str, register: str, lean_name: str, param: str) -> None:
        """T6b: a straight-line method taking one float and returning an int, built from `math.modf`, `int(x)`, `round(x)`,
        `x * K` with K a module integer constant that is a power of two (the multiplication then only changes the exponent
        and is exact), `+`, `+=` on ints -> a Lean term over `Py.Dyad` (exact dyadic rationals)."""
        fn = self.find_func(cls, name, register)
        body = [st for st in fn.body if not (isinstance(st, ast.Expr) and isinstance(st.value, ast.Constant))]
        env: dict[str, str] = {param: "dyad"}
        lines: list[str] = []

        def fail(msg, node):
            raise Untranslatable(f"{cls}.{name}[{register}]: {msg}", node, self.path)

        def expr(e):
            if isinstance(e, ast.Name):
                if e.id in env:
                    return env[e.id], e.id
                c = self.find_const(e.id)
                if c:
                    return "int", c[0]
                fail(f"unknown name {e.id}", e)
            if isinstance(e, ast.Constant) and isinstance(e.value, int) and not isinstance(e.value, bool):
                return "int", lit(e.value)
            if isinstance(e, ast.Call) and isinstance(e.func, ast.Name) and len(e.args) == 1 and not e.keywords:
                t, a = expr(e.args[0])
                if e.func.id == "int" and t == "dyad":
                    return "int", f"(Py.Dyad.toInt {a})"
                if e.func.id == "round" and t == "dyad":
                    return "int", f"(Py.Dyad.round {a})"
                fail(f"call {e.func.id} on {t}", e)
            if isinstance(e, ast.BinOp) and isinstance(e.op, (ast.Mult, ast.Add, ast.Sub)):
                (ta, a), (tb, b) = expr(e.left), expr(e.right)
                if ta == tb == "int":
                    return "int", f"({a} {'*' if isinstance(e.op, ast.Mult) else ('+' if isinstance(e.op, ast.Add) else '-')} {b})"
                if isinstance(e.op, ast.Mult) and {ta, tb} == {"dyad", "int"}:
                    d, k = (a, b) if ta == "dyad" else (b, a)
                    kn = e.right if ta == "dyad" else e.left
                    c = self.find_const(kn.id) if isinstance(kn, ast.Name) else None
                    kv = c[1] if c else (kn.value if isinstance(kn, ast.Constant) else None)
                    if not isinstance(kv, int) or kv <= 0 or kv & (kv - 1):
                        fail("a float may only be multiplied by a positive power-of-two integer constant (exact scaling)", e)
                    return "dyad", f"(Py.Dyad.mulInt {d} {k})"
                fail(f"operator on {ta}, {tb}", e)
            fail(f"unsupported expression {ast.unparse(e)}", e)
        for st in body[:-1]:
            if (isinstance(st, ast.Assign) and len(st.targets) == 1 and isinstance(st.targets[0], ast.Tuple) and len(st.targets[0].elts) == 2
                    and ast.unparse(st.value) == f"math.modf({param})" and all(isinstance(x, ast.Name) for x in st.targets[0].elts)):
                f, w = (x.id for x in st.targets[0].elts)
                env[f] = env[w] = "dyad"
                lines.append(f"  let ({f}, {w}) := Py.Dyad.modf {param}")
            elif isinstance(st, ast.Assign) and len(st.targets) == 1 and isinstance(st.targets[0], ast.Name):
                t, v = expr(st.value)
                env[st.targets[0].id] = t
                lines.append(f"  let {st.targets[0].id} := {v}")
            elif isinstance(st, ast.AugAssign) and isinstance(st.target, ast.Name) and isinstance(st.op, ast.Add) and env.get(st.target.id) == "int":
                t, v = expr(st.value)
                if t != "int":
                    fail("+= of a non-int", st)
                lines.append(f"  let {st.target.id} := {st.target.id} + {v}")
            else:
                fail(f"unsupported statement {ast.unparse(st)[:60]}", st)
        last = body[-1]
        if not isinstance(last, ast.Return) or last.value is None:
            fail("must end in return", last)
        t, v = expr(last.value)
        if t != "int":
            fail("must return an int", last)
        self.out.append(f"/-- generated from `{cls}.{name}.register({register})` (float argument as an exact dyadic value) -/")
        self.out.append(f"@[pygen] def {lean_name} ({param} : Py.Dyad) : Int :=")
        self.out += lines
        self.out.append(f"  {v}")
        self.out.append("")

    # -- T7: the order of effects of a mutating method ---------------------------------------------------------
    def translate_effect_traces(self, cls: str, name: str, lean_name: str) -> None:
        """T7: the sequence of effects a mutating method performs on `self`, in program order, as a list of `Py.Eff`.

        Every statement must fall into one of the recognised classes (anything else is Untranslatable):
          check        `if …: raise`, an if/elif/else ladder of local assignments ending in `raise`, a local bound to arg_to_uint(…)
          fail         an unconditional `raise`
          warn         `warnings.warn(…)`
          local        assignment to a local name from an expression without calls on self (offset arithmetic, reshape, …)
          mergeTiming  local bound to `….​_append_timestamps(…)` / `….​_append_timing(…)`   (pure, may raise)
          checkWritable `if not self._data.flags.writeable: raise …`
          resize       `self.capacity = …` / `self._data….resize(…)`
          callGrow     `self._increase_capacity(…)`
          copy         `self._data[…] = …`
          setTiming / setCount / setStart / adopt / adoptAlias / mergeProps   the mutations of observable state
          loopBegin … loopEnd            a `for` loop
          ifNeedGrowBegin … ifNeedGrowEnd  `if <size> > len(self._data)` / `> self.capacity`: the growth branch
          branchBegin l … branchElse … branchEnd   an `if <parameter>:` with effects in its branches (e.g. `if copy:`)"""
        fn = self.find_func(cls, name)

        def fail(msg, node):
            raise Untranslatable(f"{cls}.{name}: {msg}", node, self.path)

        def self_attr(t, attr=None):
            return isinstance(t, ast.Attribute) and isinstance(t.value, ast.Name) and t.value.id == "self" and (attr is None or t.attr == attr)

        def only_locals_or_raise(body):
            kinds = set()
            for st in body:
                if isinstance(st, ast.Raise):
                    kinds.add("raise")
                elif isinstance(st, (ast.Assign, ast.AnnAssign)) and isinstance(st.targets[0] if isinstance(st, ast.Assign) else st.target, ast.Name):
                    kinds.add("local")
                elif isinstance(st, ast.If):
                    kinds |= only_locals_or_raise(st.body) | only_locals_or_raise(st.orelse)
                elif isinstance(st, ast.Pass):
                    pass
                else:
                    kinds.add("other")
            return kinds

        def stmt(st) -> list[str]:
            if isinstance(st, ast.Expr) and isinstance(st.value, ast.Constant):
                return []
            if isinstance(st, ast.Pass):
                return []
            if isinstance(st, ast.Raise):
                return ["fail"]
            if isinstance(st, ast.AnnAssign) and st.value is None:
                return []
            if isinstance(st, ast.Expr) and isinstance(st.value, ast.Call):
                f = ast.unparse(st.value.func)
                if f == "warnings.warn":
                    return ["warn"]
                if f == "self._increase_capacity":
                    return ["callGrow"]
                if f == "self._set_timing":
                    return ["setTiming"]
                if f == "self._extended_properties._merge":
                    return ["mergeProps"]
                if f.startswith("self._data") and f.endswith(".resize"):
                    return ["resize"]
                if f in ("validate_unsupported_arg",):
                    return ["check"]
                fail(f"unclassified call statement {f}", st)
            if isinstance(st, (ast.Assign, ast.AugAssign, ast.AnnAssign)):
                target = st.targets[0] if isinstance(st, ast.Assign) else st.target
                if isinstance(st, ast.Assign) and len(st.targets) != 1:
                    fail("multiple assignment targets", st)
                src = ast.unparse(st.value)
                if isinstance(target, ast.Name):
                    if "._append_timestamps(" in src or "._append_timing(" in src:
                        return ["mergeTiming"]
                    if src.startswith("arg_to_uint(") or src.startswith("arg_to_int("):
                        return ["check"]
                    if "reshape" not in src:
                        # a local may read self only through attribute reads and the pure functions below; any other call that can
                        # reach self (a method of self or of one of its members, or a function given a member) is not a plain local
                        pure = {"len", "sum", "range", "np.may_share_memory"}
                        for c in ast.walk(st.value):
                            if not isinstance(c, ast.Call):
                                continue
                            f = ast.unparse(c.func)
                            touches = f.startswith("self.") or f.startswith("self._") or any("self." in ast.unparse(a) for a in list(c.args) + [k.value for k in c.keywords])
                            if touches and (f.startswith("self.") or f not in pure):
                                fail(f"local bound to a call on self: {src}", st)
                    return ["local"]
                if isinstance(target, ast.Subscript) and self_attr(target.value, "_data"):
                    return ["copy"]
                if self_attr(target, "capacity"):
                    return ["resize"]
                if self_attr(target, "_timing"):
                    return ["setTiming"]
                if self_attr(target, "_sample_count"):
                    return ["setCount"]
                if self_attr(target, "_start_index"):
                    return ["setStart"]
                if self_attr(target, "_data"):
                    return ["adopt"]
                if self_attr(target, "_data_1d"):
                    return ["adoptAlias"]
                fail(f"unclassified assignment target {ast.unparse(target)}", st)
            if isinstance(st, ast.For):
                if st.orelse:
                    fail("for/else", st)
                return ["loopBegin"] + block(st.body) + ["loopEnd"]
            if isinstance(st, ast.If):
                cond = ast.unparse(st.test)
                be, oe = block(st.body), block(st.orelse)
                pure = {"check", "fail", "warn", "local", "mergeTiming", "checkWritable"}
                if set(be) | set(oe) <= pure:
                    # a conditional that changes nothing: at most it raises
                    if "flags.writeable" in cond and "fail" in be:
                        return ["checkWritable"]
                    both = be + oe
                    if "mergeTiming" in both:
                        return ["mergeTiming"]
                    if any(e in ("check", "fail", "checkWritable") for e in both):
                        return ["check"]
                    return ["warn"] if "warn" in both else ["local"]
                if ("len(self._data)" in cond or "self.capacity" in cond) and not st.orelse:
                    return ["ifNeedGrowBegin"] + be + ["ifNeedGrowEnd"]
                if isinstance(st.test, ast.Name):
                    return ["branchBegin"] + be + ["branchElse"] + oe + ["branchEnd"]
                fail(f"unclassified if: {cond}", st)
            fail(f"unclassified statement {type(st).__name__}", st)

        def block(ss) -> list[str]:
            out: list[str] = []
            for st in ss:
                out += stmt(st)
            return out
        effs = block(fn.body)
        self.out.append(f"/-- generated from `{cls}.{name}`: the effects on `self`, in program order -/")
        self.out.append(f"@[pygen] def {lean_name} : List Py.Eff := [" + ", ".join("." + e for e in effs) + "]")
        self.out.append("")

    # -- T5: argument checks ("geometry") of constructors, accessors and setters --------------------------------------
    def find_setter(self, cls: str, name: str) -> ast.FunctionDef:
        for n in self.find_class(cls).body:
            if isinstance(n, ast.FunctionDef) and n.name == name and any(
                    isinstance(d, ast.Attribute) and d.attr == "setter" and isinstance(d.value, ast.Name) and d.value.id == name
                    for d in n.decorator_list):
                return n
        raise Untranslatable(f"{cls}.{name}: setter not found", where=self.path)

    def translate_geometry(self, cls: str, name: str, lean_name: str, params: list[tuple[str, Any]], ret: list[str],
                           attr_map: dict[str, tuple[str, Any]] | None = None, setter: bool = False,
                           extra_params: list[tuple[str, Any]] | None = None, other_aspects: tuple[str, ...] = ("dtype",)) -> FuncInfo:
        """T5: the *validation prefix* of a method - `x = arg_to_uint(desc, x, default)` conversions, comparisons, `raise create_*_error`
        - as a function from the integer arguments to the validated values `ret` (or the error).

        The prefix starts at the first `arg_to_uint` assignment and ends before the first statement that stores into `self` / resizes
        / returns.  Statements about the other aspects (`dtype`: `if dtype is None: dtype = ...`) are skipped; `validate_dtype(...)`
        becomes a check of the Boolean parameter `dtype_ok` at that place, so the ORDER of the checks is the source's.
        `attr_map` maps source expressions on `self` (e.g. `self._start_index`, `len(self._data)`) to parameters."""
        fn = self.find_setter(cls, name) if setter else self.find_func(cls, name)
        body = [st for st in fn.body if not (isinstance(st, ast.Expr) and isinstance(st.value, ast.Constant))]

        def is_conv(st):
            return (isinstance(st, ast.Assign) and isinstance(st.value, ast.Call) and isinstance(st.value.func, ast.Name)
                    and st.value.func.id in ("arg_to_uint", "arg_to_int"))

        def stores(st):
            if isinstance(st, (ast.Return, ast.For, ast.While)):
                return True            # the validation prefix ends where the work begins
            if isinstance(st, (ast.Assign, ast.AugAssign, ast.AnnAssign)):
                tg = st.targets if isinstance(st, ast.Assign) else [st.target]
                return any(isinstance(t, (ast.Attribute, ast.Subscript)) for t in tg)
            if isinstance(st, ast.Expr) and isinstance(st.value, ast.Call):
                f = ast.unparse(st.value.func)
                return f.startswith("self.") and not f.startswith("self.__class__")
            if isinstance(st, ast.If):
                return any(stores(x) for x in st.body + st.orelse)
            return False

        def other_aspect(st):
            names = {n.id for n in ast.walk(st) if isinstance(n, ast.Name)}
            if isinstance(st, ast.If) and names & set(other_aspects) and not any(isinstance(x, ast.Raise) for x in ast.walk(st)):
                return "skip"
            if isinstance(st, ast.Expr) and isinstance(st.value, ast.Call) and isinstance(st.value.func, ast.Name) \
                    and st.value.func.id == "validate_dtype":
                return "dtype_ok"
            return None
        first = next((i for i, st in enumerate(body) if is_conv(st)), None)
        if first is None:
            raise Untranslatable(f"{cls}.{name}: no arg_to_uint conversion found", fn, self.path)
        stmts: list[ast.stmt] = []
        uses_dtype_ok = False
        for st in body[first:]:
            if stores(st):
                break
            k = other_aspect(st)
            if k == "skip":
                continue
            if k == "dtype_ok":
                uses_dtype_ok = True
                stmts.append(ast.If(test=ast.UnaryOp(op=ast.Not(), operand=ast.Name(id="dtype_ok", ctx=ast.Load())),
                                    body=[ast.Raise(exc=ast.Call(func=ast.Name(id="unsupported_dtype", ctx=ast.Load()), args=[], keywords=[]), cause=None)],
                                    orelse=[], lineno=st.lineno))
                continue
            stmts.append(st)
        while stmts and isinstance(stmts[-1], ast.Assign) and not is_conv(stmts[-1]) and isinstance(stmts[-1].targets[0], ast.Name) \
                and stmts[-1].targets[0].id not in ret:
            stmts.pop()                # initialisations of the work that follows (`failures = []`)
        stmts.append(ast.Return(value=ast.Tuple(elts=[ast.Name(id=r, ctx=ast.Load()) for r in ret], ctx=ast.Load()) if len(ret) > 1
                                else ast.Name(id=ret[0], ctx=ast.Load()), lineno=fn.end_lineno))
        ps = list(params) + list(extra_params or []) + ([("dtype_ok", "bool")] if uses_dtype_ok else [])
        self._pending_attr_map = dict(attr_map or {})
        try:
            return self.translate_function(f"{cls}.{name}/geometry", fn, lean_name, ps, body=stmts, protocol=False)
        finally:
            self._pending_attr_map = None

    # -- T9: validators over abstract argument objects (what a Timing member can be) ---------------------------------------
    def translate_arg_validator(self, cls: str | None, name: str, lean_name: str, params: list[str], kinds: dict[str, str],
                                helpers: dict[str, str] | None = None, skip_params: tuple[str, ...] = ()) -> None:
        """T9: a function / method that only *inspects* its arguments and raises - `validate_init_args` of the sample-interval
        strategies, `validate_unsupported_arg` - over the abstract argument universe `Model.Timing.Arg` (absent / datetime of a
        family / timedelta of a family / sequence of elements / other).

        Statements:  `if <cond>: raise <known error factory>(...)`,  `<helper>(description, x)` (a translated validator).
        Conditions:  not / and / or;  `x is None`, `x is not None`;  `isinstance(x, K)` or `isinstance(x, (K1, K2))` with K from `kinds`
        (python spelling -> Lean predicate on Arg);  `all(isinstance(e, K) for e in x)` (K a datetime kind: every element is a
        timestamp);  `h(x)` for a translated Boolean helper on the sequence's timestamp values.
        Anything else is Untranslatable (closed subset)."""
        helpers = helpers or {}
        fn = self.find_func(cls, name)
        body = [st for st in fn.body if not (isinstance(st, ast.Expr) and isinstance(st.value, ast.Constant))]
        allp = [a.arg for a in fn.args.posonlyargs + fn.args.args]
        if set(params) - set(allp):
            raise Untranslatable(f"{name}: parameters {sorted(set(params) - set(allp))} not found", fn, self.path)

        def fail(msg, node):
            raise Untranslatable(f"{name}: {msg}", node, self.path)

        def kind_pred(k: ast.expr, var: str, elem: bool) -> str:
            if isinstance(k, ast.Tuple):
                return "(" + " ∨ ".join(kind_pred(x, var, elem) for x in k.elts) + ")"
            key = ast.unparse(k)
            if key not in kinds:
                fail(f"isinstance against unknown kind {key}", k)
            pred = kinds[key]
            if elem:
                if pred != "isDatetime":
                    fail(f"element test against {key}", k)
                return f"{var}.isTs = true"
            return f"{var}.{pred} = true"

        def cond(e: ast.expr) -> str:
            if isinstance(e, ast.UnaryOp) and isinstance(e.op, ast.Not):
                return f"¬ ({cond(e.operand)})"
            if isinstance(e, ast.BoolOp):
                # `or` / `and` short-circuit; every operand here is total on Arg, so the logical connective is the same
                j = " ∧ " if isinstance(e.op, ast.And) else " ∨ "
                return "(" + j.join(f"({cond(v)})" for v in e.values) + ")"
            if isinstance(e, ast.Compare) and len(e.ops) == 1 and isinstance(e.left, ast.Name) and e.left.id in params \
                    and isinstance(e.comparators[0], ast.Constant) and e.comparators[0].value is None:
                if isinstance(e.ops[0], ast.Is):
                    return f"{e.left.id}.isNone = true"
                if isinstance(e.ops[0], ast.IsNot):
                    return f"¬ ({e.left.id}.isNone = true)"
            if isinstance(e, ast.Call) and isinstance(e.func, ast.Name) and not e.keywords:
                if e.func.id == "isinstance" and len(e.args) == 2 and isinstance(e.args[0], ast.Name) and e.args[0].id in params:
                    return kind_pred(e.args[1], e.args[0].id, False)
                if e.func.id == "all" and len(e.args) == 1 and isinstance(e.args[0], ast.GeneratorExp):
                    g = e.args[0]
                    if (len(g.generators) == 1 and not g.generators[0].ifs and isinstance(g.generators[0].target, ast.Name)
                            and isinstance(g.generators[0].iter, ast.Name) and g.generators[0].iter.id in params
                            and isinstance(g.elt, ast.Call) and ast.unparse(g.elt.func) == "isinstance" and len(g.elt.args) == 2
                            and isinstance(g.elt.args[0], ast.Name) and g.elt.args[0].id == g.generators[0].target.id):
                        v = g.generators[0].target.id
                        return f"({g.generators[0].iter.id}.elems.all fun {v} => decide ({kind_pred(g.elt.args[1], v, True)})) = true"
                if e.func.id in helpers and len(e.args) == 1 and isinstance(e.args[0], ast.Name) and e.args[0].id in params:
                    return f"{helpers[e.func.id]} {e.args[0].id}.elemVals = true"
            fail(f"unsupported condition {ast.unparse(e)[:80]}", e)

        def stmts(ss: list[ast.stmt]) -> str:
            if not ss:
                return "Except.ok ()"
            st, rest = ss[0], ss[1:]
            if isinstance(st, ast.If) and not st.orelse and len(st.body) == 1 and isinstance(st.body[0], ast.Raise):
                exc = st.body[0].exc
                nm = ast.unparse(exc.func).split(".")[-1] if isinstance(exc, ast.Call) else None
                if nm not in ERROR_FACTORIES:
                    fail(f"raise of unknown error {ast.unparse(exc)[:60] if exc else ''}", st)
                return f"if {cond(st.test)} then Except.error PyErr.{ERROR_FACTORIES[nm]}\nelse\n" + indent(stmts(rest), 1)
            if (isinstance(st, ast.Expr) and isinstance(st.value, ast.Call) and isinstance(st.value.func, ast.Name)
                    and st.value.func.id in self.validators and len(st.value.args) == 2 and isinstance(st.value.args[1], ast.Name)
                    and st.value.args[1].id in params and not st.value.keywords):
                return f"Except.bind ({self.validators[st.value.func.id]} {st.value.args[1].id}) (fun _ =>\n{stmts(rest)})"
            fail(f"unsupported statement {ast.unparse(st)[:80]}", st)
        code = stmts(body)
        self.out.append(f"/-- generated from `{(cls + '.') if cls else ''}{name}` ({self.path.split('/src/')[-1]}) -/")
        self.out.append(f"@[pygen] def {lean_name} {' '.join(f'({x} : Model.Timing.Arg)' for x in params)} : Except PyErr Unit :=")
        self.out.append(indent(code, 1))
        self.out.append("")
        self.funcs[f"{cls}.{name}" if cls else name] = FuncInfo(f"{self.ns}.{lean_name}", ["obj"] * len(params), "unit", True)

    # -- T12: integer-argument converters over the kinds of object a caller can pass ---------------------------------------
    def translate_int_arg_function(self, name: str, lean_name: str) -> None:
        """T12: `arg_to_int` / `arg_to_uint` (nitypes/_arguments.py) over `Py.IntArg`, the kinds of object Python distinguishes
        where an integer is accepted (None, exact int, bool, other int subclass, NumPy integer, other `__index__` object,
        int()-convertible non-integer, anything else).  Parameters: (description, value, default_value); `value` is the only
        variable that is ever assigned; `default_value` is an exact int or None.

        Statements:  `if C: <block> [else: <block>]`, `value = E`, `return E`, `raise <known factory>(...)`,
                     `try: return E` + `except Exception: raise <known factory>(...)`.
        Expressions: `value`, `default_value`, `operator.index(value)`, `int(value)`, `<translated converter>(d, value, default_value)`.
        Conditions:  not / and / or; `value is None`, `default_value is None` (and `is not`); `isinstance(value, K)` with K among
                     int, bool, np.integer or a tuple of them; `type(value) is int`; `value < c` / `value >= c` (may raise: objects
                     without an order).  Anything else is Untranslatable (closed subset)."""
        fn = self.find_func(None, name)
        body = [st for st in fn.body if not (isinstance(st, ast.Expr) and isinstance(st.value, ast.Constant))]
        allp = [a.arg for a in fn.args.posonlyargs + fn.args.args]
        if allp[1:] != ["value", "default_value"]:
            raise Untranslatable(f"{name}: parameters {allp}, expected (description, value, default_value)", fn, self.path)
        KINDS = {"int": "isInt", "bool": "isBool", "np.integer": "isNp"}

        def fail(msg, node):
            raise Untranslatable(f"{name}: {msg}", node, self.path)

        def is_name(e, n):
            return isinstance(e, ast.Name) and e.id == n

        def obj(e) -> tuple[str, bool]:
            """(term, raises): term : Py.IntArg, or Except PyErr Py.IntArg when raises"""
            if is_name(e, "value"):
                return "value", False
            if is_name(e, "default_value"):
                return "(Py.IntArg.ofDefault default_value)", False
            if isinstance(e, ast.Call) and not e.keywords:
                f = ast.unparse(e.func)
                if f == "operator.index" and len(e.args) == 1 and is_name(e.args[0], "value"):
                    return "(Py.IntArg.index value)", True
                if f == "int" and len(e.args) == 1 and is_name(e.args[0], "value"):
                    return "(Py.IntArg.toInt value)", True
                if f in self.int_arg_funcs and len(e.args) == 3 and is_name(e.args[1], "value") and is_name(e.args[2], "default_value"):
                    return f"({self.int_arg_funcs[f]} value default_value)", True
            fail(f"unsupported expression {ast.unparse(e)[:80]}", e)

        def cond(e, k) -> str:
            """k(prop) -> term; conditions that can raise are bound first"""
            if isinstance(e, ast.UnaryOp) and isinstance(e.op, ast.Not):
                return cond(e.operand, lambda p: k(f"¬ ({p})"))
            if isinstance(e, ast.BoolOp):
                # short-circuit: a later operand is evaluated (and may raise) only when the earlier ones do not decide
                op_and = isinstance(e.op, ast.And)

                def go(vals, acc):
                    if not vals:
                        return k(acc)
                    v, rest = vals[0], vals[1:]
                    if pure(v):
                        p = cond(v, lambda p: p)
                        return go(rest, p if acc is None else f"({acc}) {'∧' if op_and else '∨'} ({p})")
                    fail("an operand that can raise inside and/or", v)
                return go(e.values, None)
            if isinstance(e, ast.Compare) and len(e.ops) == 1:
                l, op, r = e.left, e.ops[0], e.comparators[0]
                if isinstance(r, ast.Constant) and r.value is None and isinstance(op, (ast.Is, ast.IsNot)) and isinstance(l, ast.Name) \
                        and l.id in ("value", "default_value"):
                    p = f"{l.id}.isNone = true"
                    return k(p if isinstance(op, ast.Is) else f"¬ ({p})")
                if isinstance(op, ast.Is) and ast.unparse(l) == "type(value)" and is_name(r, "int"):
                    return k("value.isExactInt = true")
                if is_name(l, "value") and isinstance(r, ast.Constant) and type(r.value) is int and isinstance(op, (ast.Lt, ast.GtE)):
                    p = "c = true" if isinstance(op, ast.Lt) else "c = false"
                    return f"Except.bind (Py.IntArg.ltInt value {lit(r.value)}) (fun c =>\n{indent(k(p), 1)})"
            if isinstance(e, ast.Call) and ast.unparse(e.func) == "isinstance" and len(e.args) == 2 and is_name(e.args[0], "value") and not e.keywords:
                ks = e.args[1].elts if isinstance(e.args[1], ast.Tuple) else [e.args[1]]
                preds = []
                for x in ks:
                    key = ast.unparse(x)
                    if key not in KINDS:
                        fail(f"isinstance against unknown kind {key}", x)
                    preds.append(f"value.{KINDS[key]} = true")
                return k(preds[0] if len(preds) == 1 else "(" + " ∨ ".join(preds) + ")")
            fail(f"unsupported condition {ast.unparse(e)[:80]}", e)

        def pure(e) -> bool:
            return not any(isinstance(x, ast.Compare) and isinstance(x.ops[0], (ast.Lt, ast.GtE, ast.Gt, ast.LtE)) for x in ast.walk(e))

        def error_of(st: ast.Raise) -> str:
            exc = st.exc
            nm = ast.unparse(exc.func).split(".")[-1] if isinstance(exc, ast.Call) else None
            if nm not in ERROR_FACTORIES:
                fail(f"raise of unknown error {ast.unparse(exc)[:60] if exc else ''}", st)
            return f"Except.error PyErr.{ERROR_FACTORIES[nm]}"

        def stmts(ss: list[ast.stmt], fall: str | None) -> str:
            """term : Except PyErr Py.IntArg; `fall` is what falling off the end of the block means (None at top level: the function
            would return None, which no converter may do)"""
            if not ss:
                if fall is None:
                    fail("a path falls off the end of the function", fn)
                return fall
            st, rest = ss[0], ss[1:]
            if isinstance(st, ast.Raise):
                return error_of(st)
            if isinstance(st, ast.Return):
                if st.value is None:
                    fail("bare return", st)
                t, raises = obj(st.value)
                return t if raises else f"Except.ok {t}"
            if isinstance(st, ast.Assign) and len(st.targets) == 1 and is_name(st.targets[0], "value"):
                t, raises = obj(st.value)
                k = stmts(rest, fall)
                if raises:
                    return f"Except.bind {t} (fun value =>\n{indent(k, 1)})"
                return f"let value : Py.IntArg := {t}\n{k}"
            if isinstance(st, ast.Try):
                if (len(st.body) == 1 and isinstance(st.body[0], ast.Return) and st.body[0].value is not None and len(st.handlers) == 1
                        and not st.orelse and not st.finalbody and st.handlers[0].type is not None
                        and ast.unparse(st.handlers[0].type) == "Exception" and len(st.handlers[0].body) == 1
                        and isinstance(st.handlers[0].body[0], ast.Raise)):
                    t, raises = obj(st.body[0].value)
                    if not raises:
                        return f"Except.ok {t}"
                    return f"(match {t} with\n  | Except.ok r => Except.ok r\n  | Except.error _ => {error_of(st.handlers[0].body[0])})"
                fail("unsupported try statement", st)
            if isinstance(st, ast.If):
                def leaves(block) -> bool:
                    if not block:
                        return False
                    last = block[-1]
                    if isinstance(last, (ast.Return, ast.Raise)):
                        return True
                    if isinstance(last, ast.If):
                        return leaves(last.body) and leaves(last.orelse)
                    if isinstance(last, ast.Try):
                        return leaves(last.body) and all(leaves(h.body) for h in last.handlers) and not last.orelse and not last.finalbody
                    return False

                def branch(block):
                    if leaves(block):
                        return stmts(block, None), True
                    return stmts(block, "Except.ok value"), False
                tb, tt = branch(st.body)
                eb, et = branch(st.orelse) if st.orelse else ("Except.ok value", False)
                if tt and (et and st.orelse):
                    if rest:
                        fail("statements after an if whose branches all leave", rest[0])
                    return cond(st.test, lambda p: f"if {p} then\n{indent(tb, 1)}\nelse\n{indent(eb, 1)}")
                k = stmts(rest, fall)
                if tt:       # then-branch leaves, the rest is the else path (with the else block's assignments, if any)
                    if st.orelse:
                        return cond(st.test, lambda p: f"if {p} then\n{indent(tb, 1)}\nelse\n" + indent(f"Except.bind ({eb}) (fun value =>\n{indent(k, 1)})", 1))
                    return cond(st.test, lambda p: f"if {p} then\n{indent(tb, 1)}\nelse\n{indent(k, 1)}")
                if et and st.orelse:
                    return cond(st.test, lambda p: f"if {p} then\n" + indent(f"Except.bind ({tb}) (fun value =>\n{indent(k, 1)})", 1) + f"\nelse\n{indent(eb, 1)}")
                joined = cond(st.test, lambda p: f"if {p} then\n{indent(tb, 1)}\nelse\n{indent(eb, 1)}")
                return f"Except.bind ({joined}) (fun value =>\n{indent(k, 1)})"
            fail(f"unsupported statement {ast.unparse(st)[:80]}", st)

        code = stmts(body, None)
        self.out.append(f"/-- generated from `{name}` ({self.path.split('/src/')[-1]}) -/")
        self.out.append(f"@[pygen] def {lean_name} (value : Py.IntArg) (default_value : Option Int) : Except PyErr Py.IntArg :=")
        self.out.append(indent(code, 1))
        self.out.append("")
        self.int_arg_funcs[name] = lean_name

    # -- T13: methods of a list-backed container over argument objects ---------------------------------------------------------
    def translate_list_method(self, cls: str, name: str, lean_name: str, index_is_int: bool = False) -> None:
        """T13: `Vector.__setitem__` / `insert` / `__delitem__` (nitypes/vector.py): checks on the argument objects followed by ONE
        operation on the backing list `self._values`, over `Model.Vector.Arg` / `Index` / `Item`.

        Statements:  `if C: <block> [elif …] [else: <block>]`; `raise TypeError(...)` / `raise self.<factory>(x)` (a method whose body
                     is `return <Error>(...)`); `value = list(value)`; `for x in value:` + `if C(x): raise …` (the whole body);
                     and, as the last statement of every path that does not raise, exactly one of
                     `self._values[index] = value`, `self._values.insert(index, value)`, `del self._values[index]`.
        Conditions:  not / and / or; `isinstance(index, slice)`; `isinstance(value, Iterable | str | self._value_type)`;
                     `isinstance(x, self._value_type)` for the loop variable.  Anything else is Untranslatable (closed subset)."""
        fn = self.find_func(cls, name)
        body = [st for st in fn.body if not (isinstance(st, ast.Expr) and isinstance(st.value, ast.Constant))]
        allp = [a.arg for a in fn.args.posonlyargs + fn.args.args][1:]
        if allp not in (["index", "value"], ["index"]):
            raise Untranslatable(f"{name}: parameters {allp}", fn, self.path)

        def fail(msg, node):
            raise Untranslatable(f"{cls}.{name}: {msg}", node, self.path)

        def is_name(e, n):
            return isinstance(e, ast.Name) and e.id == n

        def error_of(st: ast.Raise) -> str:
            exc = st.exc
            if isinstance(exc, ast.Call):
                f = ast.unparse(exc.func)
                if f in ERROR_FACTORIES:
                    return f"PyErr.{ERROR_FACTORIES[f]}"
                if f.startswith("self."):
                    helper = self.find_func(cls, f[5:])
                    hb = [x for x in helper.body if not (isinstance(x, ast.Expr) and isinstance(x.value, ast.Constant))]
                    if len(hb) == 1 and isinstance(hb[0], ast.Return) and isinstance(hb[0].value, ast.Call) \
                            and ast.unparse(hb[0].value.func) in ERROR_FACTORIES:
                        return f"PyErr.{ERROR_FACTORIES[ast.unparse(hb[0].value.func)]}"
            fail(f"raise of unknown error {ast.unparse(exc)[:60] if exc else ''}", st)

        def cond(e, loopvar=None) -> str:
            if isinstance(e, ast.UnaryOp) and isinstance(e.op, ast.Not):
                return f"¬ ({cond(e.operand, loopvar)})"
            if isinstance(e, ast.BoolOp):
                j = " ∧ " if isinstance(e.op, ast.And) else " ∨ "     # every operand is total here
                return "(" + j.join(f"({cond(v, loopvar)})" for v in e.values) + ")"
            if isinstance(e, ast.Call) and ast.unparse(e.func) == "isinstance" and len(e.args) == 2 and not e.keywords:
                who, what = e.args[0], ast.unparse(e.args[1])
                if is_name(who, "index") and what == "slice" and not index_is_int:
                    return "index.isSlice = true"
                if is_name(who, "value") and "value" in allp:
                    if what == "Iterable":
                        return "value.isIterable = true"
                    if what == "str":
                        return "value.isStr = true"
                    if what == "self._value_type":
                        return "value.instOf vtype = true"
                if loopvar and is_name(who, loopvar) and what == "self._value_type":
                    return f"Model.Vector.itemInstOf {loopvar} vtype = true"
            fail(f"unsupported condition {ast.unparse(e)[:80]}", e)

        def leaves(block) -> bool:
            """every path through the block ends in a raise or in the final list operation"""
            if not block:
                return False
            last = block[-1]
            if isinstance(last, ast.Raise) or terminal(last) is not None:
                return True
            if isinstance(last, ast.If):
                return leaves(last.body) and leaves(last.orelse)
            return False

        def terminal(st) -> str | None:
            if isinstance(st, ast.Assign) and len(st.targets) == 1 and ast.unparse(st.targets[0]) == "self._values[index]" \
                    and is_name(st.value, "value") and not index_is_int:
                return "Model.Vector.store values index value"
            if isinstance(st, ast.Expr) and isinstance(st.value, ast.Call) and ast.unparse(st.value.func) == "self._values.insert" \
                    and len(st.value.args) == 2 and is_name(st.value.args[0], "index") and is_name(st.value.args[1], "value") and index_is_int:
                return "Except.ok (Py.ListSpec.insert values index value.asItem)"
            if isinstance(st, ast.Delete) and len(st.targets) == 1 and ast.unparse(st.targets[0]) == "self._values[index]" and not index_is_int:
                return "Model.Vector.delIndex values index"
            return None

        def stmts(ss: list[ast.stmt], fall: str | None) -> str:
            if not ss:
                if fall is None:
                    fail("a path ends without an operation on self._values", fn)
                return fall
            st, rest = ss[0], ss[1:]
            if isinstance(st, ast.Raise):
                return f"Except.error {error_of(st)}"
            t = terminal(st)
            if t is not None:
                if rest:
                    fail("statements after the operation on self._values", rest[0])
                return t
            if isinstance(st, ast.Assign) and len(st.targets) == 1 and is_name(st.targets[0], "value") and ast.unparse(st.value) == "list(value)":
                return f"Except.bind value.toList (fun value =>\n{indent(stmts(rest, fall), 1)})"
            if isinstance(st, ast.For) and isinstance(st.target, ast.Name) and is_name(st.iter, "value") and not st.orelse \
                    and len(st.body) == 1 and isinstance(st.body[0], ast.If) and not st.body[0].orelse \
                    and len(st.body[0].body) == 1 and isinstance(st.body[0].body[0], ast.Raise):
                v = st.target.id
                c = cond(st.body[0].test, loopvar=v)
                return (f"Except.bind (Model.Vector.forAllItems value (fun {v} => decide ({c})) {error_of(st.body[0].body[0])}) (fun _ =>\n"
                        f"{indent(stmts(rest, fall), 1)})")
            if isinstance(st, ast.If):
                def branch(block):
                    if leaves(block):
                        return stmts(block, None), True
                    return stmts(block, "Except.ok value"), False
                tb, tt = branch(st.body)
                eb, et = branch(st.orelse) if st.orelse else ("Except.ok value", False)
                c = cond(st.test)
                if tt and et:
                    if rest:
                        fail("statements after an if whose branches all leave", rest[0])
                    return f"if {c} then\n{indent(tb, 1)}\nelse\n{indent(eb, 1)}"
                if "value" not in allp:
                    fail("an if that falls through in a method without a value", st)
                k = stmts(rest, fall)
                if tt:
                    if eb == "Except.ok value":
                        return f"if {c} then\n{indent(tb, 1)}\nelse\n{indent(k, 1)}"
                    return f"if {c} then\n{indent(tb, 1)}\nelse\n" + indent(f"Except.bind ({eb}) (fun value =>\n{indent(k, 1)})", 1)
                if et:
                    if tb == "Except.ok value":
                        return f"if {c} then\n{indent(k, 1)}\nelse\n{indent(eb, 1)}"
                    return f"if {c} then\n" + indent(f"Except.bind ({tb}) (fun value =>\n{indent(k, 1)})", 1) + f"\nelse\n{indent(eb, 1)}"
                return f"Except.bind (if {c} then\n{indent(tb, 1)}\nelse\n{indent(eb, 1)}) (fun value =>\n{indent(k, 1)})"
            fail(f"unsupported statement {ast.unparse(st)[:80]}", st)

        code = stmts(body, None)
        ps = "(vtype : Model.Vector.VT) (values : List Model.Vector.Item) " + ("(index : Int)" if index_is_int else "(index : Model.Vector.Index)") \
            + (" (value : Model.Vector.Arg)" if "value" in allp else "")
        self.out.append(f"/-- generated from `{cls}.{name}` ({self.path.split('/src/')[-1]}): the new `_values`, or the exception -/")
        self.out.append(f"@[pygen] def {lean_name} {ps} : Except PyErr (List Model.Vector.Item) :=")
        self.out.append(indent(code, 1))
        self.out.append("")

    # -- T13b: the validation part of Vector.__init__ ------------------------------------------------------------------------------------
    def translate_vector_ctor(self, cls: str, lean_name: str) -> None:
        """T13b: `Vector.__init__` from `values = list(values)` to `self._values = list(values)`: what is stored and which value type, or
        the refusal, over `Model.Vector.Arg` (the iterable), `VTArg` (the value_type argument), `Item` / `ItemType`.

        Statements (closed):  `values = list(values)`;  `if not values: <empty block> else: <loop>`;  in the empty block
        `if not value_type: raise`, `if not (isinstance(value_type, type) and issubclass(value_type, (bool, int, float, str))): raise`,
        `self._value_type = value_type`;  the loop `for index, value in enumerate(values):` with `if not index: self._value_type =
        type(value)`, `if not isinstance(value, (bool, int, float, str)): raise`, `if not isinstance(value, self._value_type): raise`
        in the source's order;  `if not isinstance(units, str): raise` (tier T15's business, skipped);  `self._values = list(values)`."""
        fn = self.find_func(cls, "__init__")
        body = [st for st in fn.body if not (isinstance(st, ast.Expr) and isinstance(st.value, ast.Constant))]

        def fail(msg, node):
            raise Untranslatable(f"{cls}.__init__: {msg}", node, self.path)

        def err(st):
            exc = st.exc
            nm = ast.unparse(exc.func).split(".")[-1] if isinstance(exc, ast.Call) else None
            if nm not in ERROR_FACTORIES:
                fail("raise of unknown error", st)
            return f"Except.error PyErr.{ERROR_FACTORIES[nm]}"
        SCALARS = "(bool, int, float, str)"
        i = 0
        if not (isinstance(body[0], ast.Assign) and ast.unparse(body[0]) == "values = list(values)"):
            fail("expected `values = list(values)` first (the iterable is consumed exactly once)", body[0])
        branch = body[1]
        if not (isinstance(branch, ast.If) and ast.unparse(branch.test) == "not values" and branch.orelse):
            fail("expected `if not values: … else: …`", branch)
        # the empty case
        def empty_block(ss):
            if not ss:
                fail("the empty case does not set the value type", branch)
            st, rest = ss[0], ss[1:]
            if isinstance(st, ast.If) and not st.orelse and len(st.body) == 1 and isinstance(st.body[0], ast.Raise):
                t = ast.unparse(st.test)
                if t == "not value_type":
                    c = "value_type.falsy = true"
                elif t == f"not (isinstance(value_type, type) and issubclass(value_type, {SCALARS}))":
                    c = "¬ (value_type.isSupported = true)"
                else:
                    fail(f"unsupported test on value_type: {t[:80]}", st)
                return f"if {c} then {err(st.body[0])} else\n" + empty_block(rest)
            if ast.unparse(st) == "self._value_type = value_type":
                if rest:
                    fail("statements after the value type is set", rest[0])
                return "Except.ok (value_type.asItemType, values)"
            fail(f"unsupported statement {ast.unparse(st)[:80]}", st)
        # the loop
        loop_block = branch.orelse
        if not (len(loop_block) == 1 and isinstance(loop_block[0], ast.For) and not loop_block[0].orelse
                and ast.unparse(loop_block[0].target) == "(index, value)" and ast.unparse(loop_block[0].iter) == "enumerate(values)"):
            fail("expected `for index, value in enumerate(values):`", loop_block[0])

        def loop_body(ss):
            if not ss:
                return "Except.ok vt"
            st, rest = ss[0], ss[1:]
            if isinstance(st, ast.If) and not st.orelse and len(st.body) == 1:
                t = ast.unparse(st.test)
                inner = st.body[0]
                if t == "not index" and ast.unparse(inner) == "self._value_type = type(value)":
                    return "let vt : Model.Vector.ItemType := if index = 0 then Model.Vector.typeOf value else vt\n" + loop_body(rest)
                if isinstance(inner, ast.Raise):
                    if t == f"not isinstance(value, {SCALARS})":
                        c = "¬ (Model.Vector.isScalar value = true)"
                    elif t == "not isinstance(value, self._value_type)":
                        c = "¬ (Model.Vector.itemInstOfType value vt = true)"
                    else:
                        fail(f"unsupported test in the loop: {t[:80]}", st)
                    return f"if {c} then {err(inner)} else\n" + loop_body(rest)
            fail(f"unsupported loop statement {ast.unparse(st)[:80]}", st)
        loop = ("Except.bind (Model.Vector.forEnum values 0 Model.Vector.ItemType.other (fun index value vt =>\n" + indent(loop_body(loop_block[0].body), 2)
                + ")) (fun vt =>\n    Except.ok (vt, values))")
        # what follows: the units check (skipped), then the store of the materialised list
        stored = False
        for st in body[2:]:
            src = ast.unparse(st)
            if src.startswith("if not isinstance(units, str):"):
                continue
            if src == "self._values = list(values)":
                stored = True
                break
            fail(f"unexpected statement before the values are stored: {src[:80]}", st)
        if not stored:
            fail("`self._values = list(values)` not found", fn)
        code = ("Except.bind value_arg.items (fun values =>\n  if values.isEmpty = true then\n" + indent(empty_block(branch.body), 2) + "\n  else\n" + indent(loop, 2) + ")")
        self.out.append(f"/-- generated from `{cls}.__init__` (up to `self._values = list(values)`): (the value type, the stored items), or the refusal -/")
        self.out.append(f"@[pygen] def {lean_name} (value_arg : Model.Vector.Arg) (value_type : Model.Vector.VTArg) : Except PyErr (Model.Vector.ItemType × List Model.Vector.Item) :=")
        self.out.append(indent(code, 1))
        self.out.append("")

    # -- T17: the bintime arrays' algorithm over a 1-D NumPy array of tick counts ---------------------------------------------------
    def translate_bt_array(self, cls: str, item_cls: str) -> None:
        """T17: `__setitem__` (slice branch), `__delitem__` and `insert` of DateTimeArray / TimeDeltaArray over `Model.BtArray.Arr`
        (tick counts; the 16-byte record encoding of an element is C02's business: `item.to_tuple().to_cvi()` is the element) and the
        NumPy primitives of `Model/Np1.lean` (`a[slice] = list`, `np.delete`, `np.insert`).

        Integer expressions: names, constants, `+`, unary `-`, `len(self)`, `len(self._array)`, `len(values)`, `len(range(a, b, c))`,
        `min`, `max`, `int(x)`.  Conditions: `<`, `>`, `==`, `!=`, `and`.  Statements: `a, b, c = index.indices(len(self))`, `x = <int>`,
        `x = slice(<int>, <int>)`, `if C: x = E`, `if / elif / else` whose branches end the method, `self._array[S] = L`, `del self[S]`,
        `self._array = np.insert(self._array, P, L)`, `self._array = np.delete(self._array, X)`, `raise`.  List expressions: `values`,
        `values[:n]`, `values[n:]`, `[item.to_tuple().to_cvi() for item in L]`, `value.to_tuple().to_cvi()`."""
        def fail(msg, node):
            raise Untranslatable(f"{cls}: {msg}", node, self.path)

        def body_of(fn):
            return [st for st in fn.body if not (isinstance(st, ast.Expr) and isinstance(st.value, ast.Constant))]

        def err(st):
            exc = st.exc
            nm = ast.unparse(exc.func).split(".")[-1] if isinstance(exc, ast.Call) else None
            if nm not in ERROR_FACTORIES:
                fail("raise of unknown error", st)
            return f"Except.error PyErr.{ERROR_FACTORIES[nm]}"

        class Env:
            def __init__(self):
                self.ints = set(); self.slices = {}; self.lists = {"values"}
        env = Env()

        def ie(e) -> str:
            if isinstance(e, ast.Constant) and type(e.value) is int:
                return lit(e.value)
            if isinstance(e, ast.Name) and e.id in env.ints:
                return e.id
            if isinstance(e, ast.BinOp) and isinstance(e.op, (ast.Add, ast.Sub)):
                return f"({ie(e.left)} {'+' if isinstance(e.op, ast.Add) else '-'} {ie(e.right)})"
            if isinstance(e, ast.UnaryOp) and isinstance(e.op, ast.USub):
                return f"(-{ie(e.operand)})"
            if isinstance(e, ast.Call) and not e.keywords:
                f = ast.unparse(e.func)
                if f == "len" and len(e.args) == 1:
                    a0 = ast.unparse(e.args[0])
                    if a0 in ("self", "self._array"):
                        return "(a.length : Int)"
                    if a0 in env.lists:
                        return f"({a0}.length : Int)"
                    if isinstance(e.args[0], ast.Call) and ast.unparse(e.args[0].func) == "range" and len(e.args[0].args) == 3:
                        r = e.args[0].args
                        return f"((Py.Slice.rangeLen {ie(r[0])} {ie(r[1])} {ie(r[2])} : Nat) : Int)"
                if f in ("min", "max") and len(e.args) == 2:
                    return f"({f} {ie(e.args[0])} {ie(e.args[1])})"
                if f == "int" and len(e.args) == 1:
                    return ie(e.args[0])
            fail(f"unsupported integer expression {ast.unparse(e)[:80]}", e)

        def ce(e) -> str:
            if isinstance(e, ast.BoolOp) and isinstance(e.op, ast.And):
                return "(" + " ∧ ".join(ce(v) for v in e.values) + ")"
            if isinstance(e, ast.Compare) and len(e.ops) == 1:
                op = {ast.Lt: "<", ast.Gt: ">", ast.Eq: "=", ast.NotEq: "≠", ast.LtE: "≤", ast.GtE: "≥"}.get(type(e.ops[0]))
                if op:
                    return f"{ie(e.left)} {op} {ie(e.comparators[0])}"
            fail(f"unsupported condition {ast.unparse(e)[:80]}", e)

        def le(e) -> str:
            if isinstance(e, ast.Name) and e.id in env.lists:
                return e.id
            if isinstance(e, ast.Subscript) and isinstance(e.value, ast.Name) and e.value.id in env.lists and isinstance(e.slice, ast.Slice) and e.slice.step is None:
                if e.slice.lower is None and e.slice.upper is not None:
                    return f"({e.value.id}.take ({ie(e.slice.upper)}).toNat)"
                if e.slice.upper is None and e.slice.lower is not None:
                    return f"({e.value.id}.drop ({ie(e.slice.lower)}).toNat)"
            if isinstance(e, ast.ListComp) and len(e.generators) == 1 and not e.generators[0].ifs and isinstance(e.generators[0].target, ast.Name) \
                    and ast.unparse(e.elt) == f"{e.generators[0].target.id}.to_tuple().to_cvi()":
                return le(e.generators[0].iter)
            fail(f"unsupported list expression {ast.unparse(e)[:80]}", e)

        def se(e) -> str:
            """a slice -> 'start stop step' as three Option Int terms"""
            if isinstance(e, ast.Name) and e.id in env.slices:
                return env.slices[e.id]
            if isinstance(e, ast.Name) and e.id == "index":
                return "i0 i1 i2"
            fail(f"unsupported slice {ast.unparse(e)[:60]}", e)

        def stmts(ss) -> str:
            if not ss:
                return "Except.ok a"
            st, rest = ss[0], ss[1:]
            src = ast.unparse(st)
            if isinstance(st, ast.Raise):
                return err(st)
            if isinstance(st, ast.Assign) and len(st.targets) == 1:
                tgt = st.targets[0]
                if isinstance(tgt, ast.Tuple) and ast.unparse(st.value) == "index.indices(len(self))" and all(isinstance(x, ast.Name) for x in tgt.elts) and len(tgt.elts) == 3:
                    names = [x.id for x in tgt.elts]
                    env.ints.update(names)
                    return (f"Except.bind (Py.Slice.indices i0 i1 i2 a.length) (fun r =>\n  let {names[0]} : Int := r.1\n  let {names[1]} : Int := r.2.1\n  let {names[2]} : Int := r.2.2\n"
                            + indent(stmts(rest), 1) + ")")
                if isinstance(tgt, ast.Name) and isinstance(st.value, ast.Call) and ast.unparse(st.value.func) == "slice" and len(st.value.args) == 2:
                    env.slices[tgt.id] = f"(some {ie(st.value.args[0])}) (some {ie(st.value.args[1])}) none"
                    return stmts(rest)
                if isinstance(tgt, ast.Name) and ast.unparse(st.value) == "value.to_tuple().to_cvi()":
                    env.lists.add(tgt.id)
                    return f"let {tgt.id} : List Int := [value]\n" + stmts(rest)
                if isinstance(tgt, ast.Name) and tgt.id not in env.lists and tgt.id not in env.slices:
                    t = ie(st.value)
                    env.ints.add(tgt.id)
                    return f"let {tgt.id} : Int := {t}\n" + stmts(rest)
                if isinstance(tgt, ast.Subscript) and ast.unparse(tgt.value) == "self._array":
                    return f"Except.bind (Model.Np1.setSlice a {se(tgt.slice)} {le(st.value)}) (fun a =>\n" + indent(stmts(rest), 1) + ")"
                if ast.unparse(tgt) == "self._array" and isinstance(st.value, ast.Call):
                    f = ast.unparse(st.value.func)
                    args = st.value.args
                    if f == "np.insert" and len(args) == 3 and ast.unparse(args[0]) == "self._array":
                        return f"Except.bind (Model.Np1.insert a {ie(args[1])} {le(args[2])}) (fun a =>\n" + indent(stmts(rest), 1) + ")"
                    if f == "np.delete" and len(args) == 2 and ast.unparse(args[0]) == "self._array":
                        if ast.unparse(args[1]) == "int(index)" and "index" in env.ints:
                            return "Except.bind (Model.Np1.deleteAt a index) (fun a =>\n" + indent(stmts(rest), 1) + ")"
                        return f"Except.bind (Model.Np1.delete a {se(args[1])}) (fun a =>\n" + indent(stmts(rest), 1) + ")"
            if isinstance(st, ast.Delete) and len(st.targets) == 1 and isinstance(st.targets[0], ast.Subscript) and ast.unparse(st.targets[0].value) == "self":
                return f"Except.bind (delitem_slice a {se(st.targets[0].slice)}) (fun a =>\n" + indent(stmts(rest), 1) + ")"
            if isinstance(st, ast.If):
                if not st.orelse and len(st.body) == 1 and isinstance(st.body[0], ast.Raise):
                    return f"if {ce(st.test)} then {err(st.body[0])} else\n" + stmts(rest)
                if not st.orelse and len(st.body) == 1 and isinstance(st.body[0], ast.Assign) and isinstance(st.body[0].targets[0], ast.Name) \
                        and st.body[0].targets[0].id in env.ints:
                    x = st.body[0].targets[0].id
                    return f"let {x} : Int := if {ce(st.test)} then {ie(st.body[0].value)} else {x}\n" + stmts(rest)
                if st.orelse:
                    if rest:
                        fail("statements after an if / else whose branches end the method", rest[0])
                    import copy as _c
                    saved = (_c.deepcopy(env.ints), dict(env.slices), set(env.lists))
                    tb = stmts(st.body)
                    env.ints, env.slices, env.lists = saved[0], saved[1], saved[2]
                    eb = stmts(st.orelse)
                    return f"if {ce(st.test)} then\n{indent(tb, 1)}\nelse\n{indent(eb, 1)}"
            fail(f"unsupported statement {src[:80]}", st)

        # __delitem__: `if isinstance(index, int): <int branch> elif isinstance(index, slice): <slice branch> else: raise`
        def branches(fn, name):
            b = body_of(fn)
            if not (len(b) == 1 and isinstance(b[0], ast.If) and ast.unparse(b[0].test) == "isinstance(index, int)" and len(b[0].orelse) == 1
                    and isinstance(b[0].orelse[0], ast.If) and ast.unparse(b[0].orelse[0].test) == "isinstance(index, slice)"
                    and len(b[0].orelse[0].orelse) == 1 and isinstance(b[0].orelse[0].orelse[0], ast.Raise)):
                fail(f"{name}: expected the int / slice / else-raise dispatch", fn)
            return b[0].body, b[0].orelse[0].body
        d_int, d_slice = branches(self.find_func(cls, "__delitem__"), "__delitem__")
        env = Env(); env.ints.add("index")
        self.out.append(f"/-- generated from `{cls}.__delitem__` (int index) -/")
        self.out.append("@[pygen] def delitem_int (a : Model.BtArray.Arr) (index : Int) : Except PyErr Model.BtArray.Arr :=")
        self.out.append(indent(stmts(d_int), 1)); self.out.append("")
        env = Env()
        self.out.append(f"/-- generated from `{cls}.__delitem__` (slice index) -/")
        self.out.append("@[pygen] def delitem_slice (a : Model.BtArray.Arr) (i0 i1 i2 : Option Int) : Except PyErr Model.BtArray.Arr :=")
        self.out.append(indent(stmts(d_slice), 1)); self.out.append("")
        # __setitem__ (slice branch): the type checks first, in canonical form
        s_int, s_slice = branches(self.find_func(cls, "__setitem__"), "__setitem__")
        head = [ast.unparse(x) for x in s_slice[:3]]
        want = ["if not isinstance(value, Iterable):\n    raise invalid_arg_type('value', 'iterable of " + item_cls + "', value)", "values = list(value)",
                "if not all((isinstance(item, " + item_cls + ") for item in values)):\n    raise invalid_arg_type('value', 'iterable of " + item_cls + "', value)"]
        if head != want:
            fail("__setitem__ (slice): the three leading statements (Iterable check, list(value), element type check) are not canonical:\n" + "\n".join(head), s_slice[0])
        env = Env()
        self.out.append(f"/-- generated from `{cls}.__setitem__` (slice index; `values` are the tick counts of the items, all of the item class) -/")
        self.out.append("@[pygen] def setitem_slice (a : Model.BtArray.Arr) (i0 i1 i2 : Option Int) (values : List Int) : Except PyErr Model.BtArray.Arr :=")
        self.out.append(indent(stmts(s_slice[3:]), 1)); self.out.append("")
        # insert: two type checks, then the clamped np.insert
        ins = body_of(self.find_func(cls, "insert"))
        head = [ast.unparse(x) for x in ins[:2]]
        want = ["if not isinstance(index, int):\n    raise invalid_arg_type('index', 'int', index)", "if not isinstance(value, " + item_cls + "):\n    raise invalid_arg_type('value', '" + item_cls + "', value)"]
        if head != want:
            fail("insert: the two leading type checks are not canonical", ins[0])
        env = Env(); env.ints.add("index")
        self.out.append(f"/-- generated from `{cls}.insert` (index an int, value an item) -/")
        self.out.append("@[pygen] def insert (a : Model.BtArray.Arr) (index : Int) (value : Int) : Except PyErr Model.BtArray.Arr :=")
        self.out.append(indent(stmts(ins[2:]), 1)); self.out.append("")

        # ---- T27: integer indexing - `_validate_index` (when present), the int branches of `__getitem__` and `__setitem__`
        def index_expr(e, node):
            """the expression used to index self._array with the int `index`: `int(index)` or `self._validate_index(index)`"""
            s_ = ast.unparse(e)
            if s_ == "int(index)":
                return None
            if s_ == "self._validate_index(index)":
                return "validate"
            fail(f"unsupported index expression {s_[:60]}", node)

        has_validate = any(isinstance(n, ast.FunctionDef) and n.name == "_validate_index" for n in self.find_class(cls).body)
        if has_validate:
            vf = self.find_func(cls, "_validate_index")
            if [a.arg for a in vf.args.args] != ["self", "index"]:
                fail("_validate_index: parameters", vf)
            env = Env(); env.ints.add("index")

            def cond2(e):
                if isinstance(e, ast.UnaryOp) and isinstance(e.op, ast.Not):
                    return f"¬ ({cond2(e.operand)})"
                if isinstance(e, ast.BoolOp):
                    return "(" + (" ∧ " if isinstance(e.op, ast.And) else " ∨ ").join(cond2(v) for v in e.values) + ")"
                if isinstance(e, ast.Compare):
                    parts, left = [], e.left
                    for op_, right in zip(e.ops, e.comparators):
                        o_ = {ast.Lt: "<", ast.Gt: ">", ast.Eq: "=", ast.NotEq: "≠", ast.LtE: "≤", ast.GtE: "≥"}.get(type(op_))
                        if not o_:
                            fail(f"unsupported comparison {ast.unparse(e)[:60]}", e)
                        parts.append(f"{ie(left)} {o_} {ie(right)}")
                        left = right
                    return "(" + " ∧ ".join(parts) + ")"
                fail(f"unsupported condition {ast.unparse(e)[:60]}", e)

            def int_stmts(ss):
                if not ss:
                    fail("_validate_index: falls off the end", vf)
                st, rest = ss[0], ss[1:]
                if isinstance(st, ast.Return) and st.value is not None and not rest:
                    return f"Except.ok {ie(st.value)}"
                if isinstance(st, ast.Assign) and len(st.targets) == 1 and isinstance(st.targets[0], ast.Name):
                    t_ = ie(st.value)
                    env.ints.add(st.targets[0].id)
                    return f"let {st.targets[0].id} : Int := {t_}\n" + int_stmts(rest)
                if isinstance(st, ast.If) and not st.orelse and len(st.body) == 1 and isinstance(st.body[0], ast.Raise):
                    return f"if {cond2(st.test)} then {err(st.body[0])} else\n" + int_stmts(rest)
                fail(f"_validate_index: unsupported statement {ast.unparse(st)[:80]}", st)
            self.out.append(f"/-- generated from `{cls}._validate_index` -/")
            self.out.append("@[pygen] def validate_index (a : Model.BtArray.Arr) (index : Int) : Except PyErr Int :=")
            self.out.append(indent(int_stmts(body_of(vf)), 1)); self.out.append("")
        gfn = self.find_func(cls, "__getitem__")
        g_int, _g_slice = branches(gfn, "__getitem__")
        gtxt = [ast.unparse(x) for x in g_int]
        if not (len(g_int) == 3 and isinstance(g_int[0], ast.Assign) and ast.unparse(g_int[0].targets[0]) == "entry" and isinstance(g_int[0].value, ast.Call)
                and ast.unparse(g_int[0].value.func).endswith(".item") and isinstance(g_int[0].value.func.value, ast.Subscript)
                and ast.unparse(g_int[0].value.func.value.value) == "self._array"
                and gtxt[1:] == ["as_tuple = TimeValueTuple.from_cvi(*entry)", f"return {item_cls}.from_tuple(as_tuple)"]):
            fail("__getitem__ (int): not `entry = self._array[<index>].item()` / from_cvi / from_tuple:\n" + "\n".join(gtxt), g_int[0] if g_int else gfn)
        how = index_expr(g_int[0].value.func.value.slice, g_int[0])
        if how == "validate" and not has_validate:
            fail("__getitem__ calls a _validate_index that does not exist", g_int[0])
        self.out.append(f"/-- generated from `{cls}.__getitem__` (int index): the element NumPy's integer indexing delivers -/")
        self.out.append("@[pygen] def getitem_int (a : Model.BtArray.Arr) (index : Int) : Except PyErr Int :=")
        self.out.append("  " + ("Except.bind (validate_index a index) (fun k => Model.Np1.getAt a k)" if how == "validate" else "Model.Np1.getAt a index")); self.out.append("")
        want_s = f"if not isinstance(value, {item_cls}):\n    raise invalid_arg_type('value', '{item_cls}', value)"
        if not (len(s_int) == 2 and ast.unparse(s_int[0]) == want_s and isinstance(s_int[1], ast.Assign) and isinstance(s_int[1].targets[0], ast.Subscript)
                and ast.unparse(s_int[1].targets[0].value) == "self._array" and ast.unparse(s_int[1].value) == "value.to_tuple().to_cvi()"):
            fail("__setitem__ (int): not the item type check followed by `self._array[<index>] = value.to_tuple().to_cvi()`:\n" + "\n".join(ast.unparse(x) for x in s_int), s_int[0] if s_int else gfn)
        how = index_expr(s_int[1].targets[0].slice, s_int[1])
        if how == "validate" and not has_validate:
            fail("__setitem__ calls a _validate_index that does not exist", s_int[1])
        self.out.append(f"/-- generated from `{cls}.__setitem__` (int index, value an item) -/")
        self.out.append("@[pygen] def setitem_int (a : Model.BtArray.Arr) (index : Int) (value : Int) : Except PyErr Model.BtArray.Arr :=")
        self.out.append("  " + ("Except.bind (validate_index a index) (fun k => Model.Np1.setAt a k value)" if how == "validate" else "Model.Np1.setAt a index value")); self.out.append("")

    # -- T18: what appending does to the timing ------------------------------------------------------------------------------------------
    def translate_append_timing(self, cls: str, tag: str) -> None:
        """T18: `append_timing(timing, other)` and `append_timestamps(timing, timestamps)` of one sample-interval strategy over the waveform
        model's `WTiming` (mode, sample interval, timestamps) - the rules C10 states.

        append_timing:      `if other._sample_interval_mode not in (M1, M2): raise <factory>()` / `!= M`;  `if timing._sample_interval !=
                            other._sample_interval: warnings.warn(sample_interval_mismatch())`;  `assert …`;  `return timing|other`;
                            `if len(timing._timestamps) == 0: return other` `elif len(other._timestamps) == 0: return timing` `else: return
                            timing.__class__.create_with_irregular_interval(timing._timestamps + other._timestamps)`.
        append_timestamps:  the try/except around `validate_unsupported_arg("timestamps", timestamps)` (re-raised with a note);  `if
                            timestamps is None: raise TimingMismatchError(...)`;  the element type test (`datetime_type = …`, `if not
                            all(isinstance(ts, datetime_type) …): raise TypeError`) as the Boolean `types_ok`;  `if len(timestamps) == 0:
                            return timing` `else:` optional `timestamps = list(timestamps)` then `return
                            timing.__class__.create_with_irregular_interval(timing._timestamps + timestamps)`."""
        MODES = {"SampleIntervalMode.NONE": "Model.Wfm.TMode.none", "SampleIntervalMode.REGULAR": "Model.Wfm.TMode.regular", "SampleIntervalMode.IRREGULAR": "Model.Wfm.TMode.irregular"}
        RAISES = {"create_sample_interval_mode_mismatch_error": "SampleIntervalModeMismatchError", "TimingMismatchError": "TimingMismatchError", "TypeError": "TypeError", "ValueError": "ValueError"}

        def fail(msg, node):
            raise Untranslatable(f"{cls}: {msg}", node, self.path)

        def body_of(fn):
            return [st for st in fn.body if not (isinstance(st, ast.Expr) and isinstance(st.value, ast.Constant))]

        def err(st):
            exc = st.exc
            nm = ast.unparse(exc.func).split(".")[-1] if isinstance(exc, ast.Call) else None
            if nm not in RAISES:
                fail(f"raise of unknown error {ast.unparse(exc)[:60] if exc else ''}", st)
            return f"Except.error PyErr.{RAISES[nm]}"

        def mode_cond(e):
            if isinstance(e, ast.Compare) and len(e.ops) == 1 and ast.unparse(e.left) == "other._sample_interval_mode":
                r = e.comparators[0]
                if isinstance(e.ops[0], ast.NotIn) and isinstance(r, ast.Tuple) and all(ast.unparse(x) in MODES for x in r.elts):
                    return "¬ (" + " ∨ ".join(f"other.mode = {MODES[ast.unparse(x)]}" for x in r.elts) + ")"
                if isinstance(e.ops[0], ast.NotEq) and ast.unparse(r) in MODES:
                    return f"other.mode ≠ {MODES[ast.unparse(r)]}"
                if isinstance(e.ops[0], ast.Eq) and ast.unparse(r) in MODES:
                    return f"other.mode = {MODES[ast.unparse(r)]}"
            return None
        CREATE = "timing.__class__.create_with_irregular_interval("

        def ret(e, ws):
            src = ast.unparse(e)
            if src in ("timing", "other"):
                return f"Except.ok ({src}, {ws})"
            if src == CREATE + "timing._timestamps + other._timestamps)":
                return f"(Model.Wfm.createIrregular (timing.stamps ++ other.stamps)).map (fun t => (t, {ws}))"
            fail(f"unsupported return value {src[:80]}", e)

        def at_stmts(ss, ws):
            if not ss:
                fail("append_timing falls off the end", self.find_func(cls, "append_timing"))
            st, rest = ss[0], ss[1:]
            if isinstance(st, ast.Assert):
                return at_stmts(rest, ws)
            if isinstance(st, ast.Return):
                return ret(st.value, ws)
            if isinstance(st, ast.If):
                mc = mode_cond(st.test)
                if mc and not st.orelse and len(st.body) == 1 and isinstance(st.body[0], ast.Raise):
                    return f"if {mc} then {err(st.body[0])} else\n" + at_stmts(rest, ws)
                if ast.unparse(st.test) == "timing._sample_interval != other._sample_interval" and not st.orelse and len(st.body) == 1 \
                        and ast.unparse(st.body[0]) == "warnings.warn(sample_interval_mismatch())":
                    return "let ws : List Model.Wfm.Warning := if timing.interval ≠ other.interval then " + ws + " ++ [Model.Wfm.Warning.timingMismatch] else " + ws + "\n" + at_stmts(rest, "ws")
                t = ast.unparse(st.test)
                lens = {"len(timing._timestamps) == 0": "timing.stamps = []", "len(other._timestamps) == 0": "other.stamps = []"}
                if t in lens and st.orelse:
                    if rest:
                        fail("statements after an if / else that returns", rest[0])
                    return f"if {lens[t]} then\n{indent(at_stmts(st.body, ws), 1)}\nelse\n{indent(at_stmts(st.orelse, ws), 1)}"
            fail(f"append_timing: unsupported statement {ast.unparse(st)[:80]}", st)
        f_at = self.find_func(cls, "append_timing")
        if [a.arg for a in f_at.args.args] != ["self", "timing", "other"]:
            fail("append_timing: parameters", f_at)
        self.out.append(f"/-- generated from `{cls}.append_timing`: (the new timing, the warnings emitted) -/")
        self.out.append(f"@[pygen] def {tag}_append_timing (timing other : Model.Wfm.WTiming) : Except PyErr (Model.Wfm.WTiming × List Model.Wfm.Warning) :=")
        self.out.append(indent(at_stmts(body_of(f_at), "[]"), 1)); self.out.append("")
        # append_timestamps
        f_ts = self.find_func(cls, "append_timestamps")
        if [a.arg for a in f_ts.args.args] != ["self", "timing", "timestamps"]:
            fail("append_timestamps: parameters", f_ts)

        def ts_stmts(ss):
            if not ss:
                fail("append_timestamps falls off the end", f_ts)
            st, rest = ss[0], ss[1:]
            src = ast.unparse(st)
            if isinstance(st, ast.Assert):
                return ts_stmts(rest)
            if isinstance(st, ast.Try) and len(st.body) == 1 and ast.unparse(st.body[0]) == "validate_unsupported_arg('timestamps', timestamps)" and len(st.handlers) == 1 \
                    and isinstance(st.handlers[0].body[-1], ast.Raise) and st.handlers[0].body[-1].exc is None and not st.orelse and not st.finalbody:
                return "if timestamps.isSome = true then Except.error PyErr.ValueError else\n" + ts_stmts(rest)
            if isinstance(st, ast.If) and ast.unparse(st.test) == "timestamps is None" and not st.orelse and len(st.body) == 1 and isinstance(st.body[0], ast.Raise):
                return f"match timestamps with\n| none => {err(st.body[0])}\n| some timestamps =>\n" + indent(ts_stmts(rest), 1)
            if src.startswith("datetime_type = type(timing._timestamps[0]) if timing._timestamps else ANY_DATETIME_TUPLE"):
                return ts_stmts(rest)
            if isinstance(st, ast.If) and ast.unparse(st.test) == "not all((isinstance(ts, datetime_type) for ts in timestamps))" and not st.orelse \
                    and len(st.body) == 1 and isinstance(st.body[0], ast.Raise):
                return f"if ¬ (types_ok = true) then {err(st.body[0])} else\n" + ts_stmts(rest)
            if isinstance(st, ast.If) and ast.unparse(st.test) == "len(timestamps) == 0" and st.orelse:
                if rest:
                    fail("statements after an if / else that returns", rest[0])
                return f"if timestamps = [] then\n{indent(ts_stmts(st.body), 1)}\nelse\n{indent(ts_stmts(st.orelse), 1)}"
            if src == "if not isinstance(timestamps, list):\n    timestamps = list(timestamps)":
                return ts_stmts(rest)
            if isinstance(st, ast.Return):
                r = ast.unparse(st.value)
                if r == "timing":
                    return "Except.ok timing"
                if r == CREATE + "timing._timestamps + timestamps)":
                    return "Model.Wfm.createIrregular (timing.stamps ++ timestamps)"
            fail(f"append_timestamps: unsupported statement {src[:80]}", st)
        self.out.append(f"/-- generated from `{cls}.append_timestamps` (`types_ok`: every new timestamp has the type of the stored ones) -/")
        self.out.append(f"@[pygen] def {tag}_append_timestamps (timing : Model.Wfm.WTiming) (timestamps : Option (List Int)) (types_ok : Bool) : Except PyErr Model.Wfm.WTiming :=")
        self.out.append(indent(ts_stmts(body_of(f_ts)), 1)); self.out.append("")

    # -- T19: the comparison loops of DigitalWaveform.test -----------------------------------------------------------------------------
    def translate_test_loops(self, cls: str, lean_name: str) -> None:
        """T19: the part of `DigitalWaveform.test` after the window checks (tier T5 has those): `failures = []`, the loop over the samples
        with its two running indices, the loop over the columns, the two `DigitalState(...)` conversions, `DigitalState.test`, the
        appended `DigitalWaveformFailure(...)` and the returned result, over `Model.DigitalTest.W` / `Failure` and the generated
        `Gen.DigitalState.test`.

        Statements (closed):  `failures = []`;  `for _ in range(sample_count):`  with body  `for column_index in range(self.signal_count):`
        + `start_sample += 1` + `expected_start_sample += 1`;  inner body:  `x = self._reverse_index(column_index)` (the method is read:
        `return self.signal_count - 1 - index`),  `x = DigitalState(<wf>.data[<row>, column_index])`,  `if DigitalState.test(a, b):
        failures.append(DigitalWaveformFailure(5 names))`;  `return DigitalWaveformTestResult(failures)`."""
        fn = self.find_func(cls, "test")
        body = [st for st in fn.body if not (isinstance(st, ast.Expr) and isinstance(st.value, ast.Constant))]

        def fail(msg, node):
            raise Untranslatable(f"{cls}.test: {msg}", node, self.path)
        k = next((i for i, st in enumerate(body) if ast.unparse(st) == "failures = []"), None)
        if k is None:
            fail("`failures = []` not found", fn)
        tail = body[k + 1:]
        if not (len(tail) == 2 and isinstance(tail[0], ast.For) and ast.unparse(tail[0].iter) == "range(sample_count)" and not tail[0].orelse
                and ast.unparse(tail[1]) == "return DigitalWaveformTestResult(failures)"):
            fail("expected `for _ in range(sample_count): …` followed by `return DigitalWaveformTestResult(failures)`", tail[0] if tail else fn)
        outer = tail[0].body
        if not (len(outer) == 3 and isinstance(outer[0], ast.For) and isinstance(outer[0].target, ast.Name) and ast.unparse(outer[0].iter) == "range(self.signal_count)"
                and not outer[0].orelse and sorted(ast.unparse(x) for x in outer[1:]) == ["expected_start_sample += 1", "start_sample += 1"]):
            fail("expected the column loop followed by the two index increments", outer[0] if outer else tail[0])
        col = outer[0].target.id
        rev = self.find_func(cls, "_reverse_index")
        rb = [st for st in rev.body if not (isinstance(st, ast.Expr) and isinstance(st.value, ast.Constant)) and not isinstance(st, ast.Assert)]
        if not (len(rb) == 1 and ast.unparse(rb[0]) == "return self.signal_count - 1 - index"):
            fail("_reverse_index is not `return self.signal_count - 1 - index`", rev)
        WF = {"self": "a", "expected_waveform": "e"}
        ROW = {"start_sample", "expected_start_sample"}
        names = {}
        lines = []
        inner = outer[0].body
        for st in inner[:-1]:
            if not (isinstance(st, ast.Assign) and len(st.targets) == 1 and isinstance(st.targets[0], ast.Name)):
                fail(f"unsupported statement {ast.unparse(st)[:80]}", st)
            x, v = st.targets[0].id, st.value
            if ast.unparse(v) == f"self._reverse_index({col})":
                lines.append(f"let {x} : Int := (a.nsig : Int) - 1 - ({col} : Int)")
                names[x] = "int"
            elif isinstance(v, ast.Call) and ast.unparse(v.func) == "DigitalState" and len(v.args) == 1 and isinstance(v.args[0], ast.Subscript) \
                    and isinstance(v.args[0].value, ast.Attribute) and v.args[0].value.attr == "data" and ast.unparse(v.args[0].value.value) in WF \
                    and isinstance(v.args[0].slice, ast.Tuple) and len(v.args[0].slice.elts) == 2 and ast.unparse(v.args[0].slice.elts[0]) in ROW \
                    and ast.unparse(v.args[0].slice.elts[1]) == col:
                w = WF[ast.unparse(v.args[0].value.value)]
                row = ast.unparse(v.args[0].slice.elts[0])
                lines.append(f"Except.bind (Model.DigitalTest.W.at {w} {row} {col}) (fun raw_{x} =>\nExcept.bind (Py.enumCheck Gen.DigitalState.DigitalState_values raw_{x}) (fun {x} =>")
                names[x] = "state"
            else:
                fail(f"unsupported assignment {ast.unparse(st)[:80]}", st)
        last = inner[-1]
        if not (isinstance(last, ast.If) and not last.orelse and isinstance(last.test, ast.Call) and ast.unparse(last.test.func) == "DigitalState.test"
                and len(last.test.args) == 2 and all(isinstance(a_, ast.Name) and names.get(a_.id) == "state" for a_ in last.test.args)
                and len(last.body) == 1 and isinstance(last.body[0], ast.Expr) and isinstance(last.body[0].value, ast.Call)
                and ast.unparse(last.body[0].value.func) == "failures.append" and len(last.body[0].value.args) == 1
                and isinstance(last.body[0].value.args[0], ast.Call) and ast.unparse(last.body[0].value.args[0].func) == "DigitalWaveformFailure"
                and len(last.body[0].value.args[0].args) == 5 and all(isinstance(a_, ast.Name) for a_ in last.body[0].value.args[0].args)):
            fail("expected `if DigitalState.test(a, b): failures.append(DigitalWaveformFailure(5 names))` last in the column loop", last)
        ta, tb = (a_.id for a_ in last.test.args)
        fa = [a_.id for a_ in last.body[0].value.args[0].args]
        for a_ in fa:
            if a_ not in names and a_ not in ROW:
                fail(f"unknown name {a_} in the failure record", last)
        closing = ")" * (2 * sum(1 for v_ in names.values() if v_ == "state"))
        inner_code = "\n".join(lines) + f"\nExcept.bind (Gen.DigitalState.test {ta} {tb}) (fun failed =>\nExcept.ok (if failed = true then failures ++ [(⟨{', '.join(fa)}⟩ : Model.DigitalTest.Failure)] else failures))" + closing
        code = ("(Py.forRangeE 0 sample_count.toNat (([] : List Model.DigitalTest.Failure), start_sample, expected_start_sample) (fun _ st =>\n"
                "  let failures := st.1\n  let start_sample : Int := st.2.1\n  let expected_start_sample : Int := st.2.2\n"
                f"  Except.bind (Py.forRangeE 0 a.nsig failures (fun {col} failures =>\n" + indent(inner_code, 2) + ")) (fun failures =>\n"
                "    Except.ok (failures, start_sample + 1, expected_start_sample + 1)))).map (fun st => st.1)")
        self.out.append(f"/-- generated from `{cls}.test` (the loops after the window checks): the failures in the order they are appended -/")
        self.out.append(f"@[pygen] def {lean_name} (a e : Model.DigitalTest.W) (start_sample expected_start_sample sample_count : Int) : Except PyErr (List Model.DigitalTest.Failure) :=")
        self.out.append(indent(code, 1))
        self.out.append("")

    # -- T20: port_to_line_data ---------------------------------------------------------------------------------------------------------
    def translate_port_to_line(self, lean_name: str) -> None:
        """T20: `port_to_line_data(port_data, mask, bitorder)` over the integer sample values: the width from the array's item size, the
        check of the mask against `bit_mask(port_size)`, the NumPy unpacking block (compared as text with its canonical four statements and
        read as `Model.Port.unpackRow` per sample - that reading is what tools/props/c06.py tests exhaustively on 8-bit ports), the full-mask
        shortcut and the column selection through the generated `_mask_to_column_indices`."""
        fn = self.find_func(None, "port_to_line_data")
        body = [st for st in fn.body if not (isinstance(st, ast.Expr) and isinstance(st.value, ast.Constant))]
        src = [ast.unparse(st) for st in body]

        def fail(msg, node):
            raise Untranslatable(f"port_to_line_data: {msg}", node, self.path)
        if [a.arg for a in fn.args.args] != ["port_data", "mask", "bitorder"]:
            fail("parameters", fn)
        want0 = "port_size = port_data.dtype.itemsize * 8"
        block = ["byteorder = '>' if bitorder == 'big' else '<'",
                 "port_data = np.ascontiguousarray(port_data, dtype=port_data.dtype.newbyteorder(byteorder))",
                 "line_data_1d = np.unpackbits(port_data.view(np.uint8), bitorder=bitorder)",
                 "line_data_2d = line_data_1d.reshape(len(port_data), port_size)"]
        if len(body) != 7 or src[0] != want0:
            fail(f"expected 7 statements starting with `{want0}`, found {len(body)}", fn)
        chk = body[1]
        if not (isinstance(chk, ast.If) and ast.unparse(chk.test) == "mask > bit_mask(port_size)" and not chk.orelse and len(chk.body) == 1
                and isinstance(chk.body[0], ast.Raise) and isinstance(chk.body[0].exc, ast.Call) and ast.unparse(chk.body[0].exc.func) == "ValueError"):
            fail("expected `if mask > bit_mask(port_size): raise ValueError(...)`", chk)
        if src[2:6] != block:
            fail("the unpacking block is not the canonical four statements:\n" + "\n".join(src[2:6]), body[2])
        sel = body[6]
        if not (isinstance(sel, ast.If) and ast.unparse(sel.test) == "mask == bit_mask(port_size)" and len(sel.body) == 1 and ast.unparse(sel.body[0]) == "return line_data_2d"
                and len(sel.orelse) == 1 and ast.unparse(sel.orelse[0]) == "return line_data_2d[:, _mask_to_column_indices(mask, port_size, bitorder)]"):
            fail("expected the full-mask shortcut and the column selection", sel)
        code = ("Except.bind (Gen.Port.bit_mask port_size) (fun full =>\n"
                "  if mask > full then Except.error PyErr.ValueError else\n"
                "  let line_data_2d : List (List Int) := port_data.map (fun v => Model.Port.unpackRow (v % 2 ^ port_size.toNat) port_size.toNat (decide (bitorder = \"big\")))\n"
                "  Except.bind (Gen.Port.bit_mask port_size) (fun full2 =>\n"
                "    if mask = full2 then Except.ok line_data_2d\n"
                "    else Except.bind (Gen.Port._mask_to_column_indices mask port_size bitorder) (fun cols =>\n"
                "      Except.ok (line_data_2d.map (fun row => cols.map (fun c => Model.Port.pick row c))))))")
        self.out.append("/-- generated from `port_to_line_data` (nitypes/waveform/_digital/_port.py): `port_data` are the sample values, `port_size` the bit width of the array's dtype -/")
        self.out.append(f"@[pygen] def {lean_name} (port_data : List Nat) (port_size : Int) (mask : Int) (bitorder : String) : Except PyErr (List (List Int)) :=")
        self.out.append(indent(code, 1))
        self.out.append("")

    # -- T14: a dict-backed mapping with change notifications ----------------------------------------------------------------------
    def translate_dict_class(self, cls: str) -> None:
        """T14: `ExtendedPropertyDictionary` (nitypes/waveform/_extended_properties.py): a MutableMapping over `self._properties` whose
        writes notify listeners.  The class is read as a whole:

          * inventory: exactly the methods listed in EXPECT below are defined (anything else - an own `update`, `setdefault`, `pop`,
            `clear`, `copy`, `__ior__` ... - would replace a MutableMapping mixin that is assumed to go through `__setitem__` /
            `__delitem__`), the base is MutableMapping, the slots are `_properties` and `_on_key_changed`;
          * the readers and `__init__`, `__reduce__`, `_notify_on_key_changed` have exactly their canonical bodies (compared as text);
          * the writers `__setitem__`, `__delitem__`, `_merge` are translated statement by statement into functions from the
            dictionary to (the new dictionary, the keys notified in order):
              `operator.setitem(self._properties, K, V)` / `self._properties[K] = V`,  `operator.delitem(self._properties, K)` /
              `del self._properties[K]` (KeyError),  `self._notify_on_key_changed(K)`,  `if K [not] in self._properties: <block>`,
              `for K, V in other.items(): <block without deletions>`.
        Anything else is Untranslatable (closed subset)."""
        c = self.find_class(cls)

        def fail(msg, node=None):
            raise Untranslatable(f"{cls}: {msg}", node or c, self.path)
        if [ast.unparse(b).split("[")[0] for b in c.bases] != ["MutableMapping"]:
            fail(f"bases {[ast.unparse(b) for b in c.bases]}, expected MutableMapping[...]")
        EXPECT = {
            "__init__": "self._properties: dict[str, ExtendedPropertyValue] = {}\nself._on_key_changed: list[weakref.ref[OnKeyChangedCallback]] = []\n"
                        "if properties is not None:\n    self._properties.update(properties)",
            "__len__": "return len(self._properties)",
            "__iter__": "return iter(self._properties)",
            "__contains__": "return operator.contains(self._properties, value)",
            "__getitem__": "return operator.getitem(self._properties, key)",
            "_notify_on_key_changed": "for callback_ref in self._on_key_changed:\n    callback = callback_ref()\n    if callback:\n        callback(key)",
            "__reduce__": "return (self.__class__, (self._properties,))",
            # only reached by pickles of nitypes 1.0.0 (slots state); current pickles go through __reduce__ -> __init__
            "__setstate__": "self._properties = state[1]['_properties']\nself._on_key_changed = []",
            "__repr__": None, "__setitem__": None, "__delitem__": None, "_merge": None,
        }
        methods = {n.name: n for n in c.body if isinstance(n, (ast.FunctionDef, ast.AsyncFunctionDef))}
        extra, missing = sorted(set(methods) - set(EXPECT)), sorted(set(EXPECT) - set(methods))
        if extra or missing:
            fail(f"method inventory differs: unexpected {extra}, missing {missing} (a MutableMapping mixin replaced or a writer removed)")
        for n in c.body:
            if isinstance(n, ast.Assign) and ast.unparse(n.targets[0]) == "__slots__":
                if sorted(ast.literal_eval(n.value)) != ["_on_key_changed", "_properties"]:
                    fail(f"slots {ast.unparse(n.value)}", n)
            elif not isinstance(n, (ast.FunctionDef, ast.Expr, ast.Assign)):
                fail(f"unexpected class member {ast.unparse(n)[:60]}", n)

        def body_of(fn):
            return [st for st in fn.body if not (isinstance(st, ast.Expr) and isinstance(st.value, ast.Constant))]
        for name, want in EXPECT.items():
            if want is None:
                continue
            got = "\n".join(ast.unparse(st) for st in body_of(methods[name]))
            if got != want:
                fail(f"{name} is not the canonical body:\n{got}", methods[name])
            if methods[name].decorator_list:
                fail(f"{name} is decorated", methods[name])

        PROPS = "self._properties"

        def stmts(ss, env, in_loop, raises):
            """-> Lean term computing the new `st : D × List String` (inside Except when `raises`)"""
            if not ss:
                return "Except.ok st" if raises else "st"
            st, rest = ss[0], ss[1:]
            k = lambda: stmts(rest, env, in_loop, raises)

            def name(e):
                if isinstance(e, ast.Name) and e.id in env:
                    return env[e.id]
                fail(f"unknown operand {ast.unparse(e)}", e)
            if isinstance(st, ast.Expr) and isinstance(st.value, ast.Call) and not st.value.keywords:
                f, a = ast.unparse(st.value.func), st.value.args
                if f == "operator.setitem" and len(a) == 3 and ast.unparse(a[0]) == PROPS:
                    return f"let st := (Py.Dict.set st.1 {name(a[1])} {name(a[2])}, st.2)\n{k()}"
                if f == "operator.delitem" and len(a) == 2 and ast.unparse(a[0]) == PROPS:
                    if in_loop or not raises:
                        fail("a deletion inside a loop", st)
                    return f"Except.bind (Py.Dict.del st.1 {name(a[1])}) (fun p =>\n  let st := (p, st.2)\n{indent(k(), 1)})"
                if f == "self._notify_on_key_changed" and len(a) == 1:
                    return f"let st := (st.1, st.2 ++ [{name(a[0])}])\n{k()}"
            if isinstance(st, ast.Assign) and len(st.targets) == 1 and isinstance(st.targets[0], ast.Subscript) \
                    and ast.unparse(st.targets[0].value) == PROPS:
                return f"let st := (Py.Dict.set st.1 {name(st.targets[0].slice)} {name(st.value)}, st.2)\n{k()}"
            if isinstance(st, ast.Delete) and len(st.targets) == 1 and isinstance(st.targets[0], ast.Subscript) \
                    and ast.unparse(st.targets[0].value) == PROPS:
                if in_loop or not raises:
                    fail("a deletion inside a loop", st)
                return f"Except.bind (Py.Dict.del st.1 {name(st.targets[0].slice)}) (fun p =>\n  let st := (p, st.2)\n{indent(k(), 1)})"
            if isinstance(st, ast.If) and isinstance(st.test, ast.Compare) and len(st.test.ops) == 1 \
                    and isinstance(st.test.ops[0], (ast.In, ast.NotIn)) and ast.unparse(st.test.comparators[0]) == PROPS:
                c_ = f"Py.Dict.contains st.1 {name(st.test.left)} = true"
                if isinstance(st.test.ops[0], ast.NotIn):
                    c_ = f"¬ ({c_})"
                if raises:
                    fail("a membership test in a method that can raise", st)
                tb = stmts(st.body, env, in_loop, False)
                eb = stmts(st.orelse, env, in_loop, False) if st.orelse else "st"
                return f"let st := if {c_} then\n{indent(tb, 2)}\n  else\n{indent(eb, 2)}\n{k()}"
            if isinstance(st, ast.For) and not st.orelse and isinstance(st.target, ast.Tuple) and len(st.target.elts) == 2 \
                    and all(isinstance(x, ast.Name) for x in st.target.elts) and ast.unparse(st.iter) == "other.items()" and "other" in env \
                    and not in_loop and not raises:
                kv, vv = st.target.elts[0].id, st.target.elts[1].id
                env2 = dict(env); env2[kv] = "kv.1"; env2[vv] = "kv.2"
                body = stmts(st.body, env2, True, False)
                return f"let st := {env['other']}.foldl (fun st kv =>\n{indent(body, 2)}) st\n{k()}"
            fail(f"unsupported statement {ast.unparse(st)[:80]}", st)

        def writer(name, lean_name, params, raises):
            fn = methods[name]
            allp = [a.arg for a in fn.args.posonlyargs + fn.args.args][1:]
            if allp != params:
                fail(f"{name}: parameters {allp}", fn)
            env = {p: p for p in params}
            code = stmts(body_of(fn), env, False, raises)
            types = {"key": "String", "value": "String", "other": "Py.Dict.D"}
            ps = " ".join(f"({p} : {types[p]})" for p in params)
            ret = "Except PyErr (Py.Dict.D × List String)" if raises else "Py.Dict.D × List String"
            self.out.append(f"/-- generated from `{cls}.{name}`: (the new dictionary, the keys notified in order) -/")
            self.out.append(f"@[pygen] def {lean_name} (props : Py.Dict.D) {ps} : {ret} :=")
            self.out.append(indent("let st : Py.Dict.D × List String := (props, [])\n" + code, 1))
            self.out.append("")
        writer("__setitem__", "setitem", ["key", "value"], False)
        writer("__delitem__", "delitem", ["key"], True)
        writer("_merge", "merge", ["other"], False)
        self.out.append(f"/-- generated from `{cls}.__init__`: a new dictionary holds a copy of the mapping's entries -/")
        self.out.append("@[pygen] def init (properties : Option Py.Dict.D) : Py.Dict.D :=")
        self.out.append("  match properties with\n  | none => []\n  | some p => p.foldl (fun d kv => Py.Dict.set d kv.1 kv.2) []")
        self.out.append("")

    # -- T15: attributes that are views of the extended properties -----------------------------------------------------------------
    def _units_key(self, e: ast.expr, keys: dict[str, str]) -> str:
        if isinstance(e, ast.Name) and e.id in keys:
            return "key_" + e.id.strip("_")
        raise Untranslatable(f"unknown property key {ast.unparse(e)}", e, self.path)

    def _units_cond(self, e: ast.expr, var: str, keys: dict[str, str], fail) -> str:
        PROPS = "self._extended_properties"
        if isinstance(e, ast.UnaryOp) and isinstance(e.op, ast.Not):
            return f"¬ ({self._units_cond(e.operand, var, keys, fail)})"
        if isinstance(e, ast.BoolOp):
            j = " ∧ " if isinstance(e.op, ast.And) else " ∨ "
            return "(" + j.join(f"({self._units_cond(v, var, keys, fail)})" for v in e.values) + ")"
        if isinstance(e, ast.Name) and e.id == var:
            return f"{var}.truthy = true"
        if isinstance(e, ast.Call) and ast.unparse(e.func) == "isinstance" and len(e.args) == 2 and ast.unparse(e.args[0]) == var \
                and ast.unparse(e.args[1]) == "str":
            return f"{var}.isStr = true"
        if isinstance(e, ast.Compare) and len(e.ops) == 1:
            l, op, r = e.left, e.ops[0], e.comparators[0]
            if isinstance(op, (ast.In, ast.NotIn)) and ast.unparse(r) == PROPS:
                c = f"(props.get {self._units_key(l, keys)}).isSome = true"
                return c if isinstance(op, ast.In) else f"¬ ({c})"
            if isinstance(op, (ast.NotEq, ast.Eq)) and ast.unparse(l) == var and isinstance(r, ast.Call) and ast.unparse(r.func) == PROPS + ".get" \
                    and len(r.args) == 1 and not r.keywords:
                c = f"some {var} = props.get {self._units_key(r.args[0], keys)}"
                return c if isinstance(op, ast.Eq) else f"¬ ({c})"
        fail(f"unsupported condition {ast.unparse(e)[:80]}", e)

    def translate_property_view(self, cls: str, attr: str, lean_prefix: str, keys: dict[str, str]) -> None:
        """T15: a str attribute that is a view of one extended property (`units`, `x_units`, `y_units`, `channel_name`):
             getter   `value = self._extended_properties.get(KEY, "")`; `assert isinstance(value, str)`; `return value`
             setter   `if not isinstance(value, str): raise invalid_arg_type(...)`; `self._extended_properties[KEY] = value`
        translated statement by statement over `Model.Units.Dict` / `PVal`.  Anything else is Untranslatable."""
        c = self.find_class(cls)
        PROPS = "self._extended_properties"
        getter = setter = None
        for n in c.body:
            if isinstance(n, ast.FunctionDef) and n.name == attr:
                decos = [ast.unparse(d) for d in n.decorator_list]
                if decos == ["property"]:
                    getter = n
                elif decos == [f"{attr}.setter"]:
                    setter = n
                else:
                    raise Untranslatable(f"{cls}.{attr}: decorators {decos}", n, self.path)
        if getter is None or setter is None:
            raise Untranslatable(f"{cls}.{attr}: property getter / setter not found", c, self.path)

        def fail(msg, node):
            raise Untranslatable(f"{cls}.{attr}: {msg}", node, self.path)

        def body_of(fn):
            return [st for st in fn.body if not (isinstance(st, ast.Expr) and isinstance(st.value, ast.Constant))]
        # getter
        def gstmts(ss, bound):
            if not ss:
                fail("getter falls off the end", getter)
            st, rest = ss[0], ss[1:]
            if isinstance(st, ast.Assign) and len(st.targets) == 1 and isinstance(st.targets[0], ast.Name) and isinstance(st.value, ast.Call) \
                    and ast.unparse(st.value.func) == PROPS + ".get" and len(st.value.args) == 2 and not st.value.keywords \
                    and isinstance(st.value.args[1], ast.Constant) and st.value.args[1].value == "":
                v = st.targets[0].id
                return f"let {v} : Model.Units.PVal := (props.get {self._units_key(st.value.args[0], keys)}).getD (Model.Units.PVal.str [])\n" + gstmts(rest, bound | {v})
            if isinstance(st, ast.Assert) and isinstance(st.test, ast.Call) and ast.unparse(st.test.func) == "isinstance" \
                    and isinstance(st.test.args[0], ast.Name) and st.test.args[0].id in bound and ast.unparse(st.test.args[1]) == "str":
                return f"if ¬ ({st.test.args[0].id}.isStr = true) then Except.error PyErr.AssertionError else\n" + gstmts(rest, bound)
            if isinstance(st, ast.Return) and isinstance(st.value, ast.Name) and st.value.id in bound:
                if rest:
                    fail("statements after return", rest[0])
                return f"Except.ok {st.value.id}"
            fail(f"unsupported getter statement {ast.unparse(st)[:80]}", st)
        self.out.append(f"/-- generated from the getter of `{cls}.{attr}` -/")
        self.out.append(f"@[pygen] def {lean_prefix}_get (props : Model.Units.Dict) : Except PyErr Model.Units.PVal :=")
        self.out.append(indent(gstmts(body_of(getter), set()), 1))
        self.out.append("")
        # setter
        params = [a.arg for a in setter.args.args][1:]
        if params != ["value"]:
            fail(f"setter parameters {params}", setter)

        def sstmts(ss):
            if not ss:
                fail("setter ends without a write", setter)
            st, rest = ss[0], ss[1:]
            if isinstance(st, ast.If) and not st.orelse and len(st.body) == 1 and isinstance(st.body[0], ast.Raise):
                exc = st.body[0].exc
                nm = ast.unparse(exc.func).split(".")[-1] if isinstance(exc, ast.Call) else None
                if nm not in ERROR_FACTORIES:
                    fail("raise of unknown error", st)
                return f"if {self._units_cond(st.test, 'value', keys, fail)} then Except.error PyErr.{ERROR_FACTORIES[nm]} else\n" + sstmts(rest)
            if isinstance(st, ast.Assign) and len(st.targets) == 1 and isinstance(st.targets[0], ast.Subscript) \
                    and ast.unparse(st.targets[0].value) == PROPS and isinstance(st.value, ast.Name) and st.value.id == "value":
                if rest:
                    fail("statements after the write", rest[0])
                return f"Except.ok (props.set {self._units_key(st.targets[0].slice, keys)} value)"
            fail(f"unsupported setter statement {ast.unparse(st)[:80]}", st)
        self.out.append(f"/-- generated from the setter of `{cls}.{attr}` -/")
        self.out.append(f"@[pygen] def {lean_prefix}_set (props : Model.Units.Dict) (value : Model.Units.PVal) : Except PyErr Model.Units.Dict :=")
        self.out.append(indent(sstmts(body_of(setter)), 1))
        self.out.append("")

    def translate_units_ctor_rule(self, cls: str, arg: str, lean_name: str, keys: dict[str, str]) -> None:
        """T15: what `__init__` does with a units argument: the (optional) `if not isinstance(<arg>, str): raise` that precedes it and
        the statement `if KEY not in self._extended_properties: self._extended_properties[KEY] = <arg>` +
        `elif <cond on arg and the entry>: raise ValueError(...)`."""
        fn = self.find_func(cls, "__init__")
        PROPS = "self._extended_properties"

        def fail(msg, node):
            raise Untranslatable(f"{cls}.__init__ ({arg}): {msg}", node, self.path)
        pre, rule = [], None
        for st in fn.body:
            if isinstance(st, ast.If) and arg in {n.id for n in ast.walk(st.test) if isinstance(n, ast.Name)} and not st.orelse \
                    and len(st.body) == 1 and isinstance(st.body[0], ast.Raise) and rule is None:
                pre.append(st)
            elif isinstance(st, ast.If) and isinstance(st.test, ast.Compare) and isinstance(st.test.ops[0], (ast.In, ast.NotIn)) \
                    and ast.unparse(st.test.comparators[0]) == PROPS and any(isinstance(n, ast.Name) and n.id == arg for n in ast.walk(st)):
                if rule is not None:
                    fail("two statements store the argument", st)
                rule = st
            elif rule is not None and any(isinstance(n, ast.Name) and n.id == arg for n in ast.walk(st)):
                fail(f"the argument is used after the rule: {ast.unparse(st)[:60]}", st)
        if rule is None:
            fail("no `if KEY not in self._extended_properties` statement for the argument", fn)

        def raise_of(st):
            exc = st.exc
            nm = ast.unparse(exc.func).split(".")[-1] if isinstance(exc, ast.Call) else None
            if nm not in ERROR_FACTORIES:
                fail("raise of unknown error", st)
            return f"Except.error PyErr.{ERROR_FACTORIES[nm]}"

        def block(ss):
            if not ss:
                return "Except.ok props"
            if len(ss) == 1 and isinstance(ss[0], ast.Raise):
                return raise_of(ss[0])
            if len(ss) == 1 and isinstance(ss[0], ast.Assign) and len(ss[0].targets) == 1 and isinstance(ss[0].targets[0], ast.Subscript) \
                    and ast.unparse(ss[0].targets[0].value) == PROPS and isinstance(ss[0].value, ast.Name) and ss[0].value.id == arg:
                return f"Except.ok (props.set {self._units_key(ss[0].targets[0].slice, keys)} {arg})"
            if len(ss) == 1 and isinstance(ss[0], ast.If):
                return ifs(ss[0])
            fail(f"unsupported block {ast.unparse(ss[0])[:60]}", ss[0])

        def ifs(st):
            return f"if {self._units_cond(st.test, arg, keys, fail)} then\n{indent(block(st.body), 1)}\nelse\n{indent(block(st.orelse), 1)}"
        code = ifs(rule)
        for st in reversed(pre):
            code = f"if {self._units_cond(st.test, arg, keys, fail)} then {raise_of(st.body[0])} else\n{code}"
        self.out.append(f"/-- generated from `{cls}.__init__`: what the constructor does with `{arg}` -/")
        self.out.append(f"@[pygen] def {lean_name} (props : Model.Units.Dict) ({arg} : Model.Units.PVal) : Except PyErr Model.Units.Dict :=")
        self.out.append(indent(code, 1))
        self.out.append("")

    # -- T16: the digital line-name cache -------------------------------------------------------------------------------------------
    def translate_line_names(self, cls: str, keys: dict[str, str]) -> None:
        """T16: `DigitalWaveform._get_line_names`, `_set_line_name`, `_on_extended_property_changed` and the registration of the
        latter with the dictionary, over (signal count, NI_LineNames entry, cached list) = the fields of `Model.Names.N`.

        The translator follows list OBJECTS, not names: a chained assignment `a = self._line_names = E` makes the local and the cache
        one object, `x.extend(E)` / `x[i] = v` change the object (whoever holds it), `x = list(y)` and `x = x + E` make a new one.
        Statements (closed): `v = self._line_names`; `if v is None: <block>`; `v = self._extended_properties.get(LINE_NAMES, "")`;
        `assert isinstance(v, str)`; `[a =] [self._line_names =] [n.strip() for n in v.split(",")]`; `if len(a) < self.signal_count:
        a.extend([""] * (self.signal_count - len(a)))`; `return a`; `a = list(self._get_line_names())` / `a = self._get_line_names()`;
        `a[column_index] = value`; `self._extended_properties[LINE_NAMES] = ", ".join(a)`; `if key == LINE_NAMES: self._line_names = None`."""
        PROPS = "self._extended_properties"
        CACHE = "self._line_names"

        def fail(msg, node):
            raise Untranslatable(f"{cls}: {msg}", node, self.path)

        def body_of(fn):
            return [st for st in fn.body if not (isinstance(st, ast.Expr) and isinstance(st.value, ast.Constant))]

        def is_key(e):
            return isinstance(e, ast.Name) and keys.get(e.id) == "NI_LineNames"
        # ---- _get_line_names: cache : Option (List Str) -> (cache', names) -------------------------------------------------------
        g = self.find_func(cls, "_get_line_names")
        gb = body_of(g)
        if not (len(gb) == 3 and isinstance(gb[0], ast.Assign) and len(gb[0].targets) == 1 and isinstance(gb[0].targets[0], ast.Name)
                and ast.unparse(gb[0].value) == CACHE and isinstance(gb[1], ast.If) and not gb[1].orelse
                and ast.unparse(gb[1].test) == f"{gb[0].targets[0].id} is None" and isinstance(gb[2], ast.Return)
                and ast.unparse(gb[2].value) == gb[0].targets[0].id):
            fail("_get_line_names: expected `v = self._line_names; if v is None: …; return v`", g)
        loc = gb[0].targets[0].id
        # objects: each list object has a Lean variable; `holders` says which names currently denote it
        lines = []
        obj = {}            # python name / CACHE -> lean variable of the list object it denotes
        strs = {}           # python name -> lean variable (Str)
        counter = [0]

        def fresh(base):
            counter[0] += 1
            return f"{base}{counter[0]}"

        def list_expr(e):
            """-> lean term : List Str for a NEW list object"""
            if isinstance(e, ast.ListComp) and len(e.generators) == 1 and not e.generators[0].ifs and isinstance(e.generators[0].target, ast.Name) \
                    and ast.unparse(e.elt) == f"{e.generators[0].target.id}.strip()" and isinstance(e.generators[0].iter, ast.Call) \
                    and isinstance(e.generators[0].iter.func, ast.Attribute) and e.generators[0].iter.func.attr == "split" \
                    and isinstance(e.generators[0].iter.func.value, ast.Name) and e.generators[0].iter.func.value.id in strs \
                    and len(e.generators[0].iter.args) == 1 and isinstance(e.generators[0].iter.args[0], ast.Constant) and e.generators[0].iter.args[0].value == ",":
                return f"(Model.Names.splitComma {strs[e.generators[0].iter.func.value.id]}).map Model.Names.strip"
            fail(f"unsupported list expression {ast.unparse(e)[:80]}", e)

        def pad_expr(e, x):
            """`[""] * (self.signal_count - len(x))`"""
            if ast.unparse(e) == f"[''] * (self.signal_count - len({x}))":
                return f"List.replicate (nsig - {obj[x]}.length) []"
            fail(f"unsupported padding expression {ast.unparse(e)[:80]}", e)
        for st in gb[1].body:
            if isinstance(st, ast.Assign) and isinstance(st.value, ast.Call) and ast.unparse(st.value.func) == PROPS + ".get" and len(st.targets) == 1 \
                    and isinstance(st.targets[0], ast.Name) and len(st.value.args) == 2 and is_key(st.value.args[0]) \
                    and isinstance(st.value.args[1], ast.Constant) and st.value.args[1].value == "":
                v = fresh("s")
                strs[st.targets[0].id] = v
                lines.append(f"let {v} : Model.Names.Str := prop.getD []")
            elif isinstance(st, ast.Assert) and isinstance(st.test, ast.Call) and ast.unparse(st.test.func) == "isinstance" \
                    and isinstance(st.test.args[0], ast.Name) and st.test.args[0].id in strs and ast.unparse(st.test.args[1]) == "str":
                continue      # the universe: NI_LineNames holds a str
            elif isinstance(st, ast.Assign) and all(isinstance(t, ast.Name) or ast.unparse(t) == CACHE for t in st.targets):
                v = fresh("l")
                lines.append(f"let {v} : List Model.Names.Str := {list_expr(st.value)}")
                for t in st.targets:
                    obj[ast.unparse(t)] = v
            elif isinstance(st, ast.If) and not st.orelse and len(st.body) == 1 and isinstance(st.test, ast.Compare) and len(st.test.ops) == 1 \
                    and isinstance(st.test.ops[0], ast.Lt) and isinstance(st.test.left, ast.Call) and ast.unparse(st.test.left.func) == "len" \
                    and ast.unparse(st.test.comparators[0]) == "self.signal_count":
                x = ast.unparse(st.test.left.args[0])
                if x not in obj:
                    fail(f"len of unknown list {x}", st)
                inner = st.body[0]
                if isinstance(inner, ast.Expr) and isinstance(inner.value, ast.Call) and ast.unparse(inner.value.func) == f"{x}.extend" and len(inner.value.args) == 1:
                    old = obj[x]
                    v = fresh("l")
                    lines.append(f"let {v} : List Model.Names.Str := if {old}.length < nsig then {old} ++ {pad_expr(inner.value.args[0], x)} else {old}")
                    for k_ in [k_ for k_, vv in obj.items() if vv == old]:      # the object changed: every holder sees it
                        obj[k_] = v
                elif isinstance(inner, (ast.Assign, ast.AugAssign)):
                    tgt = inner.targets[0] if isinstance(inner, ast.Assign) else inner.target
                    rhs = inner.value.right if isinstance(inner, ast.Assign) and isinstance(inner.value, ast.BinOp) and ast.unparse(inner.value.left) == x else \
                        (inner.value if isinstance(inner, ast.AugAssign) else None)
                    if ast.unparse(tgt) != x or rhs is None:
                        fail(f"unsupported padding statement {ast.unparse(inner)[:80]}", inner)
                    old = obj[x]
                    v = fresh("l")
                    lines.append(f"let {v} : List Model.Names.Str := if {old}.length < nsig then {old} ++ {pad_expr(rhs, x)} else {old}")
                    if isinstance(inner, ast.AugAssign):            # `x += …` extends the list object in place
                        for k_ in [k_ for k_, vv in obj.items() if vv == old]:
                            obj[k_] = v
                    else:                                            # `x = x + …` is a new object: only this name sees it
                        obj[x] = v
                else:
                    fail(f"unsupported padding statement {ast.unparse(inner)[:80]}", inner)
            else:
                fail(f"_get_line_names: unsupported statement {ast.unparse(st)[:80]}", st)
        if loc not in obj:
            fail("_get_line_names: the local is never bound in the None branch", g)
        cache_term = f"some {obj[CACHE]}" if CACHE in obj else "none"
        self.out.append(f"/-- generated from `{cls}._get_line_names`: (the cache afterwards, the list returned) -/")
        self.out.append("@[pygen] def get_line_names (nsig : Nat) (prop : Option Model.Names.Str) (cache : Option (List Model.Names.Str)) : Option (List Model.Names.Str) × List Model.Names.Str :=")
        self.out.append("  match cache with\n  | some l0 => (cache, l0)\n  | none =>\n" + indent("\n".join(lines) + f"\n({cache_term}, {obj[loc]})", 2))
        self.out.append("")
        # ---- _on_extended_property_changed ------------------------------------------------------------------------------------------
        h = self.find_func(cls, "_on_extended_property_changed")
        hb = body_of(h)
        if not (len(hb) == 1 and isinstance(hb[0], ast.If) and not hb[0].orelse and isinstance(hb[0].test, ast.Compare) and len(hb[0].test.ops) == 1
                and isinstance(hb[0].test.ops[0], ast.Eq) and ast.unparse(hb[0].test.left) == "key" and is_key(hb[0].test.comparators[0])
                and len(hb[0].body) == 1 and ast.unparse(hb[0].body[0]) == f"{CACHE} = None"):
            fail("_on_extended_property_changed: expected `if key == LINE_NAMES: self._line_names = None`", h)
        self.out.append(f"/-- generated from `{cls}._on_extended_property_changed`: the cache after a notification for a key -/")
        self.out.append("@[pygen] def on_extended_property_changed (key_is_line_names : Bool) (cache : Option (List Model.Names.Str)) : Option (List Model.Names.Str) :=")
        self.out.append("  if key_is_line_names = true then none else cache")
        self.out.append("")
        # the callback is registered with the dictionary of every DigitalWaveform
        init_src = ast.unparse(self.find_func(cls, "__init__"))
        if "self._extended_properties._on_key_changed.append(weakref.WeakMethod(self._on_extended_property_changed))" not in init_src.replace("\n", ""):
            fail("__init__ does not register _on_extended_property_changed with the dictionary", self.find_func(cls, "__init__"))
        # ---- _set_line_name ------------------------------------------------------------------------------------------------------------
        f = self.find_func(cls, "_set_line_name")
        if [a.arg for a in f.args.args][1:] != ["column_index", "value"]:
            fail("_set_line_name: parameters", f)
        lines, obj = [], {}
        wrote = False
        for st in body_of(f):
            if wrote:
                fail("_set_line_name: statements after the property write", st)
            if isinstance(st, ast.Assign) and len(st.targets) == 1 and isinstance(st.targets[0], ast.Name) \
                    and ast.unparse(st.value) in ("list(self._get_line_names())", "self._get_line_names()", "self._get_line_names().copy()", "self._get_line_names()[:]"):
                lines.append("let r := get_line_names nsig prop cache\nlet cache := r.1")
                v = fresh("l")
                lines.append(f"let {v} : List Model.Names.Str := r.2")
                obj[st.targets[0].id] = v
                if ast.unparse(st.value) == "self._get_line_names()":
                    obj[CACHE] = v             # the very list the cache holds
            elif isinstance(st, ast.Assign) and len(st.targets) == 1 and isinstance(st.targets[0], ast.Subscript) \
                    and isinstance(st.targets[0].value, ast.Name) and st.targets[0].value.id in obj and ast.unparse(st.targets[0].slice) == "column_index" \
                    and ast.unparse(st.value) == "value":
                x = st.targets[0].value.id
                old = obj[x]
                v = fresh("l")
                lines.append(f"let {v} : List Model.Names.Str := {old}.set column_index value")
                for k_ in [k_ for k_, vv in obj.items() if vv == old]:
                    obj[k_] = v
                if obj.get(CACHE) == v:
                    lines.append(f"let cache := some {v}")
            elif isinstance(st, ast.Assign) and len(st.targets) == 1 and isinstance(st.targets[0], ast.Subscript) and ast.unparse(st.targets[0].value) == PROPS \
                    and is_key(st.targets[0].slice) and isinstance(st.value, ast.Call) and ast.unparse(st.value.func) == "', '.join" \
                    and len(st.value.args) == 1 and isinstance(st.value.args[0], ast.Name) and st.value.args[0].id in obj:
                lines.append(f"let prop := some (Model.Names.joinNames {obj[st.value.args[0].id]})")
                lines.append("let cache := on_extended_property_changed true cache      -- the dictionary notifies its listeners of the key (Gen/ExtProps)")
                wrote = True
            else:
                fail(f"_set_line_name: unsupported statement {ast.unparse(st)[:80]}", st)
        if not wrote:
            fail("_set_line_name: NI_LineNames is not written", f)
        self.out.append(f"/-- generated from `{cls}._set_line_name`: (the NI_LineNames entry, the cache) afterwards -/")
        self.out.append("@[pygen] def set_line_name (nsig : Nat) (prop : Option Model.Names.Str) (cache : Option (List Model.Names.Str)) (column_index : Nat) (value : Model.Names.Str) : Option Model.Names.Str × Option (List Model.Names.Str) :=")
        self.out.append(indent("\n".join(lines) + "\n(prop, cache)", 1))
        self.out.append("")

    # -- T10: generator loops over time values of one family ------------------------------------------------------------
    def translate_timestamp_generator(self, cls: str, name: str, lean_name: str, attr_types: dict[str, tuple[str, str]],
                                      int_params: list[str]) -> None:
        """T10: a generator method of the shape

               <name> = <time expression>            (zero or more)
               for i in range(<int parameter>):
                   [if i != 0:]  <name> += <time expression> / <name> = <time expression>
                   yield <name>  |  yield cast(T, <name>)

        over time values of ONE family (datetime us / hightime ys / bintime ticks as integers).  Typed expressions: *abs* (an
        instant), *rel* (a duration), *int*.  `abs + rel` and `rel + abs` are instants, range-checked by the family (`F.abs`: CPython,
        hightime and bintime raise OverflowError outside their range); `int * rel`, `rel * int` are durations, range-checked
        (`F.rel`); `rel + rel` likewise.  `attr_types` maps source expressions (`timing.start_time`) to (parameter, type).
        Output: `Py.genRange` - the list of yielded values, or the first error."""
        fn = self.find_func(cls, name)
        body = [st for st in fn.body if not (isinstance(st, ast.Expr) and isinstance(st.value, ast.Constant))]

        def fail(msg, node):
            raise Untranslatable(f"{cls}.{name}: {msg}", node, self.path)
        env: dict[str, str] = {p: "int" for p in int_params}
        tmp = [0]

        def expr(e, binds):
            """-> (term, type); checked operations are appended to `binds` as (var, term)"""
            key = ast.unparse(e)
            if key in attr_types:
                return attr_types[key]
            if isinstance(e, ast.Name) and e.id in env:
                return e.id, env[e.id]
            if isinstance(e, ast.Constant) and isinstance(e.value, int) and not isinstance(e.value, bool):
                return lit(e.value), "int"
            if isinstance(e, ast.Call) and ast.unparse(e.func) == "cast" and len(e.args) == 2:
                return expr(e.args[1], binds)
            if isinstance(e, ast.BinOp) and isinstance(e.op, (ast.Add, ast.Mult)):
                (a, ta), (b, tb) = expr(e.left, binds), expr(e.right, binds)
                tmp[0] += 1
                v = f"t_{tmp[0]}"
                if isinstance(e.op, ast.Add) and {ta, tb} == {"abs", "rel"}:
                    binds.append((v, f"(F.abs ({a} + {b}))")); return v, "abs"
                if isinstance(e.op, ast.Add) and ta == tb == "rel":
                    binds.append((v, f"(F.rel ({a} + {b}))")); return v, "rel"
                if isinstance(e.op, ast.Mult) and {ta, tb} == {"int", "rel"}:
                    binds.append((v, f"(F.rel ({a} * {b}))")); return v, "rel"
                if ta == tb == "int":
                    tmp[0] -= 1
                    return f"({a} {'+' if isinstance(e.op, ast.Add) else '*'} {b})", "int"
                fail(f"operator on ({ta}, {tb})", e)
            fail(f"unsupported expression {key[:60]}", e)

        def wrap(binds, inner):
            out = inner
            for v, t in reversed(binds):
                out = f"Except.bind {t} (fun {v} =>\n{out})"
            return out
        # prefix assignments
        pre: list[tuple[str, str]] = []
        k = 0
        while k < len(body) and isinstance(body[k], ast.Assign):
            st = body[k]
            if len(st.targets) != 1 or not isinstance(st.targets[0], ast.Name):
                fail("assignment target", st)
            b: list = []
            term, ty = expr(st.value, b)
            pre += b
            pre.append((st.targets[0].id, f"(Except.ok {term} : Except PyErr Int)") if not b or b[-1][0] != term else None) if False else None
            nm = st.targets[0].id
            if b and b[-1][0] == term:
                b2 = pre.pop()           # re-name the last bound value to the assigned name
                pre.append((nm, b2[1]))
            else:
                pre.append((nm, f"(Except.ok {term})"))
            env[nm] = ty
            k += 1
        pre = [x for x in pre if x is not None]
        if k + 1 != len(body) or not isinstance(body[k], ast.For):
            fail("expected assignments followed by exactly one `for` loop", fn)
        loop = body[k]
        it = loop.iter
        if not (isinstance(loop.target, ast.Name) and isinstance(it, ast.Call) and ast.unparse(it.func) == "range" and len(it.args) == 1
                and isinstance(it.args[0], ast.Name) and env.get(it.args[0].id) == "int") or loop.orelse:
            fail("loop must be `for i in range(<int parameter>)`", loop)
        ivar, nvar = loop.target.id, it.args[0].id
        # loop-carried time variables: those assigned in the body
        carried = []
        for n_ in ast.walk(loop):
            if isinstance(n_, (ast.Assign, ast.AugAssign)):
                tg = n_.targets[0] if isinstance(n_, ast.Assign) else n_.target
                if isinstance(tg, ast.Name) and tg.id in env and tg.id not in carried:
                    carried.append(tg.id)
        if len(carried) != 1:
            fail(f"exactly one loop-carried variable expected, found {carried}", loop)
        sv = carried[0]

        def stmts(ss, yielded):
            if not ss:
                return f"Except.ok ({sv}, [{', '.join(yielded)}])"
            st, rest = ss[0], ss[1:]
            if isinstance(st, ast.Expr) and isinstance(st.value, ast.Yield) and st.value.value is not None:
                b: list = []
                term, ty = expr(st.value.value, b)
                if ty != "abs":
                    fail("yielded value must be an instant", st)
                return wrap(b, stmts(rest, yielded + [term]))
            if isinstance(st, (ast.Assign, ast.AugAssign)):
                tg = st.targets[0] if isinstance(st, ast.Assign) else st.target
                val = st.value if isinstance(st, ast.Assign) else ast.BinOp(left=ast.Name(id=tg.id, ctx=ast.Load()), op=st.op, right=st.value)
                if not (isinstance(tg, ast.Name) and tg.id == sv):
                    fail("assignment in the loop must be to the loop-carried variable", st)
                b = []
                term, ty = expr(val, b)
                if ty != env[sv]:
                    fail("loop-carried variable changes its type", st)
                inner = stmts(rest, yielded)
                if b and b[-1][0] == term:
                    last = b.pop()
                    return wrap(b, f"Except.bind {last[1]} (fun {sv} =>\n{inner})")
                return wrap(b, f"let {sv} := {term}\n{inner}")
            if isinstance(st, ast.If) and isinstance(st.test, ast.Compare) and len(st.test.ops) == 1 and isinstance(st.test.left, ast.Constant) \
                    and isinstance(st.test.comparators[0], ast.Name) and st.test.comparators[0].id == ivar:
                # `0 < i` is `i > 0`
                flip = {ast.Lt: ast.Gt, ast.Gt: ast.Lt, ast.LtE: ast.GtE, ast.GtE: ast.LtE, ast.Eq: ast.Eq, ast.NotEq: ast.NotEq}
                if type(st.test.ops[0]) in flip:
                    st = ast.If(test=ast.Compare(left=st.test.comparators[0], ops=[flip[type(st.test.ops[0])]()], comparators=[st.test.left]),
                                body=st.body, orelse=st.orelse)
            if isinstance(st, ast.If) and isinstance(st.test, ast.Compare) and len(st.test.ops) == 1 and isinstance(st.test.left, ast.Name) \
                    and st.test.left.id == ivar and isinstance(st.test.comparators[0], ast.Constant) and isinstance(st.test.comparators[0].value, int) \
                    and type(st.test.ops[0]) in (ast.NotEq, ast.Eq, ast.Gt, ast.Lt, ast.GtE, ast.LtE):
                opn = {ast.NotEq: "≠", ast.Eq: "=", ast.Gt: ">", ast.Lt: "<", ast.GtE: "≥", ast.LtE: "≤"}[type(st.test.ops[0])]
                a = stmts(list(st.body) + rest, yielded)
                b_ = stmts(list(st.orelse) + rest, yielded)
                return f"if {ivar} {opn} {st.test.comparators[0].value} then\n{indent(a, 1)}\nelse\n{indent(b_, 1)}"
            fail(f"unsupported loop statement {ast.unparse(st)[:60]}", st)
        loop_code = stmts(list(loop.body), [])
        params = sorted({v[0] for v in attr_types.values()})
        sig = " ".join(f"({p_} : Int)" for p_ in params + int_params)
        code = wrap(pre, f"Py.genRange 0 (Int.toNat {nvar}) {sv} (fun ({ivar} : Nat) ({sv} : Int) =>\n{indent(loop_code, 1)})")
        self.out.append(f"/-- generated from `{cls}.{name}` (generator loop over time values of one family `F`) -/")
        self.out.append(f"@[pygen] def {lean_name} (F : Model.Timing.Fam) {sig} : Except PyErr (List Int) :=")
        self.out.append(indent(code, 1))
        self.out.append("")

    # -- T9b: member accessors of an object whose members may be absent (Timing) ------------------------------------------------
    def translate_member_accessors(self, cls: str, fields: dict[str, str], has_props: list[str], members: list[str]) -> None:
        """T9b: `has_x` properties (`return self._x is not None`, or `return self.has_y`) and member properties
        (`value = self._x; if value is None: raise RuntimeError(...); return value`) of a class whose members are optional;
        `fields` maps the private attribute to the field of the Lean structure `Model.Timing.T`."""
        def fail(msg, node):
            raise Untranslatable(f"{cls}: {msg}", node, self.path)

        def prop(name):
            for n in self.find_class(cls).body:
                if isinstance(n, ast.FunctionDef) and n.name == name and any(isinstance(d, ast.Name) and d.id == "property" for d in n.decorator_list):
                    return n, [st for st in n.body if not (isinstance(st, ast.Expr) and isinstance(st.value, ast.Constant))]
            fail(f"property {name} not found", None)
        for h in has_props:
            fn, b = prop(h)
            if len(b) != 1 or not isinstance(b[0], ast.Return):
                fail(f"{h}: expected a single return", fn)
            v = b[0].value
            if (isinstance(v, ast.Compare) and len(v.ops) == 1 and isinstance(v.ops[0], ast.IsNot) and isinstance(v.comparators[0], ast.Constant)
                    and v.comparators[0].value is None and ast.unparse(v.left).startswith("self.") and ast.unparse(v.left)[5:] in fields):
                body = f"!(t.{fields[ast.unparse(v.left)[5:]]}.isNone)"
            elif isinstance(v, ast.Attribute) and ast.unparse(v.value) == "self" and v.attr in has_props:
                body = f"{v.attr} t"
            else:
                fail(f"{h}: unsupported body {ast.unparse(v)[:60]}", fn)
            self.out.append(f"/-- generated from `{cls}.{h}` -/")
            self.out.append(f"@[pygen] def {h} (t : Model.Timing.T) : Bool := {body}")
            self.out.append("")
        for mname in members:
            fn, b = prop(mname)
            ok = (len(b) == 3 and isinstance(b[0], ast.Assign) and isinstance(b[0].targets[0], ast.Name) and ast.unparse(b[0].value).startswith("self.")
                  and ast.unparse(b[0].value)[5:] in fields
                  and isinstance(b[1], ast.If) and not b[1].orelse and ast.unparse(b[1].test) == f"{b[0].targets[0].id} is None"
                  and len(b[1].body) == 1 and isinstance(b[1].body[0], ast.Raise) and isinstance(b[1].body[0].exc, ast.Call)
                  and ast.unparse(b[1].body[0].exc.func) in ERROR_FACTORIES
                  and isinstance(b[2], ast.Return) and ast.unparse(b[2].value) == b[0].targets[0].id)
            if not ok:
                fail(f"{mname}: expected `value = self._x; if value is None: raise …; return value`", fn)
            f_ = fields[ast.unparse(b[0].value)[5:]]
            err = ERROR_FACTORIES[ast.unparse(b[1].body[0].exc.func)]
            self.out.append(f"/-- generated from `{cls}.{mname}` -/")
            self.out.append(f"@[pygen] def member_{mname} (t : Model.Timing.T) : Except PyErr Model.Timing.Arg :=")
            self.out.append(f"  if t.{f_}.isNone = true then Except.error PyErr.{err} else Except.ok t.{f_}")
            self.out.append("")

    # -- T11: rich comparisons of a value-with-units class (Scalar) ---------------------------------------------------------
    def translate_scalar_compare(self, cls: str, kinds: dict[str, str]) -> None:
        """T11: `__eq__`, `__lt__`, `__le__`, `__gt__`, `__ge__` of a class holding `.value` and `.units`, over the abstract
        `Model.Units.Scalar` (a value that is a number or a string, and a units string).

        Ordering methods:  `if not isinstance(other, self.__class__): return NotImplemented` (the model's operands are both of the
        class);  `self.<units check>(other.units)` (translated from its definition: `if self.units != other_units: raise ValueError`);
        an if / elif / else chain whose tests are `isinstance(self.value, K) and isinstance(other.value, K)` (K from `kinds`), whose
        branches `return self.value <op> other.value` with the operator OF THAT METHOD, and whose else raises a TypeError.
        `__eq__`:  `return self.value == other.value and self.units == other.units`."""
        OPS = {"__lt__": (ast.Lt, "lt"), "__le__": (ast.LtE, "le"), "__gt__": (ast.Gt, "gt"), "__ge__": (ast.GtE, "ge")}

        def fail(msg, node):
            raise Untranslatable(f"{cls}: {msg}", node, self.path)

        def strip(fn):
            return [st for st in fn.body if not (isinstance(st, ast.Expr) and isinstance(st.value, ast.Constant))]

        def class_guard(st):
            return (isinstance(st, ast.If) and not st.orelse and ast.unparse(st.test) == "not isinstance(other, self.__class__)"
                    and len(st.body) == 1 and isinstance(st.body[0], ast.Return) and ast.unparse(st.body[0].value) == "NotImplemented")
        # the tuple of numeric classes
        for n in self.tree.body:
            if isinstance(n, ast.Assign) and isinstance(n.targets[0], ast.Name) and n.targets[0].id == "_NUMERIC":
                if {ast.unparse(x) for x in n.value.elts} != {"bool", "int", "float"}:
                    fail("_NUMERIC is not (bool, int, float)", n)
                break
        else:
            fail("_NUMERIC not found", self.tree)
        # the units check
        chk = self.find_func(cls, "_check_units_equal_for_comparison")
        cb = strip(chk)
        if not (len(cb) == 1 and isinstance(cb[0], ast.If) and not cb[0].orelse and ast.unparse(cb[0].test) == "self.units != other_units"
                and len(cb[0].body) == 1 and isinstance(cb[0].body[0], ast.Raise) and ast.unparse(cb[0].body[0].exc.func) == "ValueError"):
            fail("_check_units_equal_for_comparison: expected `if self.units != other_units: raise ValueError(...)`", chk)
        self.out.append(f"/-- generated from `{cls}._check_units_equal_for_comparison` -/")
        self.out.append("@[pygen] def check_units (self_units other_units : Model.Units.Str) : Except PyErr Unit :=")
        self.out.append("  if self_units ≠ other_units then Except.error PyErr.ValueError else Except.ok ()")
        self.out.append("")
        # the error raised by the else branch
        errfn = self.find_func(None, "_comparing_numeric_and_string_not_permitted")
        eb = strip(errfn)
        if not (len(eb) == 1 and isinstance(eb[0], ast.Return) and isinstance(eb[0].value, ast.Call) and ast.unparse(eb[0].value.func) == "TypeError"):
            fail("_comparing_numeric_and_string_not_permitted: expected `return TypeError(...)`", errfn)
        for dunder, (opcls, opname) in OPS.items():
            fn = self.find_func(cls, dunder)
            b = strip(fn)
            if len(b) != 3 or not class_guard(b[0]):
                fail(f"{dunder}: expected class guard, units check, type dispatch", fn)
            if ast.unparse(b[1]) != "self._check_units_equal_for_comparison(other.units)":
                fail(f"{dunder}: expected the units check second", b[1])
            node, branches, final = b[2], [], None
            while isinstance(node, ast.If):
                t = node.test
                ok = (isinstance(t, ast.BoolOp) and isinstance(t.op, ast.And) and len(t.values) == 2
                      and all(isinstance(v, ast.Call) and ast.unparse(v.func) == "isinstance" and len(v.args) == 2 for v in t.values)
                      and ast.unparse(t.values[0].args[0]) == "self.value" and ast.unparse(t.values[1].args[0]) == "other.value"
                      and ast.unparse(t.values[0].args[1]) == ast.unparse(t.values[1].args[1]) and ast.unparse(t.values[0].args[1]) in kinds)
                if not ok:
                    fail(f"{dunder}: branch test {ast.unparse(t)[:70]}", t)
                r = node.body
                if not (len(r) == 1 and isinstance(r[0], ast.Return) and isinstance(r[0].value, ast.Compare) and len(r[0].value.ops) == 1
                        and isinstance(r[0].value.ops[0], opcls) and ast.unparse(r[0].value.left) == "self.value"
                        and ast.unparse(r[0].value.comparators[0]) == "other.value"):
                    fail(f"{dunder}: branch must `return self.value {dunder} other.value` with this method's operator", node)
                branches.append(kinds[ast.unparse(t.values[0].args[1])])
                if len(node.orelse) == 1 and isinstance(node.orelse[0], ast.If):
                    node = node.orelse[0]
                else:
                    final = node.orelse
                    node = None
            if not (final and len(final) == 1 and isinstance(final[0], ast.Raise) and isinstance(final[0].exc, ast.Call)
                    and ast.unparse(final[0].exc.func) == "_comparing_numeric_and_string_not_permitted"):
                fail(f"{dunder}: the else branch must raise _comparing_numeric_and_string_not_permitted()", fn)
            code = ""
            for pred in branches:
                code += f"if a.value.{pred} = true ∧ b.value.{pred} = true then Except.ok (Model.Units.cmpVal Model.Units.Cmp.{opname} a.value b.value)\n  else "
            code += "Except.error PyErr.TypeError"
            self.out.append(f"/-- generated from `{cls}.{dunder}` -/")
            self.out.append(f"@[pygen] def {opname} (a b : Model.Units.Scalar) : Except PyErr Bool :=")
            self.out.append(f"  Except.bind (check_units a.units b.units) (fun _ =>\n  {code})")
            self.out.append("")
        fn = self.find_func(cls, "__eq__")
        b = strip(fn)
        if not (len(b) == 2 and class_guard(b[0]) and isinstance(b[1], ast.Return)
                and ast.unparse(b[1].value) == "self.value == other.value and self.units == other.units"):
            fail("__eq__: expected `return self.value == other.value and self.units == other.units`", fn)
        self.out.append(f"/-- generated from `{cls}.__eq__` -/")
        self.out.append("@[pygen] def eq (a b : Model.Units.Scalar) : Bool := a.value.eq b.value && a.units == b.units")
        self.out.append("")

    # -- T3: accumulator loops over a sequence of integers ---------------------------------------------------
    def translate_scan_function(self, name: str, lean_name: str, seq_param: str, enum_cls: str | None = None,
                                helpers: dict[str, str] | None = None) -> None:
        """T3: a module-level function of the shape

               <local> = <const>            (one or more state variables)
               for i in range(<const>, len(<seq>)):
                   <body: local assignments, if/elif/else, `continue`, `return <const>`>
               return <const>

        over a sequence of integers (timestamps as tick values) -> `Py.forRange` with the state variables as loop state.
        Expressions: names, int/bool constants, members of `enum_cls`, `seq[i]` / `seq[i - c]`, ==, !=, <, <=, >, >=,
        and calls to already translated integer helpers (`helpers`: python name -> Lean name)."""
        helpers = helpers or {}
        fn = self.find_func(None, name)
        body = [st for st in fn.body if not (isinstance(st, ast.Expr) and isinstance(st.value, ast.Constant))]
        enum = dict(getattr(self, "enums", {}).get(enum_cls, [])) if enum_cls else {}

        def fail(msg, node):
            raise Untranslatable(f"{name}: {msg}", node, self.path)

        def const(e):
            if isinstance(e, ast.Constant) and isinstance(e.value, bool):
                return ("bool", "true" if e.value else "false")
            if isinstance(e, ast.Constant) and isinstance(e.value, int):
                return ("int", lit(e.value))
            if isinstance(e, ast.Attribute) and isinstance(e.value, ast.Name) and e.value.id == enum_cls and e.attr in enum:
                return ("int", lit(enum[e.attr]))
            return None

        # state initialisation, the loop, the final return
        state: list[tuple[str, str]] = []
        k = 0
        while k < len(body) and isinstance(body[k], ast.Assign):
            st = body[k]
            c = const(st.value)
            if len(st.targets) != 1 or not isinstance(st.targets[0], ast.Name) or c is None or c[0] != "int":
                fail("state initialisation must be `name = <int constant>`", st)
            state.append((st.targets[0].id, c[1]))
            k += 1
        if k + 2 != len(body) or not isinstance(body[k], ast.For) or not isinstance(body[k + 1], ast.Return):
            fail("expected `for` followed by a final `return`", fn)
        loop, final = body[k], body[k + 1]
        fin = const(final.value)
        if fin is None:
            fail("final return must be a constant", final)
        it = loop.iter
        if not (isinstance(loop.target, ast.Name) and isinstance(it, ast.Call) and isinstance(it.func, ast.Name) and it.func.id == "range"
                and len(it.args) == 2 and isinstance(it.args[0], ast.Constant) and isinstance(it.args[0].value, int) and it.args[0].value >= 0
                and ast.unparse(it.args[1]) == f"len({seq_param})") or loop.orelse:
            fail("loop must be `for i in range(<const>, len(seq))`", loop)
        ivar, lo = loop.target.id, it.args[0].value
        svars = [n for n, _ in state]

        def expr(e, locs):
            c = const(e)
            if c is not None:
                return c
            if isinstance(e, ast.Name):
                if e.id in locs or e.id in svars:
                    return ("int", e.id)
                fail(f"unknown name {e.id}", e)
            if isinstance(e, ast.Subscript) and isinstance(e.value, ast.Name) and e.value.id == seq_param:
                ix = e.slice
                if isinstance(ix, ast.Name) and ix.id == ivar:
                    return ("int", f"(Py.seqAt {seq_param} {ivar})")
                if (isinstance(ix, ast.BinOp) and isinstance(ix.op, ast.Sub) and isinstance(ix.left, ast.Name) and ix.left.id == ivar
                        and isinstance(ix.right, ast.Constant) and isinstance(ix.right.value, int) and 0 <= ix.right.value <= lo):
                    return ("int", f"(Py.seqAt {seq_param} ({ivar} - {ix.right.value}))")
                fail("subscript must be seq[i] or seq[i - c] with c <= the loop's start", e)
            if isinstance(e, ast.Call) and isinstance(e.func, ast.Name) and e.func.id in helpers and not e.keywords:
                args = [expr(a, locs) for a in e.args]
                if any(t != "int" for t, _ in args):
                    fail("helper arguments must be integers", e)
                return ("int", "(" + " ".join([helpers[e.func.id]] + [x for _, x in args]) + ")")
            fail(f"unsupported expression {ast.unparse(e)}", e)

        CMP = {ast.Eq: "=", ast.NotEq: "≠", ast.Lt: "<", ast.LtE: "≤", ast.Gt: ">", ast.GtE: "≥"}

        def cond(e, locs):
            if isinstance(e, ast.Compare) and len(e.ops) == 1 and type(e.ops[0]) in CMP:
                (ta, a), (tb, b) = expr(e.left, locs), expr(e.comparators[0], locs)
                if ta != tb:
                    fail("comparison of different types", e)
                return f"{a} {CMP[type(e.ops[0])]} {b}"
            if isinstance(e, ast.UnaryOp) and isinstance(e.op, ast.Not):
                return f"¬ ({cond(e.operand, locs)})"
            if isinstance(e, ast.BoolOp):
                j = " ∧ " if isinstance(e.op, ast.And) else " ∨ "
                return "(" + j.join(f"({cond(v, locs)})" for v in e.values) + ")"
            fail(f"unsupported condition {ast.unparse(e)}", e)

        def cont():
            return ".cont " + (svars[0] if len(svars) == 1 else "(" + ", ".join(svars) + ")")

        def stmts(ss, locs, depth):
            pad = "  " * depth
            if not ss:
                return pad + cont()
            st, rest = ss[0], ss[1:]
            if isinstance(st, ast.Continue):
                return pad + cont()
            if isinstance(st, ast.Return):
                c = const(st.value)
                if c is None or c[0] != fin[0]:
                    fail("return inside the loop must be a constant of the final return's type", st)
                return pad + f".ret {c[1]}"
            if isinstance(st, ast.Assign) and len(st.targets) == 1 and isinstance(st.targets[0], ast.Name):
                t, v = expr(st.value, locs)
                if t != "int":
                    fail("assigned value must be an integer", st)
                nm = st.targets[0].id
                return pad + f"let {nm} := {v}\n" + stmts(rest, locs | {nm}, depth)
            if isinstance(st, ast.If):
                # statements after the `if` are duplicated into every branch that falls through
                then = stmts(list(st.body) + rest, set(locs), depth + 1)
                els = stmts(list(st.orelse) + rest, set(locs), depth + 1)
                return pad + f"if {cond(st.test, locs)} then\n{then}\n{pad}else\n{els}"
            fail(f"unsupported statement {type(st).__name__}", st)

        sigma = "Int" if len(svars) == 1 else "(" + " × ".join("Int" for _ in svars) + ")"
        rho = "Bool" if fin[0] == "bool" else "Int"
        init = state[0][1] if len(state) == 1 else "(" + ", ".join(v for _, v in state) + ")"
        pat = svars[0] if len(svars) == 1 else "(" + ", ".join(svars) + ")"
        code = stmts(list(loop.body), set(), 3)
        self.out.append(f"/-- generated from `{name}` (accumulator loop over `{seq_param}`) -/")
        self.out.append(f"@[pygen] def {lean_name} ({seq_param} : List Int) : {rho} :=")
        self.out.append(f"  match (Py.forRange {lo} ({seq_param}.length - {lo}) ({init} : {sigma})")
        self.out.append(f"      (fun ({ivar} : Nat) ({pat} : {sigma}) => (show Py.Loop {sigma} {rho} from")
        self.out.append(code + "))) with")
        self.out.append("  | .ret r => r")
        self.out.append(f"  | .cont _ => {fin[1]}")
        self.out.append("")

    def translate_dispatch_branch(self, cls: str, name: str, kind: str, kind_type, lean_name: str,
                                  arg: str = "value") -> FuncInfo:
        """T4: the branch of an `if isinstance(arg, K) ... elif ...` chain selected by `kind`."""
        fn = self.find_func(cls, name)
        stmts = [s for s in fn.body if not (isinstance(s, ast.Expr) and isinstance(s.value, ast.Constant))]
        if len(stmts) != 1 or not isinstance(stmts[0], ast.If):
            raise Untranslatable(f"{cls}.{name}: not a single isinstance chain", fn, self.path)
        node: ast.stmt | None = stmts[0]
        chosen = None
        while isinstance(node, ast.If):
            t = node.test
            if not (isinstance(t, ast.Call) and isinstance(t.func, ast.Name) and t.func.id == "isinstance"
                    and isinstance(t.args[0], ast.Name) and t.args[0].id == arg):
                raise Untranslatable(f"{cls}.{name}: branch test is not isinstance({arg}, K)", t, self.path)
            k = ast.unparse(t.args[1])
            if k == kind or (kind == cls and k == "self.__class__"):
                chosen = node.body
                break
            # a *preceding* branch must not also accept this kind (order matters for subclasses)
            if kind_accepted_by(kind, k):
                raise Untranslatable(f"{cls}.{name}: kind {kind} captured by earlier branch {k}", t, self.path)
            node = node.orelse[0] if len(node.orelse) == 1 else None
        if chosen is None:
            raise Untranslatable(f"{cls}.{name}: no branch for {kind}", fn, self.path)
        self_type = ("rec", cls)
        params = [("self", self_type), (arg, kind_type)]
        return self.translate_function(f"{cls}.{name}/{kind}", fn, lean_name, params, self_type=self_type,
                                       body=chosen)

    def render(self, header_imports: list[str]) -> str:
        lines = ["-- GENERATED by tools/pylean from " + self.path.split("/src/")[-1] + " — do not edit",
                 "import NiVerif.Py.Int", "import NiVerif.Py.Err", "import NiVerif.Py.Attr",
                 "import NiVerif.Py.Time", "import NiVerif.Py.Render", "import NiVerif.Py.Float", "import NiVerif.Py.Effects"]
        lines += [f"import {i}" for i in header_imports]
        lines += ["set_option linter.unusedVariables false", "", f"namespace {self.ns}", ""]
        for m in self.imports:
            lines.append(f"open {m.ns}")
        lines += self.out
        lines += [f"end {self.ns}", ""]
        return "\n".join(lines)


def kind_accepted_by(kind: str, test: str) -> bool:
    """Would an `isinstance(x, test)` accept an object of kind `kind`? (closed universe)"""
    groups = {
        "_OTHER_TIMEDELTA_TUPLE": {"dt.timedelta", "ht.timedelta"},
        "_OTHER_DATETIME_TUPLE": {"dt.datetime", "ht.datetime"},
        "dt.timedelta": {"dt.timedelta", "ht.timedelta"},     # ht.timedelta subclasses dt.timedelta
        "dt.datetime": {"dt.datetime", "ht.datetime"},
        "int": {"int", "bool"},
    }
    return kind == test or kind in groups.get(test, set())


def lit(v: int) -> str:
    return f"({v} : Int)" if v >= 0 else f"(-{-v} : Int)"


def indent(code: str, n: int) -> str:
    pad = "  " * n
    return "\n".join(pad + l for l in code.split("\n"))


class Ctx:
    """Translation context of one function body."""

    def __init__(self, mod: Module, env, self_type, where: str):
        self.mod, self.env, self.self_type, self.where = mod, dict(env), self_type, where
        self.tmp = 0

    def fail(self, msg, node=None):
        raise Untranslatable(msg, node, self.where)

    def fresh(self, base="t"):
        self.tmp += 1
        return f"{base}_{self.tmp}"

    # ---- expressions: returns (terms:list[str] | str, type, binds) ----------------------
    # `binds` is a list of (var, effectful_term) to be bound (in order) before the expression.

    def expr(self, e: ast.expr):
        binds: list[tuple[str, str]] = []
        terms, t = self._expr(e, binds)
        if binds:
            self.fail("effectful expression in pure context", e)
        return (terms[0] if len(terms) == 1 else "(" + ", ".join(terms) + ")"), t

    def expr_b(self, e: ast.expr, binds):
        terms, t = self._expr(e, binds)
        return (terms[0] if len(terms) == 1 else "(" + ", ".join(terms) + ")"), t

    def _int(self, e, binds) -> str:
        terms, t = self._expr(e, binds)
        if t == "bool":
            return f"(if {terms[0]} then 1 else 0)"
        if t != "int":
            self.fail(f"expected int expression, got {t}", e)
        return terms[0]

    def call_func(self, info: FuncInfo, args: list[str], binds) -> tuple[list[str], Any]:
        call = "(" + " ".join([info.lean_name] + args) + ")" if args else info.lean_name
        if info.raises:
            v = self.fresh("r")
            binds.append((v, call))
            call = v
        return self.split(call, info.ret_type), info.ret_type

    def split(self, term: str, t) -> list[str]:
        if isinstance(t, tuple) and t[0] == "rec" and len(RECORDS[t[1]].fields) == 2:
            return [f"{term}.1", f"{term}.2"]
        return [term]

    def method(self, cls: str, key_suffix: str):
        return self.mod.funcs.get(f"{cls}.{key_suffix}") or next(
            (m.funcs[f"{cls}.{key_suffix}"] for m in self.mod.imports if f"{cls}.{key_suffix}" in m.funcs), None)

    def _expr(self, e: ast.expr, binds) -> tuple[list[str], Any]:
        amap = getattr(self, "attr_map", None)
        if amap and not isinstance(e, (ast.Constant, ast.Name)):
            key = ast.unparse(e)
            if key in amap:
                term, ty = amap[key]
                return [term], ty
        if isinstance(e, ast.Constant):
            if isinstance(e.value, bool):
                return [("true" if e.value else "false")], "bool"
            if isinstance(e.value, int):
                return [lit(e.value)], "int"
            if isinstance(e.value, str):
                return [lean_str(e.value)], "str"
            self.fail(f"constant {e.value!r}", e)
        if isinstance(e, ast.Name):
            if e.id in self.env:
                terms, t = self.env[e.id]
                if any(x is None for x in terms):
                    self.fail(f"{e.id} used before all its fields are set", e)
                return list(terms), t
            tbl = getattr(self.mod, "tables", {}).get(e.id)
            if tbl is not None and tbl != () and not isinstance(tbl, list):
                return [e.id], ("str" if tbl[0] == "str" else tbl)
            c = self.mod.find_const(e.id)
            if c:
                return [c[0] if not c[0].startswith(self.mod.ns + ".") else c[0][len(self.mod.ns) + 1:]], "int"
            self.fail(f"unknown name {e.id}", e)
        if isinstance(e, ast.Attribute):
            # record field access
            if isinstance(e.value, ast.Name) and e.value.id in self.env:
                terms, t = self.env[e.value.id]
                if isinstance(t, tuple) and t[0] == "rec":
                    rec = RECORDS[t[1]]
                    if e.attr in rec.fields:
                        i = rec.fields.index(e.attr)
                        return [terms[i]], rec.field_types[i]
                    # property of a record class, e.g. self.days
                    info = self.method(t[1], e.attr)
                    if info:
                        return self.call_func(info, terms, binds)
            terms, t = self._expr(e.value, binds)
            if isinstance(t, tuple) and t[0] == "rec":
                rec = RECORDS[t[1]]
                if e.attr in rec.fields:
                    i = rec.fields.index(e.attr)
                    return [terms[i]], rec.field_types[i]
                info = self.method(t[1], e.attr)
                if info:
                    return self.call_func(info, terms, binds)
            self.fail(f"attribute .{e.attr}", e)
        if isinstance(e, ast.UnaryOp):
            if isinstance(e.op, ast.Not):
                c = self.cond(e.operand, binds)
                return [f"decide (¬ {c})"], "bool"
            terms, t = self._expr(e.operand, binds)
            if isinstance(t, tuple) and t[0] == "rec" and isinstance(e.op, ast.USub):
                info = self.method(t[1], "__neg__")
                if not info:
                    self.fail(f"-x on {t[1]} before __neg__ is translated", e)
                return self.call_func(info, terms, binds)
            if t != "int":
                self.fail("unary op on non-int", e)
            if isinstance(e.op, ast.USub):
                return [f"(-{terms[0]})"], "int"
            if isinstance(e.op, ast.UAdd):
                return terms, "int"
            if isinstance(e.op, ast.Invert):
                return [f"(Py.invert {terms[0]})"], "int"
        if isinstance(e, ast.BinOp):
            lt, ltype = self._expr(e.left, binds)
            rt, rtype = self._expr(e.right, binds)
            if isinstance(ltype, tuple) and ltype[0] == "rec":
                rk = rtype[1] if isinstance(rtype, tuple) else rtype
                info = self.method(ltype[1], f"__{DUNDER.get(type(e.op), '?')}__/{rk}")
                if not info:
                    self.fail(f"operator {type(e.op).__name__} on ({ltype},{rtype}) not translated yet", e)
                return self.call_func(info, lt + rt, binds)
            if ltype == "str" and rtype == "str" and isinstance(e.op, ast.Add):
                return [f"({lt[0]} ++ {rt[0]})"], "str"
            if ltype not in ("int", "bool") or rtype not in ("int", "bool"):
                self.fail(f"binary op on ({ltype},{rtype})", e)
            a = lt[0] if ltype == "int" else f"(if {lt[0]} then 1 else 0)"
            b = rt[0] if rtype == "int" else f"(if {rt[0]} then 1 else 0)"
            op = type(e.op)
            if op in BINOPS_PURE:
                return [BINOPS_PURE[op].format(a, b)], "int"
            if op in (ast.FloorDiv, ast.Mod):
                pure = {ast.FloorDiv: "Py.floorDiv", ast.Mod: "Py.mod"}[op]
                eff = {ast.FloorDiv: "Py.floorDivE", ast.Mod: "Py.modE"}[op]
                try:
                    d = const_eval(e.right, self.all_consts())
                except Untranslatable:
                    d = None
                if d is not None and d != 0:
                    return [f"({pure} {a} {b})"], "int"
                v = self.fresh("q")
                binds.append((v, f"({eff} {a} {b})"))
                return [v], "int"
            self.fail(f"operator {op.__name__}", e)
        if isinstance(e, ast.Compare) or isinstance(e, ast.BoolOp):
            c = self.cond(e, binds)
            return [f"decide ({c})"], "bool"
        if isinstance(e, ast.IfExp):
            c = self.cond(e.test, binds)
            b1: list = []
            b2: list = []
            x, xt = self._expr(e.body, b1)
            y, yt = self._expr(e.orelse, b2)
            if xt != yt:
                self.fail("conditional expression with different types", e)
            if b1 or b2:
                # effectful branches: wrap as Except-valued conditional
                v = self.fresh("c")
                tx = self.wrap_binds(b1, "Except.ok " + tup(x))
                ty = self.wrap_binds(b2, "Except.ok " + tup(y))
                binds.append((v, f"(if {c} then {tx} else {ty})"))
                return self.split(v, xt), xt
            return [f"(if {c} then {tup(x)} else {tup(y)})"] if len(x) == 1 else self.fail("tuple ifexp", e), xt
        if isinstance(e, ast.List) and not e.elts:
            return ["([] : List Int)"], ("list", "int")
        if isinstance(e, ast.Tuple):
            terms, types = [], []
            for el in e.elts:
                t_, ty = self._expr(el, binds)
                terms.append(tup(t_))
                types.append(ty)
            return ["(" + ", ".join(terms) + ")"], ("tuple", types)
        if isinstance(e, ast.JoinedStr):
            parts = []
            for v in e.values:
                if isinstance(v, ast.Constant):
                    parts.append(lean_str(v.value))
                elif isinstance(v, ast.FormattedValue):
                    x = self._int(v.value, binds) if True else None
                    if v.conversion != -1:
                        self.fail("f-string conversion", e)
                    if v.format_spec is None:
                        parts.append(f"(Py.str {x})")
                    else:
                        spec = "".join(c.value for c in v.format_spec.values if isinstance(c, ast.Constant))
                        if not (spec.startswith("0") and spec[1:].isdigit()):
                            self.fail(f"format spec {spec!r}", e)
                        parts.append(f"(Py.fmtZero {x} {int(spec[1:])})")
            return ["(" + " ++ ".join(parts or ['""']) + ")"], "str"
        if isinstance(e, ast.Subscript):
            terms, t = self._expr(e.value, binds)
            if isinstance(t, tuple) and t[0] == "list":
                idx = self._int(e.slice, binds)
                v = self.fresh("g")
                binds.append((v, f"(Py.listGetE {terms[0]} {idx})"))
                return [v], t[1]
            self.fail(f"subscript on {t}", e)
        if isinstance(e, ast.Call):
            return self.call(e, binds)
        self.fail(f"expression {type(e).__name__}", e)

    def all_consts(self):
        d = {}
        for m in self.mod.imports:
            d.update(m.consts)
        d.update(self.mod.consts)
        return d

    def wrap_binds(self, binds, body: str) -> str:
        out = body
        for v, term in reversed(binds):
            out = f"(Except.bind {term} (fun {v} => {out}))"
        return out

    def call(self, e: ast.Call, binds):
        f = e.func
        fname = ast.unparse(f)
        args = e.args
        if e.keywords and fname not in ("dt.timedelta", "ht.timedelta", "TimeValueTuple"):
            self.fail(f"keyword arguments in call to {fname}", e)
        if fname in getattr(self.mod, "enums", {}) and len(args) == 1:
            x = self._int(args[0], binds)
            v = self.fresh("m")
            binds.append((v, f"(Py.enumCheck {fname}_values {x})"))
            return [v], "int"
        if fname == "np.dtype" and len(args) == 1 and ast.unparse(args[0]) in ("np.uint8", "np.uint16", "np.uint32", "np.uint64"):
            # an unsigned NumPy port dtype is represented by its width in bits
            return [lit(int(ast.unparse(args[0])[7:]))], "int"
        if fname == "abs":
            x = self._int(args[0], binds)
            return [f"(Py.abs {x})"], "int"
        if fname in ("operator.index", "int") and len(args) == 1:
            return [self._int(args[0], binds)], "int"
        if fname == "arg_to_int" and len(args) == 2:
            # on the model's domain (ints) arg_to_int is the identity; non-int arguments are the
            # TypeError stream of the correspondence harness
            return [self._int(args[1], binds)], "int"
        if fname == "arg_to_uint" and len(args) in (2, 3):
            terms, ty = self._expr(args[1], binds)
            v = self.fresh("u")
            if ty == "optint":
                # T5: an optional argument (None -> the default, which is range-checked like a given value; no default -> TypeError)
                d = "none" if len(args) == 2 else f"(some {self._int(args[2], binds)})"
                binds.append((v, f"(Py.argToUintOpt {terms[0]} {d})"))
                return [v], "int"
            x = self._int(args[1], binds)
            binds.append((v, f"(Py.argToUint {x})"))
            return [v], "int"
        if fname == "divmod" and len(args) == 2:
            lt, ltype = self._expr(args[0], binds)
            rt, rtype = self._expr(args[1], binds)
            if isinstance(ltype, tuple) and ltype[0] == "rec":
                rk = rtype[1] if isinstance(rtype, tuple) else rtype
                info = self.method(ltype[1], f"__divmod__/{rk}")
                if not info:
                    self.fail("divmod on record before __divmod__ is translated", e)
                return self.call_func(info, lt + rt, binds)
            try:
                d = const_eval(args[1], self.all_consts())
            except Untranslatable:
                d = None
            if d is None or d == 0:
                q, r = self.fresh("q"), self.fresh("q")
                binds.append((q, f"(Py.floorDivE {lt[0]} {rt[0]})"))
                binds.append((r, f"(Py.modE {lt[0]} {rt[0]})"))
                return [f"({q}, {r})"], ("tuple", ["int", "int"])
            return [f"(Py.floorDiv {lt[0]} {rt[0]}, Py.mod {lt[0]} {rt[0]})"], ("tuple", ["int", "int"])
        if fname in ("min", "max") and len(args) == 2:
            a, b = self._int(args[0], binds), self._int(args[1], binds)
            return [f"({fname} {a} {b})"], "int"
        if fname == "hash" and len(args) == 1:
            terms, t = self._expr(args[0], binds)
            if isinstance(t, tuple) and t[0] == "rec":
                info = self.method(t[1], "__hash__")
                if not info:
                    self.fail(f"hash() of {t[1]} before __hash__ is translated", e)
                return self.call_func(info, terms, binds)
            if t != "int":
                self.fail(f"hash of {t}", e)
            return [f"(Py.hashInt {terms[0]})"], "int"
        if fname == "TimeValueTuple":
            if e.keywords:
                kw = {k.arg: k.value for k in e.keywords}
                a = [kw["whole_seconds"], kw["fractional_seconds"]]
            else:
                a = args
            return [self._int(a[0], binds), self._int(a[1], binds)], ("rec", "TimeValueTuple")
        if fname == "dt.timedelta" or fname == "ht.timedelta":
            kw = {k.arg: self._int(k.value, binds) for k in e.keywords}
            if args:
                self.fail("positional timedelta args", e)
            v = self.fresh("td")
            if fname == "dt.timedelta":
                allowed = ["days", "seconds", "microseconds"]
                fn = "Py.dtTimedelta"
            else:
                allowed = ["days", "seconds", "microseconds", "femtoseconds", "yoctoseconds"]
                fn = "Py.htTimedelta"
            if set(kw) - set(allowed):
                self.fail(f"timedelta keywords {sorted(kw)}", e)
            a = " ".join(kw.get(k, "0") for k in allowed)
            binds.append((v, f"({fn} {a})"))
            return [v], "int"
        # self.__class__.from_ticks(x) / cls.from_ticks(x) / cls(x) etc.
        if isinstance(f, ast.Attribute):
            recv = ast.unparse(f.value)
            if recv in ("self.__class__", "cls") and self.self_type or recv in RECORDS:
                cls = self.self_type[1] if recv in ("self.__class__", "cls") else recv
                info = self.method(cls, f.attr)
                if info:
                    a = []
                    for x in args:
                        t_, ty = self._expr(x, binds)
                        a += t_
                    return self.call_func(info, a, binds)
                self.fail(f"{cls}.{f.attr} not translated (yet)", e)
            # method call on a record value, e.g. value.to_cvi()
            terms, t = self._expr(f.value, binds)
            if isinstance(t, tuple) and t[0] == "rec":
                info = self.method(t[1], f.attr)
                if info:
                    a = list(terms)
                    for x in args:
                        t_, ty = self._expr(x, binds)
                        a += t_
                    return self.call_func(info, a, binds)
            if t == "str" and f.attr == "rstrip" and len(args) == 1 and isinstance(args[0], ast.Constant) \
                    and isinstance(args[0].value, str) and len(args[0].value) == 1:
                return [f"(Py.rstripChar {terms[0]} {lean_char(args[0].value)})"], "str"
            self.fail(f"method call {fname}", e)
        if isinstance(f, ast.Name):
            info = self.mod.funcs.get(f.id) or next((m.funcs[f.id] for m in self.mod.imports if f.id in m.funcs), None)
            if info:
                a = []
                for x in args:
                    t_, ty = self._expr(x, binds)
                    a += t_
                return self.call_func(info, a, binds)
        self.fail(f"call to {fname}", e)

    # ---- conditions (Prop) -----------------------------------------------------------------
    def cond(self, e: ast.expr, binds) -> str:
        amap = getattr(self, "attr_map", None)
        if amap and ast.unparse(e) in amap and amap[ast.unparse(e)][1] == "bool":
            return f"{amap[ast.unparse(e)][0]} = true"
        if isinstance(e, ast.UnaryOp) and isinstance(e.op, ast.Not):
            return f"¬ ({self.cond(e.operand, binds)})"
        if isinstance(e, ast.BoolOp):
            # note: Python short-circuits; operands here must be pure
            b0 = len(binds)
            parts = [self.cond(v, binds) for v in e.values]
            if len(binds) != b0:
                self.fail("effectful operand in and/or", e)
            j = " ∧ " if isinstance(e.op, ast.And) else " ∨ "
            return "(" + j.join(f"({p})" for p in parts) + ")"
        if isinstance(e, ast.Compare):
            parts = []
            left, lt_ = self._expr(e.left, binds)
            for op, right in zip(e.ops, e.comparators):
                r, rt_ = self._expr(right, binds)
                if type(op) not in CMPOPS:
                    self.fail(f"comparison {type(op).__name__}", e)
                if isinstance(lt_, tuple) and lt_[0] == "rec":
                    rk = rt_[1] if isinstance(rt_, tuple) else rt_
                    info = self.method(lt_[1], f"__{DUNDER[type(op)]}__/{rk}")
                    if not info:
                        self.fail(f"comparison on record {lt_} not translated yet", e)
                    terms, _ = self.call_func(info, left + r, binds)
                    parts.append(f"{terms[0]} = true")
                else:
                    if lt_ == "str" or rt_ == "str":
                        if lt_ == rt_ == "str" and type(op) in (ast.Eq, ast.NotEq):
                            parts.append(f"{left[0]} {CMPOPS[type(op)]} {r[0]}")
                            left, lt_ = r, rt_
                            continue
                        self.fail("string comparison", e)
                    a = left[0] if lt_ == "int" else f"(if {left[0]} then 1 else 0)"
                    b = r[0] if rt_ == "int" else f"(if {r[0]} then 1 else 0)"
                    parts.append(f"{a} {CMPOPS[type(op)]} {b}")
                left, lt_ = r, rt_
            return " ∧ ".join(parts) if len(parts) > 1 else parts[0]
        terms, t = self._expr(e, binds)
        if t == "bool":
            return f"{terms[0]} = true"
        if t == "int":
            return f"{terms[0]} ≠ 0"      # Python truthiness of an int
        self.fail(f"truthiness of {t}", e)

    # ---- statements ------------------------------------------------------------------------
    def block(self, stmts: list[ast.stmt]):
        """Returns (lean_code, return_type, may_raise). The block must end in return/raise on all paths."""
        self.rtype = None
        self.raises = False
        code = self.stmts(list(stmts), None)
        return code, self.rtype, self.raises

    def note_ret(self, t):
        if self.rtype is None:
            self.rtype = t
        elif self.rtype != t:
            # bool/int mismatch etc.
            self.fail(f"return types differ: {self.rtype} vs {t}")

    def with_binds(self, binds, body: str) -> str:
        if binds:
            self.raises = True
        out = body
        for v, term in reversed(binds):
            out = f"Except.bind {term} (fun {v} =>\n{out})"
        return out

    def ret(self, body: str) -> str:
        """`body` is a pure value; wrap if the function is (so far) effectful — fixed up in post."""
        return f"⟪ret {body}⟫"

    def stmts(self, ss: list[ast.stmt], k) -> str:
        if not ss:
            if k is None:
                self.fail("control reaches end of function without return")
            return k()
        s, rest = ss[0], ss[1:]
        if isinstance(s, ast.Expr) and isinstance(s.value, ast.Constant):
            return self.stmts(rest, k)      # docstring
        if isinstance(s, ast.Pass):
            return self.stmts(rest, k)
        if isinstance(s, ast.Return):
            if s.value is None:
                self.fail("bare return", s)
            binds: list = []
            terms, t = self._expr(s.value, binds)
            self.note_ret(t)
            return self.with_binds(binds, self.ret(tup(terms)))
        if isinstance(s, ast.Raise):
            self.raises = True
            return f"Except.error PyErr.{self.error_of(s)}"
        if isinstance(s, (ast.Assign, ast.AnnAssign)):
            target = s.targets[0] if isinstance(s, ast.Assign) else s.target
            if isinstance(s, ast.Assign) and len(s.targets) != 1:
                self.fail("multiple assignment targets", s)
            binds = []
            if (isinstance(target, ast.Name) and ast.unparse(s.value) in ("cls.__new__(cls)",)
                    and self.self_type is not None):
                rec = RECORDS[self.self_type[1]]
                self.env[target.id] = ([None] * len(rec.fields), self.self_type)
                return self.stmts(rest, k)
            if (isinstance(target, ast.Attribute) and isinstance(target.value, ast.Name)
                    and target.value.id in self.env and isinstance(self.env[target.value.id][1], tuple)
                    and self.env[target.value.id][1][0] == "rec"
                    and target.attr in IGNORED_FIELDS.get(self.env[target.value.id][1][1], ())):
                return self.stmts(rest, k)
            terms, t = self._expr(s.value, binds)
            if (isinstance(target, ast.Attribute) and isinstance(target.value, ast.Name)
                    and target.value.id in self.env and isinstance(self.env[target.value.id][1], tuple)
                    and self.env[target.value.id][1][0] == "rec"):
                oterms, otype = self.env[target.value.id]
                rec = RECORDS[otype[1]]
                if target.attr in IGNORED_FIELDS.get(otype[1], ()):
                    return self.stmts(rest, k)
                if target.attr not in rec.fields:
                    self.fail(f"assignment to unknown field .{target.attr}", s)
                i = rec.fields.index(target.attr)
                if t != rec.field_types[i]:
                    self.fail(f"field .{target.attr} assigned a {t}", s)
                v = f"{target.value.id}_{target.attr.lstrip('_')}"
                nt = list(oterms)
                nt[i] = v
                self.env[target.value.id] = (nt, otype)
                return self.with_binds(binds, f"let {v} := {tup(terms)}\n" + self.stmts(rest, k))
            if isinstance(target, ast.Name):
                name = target.id
                if name in getattr(self, "nonneg", ()):
                    self.nonneg = set(self.nonneg) - {name}
                if isinstance(t, tuple) and t[0] == "rec" and len(terms) > 1:
                    names = [f"{name}_{f.lstrip('_')}" for f in RECORDS[t[1]].fields]
                    lets = "\n".join(f"let {n} := {x}" for n, x in zip(names, terms))
                    self.env[name] = (names, t)
                else:
                    lets = f"let {name} := {tup(terms)}"
                    self.env[name] = ([name], t)
                return self.with_binds(binds, lets + "\n" + self.stmts(rest, k))
            if isinstance(target, ast.Tuple) and all(isinstance(x, ast.Name) for x in target.elts):
                if not (isinstance(t, tuple) and t[0] == "tuple" and len(t[1]) == len(target.elts)):
                    self.fail("tuple unpacking of non-tuple", s)
                names = [x.id for x in target.elts]
                pat = "(" + ", ".join(names) + ")"
                for n, ty in zip(names, t[1]):
                    self.env[n] = ([n], ty)
                return self.with_binds(binds, f"match {tup(terms)} with\n| {pat} =>\n" + self.stmts(rest, k))
            self.fail("assignment target", s)
        if isinstance(s, ast.AugAssign):
            if not isinstance(s.target, ast.Name):
                self.fail("augmented assignment target", s)
            new = ast.Assign(targets=[s.target], value=ast.BinOp(left=ast.Name(id=s.target.id, ctx=ast.Load()),
                                                                  op=s.op, right=s.value), lineno=s.lineno)
            return self.stmts([new] + rest, k)
        if (isinstance(s, ast.Expr) and isinstance(s.value, ast.Call) and isinstance(s.value.func, ast.Attribute)
                and isinstance(s.value.func.value, ast.Name) and s.value.func.value.id in self.env
                and self.env[s.value.func.value.id][1] == ("list", "int") and not s.value.keywords):
            # T8: in-place list methods on a local list of ints
            name, meth = s.value.func.value.id, s.value.func.attr
            cur = self.env[name][0][0]
            binds = []
            if meth == "append" and len(s.value.args) == 1:
                x = self._int(s.value.args[0], binds)
                new = f"({cur} ++ [{x}])"
            elif meth == "reverse" and not s.value.args:
                new = f"(List.reverse {cur})"
            else:
                self.fail(f"list method .{meth}", s)
            self.env[name] = ([name], ("list", "int"))
            return self.with_binds(binds, f"let {name} := {new}\n" + self.stmts(rest, k))
        if isinstance(s, ast.While):
            return self.while_loop(s, ss, rest, k)
        if isinstance(s, ast.If):
            binds = []
            c = self.cond(s.test, binds)
            saved = dict(self.env)
            body_term = terminates(s.body)
            if (body_term and not s.orelse and isinstance(s.test, ast.Compare) and len(s.test.ops) == 1 and isinstance(s.test.ops[0], ast.Lt)
                    and isinstance(s.test.left, ast.Name) and isinstance(s.test.comparators[0], ast.Constant) and s.test.comparators[0].value == 0):
                self.nonneg = set(getattr(self, "nonneg", set())) | {s.test.left.id}     # holds in the continuation
            else_term = terminates(s.orelse) if s.orelse else False
            cont = (lambda: self.stmts(rest, k)) if rest or k else None
            self.env = dict(saved)
            a = self.stmts(list(s.body), None if body_term else cont)
            self.env = dict(saved)
            b = self.stmts(list(s.orelse), None if else_term else cont) if s.orelse else (
                cont() if cont else self.fail("if without else at end of function", s))
            self.env = dict(saved) if (body_term and (else_term or not s.orelse)) else self.env
            return self.with_binds(binds, f"if {c} then\n{indent(a, 1)}\nelse\n{indent(b, 1)}")
        self.fail(f"statement {type(s).__name__}", s)

    def while_loop(self, s: ast.While, all_stmts, rest, k) -> str:
        """T8: `while V != 0: <pure body>; V >>= c` (c a positive constant) with V known to be non-negative -> `Py.whileFuel`
        over the loop-carried variables; fuel = bit length of V, the number of iterations of such a loop."""
        if s.orelse:
            self.fail("while/else", s)
        t = s.test
        if not (isinstance(t, ast.Compare) and len(t.ops) == 1 and isinstance(t.ops[0], ast.NotEq) and isinstance(t.left, ast.Name)
                and isinstance(t.comparators[0], ast.Constant) and t.comparators[0].value == 0 and t.left.id in self.env
                and self.env[t.left.id][1] == "int"):
            self.fail("while loop: only `while v != 0` over an int variable is supported", s)
        v = t.left.id
        def is_variant(x):
            return (isinstance(x, ast.AugAssign) and isinstance(x.op, ast.RShift) and isinstance(x.target, ast.Name) and x.target.id == v
                    and isinstance(x.value, ast.Constant) and isinstance(x.value.value, int) and not isinstance(x.value.value, bool)
                    and x.value.value >= 1)

        def writes_v(x):
            return any((isinstance(n, (ast.Assign, ast.AugAssign, ast.AnnAssign, ast.NamedExpr, ast.For, ast.With, ast.Delete))
                        and any(isinstance(t, ast.Name) and t.id == v and isinstance(t.ctx, (ast.Store, ast.Del)) for t in ast.walk(n)))
                       for n in ast.walk(x))
        variants = [x for x in s.body if is_variant(x)]
        if len(variants) != 1 or any(writes_v(x) for x in s.body if x is not variants[0]):
            self.fail(f"while loop: the body must contain exactly one top-level `{v} >>= <positive constant>` (the variant) and no other "
                      f"assignment to `{v}`", s)
        if v not in getattr(self, "nonneg", set()):
            self.fail(f"while loop: `{v}` is not known to be non-negative (no preceding `if {v} < 0: raise`)", s)

        def assigned(stmts, acc):
            for x in stmts:
                if isinstance(x, ast.Assign) and len(x.targets) == 1 and isinstance(x.targets[0], ast.Name):
                    acc.append(x.targets[0].id)
                elif isinstance(x, ast.AugAssign) and isinstance(x.target, ast.Name):
                    acc.append(x.target.id)
                elif isinstance(x, ast.Expr) and isinstance(x.value, ast.Call) and isinstance(x.value.func, ast.Attribute) \
                        and isinstance(x.value.func.value, ast.Name):
                    acc.append(x.value.func.value.id)
                elif isinstance(x, ast.If):
                    assigned(x.body, acc); assigned(x.orelse, acc)
                elif isinstance(x, ast.Pass):
                    pass
                else:
                    self.fail(f"while loop body: statement {type(x).__name__}", x)
            return acc
        carried = []
        for n in assigned(s.body, []):
            if n in self.env and n not in carried:
                carried.append(n)
        for n in carried:
            if len(self.env[n][0]) != 1 or self.env[n][1] not in ("int", ("list", "int")):
                self.fail(f"while loop: carried variable {n} of type {self.env[n][1]}", s)
        # canonical order of the loop state (independent of the order of the statements): ints, then lists, each by name
        carried.sort(key=lambda n: (0 if self.env[n][1] == "int" else 1, n))
        types = [self.env[n][1] for n in carried]
        sigma = lean_type(types[0]) if len(carried) == 1 else "(" + " × ".join(lean_type(x) for x in types) + ")"
        pat = carried[0] if len(carried) == 1 else "(" + ", ".join(carried) + ")"
        init = tup([self.env[n][0][0] for n in carried]) if len(carried) == 1 else "(" + ", ".join(self.env[n][0][0] for n in carried) + ")"
        fuel = f"(Py.bitLen (Int.toNat {self.env[v][0][0]}))"
        saved_env, saved_raises = dict(self.env), self.raises
        self.raises = False
        for n, ty in zip(carried, types):
            self.env[n] = ([n], ty)
        body = self.stmts(list(s.body), lambda: pat)
        if self.raises:
            self.fail("while loop body must be pure (it can raise)", s)
        self.raises = saved_raises
        self.env = saved_env
        for n, ty in zip(carried, types):
            self.env[n] = ([n], ty)
        self.nonneg = set(getattr(self, "nonneg", set())) - set(carried) | ({v} if v in carried else set())
        return (f"match (Py.whileFuel {fuel} (fun ({pat} : {sigma}) => decide ({v} ≠ (0 : Int)))\n"
                f"    (fun ({pat} : {sigma}) =>\n{indent(body, 3)}) ({init} : {sigma})) with\n| {pat} =>\n" + self.stmts(rest, k))

    def error_of(self, s: ast.Raise) -> str:
        exc = s.exc
        if isinstance(exc, ast.Call):
            name = ast.unparse(exc.func).split(".")[-1]
            if name in ERROR_FACTORIES:
                return ERROR_FACTORIES[name]
        self.fail(f"raise of unknown error {ast.unparse(exc) if exc else ''}", s)


def terminates(ss: list[ast.stmt]) -> bool:
    if not ss:
        return False
    last = ss[-1]
    if isinstance(last, (ast.Return, ast.Raise)):
        return True
    if isinstance(last, ast.If):
        return terminates(last.body) and terminates(last.orelse)
    return False


def tup(terms) -> str:
    if isinstance(terms, str):
        return terms
    return terms[0] if len(terms) == 1 else "(" + ", ".join(terms) + ")"


def lean_str(s: str) -> str:
    out = ['"']
    for ch in s:
        if ch == '"':
            out.append('\\"')
        elif ch == "\\":
            out.append("\\\\")
        elif ch == "\n":
            out.append("\\n")
        elif 32 <= ord(ch) < 127:
            out.append(ch)
        else:
            out.append("\\u{%x}" % ord(ch))
    out.append('"')
    return "".join(out)


def lean_char(c: str) -> str:
    return "'" + (c if c not in "'\\" else "\\" + c) + "'"


def finalize(code: str, raises: bool) -> str:
    """Replace the ⟪ret x⟫ markers: `Except.ok x` in effectful functions, `x` otherwise."""
    out = []
    i = 0
    while True:
        j = code.find("⟪ret ", i)
        if j < 0:
            out.append(code[i:])
            break
        out.append(code[i:j])
        k = code.index("⟫", j)
        body = code[j + 5:k]
        out.append(f"Except.ok ({body})" if raises else body)
        i = k + 1
    return "".join(out)
