#!/bin/sh
# usage: tools/trypatch.sh Cxx/X [check-id] [extra check args] — apply a seeded change to /repo, run the check, undo
set -u
P="$1"; C="${2:-${P%%/*}}"; shift; [ $# -gt 0 ] && shift
cd /verif
git -C /repo checkout -q -- . && git -C /repo clean -fdq src
git -C /repo apply --whitespace=nowarn "/verif/seeded/$P/patch.diff" 2>/dev/null || { git -C /repo apply -3 --whitespace=nowarn "/verif/seeded/$P/patch.diff" >/dev/null 2>&1; git -C /repo reset -q; }
./check "$C" --tier quick "$@" 2>&1 | grep -v "WARNING conda" | tail -2
git -C /repo checkout -q -- . && git -C /repo clean -fdq src
