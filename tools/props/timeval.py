"""Mapping between real time objects (bintime / datetime / hightime) and the integer values of the
Lean models (Model/Mixed.lean, Model/Conv.lean), plus seeded generators for each family."""
from __future__ import annotations

import datetime as dt
from fractions import Fraction

import hightime as ht

import nitypes.bintime as bt

UTC = dt.timezone.utc
US = dt.timedelta(microseconds=1)
DT_ORIGIN = dt.datetime(1, 1, 1, tzinfo=UTC)
HT_ORIGIN = ht.datetime(1, 1, 1, tzinfo=UTC)
MAX_ORDINAL = 3652059
DT_ABS_MAX = MAX_ORDINAL * 86400 * 10**6
HT_ABS_MAX = MAX_ORDINAL * 86400 * 10**24
DT_TD_MIN, DT_TD_MAX = -999999999 * 86400 * 10**6, 1000000000 * 86400 * 10**6 - 1
HT_TD_MIN, HT_TD_MAX = -999999999 * 86400 * 10**24, 1000000000 * 86400 * 10**24 - 1
EPOCH_US = 695055 * 86400 * 10**6
EPOCH_YS = 695055 * 86400 * 10**24
T64 = 1 << 64


def ht_td_ys(v) -> int:
    return ht.timedelta._as_ys(v)


def ht_dt_ys(v) -> int:
    return (((v.toordinal() - 1) * 86400 + v.hour * 3600 + v.minute * 60 + v.second) * 10**24
            + v.microsecond * 10**18 + v.femtosecond * 10**9 + v.yoctosecond)


def dt_dt_us(v) -> int:
    return ((v.toordinal() - 1) * 86400 + v.hour * 3600 + v.minute * 60 + v.second) * 10**6 + v.microsecond


def to_model(v):
    """(kind, int) of a real value; raises TypeError for values outside the model's universe."""
    if isinstance(v, bool):
        return ("bool", v)
    if isinstance(v, int):
        return ("int", int(v))
    if isinstance(v, bt.TimeDelta):
        return ("btTd", v.ticks)
    if isinstance(v, bt.DateTime):
        return ("btDt", v.ticks)
    if isinstance(v, ht.timedelta):
        return ("htTd", ht_td_ys(v))
    if isinstance(v, dt.timedelta):
        return ("dtTd", v // US)
    if isinstance(v, ht.datetime):
        return ("htDt", ht_dt_ys(v))
    if isinstance(v, dt.datetime):
        return ("dtDt", dt_dt_us(v))
    if isinstance(v, tuple) and len(v) == 2 and isinstance(v[0], int) and isinstance(v[1], bt.TimeDelta):
        return ("pair", (v[0], v[1].ticks))
    raise TypeError(f"no model value for {type(v)}")


def render_model(m) -> str:
    k, x = m
    if k == "bool":
        return "bool " + ("True" if x else "False")
    if k == "pair":
        return f"pair {x[0]} {x[1]}"
    return f"{k} {x}"


def from_model(kind: str, n: int):
    if kind == "btTd":
        return bt.TimeDelta.from_ticks(n)
    if kind == "btDt":
        return bt.DateTime.from_ticks(n)
    if kind == "dtTd":
        return dt.timedelta(microseconds=n)
    if kind == "htTd":
        return ht.timedelta(yoctoseconds=n)
    if kind == "dtDt":
        return DT_ORIGIN + dt.timedelta(microseconds=n)
    if kind == "htDt":
        return HT_ORIGIN + ht.timedelta(yoctoseconds=n)
    if kind == "int":
        return n
    raise ValueError(kind)


def seconds_of(kind: str, n: int) -> Fraction:
    """Exact rational value in seconds (absolute kinds: seconds since 0001-01-01T00:00Z)."""
    if kind == "btTd":
        return Fraction(n, T64)
    if kind == "btDt":
        return Fraction(n, T64) + 695055 * 86400
    if kind in ("dtTd", "dtDt"):
        return Fraction(n, 10**6)
    if kind in ("htTd", "htDt"):
        return Fraction(n, 10**24)
    raise ValueError(kind)


UNIT = {"btTd": Fraction(1, T64), "btDt": Fraction(1, T64), "dtTd": Fraction(1, 10**6), "dtDt": Fraction(1, 10**6),
        "htTd": Fraction(1, 10**24), "htDt": Fraction(1, 10**24)}


def gen_dt_td(rng) -> int:
    c = rng.random()
    if c < 0.25:
        return rng.choice([0, 1, -1, 999999, 1000000, -1000000, 86400 * 10**6, -86400 * 10**6 - 1, DT_TD_MIN, DT_TD_MAX,
                           DT_TD_MIN + 1, DT_TD_MAX - 1, 123456, 500000, 86399999999])
    if c < 0.6:
        return rng.randint(-10**13, 10**13)
    if c < 0.8:
        return rng.randint(-10**7, 10**7)
    return rng.randint(DT_TD_MIN, DT_TD_MAX)


def gen_ht_td(rng) -> int:
    c = rng.random()
    if c < 0.25:
        return rng.choice([0, 1, -1, 10**24, -10**24, 10**24 - 1, 54210, 54211, 27105, 10**18, 10**18 - 1, HT_TD_MIN,
                           HT_TD_MAX, 86400 * 10**24, 5 * 10**23, 5 * 10**23 + 1, -5 * 10**23])
    if c < 0.5:
        return rng.randint(-10**31, 10**31)
    if c < 0.7:
        return rng.randint(-10**25, 10**25)
    if c < 0.85:
        # exactly representable in ticks: whole seconds plus a multiple of 5^24 ys (= k / 2^24 s)
        return rng.randint(-10**6, 10**6) * 10**24 + rng.randrange(0, 1 << 24) * 5**24
    return rng.randint(HT_TD_MIN, HT_TD_MAX)


def gen_dt_abs(rng) -> int:
    c = rng.random()
    if c < 0.2:
        return rng.choice([0, 1, DT_ABS_MAX - 1, EPOCH_US, EPOCH_US - 1, EPOCH_US + 1, 86400 * 10**6 * 366,
                           DT_ABS_MAX - 86400 * 10**6])
    if c < 0.6:
        return EPOCH_US + rng.randint(-(10**15), 5 * 10**15)
    return rng.randrange(0, DT_ABS_MAX)


def gen_ht_abs(rng) -> int:
    c = rng.random()
    if c < 0.2:
        return rng.choice([0, 1, HT_ABS_MAX - 1, EPOCH_YS, EPOCH_YS - 1, EPOCH_YS + 1, EPOCH_YS + 54210])
    if c < 0.6:
        return EPOCH_YS + rng.randint(-(10**33), 5 * 10**33)
    return rng.randrange(0, HT_ABS_MAX)


def gen_bt_dt_ticks(rng) -> int:
    """DateTime ticks, mostly inside years 1..9999."""
    lo, hi = -695055 * 86400 * T64, (MAX_ORDINAL - 695055) * 86400 * T64 - 1
    c = rng.random()
    if c < 0.15:
        return rng.choice([0, 1, -1, lo, hi, lo + 1, hi - 1, T64, -T64, T64 - 1])
    if c < 0.85:
        return rng.randint(lo, hi)
    return rng.randint(-(1 << 127), (1 << 127) - 1)
