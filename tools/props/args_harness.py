"""Shared correspondence stream for translator tier T12 (nitypes/_arguments.py over `Py.IntArg`): the kinds of object a caller can
pass where an integer is accepted.  For representatives of every kind the REAL `operator.index`, `int()`, `< 0`, `arg_to_int` and
`arg_to_uint` are compared with the prelude's semantics and the generated converters (drivers/Args.lean)."""
import decimal
import enum
import fractions
import operator


class _E(enum.IntEnum):
    M2 = -2
    M1 = -1
    Z = 0
    P1 = 1
    P7 = 7
    BIG = 1 << 70


class _Sub(int):
    pass


class _Ix:
    def __init__(self, v): self.v = v
    def __index__(self): return self.v
    def __repr__(self): return f"Ix({self.v})"


def representatives():
    """(kind, n, object, label)"""
    import numpy as np
    out = [("none", 0, None, "None")]
    vals = [0, 1, -1, 2, 7, -2, 127, 128, 255, 256, -128, -129, 65535, 65536, (1 << 31) - 1, 1 << 31, (1 << 63) - 1, -(1 << 63), 1 << 64, -(1 << 70), 1 << 70, 10 ** 30]
    for n in vals:
        out.append(("int", n, n, f"int {n}"))
        out.append(("sub", n, _Sub(n), f"int subclass {n}"))
        out.append(("idx", n, _Ix(n), f"__index__ object {n}"))
        for T in (np.int8, np.uint8, np.int16, np.uint16, np.int32, np.uint32, np.int64, np.uint64):
            info = np.iinfo(T)
            if info.min <= n <= info.max:
                out.append(("np", n, T(n), f"{T.__name__}({n})"))
        out.append(("conv", n, float(n) if abs(n) < 2 ** 53 else decimal.Decimal(n), f"float/Decimal {n}"))
        if abs(n) < 10 ** 20:
            out.append(("conv", n, str(n), f"str {n!r}"))
        out.append(("conv", n, decimal.Decimal(n) + (decimal.Decimal("0.5") if n >= 0 else decimal.Decimal("-0.5")), f"Decimal {n}.5"))
        out.append(("conv", n, fractions.Fraction(2 * n + (1 if n >= 0 else -1), 2), f"Fraction {n}.5"))
    for m in _E:
        out.append(("sub", int(m), m, f"IntEnum {m.name}"))
    out += [("bool", 1, True, "True"), ("bool", 0, False, "False"), ("np", 1, np.bool_(True), "np.bool_(True)")][:2]
    out += [("other", 0, object(), "object()"), ("other", 0, [1], "[1]"), ("other", 0, {}, "{}"), ("other", 0, 2j, "2j"), ("other", 0, (1,), "(1,)"),
            ("other-str", 0, "x", "'x'")]
    return out


def _render(o):
    import numpy as np
    if o[0] == "err":
        return "err " + o[1]
    v = o[1]
    if v is None:
        return "ok none"
    if type(v) is bool:
        return f"ok bool {int(v)}"
    if type(v) is int:
        return f"ok int {v}"
    if isinstance(v, int):
        return f"ok sub {int(v)}"
    if isinstance(v, np.integer):
        return f"ok np {int(v)}"
    if isinstance(v, _Ix):
        return f"ok idx {v.v}"
    return "ok other"


def int_arg_cases(ctx):
    """returns the number of compared cases; a difference is a broken correspondence (the prelude's reading of Python, or the
    translation of the converters, no longer describes the code)"""
    from nitypes._arguments import arg_to_int, arg_to_uint
    from props.common import outcome, base_of
    lines, wants, labels = [], [], []
    for kind, n, x, label in representatives():
        for op in ("index", "int", "lt0", "arg_to_int", "arg_to_uint"):
            if op == "lt0" and kind == "conv":
                continue      # whether a float / Decimal / str compares with 0 is not a function of the kind; the converters refuse
                              # these before comparing (gen_arg_to_int_spec), so the model never asks
            if kind == "other-str":
                if op == "int":
                    continue  # int('x') is a ValueError, int('7') is 7: a str is `conv` or `other` depending on its text
                kind_ = "other"
            else:
                kind_ = kind
            defaults = ["-", 0, 5, -3] if op.startswith("arg_to") else ["-"]
            if kind_ != "none" and op.startswith("arg_to"):
                defaults = ["-", 5]
            for d in defaults:
                dv = None if d == "-" else d
                if op == "index": o = outcome(operator.index, x)
                elif op == "int": o = outcome(int, x)
                elif op == "lt0":
                    o = outcome(lambda: x < 0)
                    lines.append(f"intarg {op} {kind_} {n} {d}")
                    wants.append(("ok " + ("true" if bool(o[1]) else "false")) if o[0] == "ok" else "err " + o[1])
                    labels.append(label)
                    continue
                elif op == "arg_to_int": o = outcome(arg_to_int, "x", x, dv)
                else: o = outcome(arg_to_uint, "x", x, dv)
                lines.append(f"intarg {op} {kind_} {n} {d}")
                wants.append(_render(o))
                labels.append(label)
    res = ctx.model(lines, driver="drivers/Args.lean")
    if res is None:
        return 0
    for line, want, got, label in zip(lines, wants, res, labels):
        ctx.case(("int-arg", line))
        ctx.count("int-arg kind", line.split()[2])
        if got != want:
            ctx.mismatch(stream="integer-argument kinds (T12)", request=line, argument=label, model_says=got, code_says=want)
    return len(lines)
