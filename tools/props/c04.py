"""C04 — Time conversions err by less than the coarser resolution, exact when possible."""
from __future__ import annotations

import datetime as dt
import math
from decimal import Decimal
from fractions import Fraction

from props.common import I128_MAX, I128_MIN, T64, edge_ticks, outcome, rand_ticks, show, norm_model

PID = "C04"
LEAN_MODULE = "NiVerif.Props.C04"
NAMESPACE = "Props.C04"
DRIVER = "drivers/C04.lean"
GEN_MODULES = ["TimeValueTuple", "TimeDelta", "DateTime", "TimeDeltaFloat", "Conversion"]
THEOREMS = [
    "bt_to_dt_floor", "bt_to_dt_overflow_refused", "bt_to_dt_total", "dt_to_bt_floor", "dt_to_bt_never_overflows",
    "bt_to_ht_floor", "bt_to_ht_total", "ht_to_bt_nearest", "ht_to_bt_never_overflows",
    "bt_ht_bt", "dt_ht_dt", "ht_to_dt_trunc",
    "dt_to_bt_exact_when_representable", "bt_to_dt_exact_when_representable", "bt_to_ht_exact_when_representable",
    "ht_to_bt_exact_when_representable", "dt_to_bt_monotone", "bt_to_dt_monotone", "bt_to_ht_monotone",
    "ht_to_dt_monotone", "ht_to_bt_monotone", "td_of_int_exact",
    "btdt_to_dt_floor", "dt_to_btdt_floor", "btdt_to_ht_floor", "ht_to_btdt_nearest", "btdt_ht_btdt",
    "dt_ht_dt_abs", "ht_to_dt_abs_trunc", "ht_to_dt_abs_in_range", "tz_rules",
    "round_error", "round_int", "to_ticks_float_unfold", "float_to_ticks_nearest", "float_to_ticks_exact",
            "gen_convert_timedelta_error", "gen_convert_same_type", "gen_convert_round_trips", "gen_convert_datetime_error"]
RULE = ("source values of each family from edge lattices (decimal boundaries of a 2^64 fraction ±2, just below whole "
        "seconds, negatives, range edges of datetime/timedelta/hightime) plus seeded random values, through all nine "
        "source->destination pairs for timedeltas and datetimes on the real code (oracle with exact Fractions) and "
        "through Model/Conv.lean / Model/Mixed.lean; int/float/Decimal seconds; Timing in three modes x three "
        "families; non-trivial = distinct (pair, value) with value != 0")
TRUSTED = [
    "hand model NiVerif/Model/Conv.lean (datetime.timedelta field normalisation, the Decimal leg of "
    "TimeDelta(hightime.timedelta) being exact at 64 digits, field-copy conversions of nitypes.time._conversion) "
    "— compared with the real conversions on every value explored",
]
ASSUMPTIONS = [
    "float and Decimal legs (TimeDelta(float|Decimal), total_seconds, precision_total_seconds) are checked on the "
    "real code against exact Fractions; their Lean treatment is relative to IEEE / decimal-context rounding (partial)",
    "absolute datetimes are modelled as integer µs / ys since 0001-01-01 (CPython's calendar is modelled in C14)",
]


class Fixed(dt.tzinfo):
    def __init__(self, minutes): self._o = dt.timedelta(minutes=minutes)
    def utcoffset(self, d): return self._o
    def dst(self, d): return dt.timedelta(0)
    def tzname(self, d): return "fixed"


def types_of(tv):
    import hightime as ht
    import nitypes.bintime as bt
    return {"btTd": bt.TimeDelta, "dtTd": dt.timedelta, "htTd": ht.timedelta,
            "btDt": bt.DateTime, "dtDt": dt.datetime, "htDt": ht.datetime}


def check_conv(ctx, src, dstk, tv, conv, T):
    """One conversion on the real code against the property (exact rationals)."""
    v = tv.from_model(*src)
    o = outcome(conv, T[dstk], v)
    if o[0] == "err":
        text = "err " + o[1]
        # refusing is only allowed when the destination cannot hold the value
        exact = tv.seconds_of(*src)
        unit = tv.UNIT[dstk]
        lo, hi = RANGES[dstk]
        fits = lo <= exact <= hi - unit
        if o[1] != "OverflowError" or fits:
            ctx.violation(conv=f"{src[0]}->{dstk}", value=src[1], observed=show(o),
                          required="a converted value (OverflowError only when the destination cannot hold it)")
        return text
    r = o[1]
    if type(r) is not T[dstk]:
        ctx.violation(conv=f"{src[0]}->{dstk}", value=src[1], observed=type(r).__name__, required=T[dstk].__name__)
        return "ok ?"
    m = tv.to_model(r)
    exact, got = tv.seconds_of(*src), tv.seconds_of(*m)
    coarser = max(tv.UNIT[src[0]], tv.UNIT[dstk])
    if not abs(got - exact) < coarser:
        ctx.violation(conv=f"{src[0]}->{dstk}", value=src[1], observed=f"{m} error={float(got - exact)}s",
                      required=f"|error| < {float(coarser)} s")
    if (exact / tv.UNIT[dstk]).denominator == 1 and got != exact:
        ctx.violation(conv=f"{src[0]}->{dstk}", value=src[1], observed=str(m), required="exact (source is representable)")
    if src[0] == dstk and r is not v:
        ctx.violation(conv=f"{src[0]}->{dstk}", value=src[1], observed="a different object", required="the same object")
    if dstk.endswith("Dt") and src[0] == "btDt" and dstk != "btDt" and r.tzinfo != dt.timezone.utc:
        ctx.violation(conv=f"{src[0]}->{dstk}", value=src[1], observed=repr(r.tzinfo), required="UTC")
    return "ok " + tv.render_model(m)


RANGES = {}


def run(ctx):
    import hightime as ht
    import nitypes.bintime as bt
    import props.timeval as tv
    from nitypes.time import convert_datetime, convert_timedelta
    from nitypes.waveform import SampleIntervalMode, Timing
    T = types_of(tv)
    rng = ctx.rng
    RANGES.update({
        "btTd": (Fraction(I128_MIN, T64), Fraction(I128_MAX + 1, T64)),
        "btDt": (Fraction(I128_MIN, T64) + 695055 * 86400, Fraction(I128_MAX + 1, T64) + 695055 * 86400),
        "dtTd": (Fraction(tv.DT_TD_MIN, 10**6), Fraction(tv.DT_TD_MAX + 1, 10**6)),
        "htTd": (Fraction(tv.HT_TD_MIN, 10**24), Fraction(tv.HT_TD_MAX + 1, 10**24)),
        "dtDt": (Fraction(0), Fraction(tv.DT_ABS_MAX, 10**6)),
        "htDt": (Fraction(0), Fraction(tv.HT_ABS_MAX, 10**24)),
    })
    n = 250 if ctx.quick else 12000
    # ---- timedeltas: 9 pairs ---------------------------------------------------------------
    edges = [t for t in edge_ticks() if I128_MIN <= t <= I128_MAX]
    srcs = {
        "btTd": [("btTd", t) for t in edges] + [("btTd", rand_ticks(rng, True)) for _ in range(n)] +
                [("btTd", rng.randint(-(1 << 108), 1 << 108)) for _ in range(n)],
        "dtTd": [("dtTd", tv.gen_dt_td(rng)) for _ in range(2 * n)],
        "htTd": [("htTd", tv.gen_ht_td(rng)) for _ in range(2 * n)] +
                [("htTd", k * 10**24 // T64 + d) for k in (1, 2, T64 - 1, T64 // 2, 12345678901234567890) for d in (-1, 0, 1)],
        "btDt": [("btDt", tv.gen_bt_dt_ticks(rng)) for _ in range(2 * n)],
        "dtDt": [("dtDt", tv.gen_dt_abs(rng)) for _ in range(2 * n)],
        "htDt": [("htDt", tv.gen_ht_abs(rng)) for _ in range(2 * n)],
    }
    # values on a coarser grid (whole microseconds / milliseconds / seconds: zero femtosecond and yoctosecond fields) and their
    # neighbours less than half a tick away: where a special case for "round" values would meet the general rounding rule
    for _ in range(40 if ctx.quick else 600):
        unit = rng.choice([10**18, 10**18, 10**21, 10**24])
        kq = rng.choice([1, 3, 7, 99, rng.randint(1, 10**6), rng.randint(1, 10**12)])
        for d in (0, -1, -5, -27000, 1, 27000):
            srcs["htDt"].append(("htDt", tv.EPOCH_YS + rng.choice([1, -1]) * kq * unit + d))
            srcs["htTd"].append(("htTd", rng.choice([1, -1]) * kq * unit + d))
    srcs["htDt"] = [x for x in srcs["htDt"] if 0 <= x[1] < tv.HT_ABS_MAX]
    MODEL_FN = {("btTd", "dtTd"): "conv dtOfBt", ("btTd", "htTd"): "conv htOfBt", ("dtTd", "btTd"): "conv btOfDt",
                ("htTd", "btTd"): "conv btOfHt", ("htTd", "dtTd"): "conv dtOfHt", ("dtTd", "htTd"): "conv htOfDt",
                ("btDt", "dtDt"): "convabs dtOfBtDt", ("btDt", "htDt"): "convabs htOfBtDt",
                ("dtDt", "btDt"): "convabs btDtOfDt", ("htDt", "btDt"): "convabs btDtOfHt",
                ("htDt", "dtDt"): "convabs dtAbsOfHt", ("dtDt", "htDt"): "convabs htAbsOfDt"}
    reqs = []
    for fam, conv in (("Td", convert_timedelta), ("Dt", convert_datetime)):
        kinds = [k for k in srcs if k.endswith(fam)]
        for sk in kinds:
            for dk in kinds:
                results = []
                for src in srcs[sk]:
                    text = check_conv(ctx, src, dk, tv, conv, T)
                    ctx.case((sk, dk, src[1]), nontrivial=(src[1] != 0))
                    ctx.count("pair", f"{sk}->{dk}")
                    ctx.count("outcome", text.split()[0] if text.startswith("ok") else text.split()[1])
                    if (sk, dk) in MODEL_FN:
                        reqs.append((f"{MODEL_FN[(sk, dk)]} {src[1]}", text, dk))
                    if text.startswith("ok ") and text != "ok ?":
                        results.append((tv.seconds_of(*src), int(text.split()[2])))
                # monotone
                results.sort()
                for (s1, r1), (s2, r2) in zip(results, results[1:]):
                    if r1 > r2:
                        ctx.violation(conv=f"{sk}->{dk}", value=str(s2), observed=f"{r1} > {r2}", required="monotonic")
                        break
    # translation validation of the generated float branch of TimeDelta._to_ticks: the float enters the model as the exact
    # dyadic value num / 2^exp, the real constructor's tick count must be what the generated definition computes
    fl = [0.0, -0.0, 1.0, -1.0, 0.5, 1.5, -2.5, 0.1, 1 / 3, 1e-3, 123456.789, 2.0 ** -64, 0.75 * 2.0 ** -64, 0.5 * 2.0 ** -64, 1.5 * 2.0 ** -64,
          2.5 * 2.0 ** -64, -0.75 * 2.0 ** -64, 2.0 ** -65, 2.0 ** -70 * 3, 5e-324, 2.0 ** 62, -(2.0 ** 62), 1e18, 1 - 2.0 ** -53, 2.0 ** 52 + 0.5]
    fl += [rng.uniform(-1, 1) * 10.0 ** rng.randint(-25, 18) for _ in range(300 if ctx.quick else 20000)]
    fl += [(rng.randint(-8, 8) + rng.choice([0.25, 0.5, 0.75])) * 2.0 ** -64 * rng.choice([1, 2.0 ** -3, 2.0 ** 10]) for _ in range(100 if ctx.quick else 5000)]
    fextra = []
    for x in fl:
        o = outcome(lambda: bt.TimeDelta(x).ticks)
        if o[0] != "ok":
            continue
        n, d = x.as_integer_ratio()
        e = d.bit_length() - 1
        exact = Fraction(x) * T64
        if abs(Fraction(o[1]) - exact) > Fraction(1, 2) or (e <= 64 and Fraction(o[1]) != exact):
            ctx.violation(conv="TimeDelta(float seconds)", value=repr(x), observed=o[1],
                          required="nearest tick (error <= 1/2; exact for floats with at most 64 fractional bits)")
        fextra.append((f"gen TimeDeltaFloat.to_ticks_float {n} {e}", "ok " + str(o[1]) if False else str(o[1])))
        ctx.count("float_seconds", "exact" if e <= 64 else "rounded")
    res = ctx.model([q for q, _, _ in reqs] + [q for q, _ in fextra])
    if res is not None:
        for (q, want), got in zip(fextra, res[len(reqs):]):
            if got.strip() != want:
                ctx.mismatch(stream="translation-validation float", request=q, model_says=got, code_says=want)
                break
        res = res[:len(reqs)]
    if res is not None:
        for (q, want, dk), got in zip(reqs, res):
            g = norm_model(got)
            # the abs helpers return plain ints / Except Int: compare payloads
            w = want if want.startswith("err") else "ok " + want.split()[2]
            if not g.startswith(("ok", "err")):
                g = "ok " + g
            if g != w:
                ctx.mismatch(stream="conversions", request=q, model_says=got, code_says=want)
    ctx.extra["model_conversions_compared"] = len(reqs)
    # ---- a conversion is a function of the VALUE: an instant that was looked at (fields, text, comparisons, an earlier conversion) and
    # then moved by arithmetic converts exactly like a fresh object with the same tick count --------------------------------------------
    import hightime as _ht
    looks = [("year", lambda x: x.year), ("str", str), ("repr", repr), ("eq-hightime", lambda x: x == _ht.datetime(2025, 1, 1, tzinfo=dt.timezone.utc)),
             ("to-hightime", lambda x: convert_datetime(_ht.datetime, x)), ("to-datetime", lambda x: convert_datetime(dt.datetime, x)), ("hash", hash), ("none", lambda x: None)]
    moves = [("+1ms", lambda x: x + dt.timedelta(milliseconds=1)), ("+1ms x3", lambda x: ((x + dt.timedelta(milliseconds=1)) + dt.timedelta(milliseconds=1)) + dt.timedelta(milliseconds=1)),
             ("-100us (hightime)", lambda x: x - _ht.timedelta(microseconds=100)), ("radd 1/3 s", lambda x: _ht.timedelta(seconds=1) // 3 + x),
             ("+ticks", lambda x: x + bt.TimeDelta.from_ticks(12345678901234567)), ("-1fs x2", lambda x: (x - _ht.timedelta(femtoseconds=1)) - _ht.timedelta(femtoseconds=1))]
    for base_ticks in (bt.DateTime(2025, 1, 1, tzinfo=dt.timezone.utc).ticks, bt.DateTime(1999, 12, 31, 23, 59, 59, tzinfo=dt.timezone.utc).ticks + 12345, 7 << 60):
        for lname, look in looks:
            for mname, move in moves:
                x = bt.DateTime.from_ticks(base_ticks)
                look(x)
                r = move(x)
                look(r) if lname in ("year", "str") else None
                r2 = move(bt.DateTime.from_ticks(base_ticks))          # never looked at
                fresh = bt.DateTime.from_ticks(r.ticks)
                ctx.case(("history-independent", base_ticks, lname, mname))
                for tname, T_ in (("hightime", _ht.datetime), ("datetime", dt.datetime)):
                    a_, b_, c_ = convert_datetime(T_, r), convert_datetime(T_, fresh), convert_datetime(T_, r2)
                    if not (a_ == b_ == c_) or r.ticks != r2.ticks or str(r) != str(fresh):
                        ctx.violation(conv=f"btDt->{tname} after arithmetic on an instant that was looked at", looked_at_through=lname, arithmetic=mname, value=str(r.ticks),
                                      observed=f"{a_!r} (text {str(r)})"[:200], required=f"{b_!r} - what a fresh DateTime with the same ticks converts to (text {str(fresh)})"[:260])
                        break
    # ---- round trips ----------------------------------------------------------------------------
    for k, t in srcs["btTd"][: 4 * n]:
        x = bt.TimeDelta.from_ticks(t)
        o = outcome(convert_timedelta, ht.timedelta, x)
        if o[0] == "ok":
            back = convert_timedelta(bt.TimeDelta, o[1])
            if back.ticks != t:
                ctx.violation(conv="bt->ht->bt", value=t, observed=back.ticks, required="identity")
        o = outcome(lambda: bt.TimeDelta(x.precision_total_seconds()))
        if o[0] != "ok" or o[1].ticks != t:
            ctx.violation(conv="TimeDelta(x.precision_total_seconds())", value=t, observed=show(o), required="x")
        f = x.total_seconds()
        exact = Fraction(t, T64)
        bound = 2 * math.ulp(max(abs(float(t >> 64)), abs(f)))
        if not abs(Fraction(f) - exact) <= Fraction(bound):
            ctx.violation(conv="total_seconds", value=t, observed=f.hex(), required=f"within 2 ulp of {float(exact)!r}")
        ctx.case(("roundtrip", t))
    for k, t in srcs["btDt"][: 2 * n]:
        x = bt.DateTime.from_ticks(t)
        o = outcome(convert_datetime, ht.datetime, x)
        if o[0] == "ok":
            back = convert_datetime(bt.DateTime, o[1])
            if back.ticks != t:
                ctx.violation(conv="btDt->ht->btDt", value=t, observed=back.ticks, required="identity")
    for k, u in srcs["dtTd"][: 2 * n]:
        v = dt.timedelta(microseconds=u)
        back = convert_timedelta(dt.timedelta, convert_timedelta(ht.timedelta, v))
        if back != v or type(back) is not dt.timedelta:
            ctx.violation(conv="dt->ht->dt", value=u, observed=repr(back), required="identity")
    # ---- tzinfo / fold ---------------------------------------------------------------------------
    tzs = [None, dt.timezone.utc, dt.timezone(dt.timedelta(0)), dt.timezone(dt.timedelta(hours=2)), Fixed(0), Fixed(-300)]
    for _ in range(60 if ctx.quick else 2000):
        p = tv.gen_dt_abs(rng)
        naive = (tv.DT_ORIGIN + dt.timedelta(microseconds=p)).replace(tzinfo=None)
        for tz in tzs:
            for fold in (0, 1):
                v = naive.replace(tzinfo=tz, fold=fold)
                oh = outcome(convert_datetime, ht.datetime, v)
                if oh[0] != "ok":
                    ctx.violation(conv="dt->ht tz/fold", value=repr(v), tz=type(tz).__name__, observed=show(oh),
                                  required="hightime.datetime with the same tzinfo and fold")
                    continue
                h = oh[1]
                if h.tzinfo is not tz or h.fold != fold or type(h) is not ht.datetime:
                    ctx.violation(conv="dt->ht tz/fold", value=repr(v), observed=repr((h.tzinfo, h.fold)), required="kept")
                d2 = convert_datetime(dt.datetime, h)
                if d2.tzinfo is not tz or d2.fold != fold or d2.replace(tzinfo=None) != naive or type(d2) is not dt.datetime:
                    ctx.violation(conv="ht->dt tz/fold", value=repr(v), observed=repr(d2), required="kept / identical")
                for src in (v, h):
                    o = outcome(convert_datetime, bt.DateTime, src)
                    accept = tz is not None and tz == dt.timezone.utc
                    if accept and o[0] != "ok":
                        ctx.violation(conv="->bt tz", value=repr(src), observed=show(o), required="converted (UTC input)")
                    if not accept and o[:2] != ("err", "ValueError"):
                        ctx.violation(conv="->bt tz", value=repr(src), observed=show(o), required="ValueError (non-UTC or naive)")
                ctx.count("tz", type(tz).__name__ + ("" if tz is None else str(tz.utcoffset(None))))
        ctx.case(("tz", p))
    # ---- TimeDelta(int | float | Decimal seconds) ---------------------------------------------------
    for _ in range(400 if ctx.quick else 30000):
        c = rng.random()
        if c < 0.3:
            s = rng.choice([0, 1, -1, (1 << 63) - 1, -(1 << 63), 1 << 63, rng.randint(-(1 << 62), 1 << 62)])
            exact = Fraction(s)
        elif c < 0.65:
            s = rng.choice([0.5, -0.5, 0.1, 1e-19, 2.0**-64, 2.0**-65, 1.5 * 2.0**-64, 123456789.123456789, -1e18,
                            9.2e18, 1e19, rng.uniform(-1e6, 1e6), rng.uniform(-1, 1), math.ldexp(rng.random(), rng.randint(-70, 62))])
            exact = Fraction(s)
        else:
            s = Decimal(rng.choice(["0.1", "-0.1", "1e-20", "100.01234567890123456789", "0.5", "1.0000000000000000000000001",
                                    "9223372036854775807.99999", "-9223372036854775808", "9223372036854775808",
                                    str(rng.randint(-10**20, 10**20)) + "e-" + str(rng.randint(0, 30))]))
            exact = Fraction(s)
        o = outcome(bt.TimeDelta, s)
        want = exact * T64
        inr = I128_MIN <= want <= I128_MAX
        if o[0] == "ok":
            err = abs(o[1].ticks - want)
            slack = Fraction(1, 2) + abs(want) * Fraction(1, 10**62)
            if err > slack or (want.denominator == 1 and o[1].ticks != want):
                ctx.violation(conv="TimeDelta(seconds)", value=repr(s), observed=show(o),
                              required=f"nearest tick to {float(want)} (exact for integers and dyadic fractions)")
        elif o[1] != "OverflowError" or (inr and abs(want) < (1 << 126)):
            ctx.violation(conv="TimeDelta(seconds)", value=repr(s), observed=show(o), required="a value, or OverflowError out of range")
        ctx.case(("secs", repr(s)))
        ctx.count("seconds_kind", type(s).__name__)
    # finite values no TimeDelta can hold — however far outside — are an OverflowError, whatever numeric type they come in
    for big in (10**20, -10**20, 2**63, 1e20, -1e300, Decimal("1e20"), Decimal("-1e40"), Decimal("1e64"), Decimal("1e70"), Decimal("-1e300"),
                Decimal(2**63), Decimal("9223372036854775808.5")):
        o = outcome(bt.TimeDelta, big)
        ctx.case(("td-too-big", repr(big)))
        if not (o[0] == "err" and o[1] == "OverflowError"):
            ctx.violation(conv="TimeDelta(seconds)", value=repr(big), observed=show(o), required="OverflowError")
    for bad in (float("nan"), float("inf"), -float("inf"), Decimal("NaN"), Decimal("Infinity")):
        o = outcome(bt.TimeDelta, bad)
        if o[0] != "err":
            ctx.violation(conv="TimeDelta(seconds)", value=repr(bad), observed=show(o), required="an exception")
    # ---- the result is a function of the value, not of the calling thread's decimal context ----------------------
    # (rounding mode and precision are inherited by every decimal.localcontext(); money / fixed-point code changes them)
    import decimal
    probes = []
    for _ in range(40 if ctx.quick else 1500):
        c = rng.random()
        if c < 0.4:
            probes.append(("TimeDelta(Decimal)", Decimal(rng.choice(["0.1", "-0.1", "1e-20", "2.5e-20", "100.01234567890123456789", "1.0000000000000000000000001",
                                                  str(rng.randint(-10**20, 10**20)) + "e-" + str(rng.randint(0, 30))]))))
        elif c < 0.55:
            probes.append(("TimeDelta(float)", rng.choice([0.1, -0.3, 1e-19, 1.5 * 2.0**-64, rng.uniform(-1e6, 1e6)])))
        elif c < 0.8:
            probes.append(("ht->bt", tv.gen_ht_td(rng)))
        else:
            probes.append(("bt->ht->bt", rand_ticks(rng, True)))
    def run_probe(kind, v):
        if kind.startswith("TimeDelta("):
            return outcome(lambda: bt.TimeDelta(v).ticks)
        if kind == "ht->bt":
            return outcome(lambda: convert_timedelta(bt.TimeDelta, tv.from_model("htTd", v)).ticks)
        x = bt.TimeDelta.from_ticks(max(I128_MIN, min(I128_MAX, v)))
        return outcome(lambda: (convert_timedelta(bt.TimeDelta, convert_timedelta(ht.timedelta, x)).ticks,
                                bt.TimeDelta(x.precision_total_seconds()).ticks))
    base = [run_probe(k, v) for k, v in probes]
    for rounding in (decimal.ROUND_FLOOR, decimal.ROUND_CEILING, decimal.ROUND_DOWN, decimal.ROUND_UP, decimal.ROUND_HALF_UP,
                     decimal.ROUND_HALF_DOWN, decimal.ROUND_05UP):
        for prec in (28, 9, 200):
            with decimal.localcontext() as actx:
                actx.rounding, actx.prec = rounding, prec
                got = [run_probe(k, v) for k, v in probes]
            for (k, v), b, g in zip(probes, base, got):
                ctx.case(("ambient", rounding, prec, k, repr(v)))
                if g != b:
                    ctx.violation(conv=k, value=repr(v), ambient_decimal_context=f"rounding={rounding} prec={prec}", observed=show(g)[:200],
                                  required=show(b)[:200] + " (the result under the default context: the nearest tick)")
                    break
            ctx.count("ambient-context", rounding)
    # ---- Timing conversions keep mode and member presence --------------------------------------------
    fams = {"dt": (dt.datetime, dt.timedelta), "ht": (ht.datetime, ht.timedelta), "bt": (bt.DateTime, bt.TimeDelta)}

    def mk(fam, kind):
        if kind == "ts":
            # the bintime epoch itself (tick value 0) is a timestamp like any other
            p = tv.EPOCH_US + (0 if rng.random() < 0.2 else rng.randint(0, 10**15))
            return convert_datetime(fams[fam][0], tv.DT_ORIGIN + dt.timedelta(microseconds=p))
        # zero-length offsets and intervals are values, not absences
        us = rng.choice([0, 0, 1, -1]) if rng.random() < 0.4 else rng.randint(-10**9, 10**9)
        return convert_timedelta(fams[fam][1], dt.timedelta(microseconds=us))
    for _ in range(200 if ctx.quick else 4000):
        fam = rng.choice(list(fams))
        mode = rng.choice(list(SampleIntervalMode))
        if mode == SampleIntervalMode.IRREGULAR:
            mixed = rng.random() < 0.35       # timestamps of several families in one list (the constructor accepts that)
            ts = sorted((mk(rng.choice(list(fams)) if mixed else fam, "ts") for _ in range(rng.randint(0, 5))),
                        key=lambda x: convert_datetime(ht.datetime, x))
            made = outcome(Timing.create_with_irregular_interval, ts)
            if made[0] != "ok":
                if not mixed:
                    ctx.violation(conv="Timing.create_with_irregular_interval", value=repr(ts)[:200], observed=show(made), required="a Timing")
                continue
            timing = made[1]
            ctx.count("timing_irregular", "mixed families" if mixed and len({type(x) for x in ts}) > 1 else "one family")
        else:
            a = mk(fam, "ts") if rng.random() < 0.6 else None
            b = mk(rng.choice(list(fams)) if rng.random() < 0.3 else fam, "td") if rng.random() < 0.6 else None
            if mode == SampleIntervalMode.REGULAR:
                timing = Timing.create_with_regular_interval(mk(fam, "td"), a, b)
            else:
                timing = Timing.create_with_no_interval(a, b)
        for name, (dty, tdy) in (("to_datetime", fams["dt"]), ("to_hightime", fams["ht"]), ("to_bintime", fams["bt"])):
            o = outcome(getattr(timing, name))
            if o[0] != "ok":
                ctx.violation(conv=f"Timing.{name}", value=repr(timing), observed=show(o), required="a Timing")
                continue
            r = o[1]
            same = (r.sample_interval_mode == timing.sample_interval_mode and r.has_timestamp == timing.has_timestamp
                    and r.has_time_offset == timing.has_time_offset and r.has_sample_interval == timing.has_sample_interval
                    and (r._timestamps is None) == (timing._timestamps is None)
                    and (r._timestamps is None or len(r._timestamps) == len(timing._timestamps)))
            types_ok = ((not r.has_timestamp or isinstance(r.timestamp, dty))
                        and (not r.has_time_offset or isinstance(r.time_offset, tdy))
                        and (not r.has_sample_interval or isinstance(r.sample_interval, tdy))
                        and (r._timestamps is None or all(isinstance(x, dty) for x in r._timestamps)))
            if not same or not types_ok:
                ctx.violation(conv=f"Timing.{name}", value=repr(timing), observed=repr(r),
                              required="same mode, same members present, members of the requested family")
            already = ((not timing.has_timestamp or isinstance(timing.timestamp, dty))
                       and (not timing.has_time_offset or isinstance(timing.time_offset, tdy))
                       and (not timing.has_sample_interval or isinstance(timing.sample_interval, tdy))
                       and (timing._timestamps is None or all(isinstance(x, dty) for x in timing._timestamps)))
            if already and r is not timing:
                ctx.violation(conv=f"Timing.{name}", value=repr(timing), observed="new object", required="same object")
        ctx.case(("timing", repr(timing)))
        ctx.count("timing_mode", mode.name)
    for q, w, _ in reqs[:: max(1, len(reqs) // 6)][:6]:
        ctx.sample({"request": q, "response": w})


def search(ctx):
    pass


def replay(doc):
    print(doc.get("input"))
    return 0
